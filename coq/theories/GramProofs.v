(** GramProofs.v — the relational reader (GramSpec) and the executable reader (GramDefs.pexpr) coincide:
    [pratt_complete] relation => function (with the fuel [parse] supplies), [pratt_sound] function => relation. *)
From Coq Require Import String List Bool Arith Lia.
From LC Require Import GramDefs GramSpec.
Import ListNotations.

Section Proofs.
Variable L : lang.

Local Ltac inv H := inversion H; subst; clear H.

Lemma next_step_bin_inv m t r op q :
  next_step L m (t :: r) = KBin op q ->
  binop_info L t = Some (op, q) /\ (m <=? q)%nat = true /\ t <> TQuest /\ t <> TIf.
Proof.
  unfold next_step. intros H.
  destruct t; try (destruct (binop_info L _) as [[o k]|] eqn:E; [|discriminate];
    destruct (m <=? k)%nat eqn:E2; [|discriminate]; inv H; repeat split; auto; discriminate).
  - destruct (is_C L && (m <=? 1)%nat); discriminate.
  - destruct (negb (is_C L) && (m <=? 1)%nat); discriminate.
Qed.

Lemma ploop_bin pe g m lhs t r op q :
  next_step L m (t :: r) = KBin op q ->
  ploop L pe (S g) m lhs (t :: r) =
  match pe (S q) r with Some (rhs, r') => ploop L pe g m (TBin op lhs rhs) r' | None => None end.
Proof.
  intros H. destruct (next_step_bin_inv _ _ _ _ _ H) as (Hb & Hm & Hq & Hi).
  destruct t; try congruence; cbn [ploop]; rewrite Hb, Hm; reflexivity.
Qed.

Lemma ploop_stop pe g m lhs ts :
  next_step L m ts = KStop -> ploop L pe g m lhs ts = Some (lhs, ts).
Proof.
  intros H. destruct ts as [|t r]; [destruct g; reflexivity|].
  unfold next_step in H.
  destruct g; destruct t; cbn [ploop];
    try (destruct (binop_info L _) as [[o k]|] eqn:E; [destruct (m <=? k)%nat eqn:E2; [discriminate|]|]; reflexivity);
    try (destruct (is_C L && (m <=? 1)%nat); [discriminate|reflexivity]);
    try (destruct (negb (is_C L) && (m <=? 1)%nat); [discriminate|reflexivity]).
Qed.

Lemma ploop_condC pe g m lhs r :
  next_step L m (TQuest :: r) = KCondC ->
  ploop L pe (S g) m lhs (TQuest :: r) =
  match pe 1 r with
  | Some (a, TColon :: r') => match pe 1 r' with Some (b, r'') => ploop L pe g m (TCond lhs a b) r'' | None => None end
  | _ => None
  end.
Proof.
  unfold next_step. intros H. cbn [ploop].
  destruct (is_C L && (m <=? 1)%nat); [reflexivity|discriminate].
Qed.

Lemma ploop_condPy pe g m lhs r :
  next_step L m (TIf :: r) = KCondPy ->
  ploop L pe (S g) m lhs (TIf :: r) =
  match pe 2 r with
  | Some (c, TElse :: r') => match pe 1 r' with Some (b, r'') => ploop L pe g m (TCond c lhs b) r'' | None => None end
  | _ => None
  end.
Proof.
  unfold next_step. intros H. cbn [ploop].
  destruct (negb (is_C L) && (m <=? 1)%nat); [reflexivity|discriminate].
Qed.

Lemma pratt_complete_aux :
  (forall m ts t rest, PExpr L m ts t rest ->
     length rest < length ts /\ forall f, length ts < f -> pexpr L f m ts = Some (t, rest)) /\
  (forall ts t rest, PPrefix L ts t rest ->
     length rest < length ts /\ forall f, length ts <= f -> pprefix L (pexpr L f) ts = Some (t, rest)) /\
  (forall m lhs ts t rest, PLoop L m lhs ts t rest ->
     length rest <= length ts /\
     forall f g, length ts <= f -> length ts <= g -> ploop L (pexpr L f) g m lhs ts = Some (t, rest)).
Proof.
  apply pratt_mutind.
  - (* PE_intro *)
    intros m ts lhs ts' t rest _ [Hl1 Hp] _ [Hl2 Hlo]. split; [lia|].
    intros f Hf. destruct f as [|f]; [lia|]. cbn [pexpr].
    rewrite Hp by lia. apply Hlo; lia.
  - (* num *) intros s r. split; [cbn; lia|]. intros f _. reflexivity.
  - (* var *) intros s r Hr. split; [cbn; lia|]. intros f _. cbn [pprefix].
    destruct r as [|t r]; [reflexivity|]. destruct t; try reflexivity. destruct Hr.
  - (* call1 *)
    intros f0 r a r' _ [Hl He]. cbn [length] in *. split; [lia|]. intros f Hf. cbn [pprefix].
    rewrite He by lia. reflexivity.
  - (* call2 *)
    intros f0 r a r' b r'' _ [Hl1 He1] _ [Hl2 He2]. cbn [length] in *. split; [lia|]. intros f Hf. cbn [pprefix].
    rewrite He1 by lia. rewrite He2 by lia. reflexivity.
  - (* paren *)
    intros r a r' _ [Hl He]. cbn [length] in *. split; [lia|]. intros f Hf. cbn [pprefix].
    rewrite He by lia. reflexivity.
  - (* neg *)
    intros r a r' _ [Hl He]. cbn [length] in *. split; [lia|]. intros f Hf. cbn [pprefix].
    rewrite He by lia. reflexivity.
  - (* not *)
    intros r a r' HC _ [Hl He]. cbn [length] in *. split; [lia|]. intros f Hf. cbn [pprefix].
    rewrite HC. rewrite He by lia. reflexivity.
  - (* stop *)
    intros m lhs ts H. split; [lia|]. intros f g _ _. apply ploop_stop; exact H.
  - (* bin *)
    intros m lhs t r op q rhs r' out rest H _ [Hl1 He] _ [Hl2 Hlo]. cbn [length] in *. split; [lia|].
    intros f g Hf Hg. destruct g as [|g]; [lia|]. rewrite (ploop_bin _ _ _ _ _ _ _ _ H).
    rewrite He by lia. apply Hlo; lia.
  - (* condC *)
    intros m lhs r a r' b r'' out rest H _ [Hl1 He1] _ [Hl2 He2] _ [Hl3 Hlo]. cbn [length] in *. split; [lia|].
    intros f g Hf Hg. destruct g as [|g]; [lia|]. rewrite (ploop_condC _ _ _ _ _ H).
    rewrite He1 by lia. rewrite He2 by lia. apply Hlo; lia.
  - (* condPy *)
    intros m lhs r c r' b r'' out rest H _ [Hl1 He1] _ [Hl2 He2] _ [Hl3 Hlo]. cbn [length] in *. split; [lia|].
    intros f g Hf Hg. destruct g as [|g]; [lia|]. rewrite (ploop_condPy _ _ _ _ _ H).
    rewrite He1 by lia. rewrite He2 by lia. apply Hlo; lia.
Qed.

(** relation => the executable reader, with the fuel [parse] gives it *)
Theorem pratt_complete ts t :
  PExpr L 1 ts t [] -> parse L ts = Some t.
Proof.
  intros H. unfold parse.
  destruct pratt_complete_aux as (HE & _ & _).
  destruct (HE _ _ _ _ H) as [_ Hf]. rewrite Hf by lia. reflexivity.
Qed.

(** executable reader => relation *)
Lemma ploop_sound pe :
  (forall m ts t rest, pe m ts = Some (t, rest) -> PExpr L m ts t rest) ->
  forall g m lhs ts t rest, ploop L pe g m lhs ts = Some (t, rest) -> PLoop L m lhs ts t rest.
Proof.
  intros Hpe. induction g as [|g IH]; intros m lhs ts t rest H.
  - destruct ts as [|tk r]; [inv H; apply PL_stop; reflexivity|].
    destruct (next_step L m (tk :: r)) eqn:E.
    + rewrite (ploop_stop _ _ _ _ _ E) in H. inv H. apply PL_stop; exact E.
    + exfalso. destruct (next_step_bin_inv _ _ _ _ _ E) as (Hb & Hm & Hq & Hi).
      destruct tk; try congruence; cbn [ploop] in H; rewrite Hb, Hm in H; discriminate.
    + exfalso. unfold next_step in E. destruct tk; try (destruct (binop_info L _) as [[o k]|]; [destruct (m <=? k)%nat|]; discriminate).
      * cbn [ploop] in H. destruct (is_C L && (m <=? 1)%nat); discriminate.
      * destruct (negb (is_C L) && (m <=? 1)%nat); discriminate.
    + exfalso. unfold next_step in E. destruct tk; try (destruct (binop_info L _) as [[o k]|]; [destruct (m <=? k)%nat|]; discriminate).
      * destruct (is_C L && (m <=? 1)%nat); discriminate.
      * cbn [ploop] in H. destruct (negb (is_C L) && (m <=? 1)%nat); discriminate.
  - destruct ts as [|tk r]; [inv H; apply PL_stop; reflexivity|].
    destruct (next_step L m (tk :: r)) eqn:E.
    + rewrite (ploop_stop _ _ _ _ _ E) in H. inv H. apply PL_stop; exact E.
    + rewrite (ploop_bin _ _ _ _ _ _ _ _ E) in H.
      destruct (pe (S q) r) as [[rhs r']|] eqn:E1; [|discriminate].
      eapply PL_bin; eauto.
    + assert (tk = TQuest) as ->.
      { unfold next_step in E. destruct tk; try (destruct (binop_info L _) as [[o k]|]; [destruct (m <=? k)%nat|]; discriminate); auto.
        destruct (negb (is_C L) && (m <=? 1)%nat); discriminate. }
      rewrite (ploop_condC _ _ _ _ _ E) in H.
      destruct (pe 1 r) as [[a [|tk' r']]|] eqn:E1; try discriminate.
      destruct tk'; try discriminate.
      destruct (pe 1 r') as [[b r'']|] eqn:E2; [|discriminate].
      eapply PL_condC; eauto.
    + assert (tk = TIf) as ->.
      { unfold next_step in E. destruct tk; try (destruct (binop_info L _) as [[o k]|]; [destruct (m <=? k)%nat|]; discriminate); auto.
        destruct (is_C L && (m <=? 1)%nat); discriminate. }
      rewrite (ploop_condPy _ _ _ _ _ E) in H.
      destruct (pe 2 r) as [[c [|tk' r']]|] eqn:E1; try discriminate.
      destruct tk'; try discriminate.
      destruct (pe 1 r') as [[b r'']|] eqn:E2; [|discriminate].
      eapply PL_condPy; eauto.
Qed.

Lemma pprefix_sound pe :
  (forall m ts t rest, pe m ts = Some (t, rest) -> PExpr L m ts t rest) ->
  forall ts t rest, pprefix L pe ts = Some (t, rest) -> PPrefix L ts t rest.
Proof.
  intros Hpe ts t rest H. destruct ts as [|tk r]; [discriminate|].
  destruct tk; cbn [pprefix] in H; try discriminate.
  - (* TId *)
    destruct r as [|tk2 r2].
    + inv H. apply PP_var. exact I.
    + destruct tk2; try (inv H; apply PP_var; exact I).
      destruct (pe 1 r2) as [[a [|tk3 r3]]|] eqn:E1; try discriminate.
      destruct tk3; try discriminate.
      * inv H. apply PP_call1. auto.
      * destruct (pe 1 r3) as [[b [|tk4 r4]]|] eqn:E2; try discriminate.
        destruct tk4; try discriminate. inv H. eapply PP_call2; eauto.
  - (* TNum *) inv H. apply PP_num.
  - (* TLp *)
    destruct (pe 1 r) as [[a [|tk3 r3]]|] eqn:E1; try discriminate.
    destruct tk3; try discriminate. inv H. apply PP_paren. auto.
  - (* TMinus *)
    destruct (pe 8 r) as [[a r']|] eqn:E1; [|discriminate]. inv H. apply PP_neg. auto.
  - (* TBang *)
    destruct (is_C L) eqn:EC; [|discriminate].
    destruct (pe 8 r) as [[a r']|] eqn:E1; [|discriminate]. inv H. apply PP_not; auto.
Qed.

Lemma pexpr_sound f : forall m ts t rest, pexpr L f m ts = Some (t, rest) -> PExpr L m ts t rest.
Proof.
  induction f as [|f IH]; intros m ts t rest H; [discriminate|].
  cbn [pexpr] in H.
  destruct (pprefix L (pexpr L f) ts) as [[lhs ts']|] eqn:E; [|discriminate].
  eapply PE_intro.
  - eapply pprefix_sound; eauto.
  - eapply ploop_sound; eauto.
Qed.

Theorem pratt_sound ts t : parse L ts = Some t -> PExpr L 1 ts t [].
Proof.
  unfold parse. intros H.
  destruct (pexpr L (S (length ts)) 1 ts) as [[t' [|tk r]]|] eqn:E; try discriminate.
  inv H. eapply pexpr_sound; eauto.
Qed.

End Proofs.
