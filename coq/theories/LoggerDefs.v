(** LoggerDefs.v — executable model of libcellml's issue reporting (C15).

    Transcribes, as the code is now:
      /repo/src/logger_p.h, /repo/src/logger.cpp   Logger::LoggerImpl::{addIssue, removeAllIssues, removeError},
                                                   Logger::{issue, error, warning, message, *Count}
      /repo/src/importer.cpp                       ImporterImpl::fetchModel (what it adds), the down-counting
                                                   removeError loops of fetchComponent() / fetchUnits()
      /repo/src/issue.cpp                          Issue::referenceHeading(), Issue::url() over ruleToInformation
                                                   (the table itself is regenerated: LCGen.RuleTable)
      /repo/src/anycellmlelement_p.h, types.cpp    AnyCellmlElementImpl setters, AnyCellmlElement accessors
    No proofs here (the file must keep running when a proof breaks); the [Prop] definitions at the end are
    the specification used by LoggerProofs.v. *)
From Coq Require Import String List Bool Arith.
From LCGen Require Import RuleTable IssueSites.
Import ListNotations.
Local Open Scope string_scope.
Local Open Scope bool_scope.
Local Open Scope list_scope.
Local Open Scope nat_scope.

(* ------------------------------------------------------------------------------------------------ *)
(** * 1. The logger *)

(** issue.h: enum class Level { ERROR, WARNING, MESSAGE } *)
Inductive level := LError | LWarning | LMessage.

Definition level_index (l : level) : nat :=
  match l with LError => 0 | LWarning => 1 | LMessage => 2 end.

Definition level_name (l : level) : string :=
  match l with LError => "ERROR" | LWarning => "WARNING" | LMessage => "MESSAGE" end.

Definition all_levels : list level := [LError; LWarning; LMessage].

Definition level_eqb (a b : level) : bool :=
  match a, b with
  | LError, LError | LWarning, LWarning | LMessage, LMessage => true
  | _, _ => false
  end.

(** What the logger sees of an Issue object: its level (read once, in addIssue) and which object it is. *)
Record issue := { i_level : level; i_id : nat }.

Definition has_level (l : level) (x : issue) : bool := level_eqb (i_level x) l.

(** logger_p.h: mIssues, mErrors, mWarnings, mMessages *)
Record logger := { issues : list issue; errs : list nat; warns : list nat; msgs : list nat }.

Definition empty_logger : logger := {| issues := []; errs := []; warns := []; msgs := [] |}.

(** logger.cpp: LoggerImpl::addIssue.  [default:] of the switch also takes MESSAGE. *)
Definition add_issue (x : issue) (s : logger) : logger :=
  let index := length (issues s) in
  match i_level x with
  | LError => {| issues := issues s ++ [x]; errs := errs s ++ [index]; warns := warns s; msgs := msgs s |}
  | LWarning => {| issues := issues s ++ [x]; errs := errs s; warns := warns s ++ [index]; msgs := msgs s |}
  | LMessage => {| issues := issues s ++ [x]; errs := errs s; warns := warns s; msgs := msgs s ++ [index] |}
  end.

(** logger.cpp: LoggerImpl::removeAllIssues *)
Definition remove_all (s : logger) : logger := empty_logger.

(** std::vector::erase(begin() + n) *)
Definition remove_nth {A} (n : nat) (l : list A) : list A := firstn n l ++ skipn (S n) l.

Inductive outcome :=
| Ok (s : logger)
| ThrowsOutOfRange        (* std::vector::at *)
| UndefinedBehaviour.     (* erase of an iterator past the end *)

(** logger.cpp: LoggerImpl::removeError(index):
      mIssues.erase(mIssues.begin() + mErrors.at(index));  mErrors.erase(mErrors.begin() + index);
    Nothing else is touched: the indices stored in mErrors/mWarnings/mMessages that lie behind the erased
    issue are NOT shifted. *)
Definition remove_error (index : nat) (s : logger) : outcome :=
  match nth_error (errs s) index with
  | None => ThrowsOutOfRange
  | Some p =>
    if p <? length (issues s)
    then Ok {| issues := remove_nth p (issues s); errs := remove_nth index (errs s);
               warns := warns s; msgs := msgs s |}
    else UndefinedBehaviour
  end.

(** Result of an accessor: nullptr, an issue, or std::out_of_range from mIssues.at(...). *)
Inductive access := ANull | AIssue (x : issue) | AThrows.

(** logger.cpp: Logger::issue(index) *)
Definition get_issue (s : logger) (index : nat) : access :=
  match nth_error (issues s) index with Some x => AIssue x | None => ANull end.

(** logger.cpp: Logger::error/warning/message(index):
      if (index < vec.size()) issue = mIssues.at(vec.at(index)); *)
Definition get_via (vec : list nat) (s : logger) (index : nat) : access :=
  match nth_error vec index with
  | None => ANull
  | Some p => match nth_error (issues s) p with Some x => AIssue x | None => AThrows end
  end.

Definition level_vec (l : level) (s : logger) : list nat :=
  match l with LError => errs s | LWarning => warns s | LMessage => msgs s end.

Definition get_level (l : level) (s : logger) (index : nat) : access := get_via (level_vec l s) s index.
Definition get_error := get_level LError.
Definition get_warning := get_level LWarning.
Definition get_message := get_level LMessage.

Definition issue_count (s : logger) : nat := length (issues s).
Definition level_count (l : level) (s : logger) : nat := length (level_vec l s).
Definition error_count := level_count LError.
Definition warning_count := level_count LWarning.
Definition message_count := level_count LMessage.

(** ** Primitive operations as data (traces recorded from the real library are replayed through this). *)
Inductive op := OAdd (x : issue) | ORemoveAll | ORemoveError (index : nat).

Definition step (o : op) (s : logger) : outcome :=
  match o with
  | OAdd x => Ok (add_issue x s)
  | ORemoveAll => Ok (remove_all s)
  | ORemoveError i => remove_error i s
  end.

(** Runs a trace; stops at the first operation that throws / is undefined, returning how many ran. *)
Fixpoint run_ops (ops : list op) (s : logger) : outcome :=
  match ops with
  | [] => Ok s
  | o :: r => match step o s with Ok s' => run_ops r s' | bad => bad end
  end.

(** The same, also reporting the last state reached, how many operations ran, and why it stopped
    (used by the extracted driver; the real library is stopped at the same point). *)
Inductive status := StOk | StThrows | StUndefined.

Fixpoint run_ops_upto (ops : list op) (s : logger) (n : nat) : logger * nat * status :=
  match ops with
  | [] => (s, n, StOk)
  | o :: r =>
    match step o s with
    | Ok s' => run_ops_upto r s' (S n)
    | ThrowsOutOfRange => (s, n, StThrows)
    | UndefinedBehaviour => (s, n, StUndefined)
    end
  end.

(** Does removeError(i) remove the last issue of the list?  (the condition under which it is safe) *)
Definition removal_is_last (i : nat) (s : logger) : bool :=
  match nth_error (errs s) i with Some p => S p =? length (issues s) | None => false end.

(** Runs a trace and reports whether every removeError in it removed the last issue. *)
Fixpoint run_checked (ops : list op) (s : logger) : outcome * bool :=
  match ops with
  | [] => (Ok s, true)
  | o :: r =>
    let good := match o with ORemoveError i => removal_is_last i s | _ => true end in
    match step o s with
    | Ok s' => let (res, g) := run_checked r s' in (res, good && g)
    | bad => (bad, false)
    end
  end.

(* ------------------------------------------------------------------------------------------------ *)
(** * 2. The importer's use of removeError *)

(** importer.cpp: fetchComponent() lines "for (size_t index = endIndex; startIndex < index; --index)
    { auto error = mImporter->error(index - 1); removeError(index - 1); ... }" (same loop in fetchUnits()).
    [n] = endIndex - startIndex iterations; returns the issues read by error(index - 1), in loop order. *)
Fixpoint cleanup_loop (n start : nat) (s : logger) (seen : list access) : outcome * list access :=
  match n with
  | 0 => (Ok s, seen)
  | S k =>
    let e := get_error s (start + k) in
    match remove_error (start + k) s with
    | Ok s' => cleanup_loop k start s' (seen ++ [e])
    | bad => (bad, seen ++ [e])
    end
  end.

(** "size_t endIndex = errorCount(); if (endIndex > startIndex) { loop }" *)
Definition importer_cleanup (start : nat) (s : logger) : outcome * list access :=
  let end_ := error_count s in
  if start <? end_ then cleanup_loop (end_ - start) start s [] else (Ok s, []).

(** What fetchModel found behind the URL (importer.cpp: fetchModel).
    - [FCached]: the URL is already in the library, nothing is parsed, nothing is logged.
    - [FMissing x]: the file cannot be opened: one issue (default level ERROR) and failure.
    - [FParsed msg errors xml]: the file was parsed.  msg = Some m when the importer is not strict and the
      parser has >= 1 message (a new MESSAGE issue [m] is added first); [errors] = the parser's errors in
      order as (object, has rule XML?) — they are what Parser::error(i) returns, so their level is ERROR;
      on the first XML one a replacement issue [xml] (default level ERROR) is added and fetchModel fails. *)
Inductive fetched :=
| FCached
| FMissing (x : nat)
| FParsed (msg : option nat) (errors : list (nat * bool)) (xml : nat).

Definition mk_error (id : nat) : issue := {| i_level := LError; i_id := id |}.
Definition mk_message (id : nat) : issue := {| i_level := LMessage; i_id := id |}.

Fixpoint add_parser_errors (errors : list (nat * bool)) (xml : nat) (s : logger) : logger * bool :=
  match errors with
  | [] => (s, true)
  | (id, is_xml) :: r =>
    if is_xml then (add_issue (mk_error xml) s, false)
    else add_parser_errors r xml (add_issue (mk_error id) s)
  end.

(** importer.cpp: ImporterImpl::fetchModel — effect on the importer's logger and success flag. *)
Definition fetch_model (f : fetched) (s : logger) : logger * bool :=
  match f with
  | FCached => (s, true)
  | FMissing x => (add_issue (mk_error x) s, false)
  | FParsed msg errors xml =>
    let s1 := match msg with Some m => add_issue (mk_message m) s | None => s end in
    add_parser_errors errors xml s1
  end.

(** importer.cpp: the head of fetchComponent() / fetchUnits():
      startIndex = errorCount(); if (!fetchImportSource(..)) return false;
      <cleanup loop>; if (encounteredRelatedError) { addIssue(<"Encountered an error when resolving ...">); return false; }
    [related] decides from the issue read in the loop whether it concerns the imported entity; [follow] is the
    identity of the summary issue (default level ERROR).  Result: logger, and whether the function goes on. *)
Definition is_related (related : nat -> bool) (a : access) : bool :=
  match a with AIssue x => related (i_id x) | _ => false end.

Definition fetch_and_clean (f : fetched) (related : nat -> bool) (follow : nat) (s : logger) : outcome * bool :=
  let start := error_count s in
  let (s1, ok) := fetch_model f s in
  if negb ok then (Ok s1, false)
  else
    match importer_cleanup start s1 with
    | (Ok s2, seen) =>
      if existsb (is_related related) seen then (Ok (add_issue (mk_error follow) s2), false)
      else (Ok s2, true)
    | (bad, _) => (bad, false)
    end.

(** ** Service-level operations: everything a service does to its own logger.
    Parser, Validator, Analyser, Printer, Annotator only add and clear; the Importer additionally runs the
    fetch-and-clean step. *)
Inductive sop :=
| SAdd (x : issue)
| SRemoveAll
| SFetchClean (f : fetched) (related : nat -> bool) (follow : nat).

Definition sstep (o : sop) (s : logger) : outcome :=
  match o with
  | SAdd x => Ok (add_issue x s)
  | SRemoveAll => Ok (remove_all s)
  | SFetchClean f related follow => fst (fetch_and_clean f related follow s)
  end.

Fixpoint run_sops (ops : list sop) (s : logger) : outcome :=
  match ops with
  | [] => Ok s
  | o :: r => match sstep o s with Ok s' => run_sops r s' | bad => bad end
  end.

(* ------------------------------------------------------------------------------------------------ *)
(** * 3. Rule metadata lookup (issue.cpp) over the regenerated table *)

(** std::map::at : the row with the key; None = std::out_of_range is thrown. *)
Definition rt_at (r : rule) : option row := find (fun x => Nat.eqb (r_rule x) r) rule_table.

(** operator[] of the row's vector; None = read past the end (undefined behaviour). *)
Definition rt_field (x : row) (i : nat) : option string := nth_error (r_fields x) i.

(** Issue::referenceHeading()  =  ruleToInformation.at(referenceRule())[1] *)
Definition rt_heading (r : rule) : option string :=
  match rt_at r with Some x => rt_field x 1 | None => None end.

(** Issue::url():  auto search = ruleToInformation.at(rule);
      if (search[1].empty()) return search[2] + "?issue=" + search[0];
      return search[2] + search[3] + ".html?issue=" + search[0]; *)
Definition rt_url (r : rule) : option string :=
  match rt_at r with
  | Some x =>
    match rt_field x 1, rt_field x 2, rt_field x 0 with
    | Some f1, Some f2, Some f0 =>
      if String.eqb f1 "" then Some (f2 ++ "?issue=" ++ f0)%string
      else match rt_field x 3 with
           | Some f3 => Some (f2 ++ f3 ++ ".html?issue=" ++ f0)%string
           | None => None
           end
    | _, _, _ => None
    end
  | None => None
  end.

(** Executable well-formedness of one row, used by the theorems over the regenerated table. *)
Definition is_digit_or_dot (c : Ascii.ascii) : bool :=
  let n := Ascii.nat_of_ascii c in ((48 <=? n) && (n <=? 57)) || (n =? 46).

Fixpoint str_forall (p : Ascii.ascii -> bool) (s : string) : bool :=
  match s with EmptyString => true | String c r => p c && str_forall p r end.

Definition str_nonempty (s : string) : bool := match s with EmptyString => false | _ => true end.

Definition is_url_safe (c : Ascii.ascii) : bool :=
  let n := Ascii.nat_of_ascii c in (33 <=? n) && (n <=? 126) && negb (n =? 34) && negb (n =? 60) && negb (n =? 62).

Definition is_https (s : string) : bool := String.prefix "https://" s.

(** A row is well formed when it has exactly four fields and either
    - it is the all-empty row of UNDEFINED (rule value 0), or
    - field 0 is the enumerator's own name, and either
        (specification rule) the heading is a dotted section number, the base is an https URL and the page is
        non-empty, or (library rule) heading and page are empty and the base is an https URL. *)
Definition row_shape_wf (x : row) : bool :=
  match r_fields x with
  | [f0; f1; f2; f3] =>
    if Nat.eqb (r_rule x) 0 then
      String.eqb f0 "" && String.eqb f1 "" && String.eqb f2 "" && String.eqb f3 ""
    else
      (match nth_error rule_names (r_rule x) with Some n => String.eqb n (r_key x) | None => false end)
      && str_nonempty f0
      && str_forall is_url_safe f0 && is_https f2 && str_forall is_url_safe f2 && str_forall is_url_safe f3
      && (if str_nonempty f1
          then str_forall is_digit_or_dot f1 && str_nonempty f3
          else negb (str_nonempty f3))
  | _ => false
  end.

(** the name the URL carries ("?issue=<name>") is the rule's own name *)
Definition row_name_ok (x : row) : bool :=
  match r_fields x with
  | f0 :: _ => if Nat.eqb (r_rule x) 0 then String.eqb f0 "" else String.eqb f0 (r_key x)
  | [] => false
  end.

Fixpoint nodup_nat (l : list nat) : bool :=
  match l with [] => true | a :: r => negb (existsb (Nat.eqb a) r) && nodup_nat r end.

Definition table_keys : list rule := map r_rule rule_table.
Definition mentioned_rules : list rule := map (fun m => snd (fst m)) rule_mentions.
Definition site_rules : list rule :=
  flat_map (fun s => match s_rule s with Some r => [r] | None => [] end) issue_sites.
Definition rules_without_row : list rule :=
  filter (fun r => negb (existsb (Nat.eqb r) table_keys)) (seq 0 rule_count).
Definition rule_name_of (r : rule) : string := nth r rule_names "?".

(* ------------------------------------------------------------------------------------------------ *)
(** * 4. The typed item holder (AnyCellmlElement) *)

(** enums.h: enum class CellmlElementType (declaration order) *)
Inductive etype := COMPONENT | COMPONENT_REF | CONNECTION | ENCAPSULATION | IMPORT | MAP_VARIABLES | MATH
                 | MODEL | RESET | RESET_VALUE | TEST_VALUE | UNDEFINED | UNIT | UNITS | VARIABLE.

Definition all_etypes : list etype :=
  [COMPONENT; COMPONENT_REF; CONNECTION; ENCAPSULATION; IMPORT; MAP_VARIABLES; MATH;
   MODEL; RESET; RESET_VALUE; TEST_VALUE; UNDEFINED; UNIT; UNITS; VARIABLE].

Definition etype_index (t : etype) : nat :=
  match t with
  | COMPONENT => 0 | COMPONENT_REF => 1 | CONNECTION => 2 | ENCAPSULATION => 3 | IMPORT => 4
  | MAP_VARIABLES => 5 | MATH => 6 | MODEL => 7 | RESET => 8 | RESET_VALUE => 9 | TEST_VALUE => 10
  | UNDEFINED => 11 | UNIT => 12 | UNITS => 13 | VARIABLE => 14
  end.

Definition etype_name (t : etype) : string :=
  match t with
  | COMPONENT => "COMPONENT" | COMPONENT_REF => "COMPONENT_REF" | CONNECTION => "CONNECTION"
  | ENCAPSULATION => "ENCAPSULATION" | IMPORT => "IMPORT" | MAP_VARIABLES => "MAP_VARIABLES" | MATH => "MATH"
  | MODEL => "MODEL" | RESET => "RESET" | RESET_VALUE => "RESET_VALUE" | TEST_VALUE => "TEST_VALUE"
  | UNDEFINED => "UNDEFINED" | UNIT => "UNIT" | UNITS => "UNITS" | VARIABLE => "VARIABLE"
  end.

Definition etype_eqb (a b : etype) : bool := Nat.eqb (etype_index a) (etype_index b).

(** The C++ type held by the std::any. *)
Inductive pkind := KNullptr | KComponent | KImportSource | KModel | KReset | KUnits | KUnitsItem
                 | KVariable | KVariablePair.

Definition pkind_cxx (k : pkind) : string :=
  match k with
  | KNullptr => "nullptr_t" | KComponent => "ComponentPtr" | KImportSource => "ImportSourcePtr"
  | KModel => "ModelPtr" | KReset => "ResetPtr" | KUnits => "UnitsPtr" | KUnitsItem => "UnitsItemPtr"
  | KVariable => "VariablePtr" | KVariablePair => "VariablePairPtr"
  end.

Definition pkind_eqb (a b : pkind) : bool := String.eqb (pkind_cxx a) (pkind_cxx b).

(** mItem: the kind of pointer stored and which object it points to (None = a null pointer of that kind). *)
Record payload := { p_kind : pkind; p_obj : option nat }.

(** anycellmlelement_p.h: mType = UNDEFINED, mItem = nullptr *)
Record holder := { h_type : etype; h_item : payload }.
Definition holder_init : holder := {| h_type := UNDEFINED; h_item := {| p_kind := KNullptr; p_obj := None |} |}.

(** The 18 setters of AnyCellmlElementImpl (overloads spelt out). *)
Inductive sname :=
| SetComponent | SetComponentRef | SetConnectionPair | SetConnectionVars | SetEncapsulation | SetImportSource
| SetMapVariablesPair | SetMapVariablesVars | SetMath | SetModel | SetReset | SetResetValue | SetTestValue
| SetUnits | SetUnitsItem | SetVariable | SetVariablePairPair | SetVariablePairVars.

Definition all_snames : list sname :=
  [SetComponent; SetComponentRef; SetConnectionPair; SetConnectionVars; SetEncapsulation; SetImportSource;
   SetMapVariablesPair; SetMapVariablesVars; SetMath; SetModel; SetReset; SetResetValue; SetTestValue;
   SetUnits; SetUnitsItem; SetVariable; SetVariablePairPair; SetVariablePairVars].

(** One call of a setter: the pointer argument (None = nullptr; unused by the two-variable forms), the
    CellmlElementType argument (only read by the setters that take one) and the identity of the VariablePair
    object that the two-variable forms create with VariablePair::create(variable1, variable2). *)
Record call := { c_name : sname; c_obj : option nat; c_type : etype; c_fresh : nat }.

(** does the setter take a CellmlElementType argument? (types.cpp) *)
Definition takes_type (n : sname) : bool :=
  match n with
  | SetComponent | SetModel | SetReset | SetVariablePairPair | SetVariablePairVars => true
  | _ => false
  end.

(** the value written to mType (types.cpp, delegation resolved) *)
Definition written_tag (n : sname) (t : etype) : etype :=
  match n with
  | SetComponent => t
  | SetComponentRef => COMPONENT_REF
  | SetConnectionPair | SetConnectionVars => CONNECTION
  | SetEncapsulation => ENCAPSULATION
  | SetImportSource => IMPORT
  | SetMapVariablesPair | SetMapVariablesVars => MAP_VARIABLES
  | SetMath => MATH
  | SetModel => t
  | SetReset => t
  | SetResetValue => RESET_VALUE
  | SetTestValue => TEST_VALUE
  | SetUnits => UNITS
  | SetUnitsItem => UNIT
  | SetVariable => VARIABLE
  | SetVariablePairPair | SetVariablePairVars => t
  end.

(** the C++ type of the value written to mItem *)
Definition stored_kind (n : sname) : pkind :=
  match n with
  | SetComponent | SetComponentRef | SetMath => KComponent
  | SetConnectionPair | SetConnectionVars | SetMapVariablesPair | SetMapVariablesVars
  | SetVariablePairPair | SetVariablePairVars => KVariablePair
  | SetEncapsulation | SetModel => KModel
  | SetImportSource => KImportSource
  | SetReset | SetResetValue | SetTestValue => KReset
  | SetUnits => KUnits
  | SetUnitsItem => KUnitsItem
  | SetVariable => KVariable
  end.

Definition creates_pair (n : sname) : bool :=
  match n with SetConnectionVars | SetMapVariablesVars | SetVariablePairVars => true | _ => false end.

Definition stored_obj (c : call) : option nat :=
  if creates_pair (c_name c) then Some (c_fresh c) else c_obj c.

Definition apply_setter (c : call) (h : holder) : holder :=
  {| h_type := written_tag (c_name c) (c_type c);
     h_item := {| p_kind := stored_kind (c_name c); p_obj := stored_obj c |} |}.

(** The 8 public accessors (types.h). *)
Inductive accessor := AComponent | AImportSource | AModel | AReset | AUnits | AUnitsItem | AVariable | AVariablePair.

Definition all_accessors : list accessor :=
  [AComponent; AImportSource; AModel; AReset; AUnits; AUnitsItem; AVariable; AVariablePair].

Definition accessor_cxx (a : accessor) : string :=
  match a with
  | AComponent => "component" | AImportSource => "importSource" | AModel => "model" | AReset => "reset"
  | AUnits => "units" | AUnitsItem => "unitsItem" | AVariable => "variable" | AVariablePair => "variablePair"
  end.

Definition accessor_eqb (a b : accessor) : bool := String.eqb (accessor_cxx a) (accessor_cxx b).

(** types.cpp: the tags under which the accessor tries the any_cast.
    [fx] = the tree carries the repair "component() also answers for MATH" (fixes/C15-math-item-accessor.diff);
    on the unchanged tree fx = false: an item of type MATH is handed out by no accessor. *)
Definition accessor_tags (fx : bool) (a : accessor) : list etype :=
  match a with
  | AComponent => if fx then [COMPONENT; COMPONENT_REF; MATH] else [COMPONENT; COMPONENT_REF]
  | AImportSource => [IMPORT]
  | AModel => [ENCAPSULATION; MODEL]
  | AReset => [RESET; RESET_VALUE; TEST_VALUE]
  | AUnits => [UNITS]
  | AUnitsItem => [UNIT]
  | AVariable => [VARIABLE]
  | AVariablePair => [CONNECTION; MAP_VARIABLES]
  end.

(** types.cpp: the type given to std::any_cast *)
Definition accessor_kind (a : accessor) : pkind :=
  match a with
  | AComponent => KComponent | AImportSource => KImportSource | AModel => KModel | AReset => KReset
  | AUnits => KUnits | AUnitsItem => KUnitsItem | AVariable => KVariable | AVariablePair => KVariablePair
  end.

(** types.cpp: e.g. AnyCellmlElement::component():
      if (type is one of the tags) { try { return any_cast<T>(mItem); } catch (bad_any_cast) { return nullptr; } }
      return nullptr;   — None = nullptr *)
Definition read (fx : bool) (a : accessor) (h : holder) : option nat :=
  if existsb (etype_eqb (h_type h)) (accessor_tags fx a)
  then (if pkind_eqb (p_kind (h_item h)) (accessor_kind a) then p_obj (h_item h) else None)
  else None.

(** The accessor under which an item of the given type is handed out, if there is one. *)
Definition accessor_for (fx : bool) (t : etype) : option accessor :=
  find (fun a => existsb (etype_eqb t) (accessor_tags fx a)) all_accessors.

(** The kind of object each element type stands for (UNDEFINED: nothing). *)
Definition kind_of_type (t : etype) : pkind :=
  match t with
  | COMPONENT | COMPONENT_REF | MATH => KComponent
  | CONNECTION | MAP_VARIABLES => KVariablePair
  | ENCAPSULATION | MODEL => KModel
  | IMPORT => KImportSource
  | RESET | RESET_VALUE | TEST_VALUE => KReset
  | UNDEFINED => KNullptr
  | UNIT => KUnitsItem
  | UNITS => KUnits
  | VARIABLE => KVariable
  end.

(** "the stored object matches the stated element type or is undefined" *)
Definition holder_consistent (h : holder) : bool := pkind_eqb (p_kind (h_item h)) (kind_of_type (h_type h)).

(** Tables derived from the model, compared with the regenerated ones (IssueSites.v). *)
Definition sname_cxx (n : sname) : string :=
  match n with
  | SetComponent => "setComponent" | SetComponentRef => "setComponentRef"
  | SetConnectionPair | SetConnectionVars => "setConnection"
  | SetEncapsulation => "setEncapsulation" | SetImportSource => "setImportSource"
  | SetMapVariablesPair | SetMapVariablesVars => "setMapVariables"
  | SetMath => "setMath" | SetModel => "setModel" | SetReset => "setReset" | SetResetValue => "setResetValue"
  | SetTestValue => "setTestValue" | SetUnits => "setUnits" | SetUnitsItem => "setUnitsItem"
  | SetVariable => "setVariable" | SetVariablePairPair | SetVariablePairVars => "setVariablePair"
  end.

Definition sname_params (n : sname) : list string :=
  (if creates_pair n then ["VariablePtr"; "VariablePtr"] else [pkind_cxx (stored_kind n)])
  ++ (if takes_type n then ["CellmlElementType"] else []).

Definition model_setter_table : list (string * list string * option nat * string) :=
  map (fun n => (sname_cxx n, sname_params n,
                 if takes_type n then None else Some (etype_index (written_tag n UNDEFINED)),
                 pkind_cxx (stored_kind n))) all_snames.

Definition model_accessor_table (fx : bool) : list (string * list nat * string) :=
  map (fun a => (accessor_cxx a, map etype_index (accessor_tags fx a), pkind_cxx (accessor_kind a))) all_accessors.

(** Which of the two the tree under check is, read off the regenerated accessor table. *)
Definition tree_math_fixed : bool :=
  existsb (fun r => String.eqb (fst (fst r)) "component" && existsb (Nat.eqb (etype_index MATH)) (snd (fst r)))
          holder_accessors.

(** The setters that issue sites may use with one argument (constant tag, or the declared default). *)
Definition default_tag (n : sname) : etype :=
  match n with SetComponent => COMPONENT | SetModel => MODEL | SetReset => RESET | _ => UNDEFINED end.

Definition model_setter_defaults : list (string * nat) :=
  [("setComponent", etype_index (default_tag SetComponent)); ("setModel", etype_index (default_tag SetModel));
   ("setReset", etype_index (default_tag SetReset))].

(* ------------------------------------------------------------------------------------------------ *)
(** * 5. Specification *)

(** positions (counted from [k]) of the issues of level [l], ascending *)
Fixpoint positions_from (k : nat) (l : level) (xs : list issue) : list nat :=
  match xs with
  | [] => []
  | x :: r => if has_level l x then k :: positions_from (S k) l r else positions_from (S k) l r
  end.

Definition positions (l : level) (xs : list issue) : list nat := positions_from 0 l xs.

(** The coherence invariant: each index vector is exactly the positions of the issues of its level, in order. *)
Definition Inv (s : logger) : Prop :=
  forall l, level_vec l s = positions l (issues s).

(** executable form (used by the extracted driver) *)
Definition list_nat_eqb (a b : list nat) : bool :=
  (length a =? length b) && forallb (fun p => fst p =? snd p) (combine a b).

Definition inv_b (s : logger) : bool :=
  forallb (fun l => list_nat_eqb (level_vec l s) (positions l (issues s))) all_levels.

(** The condition the importer's loop relies on: the errors with error-index >= start are exactly the last
    issues of the list (nothing that is not an error was logged after the first of them). *)
Definition suffix_is_errors (s : logger) (start : nat) : Prop :=
  exists pre suf, issues s = pre ++ suf /\ forallb (has_level LError) suf = true /\
                  length (positions LError pre) = start.

(** Service operations are state independent; every service call is a list of them. *)
Definition outcome_inv (o : outcome) : Prop := match o with Ok s => Inv s | _ => False end.

(** Holder coherence for one state: the accessor that belongs to the type returns the stored object and
    every other accessor returns null; types without accessor must hold nothing. *)
Definition holder_coherent (fx : bool) (h : holder) : Prop :=
  match accessor_for fx (h_type h) with
  | Some a => read fx a h = p_obj (h_item h) /\ forall b, b <> a -> read fx b h = None
  | None => p_obj (h_item h) = None /\ forall b, read fx b h = None
  end.

(** A call is tag-consistent when the tag it writes denotes the kind of object it stores. *)
Definition call_consistent (c : call) : bool :=
  pkind_eqb (stored_kind (c_name c)) (kind_of_type (written_tag (c_name c) (c_type c))).
