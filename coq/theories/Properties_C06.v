(* Properties_C06.v -- statements only (placeholder while the proofs are being written) *)
From LC Require Import FlattenDefs.
