(* Properties_C06.v -- C06 "Flattening yields an import-free model with the same meaning": statements only.
   Model: FlattenDefs.v (transcription of Importer::flattenModel and what it calls, with the C06 fix commits applied).
   Proofs: FlattenProofs.v, FlattenOwn.v.  Every theorem below is closed under the global context.

   What is NOT proved (see the comments marked NOT PROVED and design_notes/C06.md):
     - termination of the flattening loop: the unconditional claim is refuted (C06_flatten_terminates_refuted), the
       conditional one is not proved;
     - preservation of the meaning of units that reference other non-standard units: the claim is FALSE for the code
       (C06_units_meaning_refuted) and no sufficient condition beyond first-level units was proved. *)
From Coq Require Import List String QArith Bool Arith.
From LC Require Import Common NumDefs UnitsDefs FlattenDefs FlattenProofs FlattenOwn FlattenShape FlattenTerm FlattenUnits FlattenTermPos FlattenTermPos2.
Import ListNotations.
Local Open Scope string_scope.
Local Open Scope nat_scope.
Local Open Scope list_scope.

(* ------------------------------------------------------------------------------------------------ rebase_correct *)

(* rebaseIndexStack replaces exactly the origin prefix by the destination prefix ... *)
Theorem C06_rebase_correct : forall origin rest dest, rebase_stack (origin ++ rest) origin dest = dest ++ rest.
Proof. exact FlattenProofs.rebase_stack_prefix. Qed.
Print Assumptions C06_rebase_correct.

(* ... and a stack that is not under the origin is cleared (the code does not keep it: such targets leave the map) *)
Theorem C06_rebase_outside_cleared : forall s origin dest, (forall rest, s <> origin ++ rest) -> rebase_stack s origin dest = [].
Proof. exact FlattenProofs.rebase_stack_outside. Qed.
Print Assumptions C06_rebase_outside_cleared.

(* a target = component stack ++ [variable index]: only the component part decides (the reason for the pop_back in
   rebaseEquivalenceMap: variable j of the origin's PARENT would otherwise look like child j of the origin) *)
Theorem C06_rebase_target_inside : forall origin rest v dest, dest <> [] ->
  rebase_target (origin ++ rest ++ [v]) origin dest = Some (dest ++ rest ++ [v]).
Proof. exact FlattenProofs.rebase_target_inside. Qed.
Print Assumptions C06_rebase_target_inside.

Theorem C06_rebase_target_outside : forall cstack v origin dest, (forall rest, cstack <> origin ++ rest) ->
  rebase_target (cstack ++ [v]) origin dest = None.
Proof. exact FlattenProofs.rebase_target_outside. Qed.
Print Assumptions C06_rebase_target_outside.

Example C06_rebase_parent_variable_not_captured :
  (* origin = component [0;1]; the target is variable 1 of component [0]: not under the origin *)
  rebase_target [0; 1] [0; 1] [5] = None /\ rebase_target [0; 1; 2] [0; 1] [5] = Some [5; 2].
Proof. split; reflexivity. Qed.
Print Assumptions C06_rebase_parent_variable_not_captured.

(* rebaseEquivalenceMap: every entry of the rebased map is the image of a recorded entry that has a target under the
   origin, and (rebasing being injective on the recorded keys) every such recorded entry has its image *)
Theorem C06_rebase_map_sound : forall m origin dest k2 ts2, In (k2, ts2) (rebase_map m origin dest) ->
  exists k ts, In (k, ts) m /\ k2 = rebase_stack k origin dest /\ ts2 = rebase_targets ts origin dest /\ ts2 <> [].
Proof. exact FlattenProofs.rebase_map_sound. Qed.
Print Assumptions C06_rebase_map_sound.

Theorem C06_rebase_map_complete : forall m origin dest,
  NoDup (map (fun kv => rebase_stack (fst kv) origin dest) m) ->
  forall k ts, In (k, ts) m -> rebase_targets ts origin dest <> [] ->
  In (rebase_stack k origin dest, rebase_targets ts origin dest) (rebase_map m origin dest).
Proof. exact FlattenProofs.rebase_map_complete. Qed.
Print Assumptions C06_rebase_map_complete.

Theorem C06_rebase_targets_exact : forall ts origin dest t2, In t2 (rebase_targets ts origin dest) <->
  exists t, In t ts /\ rebase_target t origin dest = Some t2.
Proof. exact FlattenProofs.rebase_targets_in. Qed.
Print Assumptions C06_rebase_targets_exact.

(* ------------------------------------------------------------------------------------------------ apply_generate_id *)

(* applyEquivalenceMapToModel on the rebased map: every recorded equivalence between two variables of the imported
   component's encapsulation tree is an equivalence of the corresponding variables (same relative stacks) of the
   destination, provided the destination has variables there (structurally identical tree) ... *)
Theorem C06_apply_rebased_complete : forall cs em origin dest eqs eqs',
  dest <> [] ->
  NoDup (map (fun kv => rebase_stack (fst kv) origin dest) em) ->
  apply_map cs (rebase_map em origin dest) eqs = FOk eqs' ->
  forall k ts rk rt i v1 v2,
    In (k, ts) em -> In (origin ++ rt ++ [i]) ts -> k = origin ++ rk ->
    var_located_at cs (dest ++ rk) = LVar v1 -> var_located_at cs (dest ++ rt ++ [i]) = LVar v2 -> v_oid v1 <> v_oid v2 ->
    has_pair eqs' (v_oid v1) (v_oid v2).
Proof. exact FlattenProofs.apply_rebased_complete. Qed.
Print Assumptions C06_apply_rebased_complete.

(* ... nothing that was equivalent stops being so, and nothing else becomes equivalent *)
Theorem C06_apply_rebased_sound : forall cs em origin dest eqs eqs',
  apply_map cs (rebase_map em origin dest) eqs = FOk eqs' ->
  (forall x y, has_pair eqs x y -> has_pair eqs' x y) /\
  forall x y, has_pair eqs' x y -> has_pair eqs x y \/
    exists k ts t t2 v1 v2, In (k, ts) em /\ In t ts /\ rebase_target t origin dest = Some t2 /\
      var_located_at cs (rebase_stack k origin dest) = LVar v1 /\ var_located_at cs t2 = LVar v2 /\
      oids_pair_eq x y (v_oid v1) (v_oid v2).
Proof. exact FlattenProofs.apply_rebased_sound. Qed.
Print Assumptions C06_apply_rebased_sound.

(* the map can only fail to apply when a stack does not lead to a component *)
Theorem C06_apply_total : forall cs l eqs,
  (forall k t, In (k, t) l -> var_located_at cs k <> LCrash /\ var_located_at cs t <> LCrash) ->
  exists eqs', fold_left (apply_step cs None) l (FOk eqs) = FOk eqs'.
Proof. exact FlattenProofs.apply_pairs_total. Qed.
Print Assumptions C06_apply_total.

(* ids.  copyRebasedEquivalenceIds (the id pass of Model::clone, b1322b2; for flattenComponent a CANDIDATE repair that
   is not in the code, flag fx_ids): every equivalence afterwards is an old one or carries the ids the source model
   stores for a recorded pair located at the same two variables *)
Theorem C06_apply_generate_id_partial : forall src origin dest cs em eqs eqs',
  copy_ids src origin dest cs em eqs = FOk eqs' ->
  forall e, In e eqs' -> ids_from src origin dest cs (em_pairs em) eqs e.
Proof. exact FlattenProofs.copy_ids_result. Qed.
Print Assumptions C06_apply_generate_id_partial.

(* the code as it is re-creates the equivalences of an imported component WITHOUT their ids (DESIGN row 36) *)
Theorem C06_apply_generate_id_refuted :
  exists flat st, flatten_model 10 50 flat_current_fixes [ids_lib] ids_origin 100 = FOk (flat, st) /\
    List.length (m_eqs flat) = 2 /\ forall e, In e (m_eqs flat) -> e_map e = "" /\ e_conn e = "".
Proof. exact FlattenProofs.flatten_ids_refuted. Qed.
Print Assumptions C06_apply_generate_id_refuted.

Theorem C06_apply_generate_id_repaired :
  exists flat st, flatten_model 10 50 flat_all_fixed [ids_lib] ids_origin 100 = FOk (flat, st) /\
    map (fun e => (e_map e, e_conn e)) (m_eqs flat) = [("map0", "conn0"); ("map1", "conn1")].
Proof. exact FlattenProofs.flatten_ids_repaired. Qed.
Print Assumptions C06_apply_generate_id_repaired.

(* recordVariableEquivalences + generateEquivalenceMap: the recorded map holds exactly, for every variable of the
   component's encapsulation tree (at its index stack), the index stacks at which indexStackOf finds its equivalent
   variables in the same model *)
Theorem C06_record_comp_spec : forall m c stack acc k t,
  em_has (record_comp m stack c acc) k t <->
  em_has acc k t \/ exists v, In (k, v) (comp_vars_at stack c) /\ equiv_at m v t.
Proof. exact FlattenProofs.record_comp_spec. Qed.
Print Assumptions C06_record_comp_spec.

(* apply_generate, end to end (record, rebase, apply): an equivalence of the library model between two variables of the
   imported component's encapsulation tree is an equivalence between the variables at the same relative stacks below the
   destination (the copy is structurally identical: it has variables there) *)
Theorem C06_apply_generate_recreates : forall (L : model) (icomp : comp) (origin dest : path) cs eqs eqs',
  dest <> [] ->
  apply_map cs (rebase_map (record_comp L origin icomp []) origin dest) eqs = FOk eqs' ->
  forall rk rt i v v1 v2,
    In (origin ++ rk, v) (comp_vars_at origin icomp) ->
    equiv_at L v (origin ++ rt ++ [i]) ->
    var_located_at cs (dest ++ rk) = LVar v1 -> var_located_at cs (dest ++ rt ++ [i]) = LVar v2 -> v_oid v1 <> v_oid v2 ->
    has_pair eqs' (v_oid v1) (v_oid v2).
Proof. exact FlattenProofs.apply_generate_recreates. Qed.
Print Assumptions C06_apply_generate_recreates.

(* The two hypotheses of the theorem above, discharged for the model's own functions (FlattenShape.v). *)

(* indexStackOf returns the stack at which a variable sits (identity tags of the model pairwise distinct) *)
Theorem C06_index_stack_of_position : forall m p v, NoDup (oids_of (model_vars m)) ->
  In (p, v) (model_vars m) -> index_stack_of m (v_oid v) = Some p.
Proof. exact FlattenShape.index_stack_of_position. Qed.
Print Assumptions C06_index_stack_of_position.

(* getVariableLocatedAt finds the variable the enumeration lists at a stack *)
Theorem C06_located_enumerated : forall cs p v, In (p, v) (comps_vars_at [] 0 cs) -> var_located_at cs p = LVar v.
Proof. exact FlattenShape.located_enumerated. Qed.
Print Assumptions C06_located_enumerated.

(* Component::clone: the copy has a variable at every index stack at which the original has one; its variables carry the
   tags n .. n' - 1, pairwise distinct *)
Theorem C06_clone_comp_shape : forall o c n,
  n <= snd (clone_comp o c n) /\ clone_shape c (fst (clone_comp o c n)) n (snd (clone_comp o c n)).
Proof. exact FlattenShape.clone_comp_shape. Qed.
Print Assumptions C06_clone_comp_shape.

(* setName and the de-clash loop keep that shape (names play no role in index stacks) *)
Theorem C06_declash_keeps_shape : forall fx N ck pk ck' pk' done, declash fx N ck pk = FOk (ck', pk', done) ->
  forall j, comps_vars_at [] j ck' = comps_vars_at [] j ck /\ comps_vars_at [] j pk' = comps_vars_at [] j pk.
Proof. exact FlattenShape.declash_vars. Qed.
Print Assumptions C06_declash_keeps_shape.

(* apply_generate for the model, no hypothesis on locations left: L the library model, icomp the imported component at
   stack origin, copy a component of icomp's shape at stack dest of the forest cs.  Every equivalence of L between two
   variables of icomp's encapsulation tree is, after record / rebase / apply, an equivalence between the copy's variables
   at the same relative stacks. *)
Theorem C06_apply_generate_model : forall (L : model) (icomp copy : comp) (origin dest : path) (cs : list comp) lo hi eqs eqs',
  NoDup (oids_of (model_vars L)) ->
  comp_at (m_comps L) origin = Some icomp ->
  dest <> [] -> comp_at cs dest = Some copy -> clone_shape icomp copy lo hi ->
  apply_map cs (rebase_map (record_comp L origin icomp []) origin dest) eqs = FOk eqs' ->
  forall q1 v q2 w,
    In (q1, v) (comp_vars_at [] icomp) -> In (q2, w) (comp_vars_at [] icomp) ->
    has_pair (m_eqs L) (v_oid v) (v_oid w) -> v_oid v <> v_oid w ->
    exists v' w', In (q1, v') (comp_vars_at [] copy) /\ In (q2, w') (comp_vars_at [] copy) /\ has_pair eqs' (v_oid v') (v_oid w').
Proof. exact FlattenShape.apply_generate_model. Qed.
Print Assumptions C06_apply_generate_model.

Theorem C06_comp_at_update_at : forall p cs c f, comp_at cs p = Some c -> comp_at (update_at cs p f) p = Some (f c).
Proof. exact FlattenShape.comp_at_update_at. Qed.
Print Assumptions C06_comp_at_update_at.

(* NOT PROVED: the last assembly step inside flatten_component for a copy that is itself an import placeholder and receives
   extra placeholder variables (76af934): that appending variables with new tags keeps clone_shape.  For every other copy
   the shape follows from C06_clone_comp_shape, clone_shape_set_name, clone_shape_set_kids and C06_declash_keeps_shape. *)

(* ------------------------------------------------------------------------------------------------ declash_unique *)

(* the search for a free name always ends within length(used) + 1 candidates *)
Theorem C06_free_name_total : forall used orig, exists c, free_name used orig = Some c /\ ~ In c used.
Proof. exact FlattenProofs.free_name_total. Qed.
Print Assumptions C06_free_name_total.

(* after the newComponentNames loop (7acb380): it ends; the new names are pairwise distinct; none is a name of the
   importing model, of the imported hierarchy or of the placeholder's children; only clashing names are renamed, to name_k *)
Theorem C06_declash_unique : forall fx compNames ck pk, fx_clash fx = true ->
  exists ck' pk' done, declash fx compNames ck pk = FOk (ck', pk', done)
    /\ NoDup (map snd done)
    /\ forall o n, In (o, n) done ->
         In o compNames /\ ~ In n compNames /\ ~ In n (comps_names ck) /\ ~ In n (comps_names pk) /\ exists k, n = candidate o k.
Proof. exact FlattenProofs.declash_unique. Qed.
Print Assumptions C06_declash_unique.

(* the loop as it was: two imported components get the same name *)
Theorem C06_declash_unique_refuted :
  exists compNames ck, match declash flat_unfixed compNames ck [] with
                       | FOk (ck', _, _) => ~ NoDup (comps_names ck')
                       | _ => True
                       end.
Proof. exact FlattenProofs.declash_unique_refuted. Qed.
Print Assumptions C06_declash_unique_refuted.

(* at the level of the trees: if the names of the importing model are pairwise distinct, the imported hierarchy has pairwise
   distinct names and the placeholder's children are components of the importing model, then after the loop all component
   names of the two forests are pairwise distinct, no component of the imported hierarchy carries a name of the importing
   model, and a child of the placeholder carries one only if it kept its own *)
Theorem C06_declash_tree_unique : forall fx N ck pk, fx_clash fx = true ->
  NoDup (comps_names ck) -> NoDup (comps_names pk) -> incl (comps_names pk) N ->
  exists ck' pk' done, declash fx N ck pk = FOk (ck', pk', done) /\
    NoDup (comps_names ck' ++ comps_names pk') /\
    (forall x, In x (comps_names ck') -> ~ In x N) /\
    (forall x, In x (comps_names pk') -> In x N -> In x (comps_names pk)).
Proof. exact FlattenProofs.declash_tree_unique. Qed.
Print Assumptions C06_declash_tree_unique.

(* ------------------------------------------------------------------------------------------------ units *)

(* home = the model in which the references of the transferred units are read (its own model, or none for a parent-less
   clone); q = the name under which it is listed there (FlattenDefs.transfer_home / transfer_qname).
   transferUnitsRenamingIfRequired: a units is re-used exactly when the target has an equivalent one (the first, and
   nothing is added); otherwise it is appended under a name no units of the target has (its own, else name_k);
   changedNames says which *)
Theorem C06_units_transfer_reuse_or_fresh : forall fuel fx libs orphan u s s' moved changed fname,
  transfer fuel fx libs orphan u s = FOk (s', moved, changed, fname) ->
  let home := transfer_home orphan u s in
  let q := transfer_qname orphan u in
  (moved = false /\ us_T s' = us_T s /\ us_S s' = us_S s /\ fname = u_name u /\
   exists t, In t (us_T s) /\ units_equivalent libs [us_T s; home] 0 (u_name t) 1 q = FOk true /\
     ((u_name t = u_name u /\ changed = []) \/ (u_name t <> u_name u /\ changed = [(u_name u, u_name t)])))
  \/
  (moved = true /\
   (forall t, In t (us_T s) -> units_equivalent_g fx libs [us_T s; home] 0 (u_name t) 1 q = FOk false) /\
   exists T1 u', grows (us_T s) T1 /\ us_T s' = T1 ++ [u'] /\ u_name u' = fname /\ u_imp u' = u_imp u /\
     ~ In fname (map u_name T1) /\
     ((fname = u_name u /\ changed = []) \/
      (fname <> u_name u /\ In (u_name u) (map u_name T1) /\ changed = [(u_name u, fname)] /\ exists k, fname = candidate (u_name u) k))).
Proof. exact FlattenProofs.transfer_reuse_or_fresh. Qed.
Print Assumptions C06_units_transfer_reuse_or_fresh.

(* updateUnitsNameUsages (c2160f8): every reference to the old name -- units of variables and units of cn elements, at
   every depth of the component -- is rewritten, and nothing else *)
Theorem C06_units_usages_rewritten : forall fx old new c, fx_cndeep fx = true -> comp_math_ok c = true ->
  comp_var_units (rename_usages fx old new true c) = map (subst_opt old (Some new)) (comp_var_units c) /\
  comp_cn_units (rename_usages fx old new true c) = map (subst_name old new) (comp_cn_units c).
Proof. exact FlattenProofs.rename_usages_consistent. Qed.
Print Assumptions C06_units_usages_rewritten.

Theorem C06_units_usages_rewritten_refuted :
  exists old new c, comp_math_ok c = true /\
    comp_cn_units (rename_usages flat_unfixed old new true c) <> map (subst_name old new) (comp_cn_units c).
Proof. exact FlattenProofs.rename_usages_consistent_refuted. Qed.
Print Assumptions C06_units_usages_rewritten_refuted.

(* units_dedup_preserves_equivalence_classes, the part that holds: for a units over standard units only (with valid
   prefixes, not a user-defined base unit) the name its usages carry after the transfer denotes, in the target model,
   units equivalent (Units::equivalent, C08's model) to the original in its own model *)
Theorem C06_units_meaning_partial : forall fuel fx libs orphan u s s' moved changed fname,
  transfer fuel fx libs orphan u s = FOk (s', moved, changed, fname) ->
  u_imp u = None -> std_only (u_defs u) ->
  (orphan = false -> find_units (u_name u) (us_S s) = Some u) ->
  let home := transfer_home orphan u s in
  let q := transfer_qname orphan u in
  let usage_name := match changed with [(_, n)] => n | _ => u_name u end in
  units_equivalent libs [us_T s'; home] 0 usage_name 1 q = FOk true.
Proof. exact FlattenProofs.transfer_preserves_meaning_partial. Qed.
Print Assumptions C06_units_meaning_partial.

Example C06_units_meaning_partial_nonvacuous :
  std_only [wit_uc "metre" "milli" 1 0] /\ std_only [wit_uc "second" "" 2 0; wit_uc "metre" "" 1 (-3)].
Proof.
  split; (split; [discriminate|]); intros c Hc; cbn in Hc; repeat (destruct Hc as [Hc|Hc]; [subst c; split; [reflexivity | discriminate]|]); destruct Hc.
Qed.
Print Assumptions C06_units_meaning_partial_nonvacuous.

(* ... and the claim at full strength is false: a units that references other units can come out meaning something else
   (finding C06-units-name-capture; the witness is replayed on the library by checks/c06.py, case hand_kf_alias_capture) *)
Theorem C06_units_meaning_refuted :
  exists libs origin n0 flat st new_units,
    flatten_model 10 50 flat_current_fixes libs origin n0 = FOk (flat, st) /\
    units_of_var flat "c" "x" = Some new_units /\
    units_equivalent libs [m_units flat; m_units wit_lib] 0 new_units 1 "u" = FOk false.
Proof. exact FlattenProofs.units_meaning_refuted. Qed.
Print Assumptions C06_units_meaning_refuted.

(* units that reference other units: a sufficient "no name capture" condition.  closure_iso w R: R relates units whose unit
   children are pairwise related (same prefix, exponent, multiplier; standard references equal; other references related),
   and relates units without children only when they have the same name (libcellml identifies such base units by name).
   If the closure of the name the usages carry (in the target T') is such an isomorphic image of the closure of the original
   (in its own model) -- every reference resolves to the copy of what the original's reference resolves to, nothing is
   captured by another units of T' -- and the original is equivalent to itself, the usages denote equivalent units. *)
Theorem C06_units_meaning_no_capture : forall libs T' home usage q R,
  closure_iso (mk_world [T'; home] libs) R -> R (1, q) (0, usage) ->
  units_equivalent libs [T'; home] 1 q 1 q = FOk true ->
  units_equivalent libs [T'; home] 0 usage 1 q = FOk true.
Proof. exact FlattenUnits.units_meaning_no_capture_model. Qed.
Print Assumptions C06_units_meaning_no_capture.

(* in any world Units::equivalent cannot tell two units with isomorphic closures apart *)
Theorem C06_units_iso_equivalent : forall w R, closure_iso w R -> forall fx f a b x, R a b ->
  equivalent fx f w x (Some a) = equivalent fx f w x (Some b).
Proof. exact FlattenUnits.iso_equivalent. Qed.
Print Assumptions C06_units_iso_equivalent.

Example C06_units_meaning_no_capture_nonvacuous :
  closure_iso (mk_world [nv_target; nv_home] []) nv_R /\ nv_R (1, "a") (0, "a_1") /\
  units_equivalent [] [nv_target; nv_home] 0 "a_1" 1 "a" = FOk true.
Proof. exact FlattenUnits.units_meaning_no_capture_nonvacuous. Qed.
Print Assumptions C06_units_meaning_no_capture_nonvacuous.

(* NOT PROVED: a condition on the INPUT of transferUnitsRenamingIfRequired (source model, target model, units) that implies
   the isomorphism for its output.  The recursion re-uses a dependency whenever the target has an EQUIVALENT units; the copy
   then refers to a units that is equivalent but not isomorphic to the original's dependency, and the step from "children
   equivalent" to "parents equivalent" is the algebra of Units::equivalent (additivity of exponent maps and log-multipliers
   over children), which C08 proved only through its dimension specification, not as a congruence of `equivalent`. *)

(* ------------------------------------------------------------------------------------------------ flatten_no_imports *)

(* whenever the model of flattenModel returns, no units and no component (at any depth) of the result is an import *)
Theorem C06_flatten_no_imports : forall rounds fuel fx libs m n0 m' st,
  flatten_model rounds fuel fx libs m n0 = FOk (m', st) ->
  (forall u, In u (m_units m') -> u_imp u = None) /\ (forall c, In c (m_comps m') -> comp_import_free c).
Proof. exact FlattenProofs.flatten_no_imports. Qed.
Print Assumptions C06_flatten_no_imports.

(* ------------------------------------------------------------------------------------------------ flatten_leaves_inputs *)

(* identity-tag argument: every object the model modifies carries the tag of a clone made during flattening; the single
   exception is the dummy variable that indexStackOf(importedComponent) adds to the imported component of the LIBRARY
   model and removes again (two log entries in a row).  The model given to flattenModel is never written. *)
Theorem C06_flatten_leaves_inputs : forall rounds fuel fx libs m n0 m' st, libs_tagged libs ->
  flatten_model rounds fuel fx libs m n0 = FOk (m', st) -> wlog_ok (wlog st) = true.
Proof. exact FlattenOwn.flatten_leaves_inputs. Qed.
Print Assumptions C06_flatten_leaves_inputs.

Example C06_flatten_leaves_inputs_nonvacuous :
  exists libs m st m', flatten_model 10 50 flat_current_fixes libs m 100 = FOk (m', st) /\ wlog st <> [] /\ In (OLib 0) (wlog st).
Proof. exact FlattenOwn.flatten_log_nonempty. Qed.
Print Assumptions C06_flatten_leaves_inputs_nonvacuous.

(* ------------------------------------------------------------------------------------------------ flatten_terminates *)

(* flatten_terminates as stated -- "on an acyclic import graph the model returns for enough fuel" -- was FALSE for the code
   before 85ba0d4 (flag fx_cycle_guard = false): the renaming of an imported units can close a units cycle
   (C06-units-name-capture), and then no amount of fuel helps.  The witness is an acyclic import graph (file rank decreasing
   along imports) with acyclic units in every file; it passes resolveImports and the pre-checks of flattenModel; the library
   died of stack exhaustion. *)
Theorem C06_flatten_terminates_refuted :
  acyclic_imports [term_lib] term_origin (fun _ => 0) 1 /\
  forall rounds fuel n0, flatten_model rounds fuel flat_no_cycle_guard [term_lib] term_origin n0 = FFuel.
Proof. split; [exact FlattenTerm.term_witness_acyclic | exact FlattenTerm.flatten_terminates_refuted]. Qed.
Print Assumptions C06_flatten_terminates_refuted.

(* with hasUnitsCycle() consulted first (85ba0d4, fx_cycle_guard = true: Units::equivalent answers false on a cyclic units and
   hasUnitsImports does not follow its references) the same input flattens, and correctly: u1 = [u1_1], u1_1 the base unit *)
Theorem C06_flatten_cycle_guard_returns :
  exists flat st, flatten_model 10 50 flat_current_fixes [term_lib] term_origin 100 = FOk (flat, st) /\
    map (fun u => (u_name u, map uc_ref (u_defs u))) (m_units flat) = [("u0", []); ("u1", ["u1_1"]); ("u1_1", [])].
Proof. exact FlattenTerm.flatten_cycle_guard_returns. Qed.
Print Assumptions C06_flatten_cycle_guard_returns.

(* the guard at the level of one call: C08's model runs out of fuel exactly on a units cycle; with the guard that is "false" *)
Theorem C06_equivalent_guarded_true_iff : forall fx libs ms ia na ib nb,
  units_equivalent_g fx libs ms ia na ib nb = FOk true -> units_equivalent libs ms ia na ib nb = FOk true.
Proof. exact FlattenProofs.ueg_true. Qed.
Print Assumptions C06_equivalent_guarded_true_iff.

(* ... but termination on acyclic import graphs is still not true of the code on HEAD: the recursion of
   transferUnitsRenamingIfRequired has no guard.  Bounded witness (acyclic imports, acyclic units per file, pre-checks pass; the
   library dies of stack exhaustion: hand_kf_transfer_recursion); the model answers FFuel with the fuel of the correspondence run
   and with much more.  NOT PROVED: that it does so for EVERY fuel (the state changes at every level: a generalised invariant
   was not written). *)
Theorem C06_flatten_with_guard_diverges_bounded :
  acyclic_imports [rec_lib] rec_origin (fun _ => 0) 1 /\
  flatten_model 40 400 flat_current_fixes [rec_lib] rec_origin 100 = FFuel /\
  flatten_model 400 1600 flat_current_fixes [rec_lib] rec_origin 100 = FFuel.
Proof. split; [exact FlattenTerm.rec_witness_acyclic | exact FlattenTerm.flatten_with_guard_diverges_bounded]. Qed.
Print Assumptions C06_flatten_with_guard_diverges_bounded.

(* The positive half, for the recursion that still diverges on HEAD -- transferUnitsRenamingIfRequired with the guarded
   Units::equivalent (FlattenTermPos.v).  Decidable hypothesis: ranked_b S rl = true, a boolean check that every reference of a
   units of the source list S to a units of S goes down in the rank assignment rl (the source's reference graph is acyclic:
   what it is for a clone of a valid imported file, and what a captured name destroys: capture_is_not_ranked).  Then, whatever
   units is transferred and from whatever state, fuel transfer_fuel_bound rl = max rank + 2 is enough: the result is never FFuel. *)
Theorem C06_flatten_terminates_without_capture_partial : forall rl fx libs orphan u s,
  fx_cycle_guard fx = true -> ranked_b (us_S s) rl = true ->
  transfer (transfer_fuel_bound rl) fx libs orphan u s <> FFuel.
Proof. exact FlattenTermPos.transfer_terminates_without_capture. Qed.
Print Assumptions C06_flatten_terminates_without_capture_partial.

(* the sharper form: references of rank < n need fuel n + 1 *)
Theorem C06_transfer_terminates : forall rl fuel n fx libs orphan u s,
  fx_cycle_guard fx = true -> ranked_b (us_S s) rl = true -> refs_below (us_S s) rl n u ->
  n < fuel -> transfer fuel fx libs orphan u s <> FFuel.
Proof. exact FlattenTermPos.transfer_terminates. Qed.
Print Assumptions C06_transfer_terminates.

(* the guarded Units::equivalent never diverges *)
Theorem C06_equivalent_guarded_total : forall fx libs ms ia na ib nb, fx_cycle_guard fx = true ->
  units_equivalent_g fx libs ms ia na ib nb <> FFuel.
Proof. exact FlattenTermPos.ueg_not_fuel. Qed.
Print Assumptions C06_equivalent_guarded_total.

(* not vacuous (hand case same_name_different_units: mm2 = mm^2 transferred next to another mm), and the hypothesis fails on
   the captured clone q = [q] of C06_flatten_with_guard_diverges_bounded *)
Example C06_transfer_terminates_nonvacuous :
  ranked_b (us_S tp_state) tp_ranks = true /\ transfer_fuel_bound tp_ranks = 3 /\
  exists s', transfer (transfer_fuel_bound tp_ranks) flat_current_fixes [] false tp_mm2 tp_state = FOk (s', true, [], "mm2") /\
             map (fun u => (u_name u, map uc_ref (u_defs u))) (us_T s') = [("mm", ["metre"]); ("mm_1", ["metre"]); ("mm2", ["mm_1"])].
Proof. exact FlattenTermPos.transfer_terminates_nonvacuous. Qed.
Print Assumptions C06_transfer_terminates_nonvacuous.

Example C06_capture_is_not_ranked : forall rl,
  ranked_b [ {| u_own := OFresh 1; u_name := "q"; u_imp := None; u_defs := [tp_uc "q" "" 1] |} ] rl = false.
Proof. exact FlattenTermPos.capture_is_not_ranked. Qed.
Print Assumptions C06_capture_is_not_ranked.

(* Two more fuelled recursions under the same decidable hypothesis and the same bound (FlattenTermPos2.v): Model::hasImports, the
   condition of 'while (flatModel->hasImports())' (hasUnitsImports walks the references of the flat model's units), and
   utilities.cpp referencedUnits (what unitsUsed runs for every units a component uses).  Both only read one units list; no guard
   is needed when the list is ranked. *)
Theorem C06_has_imports_terminates : forall rl fx libs fs, ranked_b (f_units fs) rl = true ->
  has_imports fx libs (transfer_fuel_bound rl) fs <> FFuel.
Proof. exact FlattenTermPos2.has_imports_terminates. Qed.
Print Assumptions C06_has_imports_terminates.

Theorem C06_referenced_units_terminates : forall rl U u, ranked_b U rl = true ->
  referenced_units (transfer_fuel_bound rl) U u <> FFuel.
Proof. exact FlattenTermPos2.referenced_units_terminates. Qed.
Print Assumptions C06_referenced_units_terminates.

(* not vacuous: mm, mm2 = mm^2 (hand case same_name_different_units), mm3 = mm2 * far, with / without the imported units far *)
Example C06_has_imports_terminates_nonvacuous :
  ranked_b (f_units (tp2_fs true)) tp2_ranks = true /\ ranked_b (f_units (tp2_fs false)) tp2_ranks = true /\
  transfer_fuel_bound tp2_ranks = 4 /\
  has_imports flat_current_fixes [] (transfer_fuel_bound tp2_ranks) (tp2_fs true) = FOk true /\
  has_imports flat_current_fixes [] (transfer_fuel_bound tp2_ranks) (tp2_fs false) = FOk false /\
  referenced_units (transfer_fuel_bound tp2_ranks) (f_units (tp2_fs true)) tp2_mm3 = FOk ["mm"; "mm2"; "far"] /\
  referenced_units 2 (f_units (tp2_fs true)) tp2_mm3 = FFuel.
Proof. exact FlattenTermPos2.has_imports_terminates_nonvacuous. Qed.
Print Assumptions C06_has_imports_terminates_nonvacuous.

(* the hypothesis is needed: on the captured list q = [q] both recursions run out of every fuel *)
Example C06_unranked_diverges : forall fuel,
  has_units_imports_go fuel [tp2_q] tp2_q = FFuel /\ referenced_units fuel [tp2_q] tp2_q = FFuel.
Proof. exact FlattenTermPos2.unranked_diverges. Qed.
Print Assumptions C06_unranked_diverges.

(* NOT PROVED: the same for the other fuelled loops (retrieve / flatten_units_imports, required_loop, flatten_component_imports,
   the two top loops, the NUMBER of while-hasImports rounds -- only its condition is covered), and the step from an INPUT-level predicate (no units name denoting different
   units in two files of the closure, no N_<digits> next to N: checks/c06.py case_facts) to "every source list handed to transfer
   is ranked": that needs the invariant that the required-units loop only writes names into the clone that are not names of the
   clone, which was not established.
   NOT PROVED (and false as stated, see above): C06_flatten_terminates_with_guard -- with fx_cycle_guard = true Units::equivalent no longer diverges
   (units_equivalent_g never answers FFuel: by definition), so on an acyclic import graph the remaining sources of FFuel are the
   model's own fuelled loops; termination with rounds = maximal import rank + 1 is plausible but needs a measure
   through nine fuelled functions (transfer, retrieve / flatten_units_imports, referenced_units, units_used, required_loop,
   flatten_component_imports, has_units_imports, the two top loops) -- referenced_units still recurses without a guard in the MODEL (in the
   code it is guarded too; unreachable after the pre-checks) --; not attempted beyond the statement.  C07's hang through an encapsulated child (C07-flatten-import-cycle-through-child) is
   no longer reachable after the pre-checks on HEAD: since 0a59695 hasUnresolvedImports follows the placeholder's children and
   flattenModel refuses that example ("The model has unresolved imports"). *)
