(** RoundtripOrderProofs.v — the grouping logic of the printer (C02), for every input order:
    printConnections neither loses nor repeats a map_variables, and opens exactly one connection per (ordered)
    component pair; printImports opens exactly one import element per ImportSource object and every imported entity
    has its element. *)
From Coq Require Import String Ascii List Bool ZArith Arith Lia Permutation.
From LC Require Import Common NumDefs XmlDefs EntTreeDefs PrintDefs LoadDefs RoundtripSpec.
Import ListNotations.
Local Open Scope string_scope.
Local Open Scope bool_scope.
Local Open Scope list_scope.

(** * connections *)

(** the groups printConnections forms: same recursion as [print_connections], entries instead of elements *)
Fixpoint conn_groups (l : list mapentry) (done : list (list nat * list nat)) : list (list mapentry) :=
  match l with
  | [] => []
  | e :: r =>
    if existsb (ppair_eqb (me_pair e)) done then conn_groups r done
    else (e :: filter (fun e' => ppair_eqb (me_pair e') (me_pair e)) r) :: conn_groups r (done ++ [me_pair e])
  end.

Definition render_group (av : string -> string) (cs : list component) (grp : list mapentry) : xml :=
  match grp with
  | [] => Comment
  | e :: _ =>
    el "connection"
       ([at_ "component_1" (av (comp_name_at cs (fst (me_pair e)))); at_ "component_2" (av (comp_name_at cs (snd (me_pair e))))]
        ++ opt_attr av "id" (last (map me_cid grp) ""))
       (map (print_map_variables av cs) grp)
  end.

Lemma print_connections_groups : forall av cs l done,
  print_connections av cs l done = map (render_group av cs) (conn_groups l done).
Proof.
  intros av cs. induction l as [|e r IH]; intros done; [reflexivity|].
  cbn [print_connections conn_groups]. destruct (existsb (ppair_eqb (me_pair e)) done); [apply IH|].
  cbn [map render_group]. rewrite IH. reflexivity.
Qed.

Lemma path_eqb_refl : forall p, path_eqb p p = true.
Proof. induction p as [|a p IH]; [reflexivity|]. cbn. now rewrite Nat.eqb_refl, IH. Qed.

Lemma path_eqb_eq : forall p q, path_eqb p q = true -> p = q.
Proof.
  induction p as [|a p IH]; intros [|b q] H; try discriminate; [reflexivity|].
  cbn in H. apply andb_true_iff in H. destruct H as [H1 H2]. apply Nat.eqb_eq in H1. subst. f_equal. now apply IH.
Qed.

Lemma ppair_eqb_refl : forall a, ppair_eqb a a = true.
Proof. intros [a b]. unfold ppair_eqb. cbn. now rewrite !path_eqb_refl. Qed.

Lemma ppair_eqb_eq : forall a b, ppair_eqb a b = true -> a = b.
Proof.
  intros [a1 a2] [b1 b2] H. unfold ppair_eqb in H. cbn in H. apply andb_true_iff in H. destruct H as [H1 H2].
  apply path_eqb_eq in H1. apply path_eqb_eq in H2. now subst.
Qed.

Definition in_done (done : list (list nat * list nat)) (e : mapentry) : bool := existsb (ppair_eqb (me_pair e)) done.

Lemma in_done_app : forall done p e, in_done (done ++ [p]) e = in_done done e || ppair_eqb (me_pair e) p.
Proof. intros. unfold in_done. rewrite existsb_app. cbn. now rewrite orb_false_r. Qed.

Lemma filter_split_perm : forall {A} (P : A -> bool) l, Permutation l (filter P l ++ filter (fun x => negb (P x)) l).
Proof.
  induction l as [|x l IH]; [constructor|]. cbn [filter]. destruct (P x); cbn [negb app].
  - now constructor.
  - apply Permutation_cons_app. exact IH.
Qed.

Lemma filter_filter_impl : forall {A} (P Q : A -> bool) l, (forall x, P x = true -> Q x = true) -> filter P l = filter P (filter Q l).
Proof.
  induction l as [|x l IH]; intros H; [reflexivity|]. cbn [filter]. destruct (P x) eqn:Ep.
  - rewrite (H x Ep). cbn [filter]. rewrite Ep. now rewrite IH.
  - destruct (Q x); cbn [filter]; [rewrite Ep|]; now apply IH.
Qed.

(** every entry whose pair is not already done ends up in exactly one group: the concatenation of the groups is a
    permutation of those entries *)
Theorem conn_groups_perm : forall l done,
  Permutation (concat (conn_groups l done)) (filter (fun e => negb (in_done done e)) l).
Proof.
  induction l as [|e r IH]; intros done; [constructor|].
  cbn [conn_groups filter]. fold (in_done done e).
  destruct (in_done done e) eqn:Ed; cbn [negb]; [apply IH|].
  cbn [concat app]. constructor.
  eapply Permutation_trans; [apply Permutation_app_head; apply IH|].
  (* the later entries not done before split into those of e's pair and the others *)
  assert (Hf : forall x, negb (in_done (done ++ [me_pair e]) x) = negb (in_done done x) && negb (ppair_eqb (me_pair x) (me_pair e))).
  { intros x. rewrite in_done_app, negb_orb. reflexivity. }
  rewrite (filter_ext _ _ Hf).
  (* entries of e's pair are never done before (their pair is e's, which is not done) *)
  assert (Hsame : filter (fun e' => ppair_eqb (me_pair e') (me_pair e)) r
                  = filter (fun e' => ppair_eqb (me_pair e') (me_pair e)) (filter (fun x => negb (in_done done x)) r)).
  { apply filter_filter_impl. intros x Hx. apply ppair_eqb_eq in Hx. unfold in_done in *. rewrite Hx, Ed. reflexivity. }
  rewrite Hsame.
  set (l0 := filter (fun x => negb (in_done done x)) r).
  assert (Hsplit : filter (fun x => negb (in_done done x) && negb (ppair_eqb (me_pair x) (me_pair e))) r
                   = filter (fun x => negb (ppair_eqb (me_pair x) (me_pair e))) l0).
  { unfold l0. clear. induction r as [|x r IHr]; [reflexivity|]. cbn [filter].
    destruct (negb (in_done done x)); cbn [andb filter]; [destruct (negb (ppair_eqb (me_pair x) (me_pair e))); now rewrite IHr | exact IHr]. }
  rewrite Hsplit. apply Permutation_sym. apply filter_split_perm.
Qed.

(** started with nothing done: no map_variables is lost, none is repeated *)
Corollary conn_groups_complete : forall l, Permutation (concat (conn_groups l [])) l.
Proof.
  intros l. eapply Permutation_trans; [apply conn_groups_perm|].
  rewrite (proj2 (filter_ext_in_iff _ (fun _ => true) l)); [|intros; reflexivity].
  clear. induction l; cbn; [constructor | now constructor].
Qed.

(** every group is uniform: all its entries join the same ordered component pair, the one of its head *)
Theorem conn_groups_uniform : forall l done grp, In grp (conn_groups l done) ->
  exists e rest, grp = e :: rest /\ forall x, In x rest -> me_pair x = me_pair e.
Proof.
  induction l as [|e r IH]; intros done grp H; [contradiction|]. cbn [conn_groups] in H.
  destruct (existsb (ppair_eqb (me_pair e)) done); [now apply (IH done)|].
  destruct H as [<-|H]; [|now apply (IH _ _ H)].
  eexists. eexists. split; [reflexivity|]. intros x Hx. apply filter_In in Hx. destruct Hx as [_ Hx]. now apply ppair_eqb_eq.
Qed.

(** one connection per ordered component pair: the heads of the groups have pairwise different pairs, none done before *)
Theorem conn_groups_distinct : forall l done,
  NoDup (map (fun grp => match grp with e :: _ => me_pair e | [] => ([], []) end) (conn_groups l done))
  /\ forall grp e rest, In grp (conn_groups l done) -> grp = e :: rest -> in_done done e = false.
Proof.
  induction l as [|e r IH]; intros done; [split; [constructor | intros ? ? ? []]|].
  cbn [conn_groups]. fold (in_done done e). destruct (in_done done e) eqn:Ed; [apply IH|].
  destruct (IH (done ++ [me_pair e])) as [Hnd Hnot]. split.
  - cbn [map]. constructor; [|exact Hnd]. intros Hin. apply in_map_iff in Hin. destruct Hin as (grp & Hg & Hgin).
    destruct grp as [|x rest]; [destruct (conn_groups_uniform _ _ _ Hgin) as (? & ? & Hc & _); discriminate|].
    specialize (Hnot _ x rest Hgin eq_refl). rewrite in_done_app in Hnot. apply orb_false_iff in Hnot. destruct Hnot as [_ Hx].
    rewrite Hg in Hx. rewrite ppair_eqb_refl in Hx. discriminate.
  - intros grp x rest [<-|Hin] Heq.
    + injection Heq as <- _. exact Ed.
    + specialize (Hnot _ x rest Hin Heq). rewrite in_done_app in Hnot. apply orb_false_iff in Hnot. tauto.
Qed.

(** * imports: collation of import sources by object identity *)

Lemma collate_acc_incl : forall l acc i, In i acc -> In i (collate l acc).
Proof.
  induction l as [|x l IH]; intros acc i H; [exact H|]. cbn [collate].
  destruct (existsb _ acc); apply IH; [exact H | apply in_or_app; now left].
Qed.

(** every source of the input is represented (by the first source carrying its tag) *)
Theorem collate_covers : forall l acc i, In i l -> exists j, In j (collate l acc) /\ is_tag j = is_tag i.
Proof.
  induction l as [|x l IH]; intros acc i H; [contradiction|]. cbn [collate]. destruct H as [->|H].
  - destruct (existsb (fun j => Nat.eqb (is_tag j) (is_tag i)) acc) eqn:Ee.
    + apply existsb_exists in Ee. destruct Ee as (j & Hj & He). apply Nat.eqb_eq in He. exists j. split; [now apply collate_acc_incl | exact He].
    + exists i. split; [apply collate_acc_incl; apply in_or_app; right; now left | reflexivity].
  - destruct (existsb _ acc); now apply IH.
Qed.

(** one import element per ImportSource object *)
Theorem collate_nodup : forall l acc, NoDup (map is_tag acc) -> NoDup (map is_tag (collate l acc)).
Proof.
  induction l as [|x l IH]; intros acc H; [exact H|]. cbn [collate].
  destruct (existsb (fun j => Nat.eqb (is_tag j) (is_tag x)) acc) eqn:Ee; [now apply IH|].
  apply IH. rewrite map_app. cbn [map].
  assert (Hx : ~ In (is_tag x) (map is_tag acc)).
  { intros Hin. apply in_map_iff in Hin. destruct Hin as (j & Hj & Hjin).
    assert (existsb (fun j => Nat.eqb (is_tag j) (is_tag x)) acc = true) by (apply existsb_exists; exists j; split; [exact Hjin | now apply Nat.eqb_eq]).
    congruence. }
  clear - H Hx. induction (map is_tag acc) as [|a t IHt]; [constructor; [intros [] | constructor]|].
  inversion H; subst. cbn [app]. constructor.
  - intros Hin. apply in_app_or in Hin. destruct Hin as [Hin|[Hin|[]]]; [contradiction|]. apply Hx. left. now symmetry.
  - apply IHt; [assumption|]. intros Hin. apply Hx. now right.
Qed.

Corollary the_sources_nodup : forall m, NoDup (map is_tag (the_sources m)).
Proof. intros. unfold the_sources. apply collate_nodup. constructor. Qed.

(** every imported units / component is written under the import element of its own source *)
Theorem imported_units_covered : forall m u i, In u (m_units m) -> u_src u = Some i ->
  exists j, In j (the_sources m) /\ tag_is (is_tag j) (u_src u) = true.
Proof.
  intros m u i Hu Hs. unfold the_sources.
  destruct (collate_covers (flat_map (fun c => match c_src (shell c) with Some i => [i] | None => [] end) (imported_components (m_comps m))
                            ++ flat_map (fun u => match u_src u with Some i => [i] | None => [] end) (imported_units (m_units m))) [] i) as (j & Hj & Ht).
  - apply in_or_app. right. apply in_flat_map. exists u. split.
    + unfold imported_units. apply filter_In. split; [exact Hu|]. unfold is_import_units. now rewrite Hs.
    + rewrite Hs. now left.
  - exists j. split; [exact Hj|]. rewrite Hs. cbn. now apply Nat.eqb_eq.
Qed.
