(* FlattenOwn.v -- C06: the write log of the flattening model names only objects created during flattening
   (identity-tag argument for "the model passed in and the library models are left unchanged"). *)
From Coq Require Import List String Ascii ZArith QArith Bool Arith Lia.
From LC Require Import Common NumDefs UnitsDefs FlattenDefs.
Import ListNotations.
Local Open Scope string_scope.
Local Open Scope nat_scope.
Local Open Scope list_scope.

Definition fresh_o (o : owner) : Prop := is_fresh o = true.
Definition fresh_u (u : units) : Prop := fresh_o (u_own u).
Definition fresh_us (l : list units) : Prop := Forall fresh_u l.
Definition fresh_c (c : comp) : Prop := Forall fresh_o (comp_owners c).
Definition fresh_cs (l : list comp) : Prop := Forall fresh_c l.

(* ---------------------------------------------------------------- the log *)

Lemma wlog_ok_app_fresh : forall l1 l2, Forall fresh_o l1 -> wlog_ok (l1 ++ l2) = wlog_ok l2.
Proof.
  induction l1 as [|o r IH]; intros l2 H; [reflexivity|]. inversion H as [|? ? Ho Hr]; subst.
  cbn [app]. destruct o; try discriminate Ho. cbn [wlog_ok]. apply IH. exact Hr.
Qed.

Lemma logs_ok : forall os st, Forall fresh_o os -> wlog_ok (wlog (logs os st)) = wlog_ok (wlog st).
Proof. intros os st H. unfold logs. cbn [wlog]. apply wlog_ok_app_fresh. apply Forall_rev. exact H. Qed.

Lemma log1_ok : forall o st, fresh_o o -> wlog_ok (wlog (log1 o st)) = wlog_ok (wlog st).
Proof. intros o st H. unfold log1. cbn [wlog]. destruct o; try discriminate H. reflexivity. Qed.

Lemma fresh_wlog : forall st, wlog (snd (fresh st)) = wlog st.
Proof. reflexivity. Qed.

(* ---------------------------------------------------------------- units lists *)

Lemma fresh_remove : forall n l, fresh_us l -> fresh_us (remove_units n l).
Proof.
  intros n l. induction l as [|u r IH]; intros H; [constructor|]. inversion H; subst. cbn [remove_units].
  destruct (String.eqb (u_name u) n); [assumption | constructor; [assumption | apply IH; assumption]].
Qed.

Lemma fresh_update : forall n f l, (forall u, fresh_u u -> fresh_u (f u)) -> fresh_us l -> fresh_us (update_units n f l).
Proof.
  intros n f l Hf. induction l as [|u r IH]; intros H; [constructor|]. inversion H; subst. cbn [update_units].
  destruct (String.eqb (u_name u) n); constructor; auto; apply IH; assumption.
Qed.

Lemma fresh_set_nth : forall i (u : units) l, fresh_u u -> fresh_us l -> fresh_us (set_nth i u l).
Proof.
  intros i u l Hu. revert i. induction l as [|x r IH]; intros i H; [destruct i; constructor|]. inversion H; subst.
  destruct i; cbn [set_nth]; constructor; auto. apply IH. assumption.
Qed.

Lemma fresh_find : forall n l u, fresh_us l -> find_units n l = Some u -> fresh_u u.
Proof.
  intros n l. induction l as [|x r IH]; intros u H E; [discriminate|]. inversion H; subst. cbn [find_units] in E.
  destruct (String.eqb (u_name x) n); [inversion E; subst; assumption | apply IH; assumption].
Qed.

Lemma fresh_nth : forall i l (u : units), fresh_us l -> nth_error l i = Some u -> fresh_u u.
Proof. intros i l u H E. apply nth_error_In in E. unfold fresh_us in H. rewrite Forall_forall in H. apply H. exact E. Qed.

Lemma fresh_app1 : forall l u, fresh_us l -> fresh_u u -> fresh_us (l ++ [u]).
Proof. intros l u Hl Hu. apply Forall_app. split; [exact Hl | constructor; [exact Hu | constructor]]. Qed.

Lemma fresh_clone_list : forall t l, fresh_us (clone_units_list (OFresh t) l).
Proof. intros t l. unfold clone_units_list. apply Forall_forall. intros u Hin. apply in_map_iff in Hin. destruct Hin as [x [E _]]. subst. reflexivity. Qed.

Lemma fresh_set_ref : forall i r u, fresh_u u -> fresh_u (u_set_ref i r u).
Proof. intros i r u H. unfold u_set_ref. destruct (nth_error (u_defs u) i); exact H. Qed.

(* ---------------------------------------------------------------- the units state *)

Record ust_ok (s : ust) : Prop := {
  uo_S : fresh_us (us_S s); uo_T : fresh_us (us_T s);
  uo_So : fresh_o (us_So s); uo_To : fresh_o (us_To s);
  uo_log : wlog_ok (wlog (us_st s)) = true }.

Lemma us_log_ok : forall os s, Forall fresh_o os -> ust_ok s -> ust_ok (us_log os s).
Proof.
  intros os s Ho [H1 H2 H3 H4 H5]. constructor; try assumption. unfold us_log, us_with_st. cbn [us_st]. rewrite (logs_ok os (us_st s) Ho). exact H5.
Qed.

Lemma us_op_ok : forall a b s, ust_ok s -> ust_ok (us_op a b s).
Proof. intros a b s [H1 H2 H3 H4 H5]. unfold us_op. destruct (us_comp s); constructor; assumption. Qed.

Lemma us_with_T_ok : forall T s, fresh_us T -> ust_ok s -> ust_ok (us_with_T T s).
Proof. intros T s HT [H1 H2 H3 H4 H5]. constructor; assumption. Qed.

Lemma us_with_S_ok : forall S o s, fresh_us S -> fresh_o o -> ust_ok s -> ust_ok (us_with_S S o s).
Proof. intros S o s HS Ho [H1 H2 H3 H4 H5]. constructor; assumption. Qed.

Lemma us_with_st_clone_ok : forall src s, ust_ok s -> ust_ok (us_with_st (snd (clone_units src (us_st s))) s) /\ fresh_u (fst (clone_units src (us_st s))).
Proof.
  intros src s [H1 H2 H3 H4 H5]. unfold clone_units. cbn. split; [constructor; assumption | reflexivity].
Qed.

Definition transfer_ok (rec : units -> ust -> fres transfer_result) : Prop :=
  forall u s s' m c n, fresh_u u -> ust_ok s -> rec u s = FOk (s', m, c, n) -> ust_ok s'.

Lemma transfer_kids_ok : forall rec fx, transfer_ok rec ->
  forall k i u s u1 s1, fresh_u u -> ust_ok s -> transfer_kids rec fx k i u s = FOk (u1, s1) -> ust_ok s1 /\ fresh_u u1.
Proof.
  intros rec fx Hrec. induction k as [|k IH]; intros i u s u1 s1 Hu Hs H; cbn [transfer_kids] in H.
  - inversion H; subst. split; assumption.
  - destruct (nth_error (u_defs u) i) as [d|]; [|inversion H; subst; split; assumption].
    destruct (negb (str_is_empty (uc_ref d)) && negb (is_std_name (uc_ref d)) && has_units (uc_ref d) (us_S s)).
    + destruct (find_units (uc_ref d) (us_S s)) as [src|]; [|discriminate].
      destruct (us_with_st_clone_ok src s Hs) as [Hs1 Hc].
      destruct (clone_units src (us_st s)) as [child st1]. cbn [fst snd] in Hs1, Hc.
      destruct (rec child (us_with_st st1 s)) as [[[[s2 mv] ch] fn]| | |] eqn:Er; cbn [fbind] in H; try discriminate.
      apply (IH _ _ _ _ _ (fresh_set_ref _ _ _ Hu)) in H; [exact H|].
      apply us_log_ok; [constructor; [exact Hu | constructor]|]. apply (Hrec _ _ _ _ _ _ Hc Hs1 Er).
    + apply (IH _ _ _ _ _ Hu Hs H).
Qed.

Lemma transfer_preserves_ok : forall fuel fx libs orphan, transfer_ok (transfer fuel fx libs orphan).
Proof.
  induction fuel as [|f IH]; intros fx libs orphan u s s' m c n Hu Hs H; cbn [transfer] in H; [discriminate|].
  destruct (models_equivalent_units fx libs (us_T s) (transfer_home orphan u s) (transfer_qname orphan u) (us_T s)) as [tg| | |];
    cbn [fbind] in H; try discriminate.
  destruct tg as [tname|].
  - destruct (String.eqb tname (u_name u)); inversion H; subst; [exact Hs | apply us_op_ok; exact Hs].
  - destruct (transfer_kids (transfer f fx libs true) fx (List.length (u_defs u)) 0 u s) as [[u1 s1]| | |] eqn:Ek;
      cbn [fbind] in H; try discriminate.
    destruct (transfer_kids_ok _ fx (IH fx libs true) _ _ _ _ _ _ Hu Hs Ek) as [Hs1 Hu1].
    destruct (free_name (map u_name (us_T s1)) (u_name u1)) as [newname|]; [|discriminate].
    assert (Hfinal : forall renamed,
      ust_ok (us_log ((if (renamed : bool) then [u_own u] else []) ++
                      [us_To (if orphan then us_with_T (us_T s1 ++ [u_set_name newname u1]) s1
                              else us_with_S (remove_units (u_name u1) (us_S (us_with_T (us_T s1 ++ [u_set_name newname u1]) s1)))
                                             (us_So (us_with_T (us_T s1 ++ [u_set_name newname u1]) s1))
                                             (us_with_T (us_T s1 ++ [u_set_name newname u1]) s1))] ++
                      (if orphan then [] else [us_So (if orphan then us_with_T (us_T s1 ++ [u_set_name newname u1]) s1
                              else us_with_S (remove_units (u_name u1) (us_S (us_with_T (us_T s1 ++ [u_set_name newname u1]) s1)))
                                             (us_So (us_with_T (us_T s1 ++ [u_set_name newname u1]) s1))
                                             (us_with_T (us_T s1 ++ [u_set_name newname u1]) s1))]))
                     (if orphan then us_with_T (us_T s1 ++ [u_set_name newname u1]) s1
                      else us_with_S (remove_units (u_name u1) (us_S (us_with_T (us_T s1 ++ [u_set_name newname u1]) s1)))
                                     (us_So (us_with_T (us_T s1 ++ [u_set_name newname u1]) s1))
                                     (us_with_T (us_T s1 ++ [u_set_name newname u1]) s1)))).
    { intros renamed. destruct Hs1 as [A1 A2 A3 A4 A5].
      assert (HT : fresh_us (us_T s1 ++ [u_set_name newname u1])) by (apply fresh_app1; [exact A2 | exact Hu1]).
      apply us_log_ok.
      - apply Forall_app. split; [destruct renamed; [constructor; [exact Hu | constructor] | constructor]|].
        apply Forall_app. split; [constructor; [destruct orphan; exact A4 | constructor]|].
        destruct orphan; [constructor | constructor; [exact A3 | constructor]].
      - destruct orphan.
        + apply us_with_T_ok; [exact HT | constructor; assumption].
        + apply us_with_S_ok; [apply fresh_remove; exact A1 | exact A3 | apply us_with_T_ok; [exact HT | constructor; assumption]]. }
    destruct (negb (String.eqb (u_name u1) newname)) eqn:Er; inversion H; subst.
    + apply us_op_ok. apply (Hfinal true).
    + apply (Hfinal false).
Qed.

(* ---------------------------------------------------------------- retrieveUnitsDependencies / flattenUnitsImports *)

Lemma upd_loc_ok : forall l f s, (forall u, fresh_u u -> fresh_u (f u)) -> ust_ok s -> ust_ok (upd_loc l f s).
Proof.
  intros l f s Hf Hs. destruct l as [i|n]; cbn [upd_loc].
  - destruct (nth_error (us_T s) i) as [u|] eqn:E; [|exact Hs].
    pose proof (fresh_nth _ _ _ (uo_T _ Hs) E) as Hu.
    apply us_log_ok; [constructor; [exact Hu | constructor]|].
    apply us_with_T_ok; [apply fresh_set_nth; [apply Hf; exact Hu | apply (uo_T _ Hs)] | exact Hs].
  - destruct (find_units n (us_S s)) as [u|] eqn:E; [|exact Hs].
    pose proof (fresh_find _ _ _ (uo_S _ Hs) E) as Hu.
    apply us_log_ok; [constructor; [exact Hu | constructor]|].
    apply us_with_S_ok; [apply fresh_update; [exact Hf | apply (uo_S _ Hs)] | apply (uo_So _ Hs) | exact Hs].
Qed.

Definition ust_fun_ok {A} (rec : A -> ust -> fres ust) : Prop := forall a s s', ust_ok s -> rec a s = FOk s' -> ust_ok s'.

Lemma retrieve_go_ok : forall rf rt rr fx l, ust_fun_ok rf -> transfer_ok rt -> ust_fun_ok rr ->
  forall k i s s', ust_ok s -> retrieve_go rf rt rr fx l k i s = FOk s' -> ust_ok s'.
Proof.
  intros rf rt rr fx l Hf Ht Hr. induction k as [|k IH]; intros i s s' Hs H; cbn [retrieve_go] in H.
  - inversion H; subst. exact Hs.
  - destruct (get_loc l s) as [u|]; [|discriminate].
    destruct (nth_error (u_defs u) i) as [d|]; [|inversion H; subst; exact Hs].
    destruct (negb (str_is_empty (uc_ref d)) && negb (is_std_name (uc_ref d)) && has_units (uc_ref d) (us_S s)); [|apply (IH _ _ _ Hs H)].
    destruct (find_units (uc_ref d) (us_S s)) as [child|] eqn:Ec; [|discriminate].
    pose proof (fresh_find _ _ _ (uo_S _ Hs) Ec) as Hch.
    destruct (u_imp child).
    + match type of H with (do s2 <- rf ?idx ?s1; _) = _ => destruct (rf idx s1) as [s2| | |] eqn:E2; cbn [fbind] in H; try discriminate;
        assert (Hs1 : ust_ok s1) end.
      { apply us_log_ok; [constructor; [apply (uo_So _ Hs) | constructor; [apply (uo_To _ Hs) | constructor]]|].
        apply us_with_S_ok; [apply fresh_remove; apply (uo_S _ Hs) | apply (uo_So _ Hs)|].
        apply us_with_T_ok; [apply fresh_app1; [apply (uo_T _ Hs) | exact Hch] | exact Hs]. }
      apply (IH _ _ _ (Hf _ _ _ Hs1 E2) H).
    + destruct (rt child s) as [[[[s1 moved] changed] fname]| | |] eqn:E1; cbn [fbind] in H; try discriminate.
      pose proof (Ht _ _ _ _ _ _ Hch Hs E1) as Hs1.
      match type of H with (do s3 <- rr ?l' ?s2; _) = _ => destruct (rr l' s2) as [s3| | |] eqn:E3; cbn [fbind] in H; try discriminate;
        assert (Hs2 : ust_ok s2) by (apply upd_loc_ok; [intros x Hx; apply fresh_set_ref; exact Hx | exact Hs1]) end.
      apply (IH _ _ _ (Hr _ _ _ Hs2 E3) H).
Qed.

Lemma retrieve_flatten_ok : forall fuel fx libs,
  ust_fun_ok (retrieve fuel fx libs) /\ ust_fun_ok (flatten_units_imports fuel fx libs).
Proof.
  induction fuel as [|f IH]; intros fx libs; split; intros a s s' Hs H; try (cbn in H; discriminate).
  - cbn [retrieve] in H. destruct (get_loc a s) as [u0|]; [|discriminate].
    destruct (IH fx libs) as [Hr Hf].
    apply (retrieve_go_ok _ _ _ fx a Hf (transfer_preserves_ok f fx libs false) Hr _ _ _ _ Hs H).
  - cbn [flatten_units_imports] in H.
    destruct (nth_error (us_T s) a) as [units|] eqn:En; [|discriminate].
    destruct (u_imp units) as [im|]; [|discriminate].
    destruct (nth_error libs (i_lib im)) as [L|]; [|discriminate].
    cbn [fresh fst snd] in H.
    destruct (find_units (i_ref im) (clone_units_list (OFresh (nx (us_st s))) (m_units L))) as [imported|] eqn:Ei; [|discriminate].
    pose proof (fresh_find _ _ _ (fresh_clone_list _ _) Ei) as Him.
    match type of H with (do s2 <- retrieve f fx libs ?l ?s1; _) = _ =>
      destruct (retrieve f fx libs l s1) as [s2| | |] eqn:E2; cbn [fbind] in H; try discriminate; assert (Hs1 : ust_ok s1) end.
    { destruct Hs as [A1 A2 A3 A4 A5]. constructor; cbn [us_S us_T us_So us_To us_st].
      - apply fresh_remove. apply fresh_clone_list.
      - apply fresh_set_nth; [exact Him | exact A2].
      - reflexivity.
      - exact A4.
      - rewrite logs_ok; [exact A5|]. repeat constructor; try exact Him; try exact A4. }
    inversion H; subst s'. destruct (IH fx libs) as [Hr _].
    apply us_with_S_ok; [apply (uo_S _ Hs) | apply (uo_So _ Hs) | apply (Hr _ _ _ Hs1 E2)].
Qed.

(* ---------------------------------------------------------------- the loop over the required units *)

Lemma clone_units_fresh : forall u st, fresh_u (fst (clone_units u st)) /\ wlog (snd (clone_units u st)) = wlog st.
Proof. intros u st. unfold clone_units. cbn. split; reflexivity. Qed.

Lemma required_loop_ok : forall fuel fx libs uniq cim co s unr cim' s' unr',
  fresh_us cim -> fresh_o co -> ust_ok s ->
  required_loop fuel fx libs uniq cim co s unr = FOk (cim', s', unr') -> fresh_us cim' /\ ust_ok s'.
Proof.
  intros fuel fx libs uniq. induction uniq as [|n rest IH]; intros cim co s unr cim' s' unr' Hc Hco Hs H; cbn [required_loop] in H.
  - inversion H; subst. split; assumption.
  - destruct (find_units n cim) as [units|] eqn:Eu; [|discriminate].
    pose proof (fresh_find _ _ _ Hc Eu) as Hun.
    match type of H with (do r <- ?X; _) = _ => destruct X as [[[[[cim1 repl] orphan] ops1] st1]| | |] eqn:Er; cbn [fbind] in H; try discriminate end.
    assert (Hr : fresh_us cim1 /\ fresh_u repl /\ wlog_ok (wlog st1) = true).
    { destruct (u_imp units).
      - destruct (index_units n cim) as [idx|]; [|discriminate].
        match type of Er with (do s1 <- flatten_units_imports fuel fx libs idx ?s0; _) = _ =>
          destruct (flatten_units_imports fuel fx libs idx s0) as [s1| | |] eqn:Ef; cbn [fbind] in Er; try discriminate;
          assert (Hs0 : ust_ok s0) by (constructor; cbn; [constructor | exact Hc | exact Hco | exact Hco | apply (uo_log _ Hs)]) end.
        pose proof (proj2 (retrieve_flatten_ok fuel fx libs) _ _ _ Hs0 Ef) as Hs1.
        destruct (nth_error (us_T s1) idx) as [flattened|] eqn:En; [|discriminate].
        destruct (clone_units_fresh flattened (us_st s1)) as [Hf Hw].
        destruct (clone_units flattened (us_st s1)) as [r2 st2]. cbn [fst snd] in Hf, Hw. inversion Er; subst.
        split; [apply (uo_T _ Hs1)|]. split; [exact Hf|]. rewrite Hw. apply (uo_log _ Hs1).
      - inversion Er; subst. split; [exact Hc|]. split; [exact Hun | apply (uo_log _ Hs)]. }
    destruct Hr as [Hc1 [Hrepl Hw1]].
    match type of H with (do t <- transfer fuel fx libs orphan ?r' ?s2; _) = _ =>
      destruct (transfer fuel fx libs orphan r' s2) as [[[[s3 mv] changed] fn]| | |] eqn:Et; cbn [fbind] in H; try discriminate;
      assert (Hs2 : ust_ok s2); [|assert (Hr' : fresh_u r') by exact Hrepl] end.
    { constructor; cbn [us_S us_T us_So us_To us_st].
      - destruct orphan; [exact Hc1 | apply fresh_update; [intros; exact Hrepl | exact Hc1]].
      - apply (uo_T _ Hs).
      - exact Hco.
      - apply (uo_To _ Hs).
      - rewrite log1_ok; [exact Hw1 | exact Hrepl]. }
    pose proof (transfer_preserves_ok fuel fx libs orphan _ _ _ _ _ _ Hr' Hs2 Et) as Hs3.
    apply (IH _ _ _ _ _ _ _ (uo_S _ Hs3) Hco Hs3 H).
Qed.

(* ---------------------------------------------------------------- component trees *)

Lemma comp_owners_unfold : forall o n i m v kids, comp_owners (Comp o n i m v kids) = o :: flat_map comp_owners kids.
Proof. reflexivity. Qed.

Lemma fresh_c_kids : forall c, fresh_c c -> fresh_cs (c_kids c).
Proof.
  intros [o n i m v kids] H. unfold fresh_c in H. rewrite comp_owners_unfold in H. inversion H as [|? ? _ Hk]; subst. cbn [c_kids].
  unfold fresh_cs. apply Forall_forall. intros k Hin. unfold fresh_c. apply Forall_forall. intros x Hx.
  rewrite Forall_forall in Hk. apply Hk. apply in_flat_map. exists k. split; assumption.
Qed.

Lemma fresh_c_make : forall o n i m v kids, fresh_o o -> fresh_cs kids -> fresh_c (Comp o n i m v kids).
Proof.
  intros o n i m v kids Ho Hk. unfold fresh_c. rewrite comp_owners_unfold. constructor; [exact Ho|].
  apply Forall_forall. intros x Hx. apply in_flat_map in Hx. destruct Hx as [k [Hin Hx]].
  unfold fresh_cs in Hk. rewrite Forall_forall in Hk. specialize (Hk k Hin). unfold fresh_c in Hk. rewrite Forall_forall in Hk. apply Hk. exact Hx.
Qed.

Lemma fresh_c_own : forall c, fresh_c c -> fresh_o (c_own c).
Proof. intros [o n i m v kids] H. unfold fresh_c in H. rewrite comp_owners_unfold in H. inversion H; assumption. Qed.

Lemma fresh_cs_nth : forall l i c, fresh_cs l -> nth_error l i = Some c -> fresh_c c.
Proof. intros l i c H E. apply nth_error_In in E. unfold fresh_cs in H. rewrite Forall_forall in H. apply H. exact E. Qed.

Lemma comp_at_fresh : forall p l c, fresh_cs l -> comp_at l p = Some c -> fresh_c c.
Proof.
  induction p as [|i p IH]; intros l c Hl H; [discriminate|]. cbn [comp_at] in H. destruct p as [|j p'].
  - apply (fresh_cs_nth _ _ _ Hl H).
  - destruct (nth_error l i) as [c0|] eqn:E; [|discriminate].
    apply (IH _ _ (fresh_c_kids _ (fresh_cs_nth _ _ _ Hl E)) H).
Qed.

Lemma fresh_cs_set_nth : forall i (c : comp) l, fresh_c c -> fresh_cs l -> fresh_cs (set_nth i c l).
Proof.
  intros i c l Hc. revert i. induction l as [|x r IH]; intros i H; [destruct i; constructor|]. inversion H; subst.
  destruct i; cbn [set_nth]; constructor; auto. apply IH. assumption.
Qed.

Lemma c_set_kids_fresh : forall c kids, fresh_c c -> fresh_cs kids -> fresh_c (c_set_kids kids c).
Proof. intros [o n i m v k0] kids Hc Hk. cbn [c_set_kids]. apply fresh_c_make; [apply (fresh_c_own _ Hc) | exact Hk]. Qed.

Lemma update_at_fresh : forall p l f, fresh_cs l -> (forall c, fresh_c c -> fresh_c (f c)) -> fresh_cs (update_at l p f).
Proof.
  induction p as [|i p IH]; intros l f Hl Hf; [exact Hl|]. cbn [update_at]. destruct p as [|j p'].
  - destruct (nth_error l i) as [c|] eqn:E; [|exact Hl]. apply fresh_cs_set_nth; [apply Hf; apply (fresh_cs_nth _ _ _ Hl E) | exact Hl].
  - destruct (nth_error l i) as [c|] eqn:E; [|exact Hl]. pose proof (fresh_cs_nth _ _ _ Hl E) as Hc.
    apply fresh_cs_set_nth; [|exact Hl]. apply c_set_kids_fresh; [exact Hc|]. apply IH; [apply fresh_c_kids; exact Hc | exact Hf].
Qed.

Lemma clone_comp_unfold : forall o o0 nm i m vars kids n,
  clone_comp o (Comp o0 nm i m vars kids) n =
  let (vars', n1) := clone_vars vars n in
  let (kids', n2) := clone_comps o kids n1 in (Comp o nm i m vars' kids', n2).
Proof.
  intros o o0 nm i m vars kids n. cbn [clone_comp]. destruct (clone_vars vars n) as [vars' n1].
  assert (E : forall l n0,
    (fix go (l : list comp) (n : nat) {struct l} : list comp * nat :=
       match l with
       | [] => ([], n)
       | k :: r => let (k', n') := clone_comp o k n in let (r', n'') := go r n' in (k' :: r', n'')
       end) l n0 = clone_comps o l n0).
  { induction l as [|k r IHr]; intros n0; [reflexivity|]. cbn [clone_comps]. destruct (clone_comp o k n0) as [k' n']. rewrite IHr. reflexivity. }
  rewrite E. reflexivity.
Qed.

Section CompInd.
  Variable P : comp -> Prop.
  Hypothesis HP : forall o n i m v kids, Forall P kids -> P (Comp o n i m v kids).
  Fixpoint comp_ind2 (c : comp) : P c :=
    match c with
    | Comp o n i m v kids =>
        HP o n i m v kids ((fix go (l : list comp) : Forall P l :=
                             match l with
                             | [] => Forall_nil P
                             | k :: r => Forall_cons k (comp_ind2 k) (go r)
                             end) kids)
    end.
End CompInd.

Lemma clone_comp_owners : forall o c n, Forall (fun x => x = o) (comp_owners (fst (clone_comp o c n))).
Proof.
  intros o c. induction c as [o0 nm i m vars kids IHk] using comp_ind2. intros n. rewrite clone_comp_unfold.
  destruct (clone_vars vars n) as [vars' n1].
  assert (Hgo : forall l n0, Forall (fun k => forall n, Forall (fun x => x = o) (comp_owners (fst (clone_comp o k n)))) l ->
                 Forall (fun x => x = o) (flat_map comp_owners (fst (clone_comps o l n0)))).
  { induction l as [|k r IHr]; intros n0 Hall; cbn [clone_comps]; [constructor|].
    inversion Hall as [|? ? Hk Hr]; subst. specialize (Hk n0). destruct (clone_comp o k n0) as [k' n']. cbn [fst] in Hk.
    specialize (IHr n' Hr). destruct (clone_comps o r n') as [r' n'']. cbn [fst flat_map] in *.
    apply Forall_app. split; assumption. }
  specialize (Hgo kids n1 IHk). destruct (clone_comps o kids n1) as [kids' n2]. cbn [fst] in *. rewrite comp_owners_unfold.
  constructor; [reflexivity | exact Hgo].
Qed.

Lemma clone_comp_fresh : forall t c n, fresh_c (fst (clone_comp (OFresh t) c n)).
Proof.
  intros t c n. unfold fresh_c. pose proof (clone_comp_owners (OFresh t) c n) as H.
  rewrite Forall_forall in *. intros x Hx. rewrite (H x Hx). reflexivity.
Qed.

Lemma rename_first_unfold : forall n new o nm i m v kids,
  rename_first n new (Comp o nm i m v kids) =
  if String.eqb nm n then (Comp o new i m v kids, true)
  else let (kids', d) := rename_first_in n new kids in (Comp o nm i m v kids', d).
Proof.
  intros n new o nm i m v kids. cbn [rename_first]. destruct (String.eqb nm n); [reflexivity|].
  assert (E : forall l,
    (fix go (l : list comp) : list comp * bool :=
       match l with
       | [] => ([], false)
       | k :: r => let (k', d) := rename_first n new k in
                   if d then (k' :: r, true) else let (r', d') := go r in (k :: r', d')
       end) l = rename_first_in n new l).
  { induction l as [|k r IHr]; [reflexivity|]. cbn [rename_first_in]. destruct (rename_first n new k) as [k' d]. destruct d; [reflexivity|].
    rewrite IHr. reflexivity. }
  rewrite E. reflexivity.
Qed.

Lemma rename_first_owners : forall n new c, comp_owners (fst (rename_first n new c)) = comp_owners c.
Proof.
  intros n new c. induction c as [o nm i m v kids IHk] using comp_ind2. rewrite rename_first_unfold.
  destruct (String.eqb nm n); [reflexivity|].
  assert (Hin : flat_map comp_owners (fst (rename_first_in n new kids)) = flat_map comp_owners kids).
  { induction kids as [|k r IHr]; [reflexivity|]. inversion IHk as [|? ? Hk Hr]; subst. cbn [rename_first_in].
    destruct (rename_first n new k) as [k' d] eqn:Ek. cbn [fst] in Hk. destruct d.
    - cbn [fst flat_map]. rewrite Hk. reflexivity.
    - specialize (IHr Hr). destruct (rename_first_in n new r) as [r' d']. cbn [fst flat_map] in *. rewrite IHr. reflexivity. }
  destruct (rename_first_in n new kids) as [kids' d]. cbn [fst] in *. rewrite !comp_owners_unfold, Hin. reflexivity.
Qed.

Lemma rename_first_in_owners : forall n new l, flat_map comp_owners (fst (rename_first_in n new l)) = flat_map comp_owners l.
Proof.
  intros n new l. induction l as [|k r IH]; [reflexivity|]. cbn [rename_first_in].
  pose proof (rename_first_owners n new k) as Hk. destruct (rename_first n new k) as [k' d]. cbn [fst] in Hk. destruct d.
  - cbn [fst flat_map]. rewrite Hk. reflexivity.
  - destruct (rename_first_in n new r) as [r' d']. cbn [fst flat_map] in *. rewrite IH. reflexivity.
Qed.

Definition owners_of (l : list comp) : list owner := flat_map comp_owners l.

Lemma fresh_cs_owners : forall l, fresh_cs l <-> Forall fresh_o (owners_of l).
Proof.
  intros l. unfold fresh_cs, fresh_c, owners_of. rewrite !Forall_forall. split.
  - intros H x Hx. apply in_flat_map in Hx. destruct Hx as [c [Hc Hx]]. specialize (H c Hc). rewrite Forall_forall in H. apply H. exact Hx.
  - intros H c Hc. apply Forall_forall. intros x Hx. apply H. apply in_flat_map. exists c. split; assumption.
Qed.

Lemma declash_step_owners : forall fx compNames ck pk used done orig ck' pk' used' done',
  declash_step fx compNames (FOk (ck, pk, used, done)) orig = FOk (ck', pk', used', done') ->
  owners_of ck' = owners_of ck /\ owners_of pk' = owners_of pk.
Proof.
  intros fx compNames ck pk used done orig ck' pk' used' done' H. unfold declash_step in H. cbn [fbind] in H.
  destruct (mem_str orig compNames); [|inversion H; subst; split; reflexivity].
  destruct (if fx_clash fx then find_free (S (List.length used)) used orig 1 else find_free (S (List.length compNames)) compNames orig 1) as [newname|];
    [|discriminate].
  pose proof (rename_first_in_owners orig newname ck) as Hc. destruct (rename_first_in orig newname ck) as [ck1 d]. cbn [fst] in Hc.
  inversion H; subst. split; [exact Hc|]. destruct d; [reflexivity | apply rename_first_in_owners].
Qed.

Lemma declash_fold_owners : forall fx compNames keys ck pk used done ck' pk' used' done',
  fold_left (declash_step fx compNames) keys (FOk (ck, pk, used, done)) = FOk (ck', pk', used', done') ->
  owners_of ck' = owners_of ck /\ owners_of pk' = owners_of pk.
Proof.
  intros fx compNames keys. induction keys as [|k r IH]; intros ck pk used done ck' pk' used' done' H; cbn [fold_left] in H.
  - inversion H; subst. split; reflexivity.
  - destruct (declash_step fx compNames (FOk (ck, pk, used, done)) k) as [[[[ck1 pk1] u1] d1]| | |] eqn:E.
    + destruct (declash_step_owners _ _ _ _ _ _ _ _ _ _ _ E) as [H1 H2]. destruct (IH _ _ _ _ _ _ _ _ H) as [H3 H4].
      split; congruence.
    + exfalso. clear -H. induction r as [|x r IHr]; cbn [fold_left] in H; [discriminate | apply IHr; exact H].
    + exfalso. clear -H. induction r as [|x r IHr]; cbn [fold_left] in H; [discriminate | apply IHr; exact H].
    + exfalso. clear -H. induction r as [|x r IHr]; cbn [fold_left] in H; [discriminate | apply IHr; exact H].
Qed.

Lemma declash_owners : forall fx compNames ck pk ck' pk' done, declash fx compNames ck pk = FOk (ck', pk', done) ->
  owners_of ck' = owners_of ck /\ owners_of pk' = owners_of pk.
Proof.
  intros fx compNames ck pk ck' pk' done H. unfold declash in H.
  match type of H with (do r <- ?X; _) = _ => destruct X as [[[[a b] c] d]| | |] eqn:E; cbn [fbind] in H; try discriminate end.
  inversion H; subst. apply (declash_fold_owners _ _ _ _ _ _ _ _ _ _ _ E).
Qed.

Lemma rename_var_units_owners : forall old new c, comp_owners (rename_var_units old new c) = comp_owners c.
Proof.
  intros old new c. induction c as [o nm i m v kids IHk] using comp_ind2. cbn [rename_var_units]. rewrite !comp_owners_unfold. f_equal.
  induction kids as [|k r IHr]; [reflexivity|]. inversion IHk; subst. cbn [map flat_map]. rewrite IHr by assumption. f_equal. assumption.
Qed.

Lemma rename_cn_deep_owners : forall old new c, comp_owners (rename_cn_deep old new c) = comp_owners c.
Proof.
  intros old new c. induction c as [o nm i m v kids IHk] using comp_ind2. cbn [rename_cn_deep]. rewrite !comp_owners_unfold. f_equal.
  induction kids as [|k r IHr]; [reflexivity|]. inversion IHk; subst. cbn [map flat_map]. rewrite IHr by assumption. f_equal. assumption.
Qed.

Lemma rename_cn_shallow_owners : forall old new c, comp_owners (rename_cn_shallow old new c) = comp_owners c.
Proof.
  intros old new [o nm i m v kids]. cbn [rename_cn_shallow]. rewrite !comp_owners_unfold. f_equal.
  induction kids as [|k r IHr]; [reflexivity|]. cbn [map flat_map]. rewrite IHr. f_equal. destruct k; reflexivity.
Qed.

Lemma rename_usages_owners : forall fx old new t c, comp_owners (rename_usages fx old new t c) = comp_owners c.
Proof.
  intros fx old new t c. unfold rename_usages. rewrite rename_var_units_owners.
  destruct (fx_cndeep fx); [apply rename_cn_deep_owners | apply rename_cn_shallow_owners].
Qed.

Lemma fold_usages_owners : forall {A} fx (f : A -> string * string * bool) l c,
  comp_owners (fold_left (fun c x => rename_usages fx (fst (fst (f x))) (snd (fst (f x))) (snd (f x)) c) l c) = comp_owners c.
Proof.
  intros A fx f l. induction l as [|x r IH]; intros c; cbn [fold_left]; [reflexivity|]. rewrite IH. apply rename_usages_owners.
Qed.

Lemma every_other_incl : forall {A} (l : list A) x, In x (every_other l) -> In x l.
Proof.
  intros A. fix IH 1. intros [|a [|b r]] x H; cbn [every_other] in H; [destruct H | exact H |].
  destruct H as [H|H]; [left; exact H | right; right; apply IH; exact H].
Qed.

(* ---------------------------------------------------------------- flattenComponent *)

Record fs_ok (fs : fstate) : Prop := {
  fo_own : fresh_o (f_own fs); fo_units : fresh_us (f_units fs); fo_comps : fresh_cs (f_comps fs);
  fo_log : wlog_ok (wlog (f_st fs)) = true }.

(* the components of the library models are not tagged as objects of the model given to flattenModel *)
Definition libs_tagged (libs : list model) : Prop :=
  forall L p c, In L libs -> comp_at (m_comps L) p = Some c -> c_own c <> OOrigin.

Lemma owners_set_kids : forall k c, comp_owners (c_set_kids k c) = c_own c :: owners_of k.
Proof. intros k [o n i m v k0]. reflexivity. Qed.
Lemma owners_set_name : forall n c, comp_owners (c_set_name n c) = comp_owners c.
Proof. intros n [o n0 i m v k0]. reflexivity. Qed.
Lemma owners_set_vars : forall v c, comp_owners (c_set_vars v c) = comp_owners c.
Proof. intros v [o n0 i m v0 k0]. reflexivity. Qed.
Lemma own_set_kids : forall k c, c_own (c_set_kids k c) = c_own c.
Proof. intros k [o n i m v k0]. reflexivity. Qed.
Lemma own_set_name : forall n c, c_own (c_set_name n c) = c_own c.
Proof. intros n [o n0 i m v k0]. reflexivity. Qed.
Lemma own_set_vars : forall v c, c_own (c_set_vars v c) = c_own c.
Proof. intros v [o n0 i m v0 k0]. reflexivity. Qed.
Lemma kids_set_name : forall n c, c_kids (c_set_name n c) = c_kids c.
Proof. intros n [o n0 i m v k0]. reflexivity. Qed.
Lemma owners_kids : forall c, comp_owners c = c_own c :: owners_of (c_kids c).
Proof. intros [o n i m v k]. reflexivity. Qed.
Lemma owners_of_app : forall a b, owners_of (a ++ b) = owners_of a ++ owners_of b.
Proof. intros a b. unfold owners_of. apply flat_map_app. Qed.

Lemma owners_own_fold : forall {A} fx (f : A -> string * string * bool) l c,
  c_own (fold_left (fun c x => rename_usages fx (fst (fst (f x))) (snd (fst (f x))) (snd (f x)) c) l c) = c_own c.
Proof.
  intros A fx f l c. pose proof (fold_usages_owners fx f l c) as H. rewrite !owners_kids in H. inversion H. reflexivity.
Qed.

Lemma wlog_dummy_ok : forall oc oi w, fresh_o oc -> oi <> OOrigin -> wlog_ok w = true -> wlog_ok (rev [oc; oc; oi; oi] ++ w) = true.
Proof.
  intros oc oi w Hc Hi Hw. cbn [rev app]. destruct oi as [|k|n]; [congruence| |].
  - cbn [wlog_ok]. rewrite Nat.eqb_refl. cbn [andb]. destruct oc; try discriminate Hc. cbn [wlog_ok]. exact Hw.
  - cbn [wlog_ok]. destruct oc; try discriminate Hc. cbn [wlog_ok]. exact Hw.
Qed.

Lemma flatten_component_ok : forall fuel fx libs p fs fs', libs_tagged libs -> fs_ok fs ->
  flatten_component fuel fx libs p fs = FOk fs' -> fs_ok fs'.
Proof.
  intros fuel fx libs p fs fs' Hlibs Hfs H. unfold flatten_component in H.
  destruct (comp_at (f_comps fs) p) as [c|] eqn:Ec; [|discriminate].
  destruct (c_imp c) as [im|]; [|inversion H; subst; exact Hfs].
  destruct (nth_error libs (i_lib im)) as [L|] eqn:EL; [|discriminate].
  destruct (find_comp_path (i_ref im) (m_comps L)) as [origin|]; [|discriminate].
  destruct (comp_at (m_comps L) origin) as [icomp|] eqn:Ei; [|discriminate].
  pose proof (comp_at_fresh _ _ _ (fo_comps _ Hfs) Ec) as Hc.
  pose proof (Hlibs L origin icomp (nth_error_In _ _ EL) Ei) as Hicomp.
  cbn [fresh] in H.
  set (t1 := nx (f_st fs)) in *.
  set (w2 := rev [c_own c; c_own c; c_own icomp; c_own icomp] ++ wlog (f_st fs)) in *.
  assert (Hw2 : wlog_ok w2 = true) by (apply wlog_dummy_ok; [apply (fresh_c_own _ Hc) | exact Hicomp | apply (fo_log _ Hfs)]).
  cbn [logs nx wlog fst snd] in H.
  pose proof (clone_comp_fresh (S t1) icomp (S (S t1))) as Hcopy0.
  destruct (clone_comp (OFresh (S t1)) icomp (S (S t1))) as [copy0 n'] eqn:Ecl. cbn [fst] in Hcopy0.
  set (pk := if fx_kids fx then c_kids c else every_other (c_kids c)) in *.
  assert (Hpk : fresh_cs pk).
  { pose proof (fresh_c_kids _ Hc) as Hk. unfold pk. destruct (fx_kids fx); [exact Hk|].
    unfold fresh_cs in *. rewrite Forall_forall in *. intros x Hx. apply Hk. apply every_other_incl. exact Hx. }
  set (copy1 := c_set_name (c_name c) copy0) in *.
  set (copy2 := c_set_kids (c_kids copy1 ++ (if fx_late fx then [] else pk)) copy1) in *.
  destruct (units_used fuel (clone_units_list (OFresh t1) (m_units L)) copy2) as [required| | |]; cbn [fbind] in H; try discriminate.
  destruct (unique_required fx libs (clone_units_list (OFresh t1) (m_units L)) required [] []) as [[uniq alias]| | |]; cbn [fbind] in H; try discriminate.
  destruct (declash fx (comps_names (f_comps fs)) (c_kids copy1) pk) as [[[ck pk'] dn]| | |] eqn:Ed; cbn [fbind] in H; try discriminate.
  destruct (declash_owners _ _ _ _ _ _ _ Ed) as [Hock Hopk].
  set (copy3a := c_set_kids (ck ++ (if fx_late fx then [] else pk')) copy2) in *.
  destruct (move_placeholder_eqs fx (match c_imp copy3a with Some _ => true | None => false end) (c_vars c) (c_vars copy3a) (f_eqs fs) n')
    as [[eqs1 cvars] n''] eqn:Em.
  set (copy3 := c_set_vars cvars copy3a) in *.
  set (cs1 := update_at (f_comps fs) p (fun _ => copy3)) in *.
  destruct (apply_map cs1 (rebase_map (record_comp L origin icomp []) origin p) eqs1) as [eqs2| | |]; cbn [fbind] in H; try discriminate.
  destruct (if fx_ids fx then copy_ids L origin p cs1 (record_comp L origin icomp []) eqs2 else FOk eqs2) as [eqs3| | |]; cbn [fbind] in H; try discriminate.
  match type of H with (do rl <- required_loop fuel fx libs uniq ?cim ?co ?s0 []; _) = _ =>
    destruct (required_loop fuel fx libs uniq cim co s0 []) as [[[cimf s1] unr]| | |] eqn:Erl; cbn [fbind] in H; try discriminate;
    assert (Hs0 : ust_ok s0) end.
  { constructor; cbn [us_S us_T us_So us_To us_st].
    - apply fresh_clone_list.
    - apply (fo_units _ Hfs).
    - reflexivity.
    - apply (fo_own _ Hfs).
    - rewrite logs_ok; [exact Hw2|]. constructor; [reflexivity | constructor; [apply (fo_own _ Hfs) | constructor]]. }
  assert (Hco : fresh_o (OFresh t1)) by reflexivity.
  destruct (required_loop_ok _ _ _ _ _ _ _ _ _ _ _ (fresh_clone_list _ _) Hco Hs0 Erl) as [_ Hs1].
  (* the copies are fresh *)
  assert (Hk1 : Forall fresh_o (owners_of (c_kids copy1))).
  { unfold copy1. rewrite kids_set_name. unfold fresh_c in Hcopy0. rewrite owners_kids in Hcopy0. inversion Hcopy0; assumption. }
  assert (Hown1 : fresh_o (c_own copy1)) by (unfold copy1; rewrite own_set_name; apply (fresh_c_own _ Hcopy0)).
  assert (Hpko : Forall fresh_o (owners_of pk)) by (apply fresh_cs_owners; exact Hpk).
  assert (H3a : Forall fresh_o (comp_owners copy3a)).
  { unfold copy3a. rewrite owners_set_kids. unfold copy2. rewrite own_set_kids. constructor; [exact Hown1|].
    rewrite owners_of_app, Hock. apply Forall_app. split; [exact Hk1|]. destruct (fx_late fx); [constructor | rewrite Hopk; exact Hpko]. }
  assert (H3 : fresh_c copy3) by (unfold fresh_c, copy3; rewrite owners_set_vars; exact H3a).
  set (copy4 := fold_left (fun c0 op => rename_usages fx (fst op) (snd op) true c0) (us_ops s1) copy3) in *.
  assert (H4 : comp_owners copy4 = comp_owners copy3).
  { unfold copy4. apply (fold_usages_owners fx (fun op : string * string => (fst op, snd op, true))). }
  match type of H with context [fold_left ?F alias copy4] => set (copy5 := fold_left F alias copy4) in * end.
  assert (H5 : comp_owners copy5 = comp_owners copy4).
  { unfold copy5.
    apply (fold_usages_owners fx (fun al : string * string =>
             (fst al, match smap_find (snd al) unr with Some x => x | None => snd al end,
              has_units (match smap_find (snd al) unr with Some x => x | None => snd al end) (us_T s1)))). }
  set (copy6 := if fx_late fx then c_set_kids (c_kids copy5 ++ pk') copy5 else copy5) in *.
  assert (H6 : fresh_c copy6).
  { unfold fresh_c, copy6. destruct (fx_late fx).
    - rewrite owners_set_kids, owners_of_app.
      assert (E5 : comp_owners copy5 = comp_owners copy3) by (rewrite H5; exact H4).
      rewrite !owners_kids in E5. inversion E5 as [[Eo Ek]].
      pose proof H3 as H3'. unfold fresh_c in H3'. rewrite owners_kids in H3'. inversion H3' as [|? ? Ho Hk]; subst.
      constructor; [rewrite Eo; exact Ho|]. apply Forall_app. split; [rewrite Ek; exact Hk | rewrite Hopk; exact Hpko].
    - rewrite H5, H4. exact H3. }
  inversion H; subst fs'. constructor; cbn [fs_set f_own f_units f_comps f_st].
  - apply (fo_own _ Hfs).
  - apply (uo_T _ Hs1).
  - apply update_at_fresh; [|intros; exact H6]. unfold cs1. apply update_at_fresh; [apply (fo_comps _ Hfs) | intros; exact H3].
  - rewrite logs_ok; [apply (uo_log _ Hs1) | exact H6].
Qed.

(* ---------------------------------------------------------------- the loops *)

Lemma fci_go_ok : forall (rec : path -> fstate -> fres fstate),
  (forall p fs fs', fs_ok fs -> rec p fs = FOk fs' -> fs_ok fs') ->
  forall p k i fs fs', fs_ok fs -> fci_go rec p k i fs = FOk fs' -> fs_ok fs'.
Proof.
  intros rec Hrec p. induction k as [|k IH]; intros i fs fs' Hfs H; cbn [fci_go] in H; [inversion H; subst; exact Hfs|].
  destruct (rec (p ++ [i]) fs) as [fs1| | |] eqn:E; cbn [fbind] in H; try discriminate.
  apply (IH _ _ _ (Hrec _ _ _ Hfs E) H).
Qed.

Lemma flatten_component_imports_ok : forall fuel fx libs p fs fs', libs_tagged libs -> fs_ok fs ->
  flatten_component_imports fuel fx libs p fs = FOk fs' -> fs_ok fs'.
Proof.
  induction fuel as [|f IH]; intros fx libs p fs fs' Hl Hfs H; cbn [flatten_component_imports] in H; [discriminate|].
  destruct (flatten_component (S f) fx libs p fs) as [fs1| | |] eqn:E; cbn [fbind] in H; try discriminate.
  pose proof (flatten_component_ok _ _ _ _ _ _ Hl Hfs E) as Hfs1.
  destruct (comp_at (f_comps fs1) p) as [c|]; [|discriminate].
  apply (fci_go_ok _ (fun p0 a b Ha Hb => IH fx libs p0 a b Hl Ha Hb) _ _ _ _ _ Hfs1 H).
Qed.

Lemma top_units_loop_ok : forall fuel fx libs index fs fs', fs_ok fs -> top_units_loop fuel fx libs index fs = FOk fs' -> fs_ok fs'.
Proof.
  induction fuel as [|f IH]; intros fx libs index fs fs' Hfs H; cbn [top_units_loop] in H; [discriminate|].
  destruct (nth_error (f_units fs) index) as [u|]; [|inversion H; subst; exact Hfs].
  destruct (u_imp u); [|apply (IH _ _ _ _ _ Hfs H)].
  match type of H with (do s1 <- flatten_units_imports ?fu fx libs index ?s0; _) = _ =>
    destruct (flatten_units_imports fu fx libs index s0) as [s1| | |] eqn:E; cbn [fbind] in H; try discriminate;
    assert (Hs0 : ust_ok s0) by (destruct Hfs as [A1 A2 A3 A4]; constructor; cbn; [constructor | exact A2 | exact A1 | exact A1 | exact A4]) end.
  pose proof (proj2 (retrieve_flatten_ok _ fx libs) _ _ _ Hs0 E) as Hs1.
  apply (IH _ _ _ _ _) in H; [exact H|].
  destruct Hfs as [A1 A2 A3 A4]. constructor; cbn [fs_set f_own f_units f_comps f_st]; [exact A1 | apply (uo_T _ Hs1) | exact A3 | apply (uo_log _ Hs1)].
Qed.

Lemma top_comps_loop_ok : forall fuel fx libs k index fs fs', libs_tagged libs -> fs_ok fs ->
  top_comps_loop fuel fx libs k index fs = FOk fs' -> fs_ok fs'.
Proof.
  intros fuel fx libs. induction k as [|k IH]; intros index fs fs' Hl Hfs H; cbn [top_comps_loop] in H; [inversion H; subst; exact Hfs|].
  destruct (flatten_component_imports fuel fx libs [index] fs) as [fs1| | |] eqn:E; cbn [fbind] in H; try discriminate.
  apply (IH _ _ _ Hl (flatten_component_imports_ok _ _ _ _ _ _ Hl Hfs E) H).
Qed.

Lemma flatten_loop_ok : forall rounds fuel fx libs fs fs', libs_tagged libs -> fs_ok fs ->
  flatten_loop rounds fuel fx libs fs = FOk fs' -> fs_ok fs'.
Proof.
  induction rounds as [|r IH]; intros fuel fx libs fs fs' Hl Hfs H; cbn [flatten_loop] in H; [discriminate|].
  destruct (has_imports fx libs fuel fs) as [b| | |]; cbn [fbind] in H; try discriminate.
  destruct b; [|inversion H; subst; exact Hfs].
  destruct (top_units_loop fuel fx libs 0 fs) as [fs1| | |] eqn:E1; cbn [fbind] in H; try discriminate.
  destruct (top_comps_loop fuel fx libs (List.length (f_comps fs1)) 0 fs1) as [fs2| | |] eqn:E2; cbn [fbind] in H; try discriminate.
  apply (IH _ _ _ _ _ Hl (top_comps_loop_ok _ _ _ _ _ _ _ Hl (top_units_loop_ok _ _ _ _ _ _ Hfs E1) E2) H).
Qed.

Lemma clone_comps_fresh : forall t l n, fresh_cs (fst (clone_comps (OFresh t) l n)).
Proof.
  intros t l. induction l as [|k r IH]; intros n; cbn [clone_comps]; [constructor|].
  pose proof (clone_comp_fresh t k n) as Hk. destruct (clone_comp (OFresh t) k n) as [k' n']. cbn [fst] in Hk.
  specialize (IH n'). destruct (clone_comps (OFresh t) r n') as [r' n'']. cbn [fst] in *. constructor; assumption.
Qed.

(* flatten_leaves_inputs: every object the model modifies was created during flattening (the clone of the model given to
   flattenModel, the clones of the library models, the copies of imported components and units); the one exception is the
   variable that indexStackOf(importedComponent) adds to the imported component of the LIBRARY model and removes again *)
Theorem flatten_leaves_inputs : forall rounds fuel fx libs m n0 m' st, libs_tagged libs ->
  flatten_model rounds fuel fx libs m n0 = FOk (m', st) -> wlog_ok (wlog st) = true.
Proof.
  intros rounds fuel fx libs m n0 m' st Hl H. unfold flatten_model in H.
  destruct (clone_model m {| nx := n0; wlog := [] |}) as [[flat st0]| | |] eqn:Ec; cbn [fbind] in H; try discriminate.
  match type of H with (do fs' <- flatten_loop rounds fuel fx libs ?fs; _) = _ =>
    destruct (flatten_loop rounds fuel fx libs fs) as [fs'| | |] eqn:El; cbn [fbind] in H; try discriminate; assert (Hfs : fs_ok fs) end.
  { unfold clone_model in Ec. cbn [fresh nx wlog] in Ec.
    pose proof (clone_comps_fresh n0 (m_comps m) (S n0)) as Hcs.
    destruct (clone_comps (OFresh n0) (m_comps m) (S n0)) as [cs n']. cbn [fst] in Hcs.
    destruct (apply_map cs (record_comps m [] 0 (m_comps m) []) []) as [e1| | |]; cbn [fbind] in Ec; try discriminate.
    destruct (copy_ids m [] [] cs (record_comps m [] 0 (m_comps m) []) e1) as [e2| | |]; cbn [fbind] in Ec; try discriminate.
    inversion Ec; subst flat st0. constructor; cbn; [reflexivity | apply fresh_clone_list | exact Hcs | reflexivity]. }
  inversion H; subst. apply (fo_log _ (flatten_loop_ok _ _ _ _ _ _ Hl Hfs El)).
Qed.

(* the log is not vacuous: flattening an import writes to the clones *)
Lemma flatten_log_nonempty : exists libs m st m', flatten_model 10 50 flat_current_fixes libs m 100 = FOk (m', st) /\ wlog st <> [] /\
  In (OLib 0) (wlog st).
Proof.
  exists [ {| m_own := OLib 0; m_name := "m1"; m_units := [];
             m_comps := [Comp (OLib 0) "c" None [] [] []]; m_eqs := [] |} ],
         {| m_own := OOrigin; m_name := "m0"; m_units := [];
            m_comps := [Comp OOrigin "c" (Some {| i_url := "f1.cellml"; i_lib := 0; i_ref := "c" |}) [] [] []]; m_eqs := [] |}.
  eexists. eexists. split; [vm_compute; reflexivity|]. split; [discriminate|]. cbn. tauto.
Qed.
