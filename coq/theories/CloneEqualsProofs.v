(* CloneEqualsProofs.v -- C11 x C10 bridge: the clone model's entities (CloneDefs.v, identity-tagged) abstracted to the
   VALUES of C10's model of equals() (EqualsDefs.v: no identities, no parents, no equivalences), and
   `equals (abs (clone x)) (abs x) = true` from `abs (clone x) = abs x` + C10's reflexivity (EqualsAsIs.equals_refl_asis).

   `num` interprets the opaque exponent / multiplier tokens of CloneDefs as rationals; the theorems hold for EVERY
   interpretation (clone copies the doubles verbatim).  `neq` is areNearlyEqual; the only premise carried from C10 is
   `neq_laws neq` (in particular reflexivity: no NaN-like value -- EqualsDefs' values are rationals).

   Models are deliberately NOT covered: Model::clone() re-links every component variable's units by name
   (fixComponentUnits), so `abs (clone m) = abs m` only holds when each variable's own Units object already has the
   content of the model's first units of that name; otherwise abs differs in v_units and equals() is false on the library
   too -- that is known finding C11-equals-relinked-units (the abstraction `abs` itself does no relinking). *)
From Coq Require Import List String ZArith QArith Bool Arith Lia.
From LC Require Import CloneDefs CloneProofs EqualsDefs EqualsSpec EqualsAsIs.
Import ListNotations.
Local Open Scope string_scope.
Local Open Scope nat_scope.
Local Open Scope list_scope.

Section Abs.
  Variable num : string -> Q.

  Definition abs_isrc (i : CloneDefs.isrc) : EqualsDefs.isrc :=
    {| EqualsDefs.is_url := CloneDefs.is_url i; EqualsDefs.is_id := CloneDefs.is_id i |}.
  Definition abs_unitdef (d : CloneDefs.unitdef) : EqualsDefs.unitdef :=
    {| EqualsDefs.ud_ref := CloneDefs.ud_ref d; EqualsDefs.ud_prefix := CloneDefs.ud_prefix d;
       EqualsDefs.ud_exp := num (CloneDefs.ud_exp d); EqualsDefs.ud_mult := num (CloneDefs.ud_mult d);
       EqualsDefs.ud_id := CloneDefs.ud_id d |}.
  Definition abs_units (u : CloneDefs.units) : EqualsDefs.units :=
    {| EqualsDefs.u_name := CloneDefs.u_name u; EqualsDefs.u_id := CloneDefs.u_id u;
       EqualsDefs.u_imp := option_map abs_isrc (CloneDefs.u_imp u); EqualsDefs.u_impref := CloneDefs.u_impref u;
       EqualsDefs.u_defs := map abs_unitdef (CloneDefs.u_defs u) |}.
  Definition abs_var (v : CloneDefs.variable) : EqualsDefs.variable :=
    {| EqualsDefs.v_name := CloneDefs.v_name v; EqualsDefs.v_id := CloneDefs.v_id v;
       EqualsDefs.v_units := option_map abs_units (CloneDefs.v_units v);
       EqualsDefs.v_init := CloneDefs.v_init v; EqualsDefs.v_iface := CloneDefs.v_iface v |}.
  (* Reset::doEquals does not look at the order-set flag; EqualsDefs.reset has no such field *)
  Definition abs_reset (r : CloneDefs.reset) : EqualsDefs.reset :=
    {| EqualsDefs.r_id := CloneDefs.r_id r; EqualsDefs.r_order := CloneDefs.r_order r;
       EqualsDefs.r_var := option_map abs_var (CloneDefs.r_var r); EqualsDefs.r_test := option_map abs_var (CloneDefs.r_test r);
       EqualsDefs.r_tv := CloneDefs.r_tv r; EqualsDefs.r_tv_id := CloneDefs.r_tvid r;
       EqualsDefs.r_rv := CloneDefs.r_rv r; EqualsDefs.r_rv_id := CloneDefs.r_rvid r |}.
  Fixpoint abs_comp (c : CloneDefs.component) : EqualsDefs.component :=
    match c with
    | CloneDefs.Comp _ _ id name encid math imp impref vars resets kids =>
        EqualsDefs.Comp {| EqualsDefs.c_name := name; EqualsDefs.c_id := id; EqualsDefs.c_encid := encid; EqualsDefs.c_math := math;
                           EqualsDefs.c_imp := option_map abs_isrc imp; EqualsDefs.c_impref := impref;
                           EqualsDefs.c_vars := map abs_var vars; EqualsDefs.c_resets := map abs_reset resets |}
                        (map abs_comp kids)
    end.

  (* ---- units: from the content theorem, content_units being injective up to abs *)
  Lemma content_isrc_abs a b : sx_opt content_isrc a = sx_opt content_isrc b -> option_map abs_isrc a = option_map abs_isrc b.
  Proof.
    destruct a as [a|], b as [b|]; cbn; intros H; try discriminate; [|reflexivity].
    injection H as H1 H2. unfold abs_isrc. rewrite H1, H2. reflexivity.
  Qed.

  Lemma content_unitdefs_abs l1 : forall l2, map content_unitdef l1 = map content_unitdef l2 -> map abs_unitdef l1 = map abs_unitdef l2.
  Proof.
    induction l1 as [|a r IH]; intros [|b r2]; cbn; intros H; try discriminate; [reflexivity|].
    injection H as H1 H2 H3 H4 H5 H6. rewrite (IH r2 H6). unfold abs_unitdef. rewrite H1, H2, H3, H4, H5. reflexivity.
  Qed.

  Lemma content_units_abs a b : content_units a = content_units b -> abs_units a = abs_units b.
  Proof.
    unfold content_units. intros H. injection H as H1 H2 H3 H4 H5. unfold abs_units.
    rewrite H1, H2, H4, (content_unitdefs_abs _ _ H5). f_equal. apply content_isrc_abs. unfold sx_opt in *.
    destruct (CloneDefs.u_imp a), (CloneDefs.u_imp b); cbn in *; congruence.
  Qed.

  Lemma clone_units_abs fx n u : wf_units u -> abs_units (fst (clone_units fx n u)) = abs_units u.
  Proof. intros H. apply content_units_abs. apply clone_units_content. exact H. Qed.

  Definition wfd_var (v : CloneDefs.variable) : Prop := forall u, CloneDefs.v_units v = Some u -> wf_units u.
  Definition wfd_ovar (o : option CloneDefs.variable) : Prop := forall v, o = Some v -> wfd_var v.

  Lemma clone_variable_abs fx n v : wfd_var v -> abs_var (fst (clone_variable fx n v)) = abs_var v.
  Proof.
    intros Hw. unfold clone_variable. destruct (CloneDefs.v_units v) as [u|] eqn:Eu.
    - pose proof (clone_units_abs fx (S n) u (Hw u Eu)) as H. destruct (clone_units fx (S n) u) as [u' n1]. cbn in *.
      unfold abs_var. cbn. rewrite Eu. cbn. rewrite H. reflexivity.
    - cbn. unfold abs_var. cbn. rewrite Eu. reflexivity.
  Qed.

  Lemma clone_opt_variable_abs fx n o : wfd_ovar o -> option_map abs_var (fst (clone_opt_variable fx n o)) = option_map abs_var o.
  Proof.
    intros Hw. unfold clone_opt_variable. destruct o as [v|]; [|reflexivity].
    pose proof (clone_variable_abs fx n v (Hw v eq_refl)) as H. destruct (clone_variable fx n v). cbn in *. rewrite H. reflexivity.
  Qed.

  Definition wfd_reset (r : CloneDefs.reset) : Prop := wf_reset r /\ wfd_ovar (CloneDefs.r_var r) /\ wfd_ovar (CloneDefs.r_test r).

  Lemma clone_reset_abs fx n r : fx_order fx = true -> wfd_reset r -> abs_reset (fst (clone_reset fx n r)) = abs_reset r.
  Proof.
    intros Hfx (Hw & Hv & Ht). unfold clone_reset.
    pose proof (clone_opt_variable_abs fx (S n) _ Hv) as A1. destruct (clone_opt_variable fx (S n) (CloneDefs.r_var r)) as [v' n1].
    pose proof (clone_opt_variable_abs fx n1 _ Ht) as A2. destruct (clone_opt_variable fx n1 (CloneDefs.r_test r)) as [t' n2].
    cbn in *. unfold abs_reset. cbn. rewrite Hfx, A1, A2. cbn.
    destruct (CloneDefs.r_order_set r) eqn:Eo; [reflexivity|]. cbn. rewrite (Hw Eo). reflexivity.
  Qed.

  (* ---- components *)
  Lemma abs_var_set_parent p v : abs_var (v_set_parent p v) = abs_var v.
  Proof. reflexivity. Qed.

  Lemma clone_variables_abs fx owner l : forall n, Forall wfd_var l ->
    map abs_var (fst (clone_variables fx n owner l)) = map abs_var l.
  Proof.
    induction l as [|v r IH]; intros n Hw; cbn; [reflexivity|]. inversion Hw as [|? ? Hv Hr]; subst.
    pose proof (clone_variable_abs fx n v Hv) as A. destruct (clone_variable fx n v) as [v' n1]. cbn in A.
    specialize (IH n1 Hr). destruct (clone_variables fx n1 owner r) as [r' n2]. cbn in *. rewrite abs_var_set_parent, A, IH. reflexivity.
  Qed.

  (* a reset's variable record agrees (as a value) with the component variable of the same identity *)
  Definition deep_ref_ok (vars : list CloneDefs.variable) (o : option CloneDefs.variable) : Prop :=
    forall v, o = Some v -> forall w, In w vars -> CloneDefs.v_oid w = CloneDefs.v_oid v -> abs_var w = abs_var v.

  Lemma retarget_abs vars vars' o c :
    map abs_var vars' = map abs_var vars -> option_map abs_var c = option_map abs_var o -> deep_ref_ok vars o ->
    option_map abs_var (retarget vars vars' o c) = option_map abs_var o.
  Proof.
    intros Hm Hc Hd. unfold retarget. destruct o as [v|]; [|exact Hc].
    destruct (index_of (CloneDefs.v_oid v) (map CloneDefs.v_oid vars)) as [i|] eqn:Ei; [|exact Hc].
    destruct (nth_error vars' i) as [w|] eqn:Ew; [|exact Hc].
    apply index_of_some in Ei. apply nth_error_map_some in Ei. destruct Ei as (x & Ex & Eox).
    assert (A : nth_error (map abs_var vars') i = Some (abs_var w)) by (rewrite nth_error_map, Ew; reflexivity).
    rewrite Hm, nth_error_map, Ex in A. cbn [option_map] in A. assert (A' : abs_var x = abs_var w) by congruence.
    cbn [option_map]. rewrite <- A', (Hd v eq_refl x (nth_error_In _ _ Ex) Eox). reflexivity.
  Qed.

  Definition deep_reset_ok (vars : list CloneDefs.variable) (r : CloneDefs.reset) : Prop :=
    wfd_reset r /\ deep_ref_ok vars (CloneDefs.r_var r) /\ deep_ref_ok vars (CloneDefs.r_test r).

  Lemma clone_resets_abs fx owner vars vars' l : forall n, fx_order fx = true ->
    map abs_var vars' = map abs_var vars -> Forall (deep_reset_ok vars) l ->
    map abs_reset (fst (clone_resets fx n owner vars vars' l)) = map abs_reset l.
  Proof.
    induction l as [|r rest IH]; intros n Hfx Hm Hok; cbn; [reflexivity|]. inversion Hok as [|? ? (Hw & D1 & D2) Hr]; subst.
    pose proof (clone_reset_abs fx n r Hfx Hw) as A. destruct (clone_reset fx n r) as [r' n1]. cbn in A.
    specialize (IH n1 Hfx Hm Hr). destruct (clone_resets fx n1 owner vars vars' rest) as [rest' n2]. cbn in *. rewrite IH. f_equal.
    unfold abs_reset in *. cbn. injection A as A1 A2 A3 A4 A5 A6 A7 A8.
    rewrite A1, A2, A5, A6, A7, A8. rewrite (retarget_abs vars vars' _ _ Hm A3 D1), (retarget_abs vars vars' _ _ Hm A4 D2). reflexivity.
  Qed.

  Definition deep_local_ok (c : CloneDefs.component) : Prop :=
    Forall wfd_var (CloneDefs.c_vars c) /\ Forall (deep_reset_ok (CloneDefs.c_vars c)) (CloneDefs.c_resets c).
  Definition wfd_comp (c : CloneDefs.component) : Prop := Forall deep_local_ok (subcomps c).

  Lemma abs_comp_set_parent p c : abs_comp (c_set_parent p c) = abs_comp c.
  Proof. destruct c; reflexivity. Qed.

  Lemma clone_comp_abs fx C c : forall s c' s',
    fx_order fx = true -> fx_encid fx = true -> coherent C -> imap_ok C s -> incl (comp_imps c) C -> wfd_comp c ->
    clone_comp fx s c = (c', s') -> imap_ok C s' /\ abs_comp c' = abs_comp c.
  Proof.
    induction c as [o p id name encid math imp impref vars resets kids IH] using component_ind'.
    intros s c' s' Hfo Hfe Hco Hok Hin Hwf. rewrite clone_comp_unfold. cbv zeta.
    destruct (clone_imp fx (st_nx (S (nx s)) s) imp) as [imp' s1] eqn:E1.
    pose proof (clone_variables_abs fx (nx s) vars (nx s1)) as AV.
    destruct (clone_variables fx (nx s1) (nx s) vars) as [vars' n2] eqn:E2. cbn in AV.
    pose proof (clone_resets_abs fx (nx s) vars vars' resets n2 Hfo) as AR.
    destruct (clone_resets fx n2 (nx s) vars vars' resets) as [resets' n3] eqn:E3. cbn in AR.
    destruct (clone_comps fx (st_nx n3 s1) (nx s) kids) as [kids' s4] eqn:E4. intros H. injection H as <- <-.
    cbn [comp_imps] in Hin. unfold wfd_comp in Hwf. cbn [subcomps] in Hwf. inversion Hwf as [|? ? (Hv & Hr) Hsub]; subst.
    cbn [CloneDefs.c_vars CloneDefs.c_resets] in *.
    apply (clone_imp_content fx C) in E1; [|exact Hco | exact Hok|].
    2:{ intros i Ei. apply Hin. subst imp. left. reflexivity. }
    destruct E1 as [Ok1 Ci]. specialize (AV Hv). specialize (AR AV Hr).
    assert (K : forall l z l' z', Forall (fun c => forall s c' s', fx_order fx = true -> fx_encid fx = true -> coherent C -> imap_ok C s ->
                   incl (comp_imps c) C -> wfd_comp c -> clone_comp fx s c = (c', s') -> imap_ok C s' /\ abs_comp c' = abs_comp c) l ->
               imap_ok C z -> incl (flat_map comp_imps l) C -> Forall deep_local_ok (flat_map subcomps l) ->
               clone_comps fx z (nx s) l = (l', z') -> imap_ok C z' /\ map abs_comp l' = map abs_comp l).
    { induction l as [|k r IHr]; intros z l' z' Hall Hz Hinl Hwl; cbn.
      - intros H. injection H as <- <-. split; [exact Hz | reflexivity].
      - destruct (clone_comp fx z k) as [k' z1] eqn:Ek. destruct (clone_comps fx z1 (nx s) r) as [r' z2] eqn:Er.
        intros H. injection H as <- <-. inversion Hall as [|? ? Hk Hr']; subst. cbn in Hinl, Hwl. apply Forall_app in Hwl. destruct Hwl as [Wk Wr].
        apply Hk in Ek; [|exact Hfo | exact Hfe | exact Hco | exact Hz | intros x Hx; apply Hinl; apply in_or_app; left; exact Hx | exact Wk].
        destruct Ek as [Okk Ck].
        apply IHr in Er; [|exact Hr' | exact Okk | intros x Hx; apply Hinl; apply in_or_app; right; exact Hx | exact Wr].
        destruct Er as [Okr Cr]. split; [exact Okr|]. cbn. rewrite abs_comp_set_parent, Ck, Cr. reflexivity. }
    apply K in E4; [|exact IH | exact Ok1 | intros x Hx; apply Hin; apply in_or_app; right; exact Hx | exact Hsub].
    destruct E4 as [Ok4 CK]. split; [exact Ok4|].
    cbn [abs_comp]. rewrite Hfe, AV, AR, CK, (content_isrc_abs _ _ Ci). reflexivity.
  Qed.

  Lemma clone_component_abs fx n c :
    fx_order fx = true -> fx_encid fx = true -> coherent (comp_imps c) -> wfd_comp c ->
    abs_comp (fst (clone_component fx n c)) = abs_comp c.
  Proof.
    intros Hfo Hfe Hco Hwf. unfold clone_component. destruct (clone_comp fx (st0 n) c) as [c' s'] eqn:E. cbn.
    apply (clone_comp_abs fx (comp_imps c)) in E; [tauto | assumption.. | apply imap_ok_st0 | apply incl_refl | exact Hwf].
  Qed.
End Abs.

(* clone equals original, for every entity kind below the model, every flag setting of C10's equals and every
   interpretation of the numeric tokens; premises: neq reflexive etc. (C10: neq_laws), stored prefixes normalised,
   unset order = 0, reset variable records agree with the component variable of the same identity, coherent imports *)
Theorem clone_equals_original : forall (num : string -> Q) neq fl, neq_laws neq ->
  (forall n i, eq_entity neq fl (EImportSource (abs_isrc (fst (clone_isrc n i)))) (EImportSource (abs_isrc i)) = true) /\
  (forall fx n u, wf_units u ->
     eq_entity neq fl (EUnits (abs_units num (fst (clone_units fx n u)))) (EUnits (abs_units num u)) = true) /\
  (forall fx n v, wfd_var v ->
     eq_entity neq fl (EVariable (abs_var num (fst (clone_variable fx n v)))) (EVariable (abs_var num v)) = true) /\
  (forall fx n r, fx_order fx = true -> wfd_reset r ->
     eq_entity neq fl (EReset (abs_reset num (fst (clone_reset fx n r)))) (EReset (abs_reset num r)) = true) /\
  (forall n c, coherent (comp_imps c) -> wfd_comp num c ->
     eq_entity neq fl (EComponent (abs_comp num (fst (clone_component all_fixed n c)))) (EComponent (abs_comp num c)) = true).
Proof.
  intros num neq fl L. repeat split.
  - intros n i. apply equals_refl_asis. exact L.
  - intros fx n u H. rewrite clone_units_abs by exact H. apply equals_refl_asis. exact L.
  - intros fx n v H. rewrite clone_variable_abs by exact H. apply equals_refl_asis. exact L.
  - intros fx n r Hf H. rewrite clone_reset_abs by assumption. apply equals_refl_asis. exact L.
  - intros n c Hc Hw. rewrite clone_component_abs; [apply equals_refl_asis; exact L | reflexivity | reflexivity | exact Hc | exact Hw].
Qed.
