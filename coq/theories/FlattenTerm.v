(* FlattenTerm.v -- C06: termination of the flattening model.
   The claim "on an acyclic import graph the fuelled model returns (no FFuel) for sufficient fuel" is FALSE for the code as it
   is: the renaming of imported units can close a units cycle (finding C06-units-name-capture), after which Units::equivalent
   -- in the library: unbounded recursion, stack exhaustion -- never returns.  The witness below passes resolveImports and the
   pre-checks of flattenModel (checks/c06.py, case hand_kf_units_cycle_by_renaming: R=1, flattenModel SIGSEGV). *)
From Coq Require Import List String Ascii ZArith QArith Bool Arith Lia.
From LC Require Import Common NumDefs UnitsDefs FlattenDefs.
Import ListNotations.
Local Open Scope string_scope.
Local Open Scope nat_scope.
Local Open Scope list_scope.

(* f1: units u0 = [u1], units u1 (a base unit) *)
Definition term_lib : model :=
  {| m_own := OLib 0; m_name := "m1";
     m_units := [ {| u_own := OLib 0; u_name := "u0"; u_imp := None;
                     u_defs := [{| uc_ref := "u1"; uc_prefix := ""; uc_exp := 1; uc_mult := 0 |}] |};
                  {| u_own := OLib 0; u_name := "u1"; u_imp := None; u_defs := [] |} ];
     m_comps := []; m_eqs := [] |}.
(* f0: units u0 (a base unit); units u1 imported from f1 (units_ref u0); component top with z in u1 *)
Definition term_origin : model :=
  {| m_own := OOrigin; m_name := "m0";
     m_units := [ {| u_own := OOrigin; u_name := "u0"; u_imp := None; u_defs := [] |};
                  {| u_own := OOrigin; u_name := "u1"; u_imp := Some {| i_url := "f1.cellml"; i_lib := 0; i_ref := "u0" |}; u_defs := [] |} ];
     m_comps := [Comp OOrigin "top" None [] [{| v_oid := 0; v_name := "z"; v_units := Some "u1"; v_init := "1"; v_iface := "" |}] []];
     m_eqs := [] |}.

(* the import graph is acyclic: a rank on files that decreases along every import (the library model imports nothing) *)
Fixpoint comp_imports (c : comp) : list nat :=
  match c with Comp _ _ im _ _ kids => (match im with Some i => [i_lib i] | None => [] end) ++ flat_map comp_imports kids end.
Definition model_imports (m : model) : list nat :=
  flat_map (fun u => match u_imp u with Some i => [i_lib i] | None => [] end) (m_units m) ++ flat_map comp_imports (m_comps m).

(* rank k = rank of library model k; the origin has rank_origin *)
Definition acyclic_imports (libs : list model) (origin : model) (rank : nat -> nat) (rank_origin : nat) : Prop :=
  (forall k, In k (model_imports origin) -> rank k < rank_origin) /\
  (forall j L k, nth_error libs j = Some L -> In k (model_imports L) -> rank k < rank j).

Lemma term_witness_acyclic : acyclic_imports [term_lib] term_origin (fun _ => 0) 1.
Proof.
  split.
  - intros k H. cbn in H. destruct H as [H|[]]. subst. lia.
  - intros j L k Hn Hin. destruct j as [|[|j]]; cbn in Hn; try discriminate. inversion Hn; subst L. cbn in Hin. destruct Hin.
Qed.

(* ... and the units of each file are acyclic (u0 -> u1 in f1; nothing in f0) *)

(* flatten_terminates_refuted (the code before 85ba0d4, flag fx_cycle_guard = false): whatever the fuel, the model never returns: the first round gives the imported u0 the name u1,
   its reference "u1" now names itself, and the next Units::equivalent on it recurses for ever *)
Theorem flatten_terminates_refuted : forall rounds fuel n0,
  flatten_model rounds fuel flat_no_cycle_guard [term_lib] term_origin n0 = FFuel.
Proof.
  intros rounds fuel n0.
  destruct rounds as [|rounds]; [vm_compute; reflexivity|].
  destruct fuel as [|[|[|[|[|[|fuel]]]]]]; vm_compute; reflexivity.
Qed.

(* with hasUnitsCycle() consulted first (85ba0d4) the same input flattens: the self-referring u1 is "not equivalent" to the
   dependency, the dependency is added as u1_1, and the reference is rewritten (b6a87da): u1 = [u1_1], no cycle is left *)
Theorem flatten_cycle_guard_returns :
  exists flat st, flatten_model 10 50 flat_current_fixes [term_lib] term_origin 100 = FOk (flat, st) /\
    map (fun u => (u_name u, map uc_ref (u_defs u))) (m_units flat) = [("u0", []); ("u1", ["u1_1"]); ("u1_1", [])].
Proof. eexists. eexists. split; vm_compute; reflexivity. Qed.

(* ---- what still diverges with the guard (the code on HEAD): the recursion of transferUnitsRenamingIfRequired itself.
   f0: units q imported from f1 (units_ref v); component c imported from f1.   f1: q = [v * 0.001], v = kilo metre; c with x in q, y in v.
   v is re-used as f0's q (equivalent), the NAME q is written into the clone's q = [v], which now reads q = [q]; q is "not
   equivalent" to anything (cyclic), so its child -- itself -- is cloned and transferred, and so on.  Acyclic import graph, acyclic
   units in both files, resolveImports true, pre-checks pass; the library dies of stack exhaustion (hand_kf_transfer_recursion). *)
Definition rec_lib : model :=
  {| m_own := OLib 0; m_name := "m1";
     m_units := [ {| u_own := OLib 0; u_name := "q"; u_imp := None;
                     u_defs := [{| uc_ref := "v"; uc_prefix := ""; uc_exp := 1; uc_mult := inject_Z (-3) |}] |};
                  {| u_own := OLib 0; u_name := "v"; u_imp := None;
                     u_defs := [{| uc_ref := "metre"; uc_prefix := "kilo"; uc_exp := 1; uc_mult := 0 |}] |} ];
     m_comps := [Comp (OLib 0) "c" None [] [{| v_oid := 10; v_name := "x"; v_units := Some "q"; v_init := "2"; v_iface := "" |};
                                            {| v_oid := 11; v_name := "y"; v_units := Some "v"; v_init := "3"; v_iface := "" |}] []];
     m_eqs := [] |}.
Definition rec_origin : model :=
  {| m_own := OOrigin; m_name := "m0";
     m_units := [ {| u_own := OOrigin; u_name := "q"; u_imp := Some {| i_url := "f1.cellml"; i_lib := 0; i_ref := "v" |}; u_defs := [] |} ];
     m_comps := [Comp OOrigin "top" None [] [{| v_oid := 0; v_name := "z"; v_units := Some "q"; v_init := "1"; v_iface := "" |}] [];
                 Comp OOrigin "c" (Some {| i_url := "f1.cellml"; i_lib := 0; i_ref := "c" |}) [] [] []];
     m_eqs := [] |}.

Lemma rec_witness_acyclic : acyclic_imports [rec_lib] rec_origin (fun _ => 0) 1.
Proof.
  split.
  - intros k H. cbn in H. destruct H as [H|[H|[]]]; subst; lia.
  - intros j L k Hn Hin. destruct j as [|[|j]]; cbn in Hn; try discriminate. inversion Hn; subst L. cbn in Hin. destruct Hin.
Qed.

(* bounded witness: the fuel the correspondence run uses, and ten times more rounds / four times more fuel *)
Theorem flatten_with_guard_diverges_bounded :
  flatten_model 40 400 flat_current_fixes [rec_lib] rec_origin 100 = FFuel /\
  flatten_model 400 1600 flat_current_fixes [rec_lib] rec_origin 100 = FFuel.
Proof. split; vm_compute; reflexivity. Qed.
