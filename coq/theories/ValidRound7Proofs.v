(** ValidRound7Proofs.v — proof depth round 7 (C04): composition laws of the list passes of the validator over ++. *)
From Coq Require Import String Ascii List Bool Arith.
From LC Require Import MathDefs ValidDefs.
Import ListNotations.
Local Open Scope list_scope.

(** validateComponent's loop over the variables: splitting the variable list anywhere splits the issue list, the second
    half being checked against the names seen so far. *)
Theorem validate_variables_app : forall m c a b prev,
  validate_variables m c prev (a ++ b)
  = validate_variables m c prev a ++ validate_variables m c (prev ++ map v_name a) b.
Proof.
  intros m c a; induction a as [|v r IH]; intros b prev; simpl.
  - now rewrite app_nil_r.
  - rewrite IH, <- !app_assoc. simpl. reflexivity.
Qed.

(** validateMath: over roots that are all <math> the pass is a homomorphism ... *)
Theorem validate_math_app : forall q vars units a b,
  Forall (fun d => is_mathml_el "math" d = true) a ->
  validate_math q vars units (a ++ b) = validate_math q vars units a ++ validate_math q vars units b.
Proof.
  intros q vars units a b H; induction H as [|d r Hd _ IH]; simpl; [reflexivity|].
  rewrite Hd, IH, app_assoc. reflexivity.
Qed.

(** ... and the first root that is not <math> ends it: whatever follows is never looked at. *)
Theorem validate_math_stops : forall q vars units a d b,
  Forall (fun d => is_mathml_el "math" d = true) a -> is_mathml_el "math" d = false ->
  validate_math q vars units (a ++ d :: b) = validate_math q vars units a ++ [V_MATH_ELEMENT].
Proof.
  intros q vars units a d b H Hd. rewrite validate_math_app by exact H. simpl. now rewrite Hd.
Qed.
