(** HeapBase.v — C09: basic facts about the list helpers and the state primitives of HeapDefs.v. *)
From Coq Require Import List String Bool Arith PeanoNat Lia Relations.
From LC Require Import HeapDefs.
Import ListNotations.

(* ------------------------------------------------------------------------------------------------ lists *)

Lemma find_index_some : forall {A} (p : A -> bool) l i,
  find_index p l = Some i -> exists a, nth_error l i = Some a /\ p a = true.
Proof.
  intros A p l. induction l as [|a t IH]; intros i H; cbn in H; [discriminate|].
  destruct (p a) eqn:Hp.
  - inversion H; subst. exists a. split; [reflexivity|assumption].
  - destruct (find_index p t) as [j|] eqn:Hf; [|discriminate].
    inversion H; subst. destruct (IH j eq_refl) as [b [Hb Hpb]]. exists b. split; assumption.
Qed.

Lemma find_index_none : forall {A} (p : A -> bool) l,
  find_index p l = None -> forall a, In a l -> p a = false.
Proof.
  intros A p l. induction l as [|a t IH]; intros H b Hb; [destruct Hb|].
  cbn in H. destruct (p a) eqn:Hp; [discriminate|].
  destruct (find_index p t) eqn:Hf; [discriminate|].
  destruct Hb as [->|Hb]; [assumption|]. apply IH; auto.
Qed.

Lemma find_index_first : forall {A} (p : A -> bool) l i,
  find_index p l = Some i -> forall j b, j < i -> nth_error l j = Some b -> p b = false.
Proof.
  intros A p l. induction l as [|a t IH]; intros i H j b Hj Hb; cbn in H; [discriminate|].
  destruct (p a) eqn:Hp.
  - inversion H; subst. lia.
  - destruct (find_index p t) as [i'|] eqn:Hf; [|discriminate]. inversion H; subst.
    destruct j as [|j]; cbn in Hb.
    + inversion Hb; subst; assumption.
    + eapply IH; eauto. lia.
Qed.

Lemma index_of_some : forall x l i, index_of x l = Some i -> nth_error l i = Some x.
Proof.
  intros x l i H. unfold index_of in H. apply find_index_some in H. destruct H as [a [Ha Hx]].
  apply Nat.eqb_eq in Hx. subst. assumption.
Qed.

Lemma index_of_none : forall x l, index_of x l = None -> ~ In x l.
Proof.
  intros x l H Hin. unfold index_of in H. pose proof (find_index_none _ _ H x Hin) as E.
  rewrite Nat.eqb_refl in E. discriminate.
Qed.

Lemma index_of_in : forall x l, In x l -> exists i, index_of x l = Some i.
Proof.
  intros x l Hin. destruct (index_of x l) as [i|] eqn:E; [eauto|]. exfalso. eapply index_of_none; eauto.
Qed.

Lemma memb_true : forall x l, memb x l = true <-> In x l.
Proof.
  intros x l. unfold memb. rewrite existsb_exists. split.
  - intros [y [Hy E]]. apply Nat.eqb_eq in E. subst. assumption.
  - intros H. exists x. split; [assumption|apply Nat.eqb_refl].
Qed.

Lemma memb_false : forall x l, memb x l = false <-> ~ In x l.
Proof.
  intros x l. rewrite <- memb_true. destruct (memb x l); split; intro H.
  - discriminate.
  - exfalso; apply H; reflexivity.
  - intro; discriminate.
  - reflexivity.
Qed.

Lemma remove_nth_in : forall {A} i (l : list A) a, In a (remove_nth i l) -> In a l.
Proof.
  intros A i. induction i as [|i IH]; intros l a H; destruct l as [|b t]; cbn in *; auto.
  destruct H as [->|H]; auto.
Qed.

Lemma remove_nth_nodup : forall {A} i (l : list A), NoDup l -> NoDup (remove_nth i l).
Proof.
  intros A i. induction i as [|i IH]; intros l H; destruct l as [|b t]; cbn; auto.
  - inversion H; assumption.
  - inversion H; subst. constructor; auto. intros Hin. apply remove_nth_in in Hin. contradiction.
Qed.

Lemma remove_nth_notin : forall {A} i (l : list A) x, NoDup l -> nth_error l i = Some x -> ~ In x (remove_nth i l).
Proof.
  intros A i. induction i as [|i IH]; intros l x Hnd Hn; destruct l as [|b t]; cbn in *; try discriminate.
  - inversion Hn; subst. inversion Hnd; assumption.
  - inversion Hnd; subst. intros [->|Hin].
    + apply nth_error_In in Hn. contradiction.
    + eapply IH; eauto.
Qed.

Lemma remove_nth_keeps : forall {A} i (l : list A) x y, nth_error l i = Some x -> In y l -> y <> x -> In y (remove_nth i l).
Proof.
  intros A i. induction i as [|i IH]; intros l x y Hn Hin Hne; destruct l as [|b t]; cbn in *; try discriminate.
  - inversion Hn; subst. destruct Hin as [->|Hin]; [contradiction|assumption].
  - destruct Hin as [->|Hin]; [left; reflexivity|]. right. eapply IH; eauto.
Qed.

Lemma remove_nth_oob : forall {A} i (l : list A), nth_error l i = None -> remove_nth i l = l.
Proof.
  intros A i. induction i as [|i IH]; intros l H; destruct l as [|b t]; cbn in *; try discriminate; auto.
  f_equal. apply IH. assumption.
Qed.

Lemma insert_nth_in : forall {A} i (x : A) l a, In a (insert_nth i x l) <-> a = x \/ In a l.
Proof.
  intros A i. induction i as [|i IH]; intros x l a; destruct l as [|b t]; cbn.
  - intuition.
  - intuition.
  - intuition.
  - rewrite IH. intuition.
Qed.

Lemma insert_nth_nodup : forall {A} i (x : A) l, NoDup l -> ~ In x l -> NoDup (insert_nth i x l).
Proof.
  intros A i. induction i as [|i IH]; intros x l Hnd Hni; destruct l as [|b t]; cbn.
  - constructor; auto.
  - constructor; auto.
  - constructor; auto.
  - inversion Hnd; subst. constructor.
    + rewrite insert_nth_in. intros [->|Hin]; [apply Hni; left; reflexivity|contradiction].
    + apply IH; auto. intros Hin. apply Hni. right. assumption.
Qed.

Lemma app_one_nodup : forall {A} (l : list A) x, NoDup l -> ~ In x l -> NoDup (l ++ [x]).
Proof.
  intros A l x Hnd Hni. induction l as [|a t IH]; cbn.
  - constructor; auto.
  - inversion Hnd; subst. constructor.
    + rewrite in_app_iff. intros [H|[H|[]]]; [contradiction|]. subst. apply Hni. left. reflexivity.
    + apply IH; auto. intros H. apply Hni. right. assumption.
Qed.

Lemma remove_first_in : forall x l a, In a (remove_first x l) -> In a l.
Proof.
  intros x l a H. unfold remove_first in H. destruct (index_of x l); [eapply remove_nth_in; eauto|assumption].
Qed.

Lemma remove_first_keeps : forall x l a, In a l -> a <> x -> In a (remove_first x l).
Proof.
  intros x l a Hin Hne. unfold remove_first. destruct (index_of x l) as [i|] eqn:E; [|assumption].
  apply index_of_some in E. eapply remove_nth_keeps; eauto.
Qed.

Lemma upd_nth_length : forall {A} n (f : A -> A) l, List.length (upd_nth n f l) = List.length l.
Proof.
  intros A n f l. revert n. induction l as [|a t IH]; intros n; cbn; [reflexivity|].
  destruct n; cbn; [reflexivity|]. f_equal. apply IH.
Qed.

Lemma upd_nth_nth : forall {A} n (f : A -> A) l m d,
  nth m (upd_nth n f l) d = if Nat.eqb n m && Nat.ltb n (List.length l) then f (nth m l d) else nth m l d.
Proof.
  intros A n f l. revert n. induction l as [|a t IH]; intros n m d; cbn.
  - destruct m; rewrite andb_false_r; reflexivity.
  - destruct n as [|n]; destruct m as [|m]; cbn; try reflexivity.
    rewrite IH. replace (S n <? S (List.length t)) with (n <? List.length t); [reflexivity|].
    destruct (Nat.ltb_spec n (List.length t)); destruct (Nat.ltb_spec (S n) (S (List.length t))); try reflexivity; lia.
Qed.

Lemma mapi_from_length : forall {A B} (f : nat -> A -> B) n l, List.length (mapi_from f n l) = List.length l.
Proof. intros A B f n l. revert n. induction l; intros; cbn; auto. Qed.

Lemma mapi_from_nth : forall {A B} (f : nat -> A -> B) l n m d d',
  m < List.length l -> nth m (mapi_from f n l) d' = f (n + m) (nth m l d).
Proof.
  intros A B f l. induction l as [|a t IH]; intros n m d d' H; cbn in *; [lia|].
  destruct m as [|m].
  - rewrite Nat.add_0_r. reflexivity.
  - rewrite IH with (d := d); [|lia]. f_equal. lia.
Qed.

(* ------------------------------------------------------------------------------------------------ state primitives *)

Definition inr (s : state) (x : nat) : Prop := x < List.length (objs s).

Lemma getd_upd : forall s x f y,
  getd (upd s x f) y = if Nat.eqb x y && Nat.ltb x (List.length (objs s)) then f (getd s y) else getd s y.
Proof. intros. unfold getd, upd. cbn. apply upd_nth_nth. Qed.

Lemma getd_upd_same : forall s x f, inr s x -> getd (upd s x f) x = f (getd s x).
Proof.
  intros s x f H. rewrite getd_upd. rewrite Nat.eqb_refl. unfold inr in H.
  destruct (Nat.ltb_spec x (List.length (objs s))); [reflexivity|lia].
Qed.

Lemma getd_upd_other : forall s x f y, x <> y -> getd (upd s x f) y = getd s y.
Proof. intros s x f y H. rewrite getd_upd. apply Nat.eqb_neq in H. rewrite H. reflexivity. Qed.

Lemma getd_oob : forall s x, ~ inr s x -> getd s x = blank.
Proof. intros s x H. unfold getd. apply nth_overflow. unfold inr in H. lia. Qed.

Lemma upd_oob : forall s x f, ~ inr s x -> forall y, getd (upd s x f) y = getd s y.
Proof.
  intros s x f H y. rewrite getd_upd. unfold inr in H.
  destruct (Nat.ltb_spec x (List.length (objs s))); [lia|]. rewrite andb_false_r. reflexivity.
Qed.

Lemma length_upd : forall s x f, List.length (objs (upd s x f)) = List.length (objs s).
Proof. intros. unfold upd. cbn. apply upd_nth_length. Qed.

Lemma handles_upd : forall s x f, handles (upd s x f) = handles s.
Proof. reflexivity. Qed.

Lemma clist_set_clist : forall K K' l o, clist K' (set_clist K l o) = if ck_eqb K K' then l else clist K' o.
Proof. intros K K' l o. destruct K, K'; reflexivity. Qed.

Lemma children_oob : forall s K k, ~ inr s k -> children s K k = [].
Proof. intros s K k H. unfold children. rewrite getd_oob by assumption. destruct K; reflexivity. Qed.

Lemma children_inr : forall s K k x, In x (children s K k) -> inr s k.
Proof.
  intros s K k x H. destruct (Nat.lt_ge_cases k (List.length (objs s))) as [L|G]; [exact L|].
  rewrite children_oob in H; [destruct H|]. unfold inr. lia.
Qed.

Lemma ck_eqb_eq : forall a b, ck_eqb a b = true <-> a = b.
Proof. intros a b. destruct a, b; cbn; split; intros H; try reflexivity; try discriminate. Qed.
Lemma ck_eqb_refl : forall a, ck_eqb a a = true.
Proof. destruct a; reflexivity. Qed.
Lemma kind_eqb_eq : forall a b, kind_eqb a b = true <-> a = b.
Proof. intros a b. destruct a, b; cbn; split; intros H; try reflexivity; try discriminate. Qed.

(** projections through the primitives *)
Lemma parent_set_parent_of : forall s x p y,
  parent_of (set_parent_of s x p) y = if Nat.eqb x y && Nat.ltb x (List.length (objs s)) then p else parent_of s y.
Proof.
  intros. unfold parent_of, set_parent_of. rewrite getd_upd.
  destruct (Nat.eqb x y && Nat.ltb x (List.length (objs s))); reflexivity.
Qed.

Lemma children_set_parent_of : forall s x p K k, children (set_parent_of s x p) K k = children s K k.
Proof.
  intros. unfold children, set_parent_of. rewrite getd_upd.
  destruct (Nat.eqb x k && Nat.ltb x (List.length (objs s))); [destruct K; reflexivity|reflexivity].
Qed.

Lemma eqs_set_parent_of : forall s x p y, eqs_of (set_parent_of s x p) y = eqs_of s y.
Proof.
  intros. unfold eqs_of, set_parent_of. rewrite getd_upd.
  destruct (Nat.eqb x y && Nat.ltb x (List.length (objs s))); reflexivity.
Qed.

Lemma kind_set_parent_of : forall s x p y, o_kind (getd (set_parent_of s x p) y) = o_kind (getd s y).
Proof.
  intros. unfold set_parent_of. rewrite getd_upd.
  destruct (Nat.eqb x y && Nat.ltb x (List.length (objs s))); reflexivity.
Qed.

Lemma children_set_children : forall s K k l K' k',
  children (set_children s K k l) K' k' =
  if Nat.eqb k k' && Nat.ltb k (List.length (objs s)) && ck_eqb K K' then l else children s K' k'.
Proof.
  intros. unfold children, set_children. rewrite getd_upd.
  destruct (Nat.eqb k k' && Nat.ltb k (List.length (objs s))); cbn; [|reflexivity].
  apply clist_set_clist.
Qed.

Lemma parent_set_children : forall s K k l y, parent_of (set_children s K k l) y = parent_of s y.
Proof.
  intros. unfold parent_of, set_children. rewrite getd_upd.
  destruct (Nat.eqb k y && Nat.ltb k (List.length (objs s))); [destruct K; reflexivity|reflexivity].
Qed.

Lemma eqs_set_children : forall s K k l y, eqs_of (set_children s K k l) y = eqs_of s y.
Proof.
  intros. unfold eqs_of, set_children. rewrite getd_upd.
  destruct (Nat.eqb k y && Nat.ltb k (List.length (objs s))); [destruct K; reflexivity|reflexivity].
Qed.

Lemma kind_set_children : forall s K k l y, o_kind (getd (set_children s K k l) y) = o_kind (getd s y).
Proof.
  intros. unfold set_children. rewrite getd_upd.
  destruct (Nat.eqb k y && Nat.ltb k (List.length (objs s))); [destruct K; reflexivity|reflexivity].
Qed.

Lemma eqs_set_eqs_of : forall s x l y,
  eqs_of (set_eqs_of s x l) y = if Nat.eqb x y && Nat.ltb x (List.length (objs s)) then l else eqs_of s y.
Proof.
  intros. unfold eqs_of, set_eqs_of. rewrite getd_upd.
  destruct (Nat.eqb x y && Nat.ltb x (List.length (objs s))); reflexivity.
Qed.

Lemma parent_set_eqs_of : forall s x l y, parent_of (set_eqs_of s x l) y = parent_of s y.
Proof.
  intros. unfold parent_of, set_eqs_of. rewrite getd_upd.
  destruct (Nat.eqb x y && Nat.ltb x (List.length (objs s))); reflexivity.
Qed.

Lemma children_set_eqs_of : forall s x l K k, children (set_eqs_of s x l) K k = children s K k.
Proof.
  intros. unfold children, set_eqs_of. rewrite getd_upd.
  destruct (Nat.eqb x k && Nat.ltb x (List.length (objs s))); [destruct K; reflexivity|reflexivity].
Qed.

Lemma kind_set_eqs_of : forall s x l y, o_kind (getd (set_eqs_of s x l) y) = o_kind (getd s y).
Proof.
  intros. unfold set_eqs_of. rewrite getd_upd.
  destruct (Nat.eqb x y && Nat.ltb x (List.length (objs s))); reflexivity.
Qed.

(** kinds as seen through [getd] *)
Definition kindd (s : state) (x : nat) : kind := o_kind (getd s x).

Lemma kind_is_kindd : forall s x k, kind_is s x k = true -> inr s x /\ kindd s x = k.
Proof.
  intros s x k H. unfold kind_is, get in H. destruct (nth_error (objs s) x) as [o|] eqn:E; [|discriminate].
  split.
  - unfold inr. apply nth_error_Some. rewrite E. discriminate.
  - unfold kindd, getd. erewrite nth_error_nth by eassumption. apply kind_eqb_eq. assumption.
Qed.

Lemma lister_ok_kindd : forall s k K, lister_ok s k K = true -> inr s k /\ lists (kindd s k) K = true.
Proof.
  intros s k K H. unfold lister_ok, get in H. destruct (nth_error (objs s) k) as [o|] eqn:E; [|discriminate].
  split.
  - unfold inr. apply nth_error_Some. rewrite E. discriminate.
  - unfold kindd, getd. erewrite nth_error_nth by eassumption. assumption.
Qed.

Lemma kind_is_inr_eq : forall s x k, inr s x -> kind_is s x k = kind_eqb (kindd s x) k.
Proof.
  intros s x k H. unfold kind_is, get, kindd, getd. unfold inr in H.
  destruct (nth_error (objs s) x) as [o|] eqn:E.
  - erewrite nth_error_nth by eassumption. reflexivity.
  - apply nth_error_None in E. lia.
Qed.

Lemma length_set_children : forall s K k l, List.length (objs (set_children s K k l)) = List.length (objs s).
Proof. intros. apply length_upd. Qed.
Lemma length_set_parent_of : forall s x p, List.length (objs (set_parent_of s x p)) = List.length (objs s).
Proof. intros. apply length_upd. Qed.
Lemma length_set_eqs_of : forall s x l, List.length (objs (set_eqs_of s x l)) = List.length (objs s).
Proof. intros. apply length_upd. Qed.
