(** ValidDefs.v — executable model of libcellml's Validator (C04).  No proofs in this file.

    Transcribed, as the code is now (file: function beside each definition):
      src/validator.cpp   validateCellmlIdentifier / isCellmlIdentifier (re-used from LC.MathDefs), isNameStartChar,
                          isNameChar, convertTextToUint32, characterBreakdown, isValidXmlName,
                          Validator::validateModel, ValidatorImpl::validateUniqueName, validateComponentTree,
                          validateImportSource, validateComponent, namesInCycle, hasCycleAlreadyBeenReported,
                          checkIssuesForDuplications, checkForLocalCycles, validateUnits, validateUnitsUnitsItem,
                          validateVariable, validateReset, validateMath (the tree passes: LC.MathDefs.val_math_env, written
                          by C01 and checked there against the same code), reachableEquivalence, interfaceTypeIsCompatible,
                          validateVariableInterface, validateEquivalenceUnits (unit reduction: a parameter, instantiated by
                          LC.UnitsDefs.val_equiv of C08), validateEquivalenceStructure, validateConnections,
                          checkUniqueResetOrders, addResetOrderMapItem, traverseComponentTree, buildModelResetOrderMap,
                          checkUniqueIds, addIdMapItem, buildModelIdMap, buildComponentIdMap, buildMathIdMap,
                          buildMathChildIdMap
      src/utilities.cpp   isStandardUnitName, isStandardPrefixName, isEntityChildOf, areEntitiesSiblings,
                          publicAndOrPrivateInterfaceTypeRequired, interfaceTypeFor, determineInterfaceType,
                          findAllVariablesWithEquivalences, importeeModelUrl, checkForImportCycles, createHistoryEpoch
      src/internaltypes.cpp  HistoryEpoch
    Regenerated tables used: LCGen.RuleTable (the ReferenceRule enum), LCGen.UnitTables, LCGen.PrefixTable,
    LCGen.IfaceTable (interfaceTypeToString), LCGen.MathTables (supportedMathMLElements, through MathDefs).

    What is NOT modelled (assumptions, see checks/meta/C04.json): the text -> tree step of libxml2 (math is given as
    [xml] trees, one per root element of the math string; "XML" issues do not exist here), the W3C MathML DTD pass,
    xmlParseURI (its verdict is the field [is_url_ok]), the wording of descriptions (two description-keyed
    de-duplications are modelled by keys), doubles (exponents and log10-multipliers are [Q], as in LC.UnitsDefs).

    Objects are values; identity of C++ objects is an explicit [nat] tag where the code compares pointers (variables,
    components, import sources).  A world is a list of models: model 0 is the one handed to validateModel, the others are
    the models attached to import sources ([is_model] = index).  Every issue of the validator has level ERROR. *)
From Coq Require Import String Ascii List Bool Arith ZArith NArith QArith.
From LC Require Import Common NumDefs NumPosDefs MathDefs.
From LC Require UnitsDefs.
From LCGen Require RuleTable.
From LCGen Require Import UnitTables PrefixTable IfaceTable.
Import ListNotations.
Local Open Scope string_scope.
Local Open Scope list_scope.
Local Open Scope nat_scope.

(* ================================================================================================ issues *)

Inductive level := Error | Warning | Message.

(** the reference rules validator.cpp attaches, plus two pseudo rules that are not issues:
    [V_NULL_DEREF]: the real code would call a member function through a null pointer here (the MathML sibling
    look-ups — MathProofs.val_null_safe shows it never happens —, a unit reduction that does not return);
    [V_OUT_OF_FUEL]: the real code would recurse without bound here (never produced: ValidProofs.units_fuel_enough). *)
Inductive vrule :=
| V_XML_ID_ATTRIBUTE | V_MODEL_NAME_VALUE
| V_COMPONENT_NAME_VALUE | V_COMPONENT_NAME_UNIQUE
| V_IMPORT_COMPONENT_NAME_VALUE | V_IMPORT_COMPONENT_NAME_UNIQUE
| V_IMPORT_COMPONENT_COMPONENT_REFERENCE_VALUE | V_IMPORT_COMPONENT_COMPONENT_REFERENCE
| V_IMPORT_COMPONENT_COMPONENT_REFERENCE_TARGET | V_IMPORT_HREF_LOCATOR
| V_IMPORT_UNITS_NAME_VALUE | V_IMPORT_UNITS_NAME_UNIQUE | V_IMPORT_UNITS_UNITS_REFERENCE
| V_IMPORT_UNITS_UNITS_REFERENCE_VALUE | V_IMPORT_UNITS_UNITS_REFERENCE_VALUE_TARGET
| V_UNITS_NAME_VALUE | V_UNITS_NAME_UNIQUE | V_UNITS_STANDARD
| V_UNIT_UNITS_REFERENCE | V_UNIT_UNITS_CIRCULAR_REFERENCE | V_UNIT_ATTRIBUTE_PREFIX_VALUE
| V_VARIABLE_NAME_VALUE | V_VARIABLE_NAME_UNIQUE | V_VARIABLE_UNITS_VALUE | V_VARIABLE_INTERFACE_VALUE
| V_VARIABLE_INITIAL_VALUE_VALUE
| V_RESET_VARIABLE_REFERENCE | V_RESET_TEST_VARIABLE_REFERENCE | V_RESET_ORDER_VALUE | V_RESET_ORDER_UNIQUE
| V_TEST_VALUE_ELEMENT | V_RESET_VALUE_ELEMENT
| V_MATH_ELEMENT | V_MATH_MATHML | V_MATH_CHILD | V_MATH_CI_VARIABLE_REFERENCE | V_MATH_CN_UNITS_ATTRIBUTE
| V_MATH_CN_UNITS_ATTRIBUTE_REFERENCE | V_MATH_CN_BASE10 | V_MATH_CN_FORMAT
| V_MAP_VARIABLES_ELEMENT | V_MAP_VARIABLES_VARIABLE1_ATTRIBUTE
| V_NULL_DEREF | V_OUT_OF_FUEL.

(** the enumerator name in `enum class ReferenceRule` (issue.h) *)
Definition vrule_name (r : vrule) : string :=
  match r with
  | V_XML_ID_ATTRIBUTE => "XML_ID_ATTRIBUTE" | V_MODEL_NAME_VALUE => "MODEL_NAME_VALUE"
  | V_COMPONENT_NAME_VALUE => "COMPONENT_NAME_VALUE" | V_COMPONENT_NAME_UNIQUE => "COMPONENT_NAME_UNIQUE"
  | V_IMPORT_COMPONENT_NAME_VALUE => "IMPORT_COMPONENT_NAME_VALUE"
  | V_IMPORT_COMPONENT_NAME_UNIQUE => "IMPORT_COMPONENT_NAME_UNIQUE"
  | V_IMPORT_COMPONENT_COMPONENT_REFERENCE_VALUE => "IMPORT_COMPONENT_COMPONENT_REFERENCE_VALUE"
  | V_IMPORT_COMPONENT_COMPONENT_REFERENCE => "IMPORT_COMPONENT_COMPONENT_REFERENCE"
  | V_IMPORT_COMPONENT_COMPONENT_REFERENCE_TARGET => "IMPORT_COMPONENT_COMPONENT_REFERENCE_TARGET"
  | V_IMPORT_HREF_LOCATOR => "IMPORT_HREF_LOCATOR"
  | V_IMPORT_UNITS_NAME_VALUE => "IMPORT_UNITS_NAME_VALUE" | V_IMPORT_UNITS_NAME_UNIQUE => "IMPORT_UNITS_NAME_UNIQUE"
  | V_IMPORT_UNITS_UNITS_REFERENCE => "IMPORT_UNITS_UNITS_REFERENCE"
  | V_IMPORT_UNITS_UNITS_REFERENCE_VALUE => "IMPORT_UNITS_UNITS_REFERENCE_VALUE"
  | V_IMPORT_UNITS_UNITS_REFERENCE_VALUE_TARGET => "IMPORT_UNITS_UNITS_REFERENCE_VALUE_TARGET"
  | V_UNITS_NAME_VALUE => "UNITS_NAME_VALUE" | V_UNITS_NAME_UNIQUE => "UNITS_NAME_UNIQUE"
  | V_UNITS_STANDARD => "UNITS_STANDARD"
  | V_UNIT_UNITS_REFERENCE => "UNIT_UNITS_REFERENCE" | V_UNIT_UNITS_CIRCULAR_REFERENCE => "UNIT_UNITS_CIRCULAR_REFERENCE"
  | V_UNIT_ATTRIBUTE_PREFIX_VALUE => "UNIT_ATTRIBUTE_PREFIX_VALUE"
  | V_VARIABLE_NAME_VALUE => "VARIABLE_NAME_VALUE" | V_VARIABLE_NAME_UNIQUE => "VARIABLE_NAME_UNIQUE"
  | V_VARIABLE_UNITS_VALUE => "VARIABLE_UNITS_VALUE" | V_VARIABLE_INTERFACE_VALUE => "VARIABLE_INTERFACE_VALUE"
  | V_VARIABLE_INITIAL_VALUE_VALUE => "VARIABLE_INITIAL_VALUE_VALUE"
  | V_RESET_VARIABLE_REFERENCE => "RESET_VARIABLE_REFERENCE"
  | V_RESET_TEST_VARIABLE_REFERENCE => "RESET_TEST_VARIABLE_REFERENCE"
  | V_RESET_ORDER_VALUE => "RESET_ORDER_VALUE" | V_RESET_ORDER_UNIQUE => "RESET_ORDER_UNIQUE"
  | V_TEST_VALUE_ELEMENT => "TEST_VALUE_ELEMENT" | V_RESET_VALUE_ELEMENT => "RESET_VALUE_ELEMENT"
  | V_MATH_ELEMENT => "MATH_ELEMENT" | V_MATH_MATHML => "MATH_MATHML" | V_MATH_CHILD => "MATH_CHILD"
  | V_MATH_CI_VARIABLE_REFERENCE => "MATH_CI_VARIABLE_REFERENCE"
  | V_MATH_CN_UNITS_ATTRIBUTE => "MATH_CN_UNITS_ATTRIBUTE"
  | V_MATH_CN_UNITS_ATTRIBUTE_REFERENCE => "MATH_CN_UNITS_ATTRIBUTE_REFERENCE"
  | V_MATH_CN_BASE10 => "MATH_CN_BASE10" | V_MATH_CN_FORMAT => "MATH_CN_FORMAT"
  | V_MAP_VARIABLES_ELEMENT => "MAP_VARIABLES_ELEMENT"
  | V_MAP_VARIABLES_VARIABLE1_ATTRIBUTE => "MAP_VARIABLES_VARIABLE1_ATTRIBUTE"
  | V_NULL_DEREF => "NULL_DEREF" | V_OUT_OF_FUEL => "OUT_OF_FUEL"
  end.

Definition all_vrules : list vrule :=
  [V_XML_ID_ATTRIBUTE; V_MODEL_NAME_VALUE; V_COMPONENT_NAME_VALUE; V_COMPONENT_NAME_UNIQUE;
   V_IMPORT_COMPONENT_NAME_VALUE; V_IMPORT_COMPONENT_NAME_UNIQUE; V_IMPORT_COMPONENT_COMPONENT_REFERENCE_VALUE;
   V_IMPORT_COMPONENT_COMPONENT_REFERENCE; V_IMPORT_COMPONENT_COMPONENT_REFERENCE_TARGET; V_IMPORT_HREF_LOCATOR;
   V_IMPORT_UNITS_NAME_VALUE; V_IMPORT_UNITS_NAME_UNIQUE; V_IMPORT_UNITS_UNITS_REFERENCE;
   V_IMPORT_UNITS_UNITS_REFERENCE_VALUE; V_IMPORT_UNITS_UNITS_REFERENCE_VALUE_TARGET;
   V_UNITS_NAME_VALUE; V_UNITS_NAME_UNIQUE; V_UNITS_STANDARD; V_UNIT_UNITS_REFERENCE; V_UNIT_UNITS_CIRCULAR_REFERENCE;
   V_UNIT_ATTRIBUTE_PREFIX_VALUE; V_VARIABLE_NAME_VALUE; V_VARIABLE_NAME_UNIQUE; V_VARIABLE_UNITS_VALUE;
   V_VARIABLE_INTERFACE_VALUE; V_VARIABLE_INITIAL_VALUE_VALUE; V_RESET_VARIABLE_REFERENCE;
   V_RESET_TEST_VARIABLE_REFERENCE; V_RESET_ORDER_VALUE; V_RESET_ORDER_UNIQUE; V_TEST_VALUE_ELEMENT;
   V_RESET_VALUE_ELEMENT; V_MATH_ELEMENT; V_MATH_MATHML; V_MATH_CHILD; V_MATH_CI_VARIABLE_REFERENCE;
   V_MATH_CN_UNITS_ATTRIBUTE; V_MATH_CN_UNITS_ATTRIBUTE_REFERENCE; V_MATH_CN_BASE10; V_MATH_CN_FORMAT;
   V_MAP_VARIABLES_ELEMENT; V_MAP_VARIABLES_VARIABLE1_ATTRIBUTE].

(** the integer value of the enumerator in the REGENERATED enum (None: no such enumerator any more) *)
Fixpoint index_of_str (s : string) (l : list string) (i : nat) : option nat :=
  match l with
  | [] => None
  | x :: r => if String.eqb x s then Some i else index_of_str s r (S i)
  end.
Definition vrule_num (r : vrule) : option nat := index_of_str (vrule_name r) RuleTable.rule_names 0.

(* ================================================================================================ repairs *)

(** The repairs proposed by C04 (fixes/C04-*.diff), each a switch of the model:
    [fx_reset_set]   addResetOrderMapItem looks for an existing group among the whole connected variable set
                     (equivalentVariables) instead of the direct equivalents only;
    [fx_math_qual]   validateMathMLElementsChildrenAndSiblings descends into degree / logbase / bvar;
    [fx_isrc_once]   buildModelIdMap counts the id of an ImportSource object once, not once per importing entity;
    [fx_name_pairs]  buildComponentIdMap compares (variable name, component name) pairs and remembers connections by
                     pairs of component names, instead of comparing / remembering concatenated strings.
    (fixes/C04-mathml-nonascii-id.diff lives in the DTD pass, which is not modelled.) *)
Record fixes := mkFx { fx_reset_set : bool; fx_math_qual : bool; fx_isrc_once : bool; fx_name_pairs : bool }.
Definition unfixed : fixes := mkFx false false false false.
Definition all_fixed : fixes := mkFx true true true true.

(* ================================================================================================ entities *)

Record unit_item := mkUI { ui_ref : string; ui_prefix : string; ui_exp : Q; ui_lmult : Q (* log10 multiplier *);
                           ui_id : string }.

(** ImportSource.  [is_tag]: identity of the object (one <import> element can serve several entities).
    [is_url_ok]: verdict of xmlParseURI on a non-empty url.  [is_model]: index of the attached model. *)
Record isrc := mkIS { is_tag : nat; is_id : string; is_url : string; is_url_ok : bool; is_model : option nat }.

(** Units.  [u_imp] = Some (source, units_ref) iff isImport(). *)
Record units := mkU { u_name : string; u_id : string; u_imp : option (isrc * string); u_items : list unit_item }.

(** one entry of a variable's equivalence list, in equivalentVariable(i) order; the two ids are what
    Variable::equivalenceMappingId / equivalenceConnectionId (this variable, that variable) return *)
Record eqv := mkE { e_to : nat; e_map_id : string; e_conn_id : string }.

(** Variable.  [v_units]: name of the Units object held (None: units() == nullptr).  [v_iface]: the stored interface
    string ("" = none stored). *)
Record var := mkV { v_tag : nat; v_name : string; v_id : string; v_units : option string; v_iface : string;
                    v_init : string; v_eqs : list eqv }.

(** Reset.  [r_order] None = isOrderSet() false.  [r_var] / [r_tvar]: tag of the variable held.  [r_tv] / [r_rv]: the
    root elements of the test_value / reset_value string ([] = empty or blank string). *)
Record reset := mkR { r_id : string; r_order : option Z; r_var : option nat; r_tvar : option nat;
                      r_tv : list xml; r_tv_id : string; r_rv : list xml; r_rv_id : string }.

Record cinfo := mkC { c_tag : nat; c_name : string; c_id : string; c_encid : string; c_imp : option (isrc * string);
                      c_vars : list var; c_resets : list reset; c_math : list xml }.
Inductive comp := Comp (i : cinfo) (kids : list comp).
Definition c_info (c : comp) : cinfo := match c with Comp i _ => i end.
Definition c_kids (c : comp) : list comp := match c with Comp _ k => k end.

Record model := mkM { m_name : string; m_id : string; m_encid : string; m_units : list units; m_comps : list comp }.
Definition world := list model.
Definition empty_model : model := mkM "" "" "" [] [].
Definition model_at (W : world) (i : nat) : model := nth i W empty_model.

(* ================================================================================================ strings *)

Definition str_in (s : string) (l : list string) : bool := existsb (String.eqb s) l.
Definition nonempty (s : string) : bool := negb (str_is_empty s).

(** std::string::operator< : lexicographic on unsigned bytes *)
Fixpoint str_ltb (a b : string) : bool :=
  match a, b with
  | _, EmptyString => false
  | EmptyString, String _ _ => true
  | String x a', String y b' =>
      let nx := nat_of_ascii x in let ny := nat_of_ascii y in
      if nx <? ny then true else if ny <? nx then false else str_ltb a' b'
  end.

(** validator.cpp: isCellmlIdentifier *)
Definition is_ident (s : string) : bool := MathDefs.is_cellml_identifier s.

(** utilities.cpp: isStandardUnitName / isStandardPrefixName *)
Definition is_std_unit (s : string) : bool := UnitsDefs.is_std_name s.
Definition is_std_prefix (s : string) : bool :=
  match UnitsDefs.assoc s standard_prefix_list with Some _ => true | None => false end.

(* ---- validator.cpp: isNameStartChar / isNameChar on the packed UTF-8 bytes *)
Local Open Scope N_scope.
Definition rng (lo hi x : N) : bool := (lo <=? x) && (x <=? hi).
Definition is_name_start_char (c : N) : bool :=
  (c =? 0x3A) || rng 0x41 0x5A c || (c =? 0x5F) || rng 0x61 0x7A c
  || rng 0xC380 0xC396 c || rng 0xC398 0xC3B6 c || rng 0xC3B8 0xCBBF c || rng 0xCDB0 0xCDBD c
  || rng 0xCDBF 0xE1BFBF c || rng 0xE2808C 0xE2808D c || rng 0xE281B0 0xE2868F c || rng 0xE2B080 0xE2BFAF c
  || rng 0xE38081 0xED9FBF c || rng 0xEFA480 0xEFB78F c || rng 0xEFB7B0 0xEFBFBD c || rng 0xF0908080 0xF3AFBFBF c.
Definition is_name_char (c : N) : bool :=
  is_name_start_char c
  || rng 0x30 0x39 c || (c =? 0x2D) || (c =? 0x2E) || (c =? 0xC2B7) || rng 0xCC80 0xCDAF c || rng 0xE280BF 0xE28180 c.

(** convertTextToUint32 on the 2, 3 or 4 bytes of one code point (a truncated sequence reads the string's
    terminating NUL: 0) *)
Definition pack2 (a b : N) : N := a * 256 + b.
Definition pack3 (a b c : N) : N := (a * 256 + b) * 256 + c.
Definition pack4 (a b c d : N) : N := ((a * 256 + b) * 256 + c) * 256 + d.

(** characterBreakdown: lead byte 11110xxx -> 4 bytes, 1110xxxx -> 3, 110xxxxx -> 2, anything else 1 *)
Fixpoint breakdown (s : list N) : list N :=
  match s with
  | [] => []
  | b :: r =>
      if N.land b 0xF8 =? 0xF0 then
        match r with
        | b1 :: b2 :: b3 :: r' => pack4 b b1 b2 b3 :: breakdown r'
        | [b1; b2] => [pack4 b b1 b2 0]
        | [b1] => [pack4 b b1 0 0]
        | [] => [pack4 b 0 0 0]
        end
      else if N.land b 0xF0 =? 0xE0 then
        match r with
        | b1 :: b2 :: r' => pack3 b b1 b2 :: breakdown r'
        | [b1] => [pack3 b b1 0]
        | [] => [pack3 b 0 0]
        end
      else if N.land b 0xE0 =? 0xC0 then
        match r with
        | b1 :: r' => pack2 b b1 :: breakdown r'
        | [] => [pack2 b 0]
        end
      else b :: breakdown r
  end.
Local Close Scope N_scope.

Fixpoint bytes_of (s : string) : list N :=
  match s with EmptyString => [] | String c r => N_of_ascii c :: bytes_of r end.

(** validator.cpp: isValidXmlName — note: the empty string is accepted *)
Definition is_xml_name (s : string) : bool :=
  match breakdown (bytes_of s) with
  | [] => true
  | c :: r => is_name_start_char c && forallb is_name_char r
  end.

(* ================================================================================================ keyed issues *)

(** What the three de-duplications of the validator compare (they compare description text / object pairs):
    [KUnitsName imp n]  "Model '..' contains multiple units with the name 'n'" (checkIssuesForDuplications); [imp]: the
                        units being validated is an import, which decides the rule;
    [KImportDup url ref]  "... multiple imported units from 'url' with the same units_ref attribute 'ref'";
    [KCycle names]  the set of names of a reported units cycle (hasCycleAlreadyBeenReported);
    [KPairI a b] / [KPairU a b]  the VariablePair lists of validateVariableInterface / validateEquivalenceUnits.
    An issue is either plain (always added) or keyed (added unless an earlier issue with a matching key exists); the
    rule of a keyed issue is a function of its key. *)
Inductive key :=
| KUnitsName (imp : bool) (n : string) | KImportDup (url ref : string) | KCycle (names : list string)
| KPairI (a b : nat) | KPairU (a b : nat).
Inductive rissue := Plain (r : vrule) | Keyed (k : key).
Definition key_rule (k : key) : vrule :=
  match k with
  | KUnitsName true _ => V_IMPORT_UNITS_NAME_UNIQUE
  | KUnitsName false _ => V_UNITS_NAME_UNIQUE
  | KImportDup _ _ => V_IMPORT_UNITS_UNITS_REFERENCE
  | KCycle _ => V_UNIT_UNITS_CIRCULAR_REFERENCE
  | KPairI _ _ | KPairU _ _ => V_MAP_VARIABLES_ELEMENT
  end.
Definition rule_of (i : rissue) : vrule := match i with Plain r => r | Keyed k => key_rule k end.
Definition plain (r : vrule) : rissue := Plain r.
Definition plains (l : list vrule) : list rissue := map plain l.

Definition subset_str (a b : list string) : bool := forallb (fun x => str_in x b) a.
(** does an issue keyed [k2], raised later, find the earlier issue keyed [k1]? *)
Definition key_hits (k1 k2 : key) : bool :=
  match k1, k2 with
  | KUnitsName _ a, KUnitsName _ b => String.eqb a b
  | KImportDup u r, KImportDup u' r' => String.eqb u u' && String.eqb r r'
  | KCycle a, KCycle b => subset_str a b && subset_str b a
  | KPairI a b, KPairI a' b' => Nat.eqb a b' && Nat.eqb b a'      (* the reversed pair *)
  | KPairU a b, KPairU a' b' => Nat.eqb a b' && Nat.eqb b a'
  | _, _ => false
  end.
(** the stream of issues as the checks raise them -> the issues actually added ([seen]: keys added so far) *)
Fixpoint dedup_from (seen : list key) (l : list rissue) : list rissue :=
  match l with
  | [] => []
  | Plain r :: t => Plain r :: dedup_from seen t
  | Keyed k :: t =>
      if existsb (fun j => key_hits j k) seen then dedup_from seen t
      else Keyed k :: dedup_from (k :: seen) t
  end.
Definition dedup (l : list rissue) : list rissue := dedup_from [] l.

(* ================================================================================================ look-ups *)

(** Model::hasUnits(name) / Model::units(name): first units of that name *)
Fixpoint find_units (us : list units) (n : string) : option units :=
  match us with
  | [] => None
  | u :: r => if String.eqb (u_name u) n then Some u else find_units r n
  end.
Definition has_units (m : model) (n : string) : bool :=
  match find_units (m_units m) n with Some _ => true | None => false end.
(** Component::hasVariable(name) *)
Definition has_variable (c : cinfo) (n : string) : bool := existsb (fun v => String.eqb (v_name v) n) (c_vars c).

(** ComponentEntity::component(name, searchEncapsulated = true): direct children first, then depth first *)
Fixpoint find_comp_in (n : string) (c : comp) {struct c} : option comp :=
  match c with
  | Comp _ kids =>
      match find (fun k => String.eqb (c_name (c_info k)) n) kids with
      | Some k => Some k
      | None => (fix go (ks : list comp) : option comp :=
                   match ks with
                   | [] => None
                   | k :: r => match find_comp_in n k with Some x => Some x | None => go r end
                   end) kids
      end
  end.
Definition find_comp (m : model) (n : string) : option comp :=
  match find (fun k => String.eqb (c_name (c_info k)) n) (m_comps m) with
  | Some k => Some k
  | None => (fix go (ks : list comp) : option comp :=
               match ks with
               | [] => None
               | k :: r => match find_comp_in n k with Some x => Some x | None => go r end
               end) (m_comps m)
  end.

(** where a variable lives: its component (tag, name, isImport) and the parent() of that component *)
Inductive ploc := PModel | PComp (t : nat).
Definition ploc_eqb (a b : ploc) : bool :=
  match a, b with PModel, PModel => true | PComp x, PComp y => Nat.eqb x y | _, _ => false end.
Record vloc := mkL { l_comp : nat; l_cname : string; l_import : bool; l_parent : ploc; l_var : var }.

Definition is_import_c (c : cinfo) : bool := match c_imp c with Some _ => true | None => false end.
Definition is_import_u (u : units) : bool := match u_imp u with Some _ => true | None => false end.

Fixpoint comp_locs (p : ploc) (c : comp) : list vloc :=
  match c with
  | Comp i kids =>
      map (fun v => mkL (c_tag i) (c_name i) (is_import_c i) p v) (c_vars i)
      ++ flat_map (comp_locs (PComp (c_tag i))) kids
  end.
Definition model_locs (m : model) : list vloc := flat_map (comp_locs PModel) (m_comps m).
(** owningComponent(variable) : None = nullptr *)
Fixpoint lookup_var (L : list vloc) (t : nat) : option vloc :=
  match L with
  | [] => None
  | l :: r => if Nat.eqb (v_tag (l_var l)) t then Some l else lookup_var r t
  end.

(** every component of a tree, pre-order (the order of every traversal in validator.cpp that visits a component
    before its children) *)
Fixpoint comp_all (c : comp) : list comp := match c with Comp _ kids => c :: flat_map comp_all kids end.
Definition model_comps (m : model) : list comp := flat_map comp_all (m_comps m).

(* ================================================================================================ imports *)

(** internaltypes.h: HistoryEpoch (the fields the validator reads) *)
Record epoch := mkEp { ep_name : string; ep_src : string; ep_dst : string; ep_srcmodel : nat;
                       ep_dstmodel : option nat }.
Definition ORIGIN : string := ":this:".

(** utilities.cpp: importeeModelUrl — history oldest first, scanned from the newest *)
Fixpoint importee_url_rev (h : list epoch) (url : string) : string :=
  match h with
  | [] => ORIGIN
  | e :: r => if negb (String.eqb (ep_dst e) url) then ep_dst e else importee_url_rev r url
  end.
Definition importee_url (h : list epoch) (url : string) : string := importee_url_rev (rev h) url.

(** validator.cpp: checkForLocalCycles *)
Definition local_cycle (h : list epoch) (e : epoch) : bool :=
  existsb (fun i => String.eqb (ep_name i) (ep_name e) && String.eqb (ep_src i) (ep_src e)) h.

(** utilities.cpp: checkForImportCycles.  Model::equals between the model owning an epoch and the destination
    model is identity of models here (distinct models of a world differ). *)
Definition import_cycle (h : list epoch) (e : epoch) : bool :=
  existsb (fun i => String.eqb (ep_dst e) (ep_src i)
                    || (String.eqb (ep_src i) ORIGIN
                        && match ep_dstmodel e with Some d => Nat.eqb (ep_srcmodel i) d | None => false end)) h.

(** validator.cpp: namesInCycle on history names + the current name *)
Fixpoint take_until (n : string) (l : list string) : list string :=
  match l with
  | [] => []
  | x :: r => if String.eqb x n then [] else x :: take_until n r
  end.
Definition cycle_names (hist_names : list string) (n : string) : list string := n :: take_until n (rev hist_names).

(** validateImportSource *)
Definition validate_import_source (s : isrc) : list vrule :=
  (if is_xml_name (is_id s) then [] else [V_XML_ID_ATTRIBUTE])
  ++ (if str_is_empty (is_url s) then [V_IMPORT_HREF_LOCATOR]
      else if is_url_ok s then [] else [V_IMPORT_HREF_LOCATOR]).

(* ================================================================================================ units *)

Definition count_if {A} (f : A -> bool) (l : list A) : nat := length (filter f l).

(** the prefix test of validateUnitsUnitsItem *)
Definition validate_prefix (p : string) : list vrule :=
  if str_is_empty p then []
  else if is_std_prefix p then []
  else if negb (is_int p) then [V_UNIT_ATTRIBUTE_PREFIX_VALUE]
  else match to_int p with
       | OutOfRange => [V_UNIT_ATTRIBUTE_PREFIX_VALUE]      (* std::stoi throws std::out_of_range *)
       | _ => []
       end.

(** validateUnits + validateUnitsUnitsItem.  [mi]: index of owningModel(units); [origin]: modelsVisited.size() == 1;
    [hist]: the history, oldest first (scoped: what validateUnits pushes it pops — the one push the real code leaves
    behind, after an import was followed, is not observable on worlds whose urls are distinct, non-empty and not
    ":this:"); [src]: the sourceUrl argument. *)
Fixpoint validate_units (fuel : nat) (W : world) (mi : nat) (origin : bool) (hist : list epoch) (u : units)
         (src : string) {struct fuel} : list rissue :=
  match fuel with
  | O => [plain V_OUT_OF_FUEL]
  | S f =>
    let m := model_at W mi in
    let name := u_name u in
    let h0 := mkEp name src (match u_imp u with Some (s, _) => is_url s | None => "" end) mi
                   (match u_imp u with Some (s, _) => is_model s | None => None end) in
    if local_cycle hist h0 then
      [if origin then Keyed (KCycle (cycle_names (map ep_name hist) name)) else Plain V_UNIT_UNITS_CIRCULAR_REFERENCE]
    else
      let uref := match u_imp u with Some (_, r) => r | None => "" end in
      let uurl := match u_imp u with Some (s, _) => is_url s | None => "" end in
      let h := match u_imp u with
               | Some (s, _) => mkEp name (importee_url hist (is_url s)) (is_url s) mi (is_model s)
               | None => h0
               end in
      let cnt_name := if origin then count_if (fun t => String.eqb (u_name t) name) (m_units m) else 0 in
      let cnt_imp := if origin then
                       count_if (fun t => match u_imp t with
                                          | Some (s, r) => String.eqb r uref && String.eqb (is_url s) uurl
                                          | None => false
                                          end) (m_units m)
                     else 0 in
      (match u_imp u with
       | Some (s, _) =>
           let i12 := (if is_ident uref then [] else [V_IMPORT_UNITS_UNITS_REFERENCE_VALUE])
                      ++ validate_import_source s in
           plains i12
           ++ (match i12 with
               | [] => if 1 <? cnt_imp then [Keyed (KImportDup uurl uref)] else []
               | _ => []
               end)
           ++ (match is_model s with
               | None => []
               | Some mj =>
                   match find_units (m_units (model_at W mj)) uref with
                   | Some iu =>
                       if import_cycle hist h then [plain V_IMPORT_UNITS_UNITS_REFERENCE]
                       else validate_units f W mj false (hist ++ [h]) iu (is_url s)
                   | None => [plain V_IMPORT_UNITS_UNITS_REFERENCE_VALUE_TARGET]
                   end
               end)
       | None => []
       end)
      ++ (if 1 <? cnt_name
          then [Keyed (KUnitsName (is_import_u u) name)]
          else [])
      ++ plains (if negb (is_ident name)
                 then [if is_import_u u then V_IMPORT_UNITS_NAME_VALUE else V_UNITS_NAME_VALUE]
                 else if is_std_unit name then [V_UNITS_STANDARD] else [])
      ++ plains (if is_xml_name (u_id u) then [] else [V_XML_ID_ATTRIBUTE])
      ++ flat_map
           (fun it =>
              (if is_ident (ui_ref it) then
                 if is_std_unit (ui_ref it) then []
                 else match find_units (m_units m) (ui_ref it) with
                      | Some t => validate_units f W mi origin (hist ++ [h]) t ORIGIN
                      | None => [plain V_UNIT_UNITS_REFERENCE]
                      end
               else [plain V_UNIT_UNITS_REFERENCE])
              ++ plains (if is_xml_name (ui_id it) then [] else [V_XML_ID_ATTRIBUTE])
              ++ plains (validate_prefix (ui_prefix it)))
           (u_items u)
  end.

Definition world_units (W : world) : nat := fold_right (fun m n => S (length (m_units m)) + n) 0 W.
(** enough for every world whose import graph is acyclic (ValidProofs.units_fuel_enough for the local case) *)
Definition units_fuel (W : world) : nat := S (world_units W).

(* ================================================================================================ components *)

Definition conv_math_rule (r : MathDefs.rule) : vrule :=
  match r with
  | R_MATH_ELEMENT => V_MATH_ELEMENT | R_MATH_CHILD => V_MATH_CHILD | R_MATH_MATHML => V_MATH_MATHML
  | R_MATH_CI_VARIABLE_REFERENCE => V_MATH_CI_VARIABLE_REFERENCE | R_MATH_CN_BASE10 => V_MATH_CN_BASE10
  | R_MATH_CN_FORMAT => V_MATH_CN_FORMAT | R_MATH_CN_UNITS_ATTRIBUTE => V_MATH_CN_UNITS_ATTRIBUTE
  | R_MATH_CN_UNITS_ATTRIBUTE_REFERENCE => V_MATH_CN_UNITS_ATTRIBUTE_REFERENCE
  | MathDefs.V_NULL_DEREF => V_NULL_DEREF
  end.

(** the names for which model->hasUnits(name) or isStandardUnitName(name) holds *)
Definition units_names (m : model) : list string := map u_name (m_units m) ++ map fst standard_units_list.

(** validateMath on one document: C01's transcription MathDefs.val_math_env_gen3, whose switch [q] (= fx_math_qual) is
    the repair fixes/C04-mathml-qualifier-children.diff (validateMathMLElementsChildrenAndSiblings descends into degree /
    logbase / bvar once the qualifier's own tests pass); C01's own switches (arity rules of min / max / rem, comments
    skipped before the name of a ci, second operand of diff) are followed as they stand in MathDefs. *)
Definition val_math_env_q (q : bool) (vars units : list string) (root : xml) : list MathDefs.rule :=
  val_math_env_gen3 ci_comment_fix_committed diff_ci_fix_committed q arity_fix_committed vars units root.

(** validateMath: variableNames = the component's variable names without repetitions (membership is all that is
    read); a root that is not <math> raises MATH_ELEMENT and RETURNS: the roots after it are not looked at *)
Fixpoint validate_math (q : bool) (vars units : list string) (docs : list xml) : list vrule :=
  match docs with
  | [] => []
  | d :: r =>
      if is_mathml_el "math" d then map conv_math_rule (val_math_env_q q vars units d) ++ validate_math q vars units r
      else [V_MATH_ELEMENT]
  end.

Definition valid_interfaces : list string := ["public"; "private"; "none"; "public_and_private"].

(** validateVariable; [prev]: names of the variables before this one *)
Definition validate_variable (m : model) (c : cinfo) (prev : list string) (v : var) : list vrule :=
  (if nonempty (v_name v) && str_in (v_name v) prev then [V_VARIABLE_NAME_UNIQUE] else [])
  ++ (if is_ident (v_name v) then [] else [V_VARIABLE_NAME_VALUE])
  ++ (if is_xml_name (v_id v) then [] else [V_XML_ID_ATTRIBUTE])
  ++ (match v_units v with
      | None => [V_VARIABLE_UNITS_VALUE]
      | Some un =>
          if negb (is_ident un) then [V_VARIABLE_UNITS_VALUE]
          else if is_std_unit un then []
          else if has_units m un then [] else [V_VARIABLE_UNITS_VALUE]
      end)
  ++ (if nonempty (v_iface v) && negb (str_in (v_iface v) valid_interfaces) then [V_VARIABLE_INTERFACE_VALUE] else [])
  ++ (if nonempty (v_init v) && negb (has_variable c (v_init v)) && negb (is_real (v_init v))
      then [V_VARIABLE_INITIAL_VALUE_VALUE] else []).

Fixpoint validate_variables (m : model) (c : cinfo) (prev : list string) (vs : list var) : list vrule :=
  match vs with
  | [] => []
  | v :: r => validate_variable m c prev v ++ validate_variables m c (prev ++ [v_name v]) r
  end.

(** validateReset.  [L]: where the variables of owningModel(component) live.  A (test) variable without an owning
    component counts as "in a different component" (commit f391ef6 of /repo, found by C09: the code used to call
    owningComponent(var)->name() through the null pointer). *)
Definition reset_var_check (L : list vloc) (c : cinfo) (ov : option nat) (r : vrule) : list vrule * list vrule :=
  (* (raised at once, raised at the end) *)
  match ov with
  | None => ([], [])                                     (* "does not reference a ..." is raised in the final block *)
  | Some t =>
      match lookup_var L t with
      | None => ([], [r])
      | Some l => ([], if negb (String.eqb (l_cname l) (c_name c)) then [r] else [])
      end
  end.

Definition validate_reset (q : bool) (m : model) (L : list vloc) (c : cinfo) (r : reset) : list vrule :=
  let vars := map v_name (c_vars c) in
  let un := units_names m in
  let '(v_now, v_end) := reset_var_check L c (r_var r) V_RESET_VARIABLE_REFERENCE in
  let '(t_now, t_end) := reset_var_check L c (r_tvar r) V_RESET_TEST_VARIABLE_REFERENCE in
  (if is_xml_name (r_id r) then [] else [V_XML_ID_ATTRIBUTE])
  ++ v_now ++ t_now
  ++ validate_math q vars un (r_tv r)
  ++ validate_math q vars un (r_rv r)
  ++ (if is_xml_name (r_tv_id r) then [] else [V_XML_ID_ATTRIBUTE])
  ++ (if is_xml_name (r_rv_id r) then [] else [V_XML_ID_ATTRIBUTE])
  ++ (match r_order r with None => [V_RESET_ORDER_VALUE] | Some _ => [] end)
  ++ (match r_var r with None => [V_RESET_VARIABLE_REFERENCE] | Some _ => [] end)
  ++ (match r_tvar r with None => [V_RESET_TEST_VARIABLE_REFERENCE] | Some _ => [] end)
  ++ (match r_tv r with [] => [V_TEST_VALUE_ELEMENT] | _ => [] end)
  ++ (match r_rv r with [] => [V_RESET_VALUE_ELEMENT] | _ => [] end)
  ++ v_end ++ t_end.

(** validateComponent: [mi] = index of owningModel(component) *)
Fixpoint validate_component (q : bool) (fuel : nat) (W : world) (mi : nat) (hist : list epoch) (c : cinfo) {struct fuel}
  : list vrule :=
  match fuel with
  | O => [V_OUT_OF_FUEL]
  | S f =>
    let m := model_at W mi in
    let imported := is_import_c c in
    (if is_ident (c_name c) then []
     else [if imported then V_IMPORT_COMPONENT_NAME_VALUE else V_COMPONENT_NAME_VALUE])
    ++ (if is_xml_name (c_id c) then [] else [V_XML_ID_ATTRIBUTE])
    ++ (match c_imp c with
        | Some (s, cref) =>
            (if is_ident cref then [] else [V_IMPORT_COMPONENT_COMPONENT_REFERENCE_VALUE])
            ++ validate_import_source s
            ++ (match is_model s with
                | None => []
                | Some mj =>
                    match find_comp (model_at W mj) cref with
                    | Some ic =>
                        let h := mkEp (c_name c) (importee_url hist (is_url s)) (is_url s) mi (Some mj) in
                        if import_cycle hist h then [V_IMPORT_COMPONENT_COMPONENT_REFERENCE]
                        else validate_component q f W mj (hist ++ [h]) (c_info ic)
                    | None => [V_IMPORT_COMPONENT_COMPONENT_REFERENCE_TARGET]
                    end
                end)
        | None =>
            validate_variables m c [] (c_vars c)
            ++ flat_map (validate_reset q m (model_locs m) c) (c_resets c)
            ++ validate_math q (map v_name (c_vars c)) (units_names m) (c_math c)
        end)
  end.

(** validateUniqueName + validateComponentTree: the list of names seen so far is threaded through the traversal;
    returns (issues, names) *)
Definition unique_name_rule (c : cinfo) : vrule :=
  if is_import_c c then V_IMPORT_COMPONENT_NAME_UNIQUE else V_COMPONENT_NAME_UNIQUE.

Fixpoint validate_tree (q : bool) (fuel : nat) (W : world) (names : list string) (c : comp) {struct c}
  : list vrule * list string :=
  match c with
  | Comp i kids =>
      let '(own, names1) :=
        if nonempty (c_name i) then
          if str_in (c_name i) names then ([unique_name_rule i], names) else ([], names ++ [c_name i])
        else ([], names) in
      let '(sub, names2) :=
        (fix go (ks : list comp) (ns : list string) : list vrule * list string :=
           match ks with
           | [] => ([], ns)
           | k :: r => let '(a, ns1) := validate_tree q fuel W ns k in
                       let '(b, ns2) := go r ns1 in (a ++ b, ns2)
           end) kids names1 in
      (own ++ sub ++ validate_component q fuel W 0 [] i, names2)
  end.

Fixpoint validate_trees (q : bool) (fuel : nat) (W : world) (names : list string) (cs : list comp) : list vrule :=
  match cs with
  | [] => []
  | c :: r => let '(a, ns) := validate_tree q fuel W names c in a ++ validate_trees q fuel W ns r
  end.

Definition comp_fuel (W : world) : nat := S (length W).

(* ================================================================================================ connections *)

Inductive itype := INone | IPrivate | IPublic | IBoth.
Definition itype_key (t : itype) : string :=
  match t with INone => "NONE" | IPrivate => "PRIVATE" | IPublic => "PUBLIC" | IBoth => "PUBLIC_AND_PRIVATE" end.
(** utilities.h: interfaceTypeToString.at(t) (regenerated table) *)
Definition itype_string (t : itype) : string :=
  match UnitsDefs.assoc (itype_key t) interface_type_to_string with Some s => s | None => "" end.

(** std::string::find(needle) != npos *)
Fixpoint is_prefix (p s : string) : bool :=
  match p, s with
  | EmptyString, _ => true
  | String a p', String b s' => Ascii.eqb a b && is_prefix p' s'
  | _, _ => false
  end.
Fixpoint contains (needle hay : string) : bool :=
  is_prefix needle hay || match hay with EmptyString => false | String _ r => contains needle r end.

(** utilities.cpp: areEntitiesSiblings / isEntityChildOf on the components of two variables *)
Definition siblings (a b : vloc) : bool := ploc_eqb (l_parent a) (l_parent b).
Definition child_of (a b : vloc) : bool := ploc_eqb (l_parent a) (PComp (l_comp b)).   (* a's component is a child of b's *)
(** validator.cpp: reachableEquivalence *)
Definition reachable (a b : vloc) : bool := child_of a b || child_of b a || siblings a b.

(** utilities.cpp: publicAndOrPrivateInterfaceTypeRequired.  [early]: the loop condition still carries
    `&& !(pair.first && pair.second)` (false on the tree as it is now: fixes/C19-interface-early-exit.diff dropped it). *)
Fixpoint iface_required (early : bool) (L : list vloc) (me : vloc) (es : list eqv) (pub priv : bool) : bool * bool :=
  match es with
  | [] => (pub, priv)
  | e :: r =>
      if early && pub && priv then (pub, priv)
      else match lookup_var L (e_to e) with
           | None => (false, false)
           | Some o =>
               if siblings me o || child_of me o then iface_required early L me r true priv
               else if child_of o me then iface_required early L me r pub true
               else (false, false)
           end
  end.
Definition interface_type_for (p : bool * bool) : itype :=
  match p with (true, true) => IBoth | (true, false) => IPublic | (false, true) => IPrivate | _ => INone end.

Section Connections.
  (** unitsAreEquivalent(model, v1, v2, ..) on the names of the two units: None = the real code does not return
      (unbounded recursion on cyclic units, std::out_of_range from map::at) *)
  Variable ueq : world -> string -> string -> option bool.
  Variable early : bool.

  Definition validate_variable_interface (L : list vloc) (me : vloc) : list rissue :=
    let v := l_var me in
    match interface_type_for (iface_required early L me (v_eqs v) false false) with
    | INone =>
        flat_map (fun e => match lookup_var L (e_to e) with
                           | Some o => if reachable me o then [] else [Keyed (KPairI (v_tag v) (e_to e))]
                           | None => []
                           end) (v_eqs v)
    | t => if contains (itype_string t) (v_iface v) then [] else [plain V_MAP_VARIABLES_ELEMENT]
    end.

  Definition validate_equivalence_units (W : world) (L : list vloc) (me : vloc) : list rissue :=
    let v := l_var me in
    match v_units v with
    | None => []
    | Some un =>
        flat_map (fun e => match lookup_var L (e_to e) with
                           | None => []
                           | Some o =>
                               if l_import o then []
                               else match v_units (l_var o) with
                                    | None => []
                                    | Some un2 =>
                                        match ueq W un un2 with
                                        | Some true => []
                                        | Some false => [Keyed (KPairU (v_tag v) (e_to e))]
                                        | None => [plain V_NULL_DEREF]
                                        end
                                    end
                           end) (v_eqs v)
    end.

  Definition validate_equivalence_structure (L : list vloc) (me : vloc) : list rissue :=
    flat_map (fun e => match lookup_var L (e_to e) with
                       | None => [plain V_MAP_VARIABLES_VARIABLE1_ATTRIBUTE]
                       | Some _ => []
                       end) (v_eqs (l_var me)).

  (** validateConnections: findAllVariablesWithEquivalences visits components pre-order *)
  Definition validate_connections (W : world) : list rissue :=
    let L := model_locs (model_at W 0) in
    flat_map (fun me =>
                match v_eqs (l_var me) with
                | [] => []
                | _ => if l_import me then []
                       else validate_variable_interface L me ++ validate_equivalence_units W L me
                            ++ validate_equivalence_structure L me
                end) L.
End Connections.

(* ================================================================================================ identifiers *)

(** buildMathChildIdMap: every un-namespaced "id" attribute of every element of the tree *)
Fixpoint math_ids (x : xml) : list string :=
  match x with
  | Elem _ _ attrs kids =>
      map (fun a => snd a) (filter (fun a => match a with (ns, n, _) => str_is_empty ns && String.eqb n "id" end) attrs)
      ++ (fix go (ks : list xml) : list string := match ks with [] => [] | k :: r => math_ids k ++ go r end) kids
  | _ => []
  end.
(** buildMathIdMap: roots that are not <math> are skipped *)
Definition maths_ids (docs : list xml) : list string :=
  flat_map (fun d => if is_mathml_el "math" d then math_ids d else []) docs.

Definition opt_id (s : string) : list string := if str_is_empty s then [] else [s].

(** the state threaded through buildComponentIdMap: ids collected, issues raised while collecting, reportedConnections *)
Record idacc := mkIA { ia_ids : list string; ia_issues : list vrule; ia_conns : list (string * string);
                       ia_isrcs : list nat (* import sources already counted *) }.

Definition pair_in (p : string * string) (l : list (string * string)) : bool :=
  existsb (fun x => String.eqb (fst x) (fst p) && String.eqb (snd x) (snd p)) l.
(** the "keep one of the two visits of a pair" test: concatenated strings, or (repaired) pairs *)
Definition name_pair_ltb (pairs : bool) (a1 a2 b1 b2 : string) : bool :=
  if pairs then str_ltb a1 b1 || (String.eqb a1 b1 && str_ltb a2 b2)
  else str_ltb (String.append a1 a2) (String.append b1 b2).
(** the key under which a connection is remembered *)
Definition conn_key (pairs : bool) (c1 c2 : string) : string * string :=
  let '(x, y) := if str_ltb c1 c2 then (c1, c2) else (c2, c1) in
  if pairs then (x, y) else (String.append x y, "").
(** the id of an import source: once per importing entity, or (repaired) once per ImportSource object *)
Definition id_isrc (once : bool) (a : idacc) (s : isrc) : idacc :=
  if str_is_empty (is_id s) then a
  else if once && existsb (Nat.eqb (is_tag s)) (ia_isrcs a) then a
  else mkIA (ia_ids a ++ [is_id s]) (ia_issues a) (ia_conns a) (ia_isrcs a ++ [is_tag s]).

(** the per-equivalence part of buildComponentIdMap *)
Definition id_equiv (fx : fixes) (L : list vloc) (c : cinfo) (v : var) (a : idacc) (e : eqv) : idacc :=
  match lookup_var L (e_to e) with
  | None => a
  | Some o =>
      let lt := name_pair_ltb (fx_name_pairs fx) (v_name v) (c_name c) (v_name (l_var o)) (l_cname o) in
      let a1 := if lt && nonempty (e_map_id e)
                then mkIA (ia_ids a ++ [e_map_id e])
                          (ia_issues a ++ (if is_xml_name (e_map_id e) then [] else [V_XML_ID_ATTRIBUTE]))
                          (ia_conns a) (ia_isrcs a)
                else a in
      let conn := conn_key (fx_name_pairs fx) (c_name c) (l_cname o) in
      if lt && nonempty (e_conn_id e) && negb (pair_in conn (ia_conns a1))
      then mkIA (ia_ids a1 ++ [e_conn_id e])
                (ia_issues a1 ++ (if is_xml_name (e_conn_id e) then [] else [V_XML_ID_ATTRIBUTE]))
                (ia_conns a1 ++ [conn]) (ia_isrcs a1)
      else a1
  end.

Definition id_add (a : idacc) (ids : list string) : idacc :=
  mkIA (ia_ids a ++ ids) (ia_issues a) (ia_conns a) (ia_isrcs a).

Definition id_comp_own (fx : fixes) (L : list vloc) (c : cinfo) (a : idacc) : idacc :=
  let a1 := id_add a (opt_id (c_id c)) in
  let a2 := fold_left (fun a v => fold_left (id_equiv fx L c v) (v_eqs v) (id_add a (opt_id (v_id v)))) (c_vars c) a1 in
  let a3 := fold_left (fun a r => id_add a (opt_id (r_id r) ++ opt_id (r_tv_id r) ++ maths_ids (r_tv r)
                                              ++ opt_id (r_rv_id r) ++ maths_ids (r_rv r))) (c_resets c) a2 in
  let a4 := id_add a3 (maths_ids (c_math c)) in
  let a5 := match c_imp c with Some (s, _) => id_isrc (fx_isrc_once fx) a4 s | None => a4 end in
  if nonempty (c_encid c)
  then mkIA (ia_ids a5 ++ [c_encid c])
            (ia_issues a5 ++ (if is_xml_name (c_encid c) then [] else [V_XML_ID_ATTRIBUTE])) (ia_conns a5) (ia_isrcs a5)
  else a5.

Fixpoint id_comp (fx : fixes) (L : list vloc) (a : idacc) (c : comp) {struct c} : idacc :=
  match c with
  | Comp i kids =>
      (fix go (ks : list comp) (a : idacc) : idacc :=
         match ks with [] => a | k :: r => go r (id_comp fx L a k) end) kids (id_comp_own fx L i a)
  end.

(** buildModelIdMap *)
Definition model_idacc (fx : fixes) (m : model) : idacc :=
  let L := model_locs m in
  let a0 := mkIA (opt_id (m_id m)) [] [] [] in
  let a1 := fold_left (fun a u =>
                         let b := id_add a (opt_id (u_id u) ++ flat_map (fun it => opt_id (ui_id it)) (u_items u)) in
                         match u_imp u with Some (s, _) => id_isrc (fx_isrc_once fx) b s | None => b end)
                      (m_units m) a0 in
  let a2 := if nonempty (m_encid m)
            then mkIA (ia_ids a1 ++ [m_encid m])
                      (ia_issues a1 ++ (if is_xml_name (m_encid m) then [] else [V_XML_ID_ATTRIBUTE])) (ia_conns a1)
                      (ia_isrcs a1)
            else a1 in
  fold_left (id_comp fx L) (m_comps m) a2.

(** the distinct strings that occur more than once *)
Fixpoint dup_strings (l : list string) (seen reported : list string) : list string :=
  match l with
  | [] => []
  | s :: r => if str_in s seen
              then if str_in s reported then dup_strings r seen reported else s :: dup_strings r seen (s :: reported)
              else dup_strings r (s :: seen) reported
  end.

(** checkUniqueIds: the issues raised while the map is built, then one issue per identifier counted more than once *)
Definition check_unique_ids (fx : fixes) (m : model) : list vrule :=
  let a := model_idacc fx m in
  ia_issues a ++ map (fun _ => V_XML_ID_ATTRIBUTE) (dup_strings (ia_ids a) [] []).

(* ================================================================================================ reset orders *)

Definition omap := list (nat * list Z).
Definition omap_mem (t : nat) (m : omap) : bool := existsb (fun kv => Nat.eqb (fst kv) t) m.
Fixpoint omap_push (t : nat) (o : Z) (m : omap) : omap :=
  match m with
  | [] => []
  | (k, l) :: r => if Nat.eqb k t then (k, l ++ [o]) :: r else (k, l) :: omap_push t o r
  end.
(** the while loop of addResetOrderMapItem: first DIRECT equivalent that is a key of the map *)
Fixpoint first_key (es : list eqv) (m : omap) : option nat :=
  match es with
  | [] => None
  | e :: r => if omap_mem (e_to e) m then Some (e_to e) else first_key r m
  end.
Definition eqs_of (L : list vloc) (t : nat) : list eqv :=
  match lookup_var L t with Some l => v_eqs (l_var l) | None => [] end.
(** utilities.cpp: equivalentVariables / recursiveEquivalentVariables — the connected variable set in the order the
    depth-first walk appends it ([acc] starts as [t]); the walk adds a new variable at every call, so [length L]
    levels suffice *)
Fixpoint eqv_closure (fuel : nat) (L : list vloc) (t : nat) (acc : list nat) : list nat :=
  match fuel with
  | O => acc
  | S f => fold_left (fun acc e => if existsb (Nat.eqb (e_to e)) acc then acc
                                   else eqv_closure f L (e_to e) (acc ++ [e_to e])) (eqs_of L t) acc
  end.
Definition connected_set (L : list vloc) (t : nat) : list nat := eqv_closure (S (length L)) L t [t].
Fixpoint first_key_in (ts : list nat) (m : omap) : option nat :=
  match ts with
  | [] => None
  | t :: r => if omap_mem t m then Some t else first_key_in r m
  end.
(** addResetOrderMapItem (a variable outside the model: no equivalences known) *)
Definition omap_add (whole_set : bool) (L : list vloc) (t : nat) (o : Z) (m : omap) : omap :=
  if whole_set then
    match first_key_in (connected_set L t) m with
    | Some k => omap_push k o m
    | None => m ++ [(t, [o])]
    end
  else if omap_mem t m then omap_push t o m
  else match first_key (eqs_of L t) m with
       | Some k => omap_push k o m
       | None => m ++ [(t, [o])]
       end.
(** traverseComponentTree / buildModelResetOrderMap: a component's resets, then its children *)
Definition omap_resets (ws : bool) (L : list vloc) (rs : list reset) (m : omap) : omap :=
  fold_left (fun m r => match r_var r, r_order r with Some t, Some o => omap_add ws L t o m | _, _ => m end) rs m.
Definition build_omap (ws : bool) (m : model) : omap :=
  let L := model_locs m in
  fold_left (fun acc c => omap_resets ws L (c_resets (c_info c)) acc) (model_comps m) [].

Fixpoint has_dup_z (l : list Z) : bool :=
  match l with
  | [] => false
  | x :: r => existsb (Z.eqb x) r || has_dup_z r
  end.
(** checkUniqueResetOrders *)
Definition check_unique_reset_orders (ws : bool) (m : model) : list vrule :=
  flat_map (fun kv => if has_dup_z (snd kv) then [V_RESET_ORDER_UNIQUE] else []) (build_omap ws m).

(* ================================================================================================ validateModel *)

Section Validate.
  Variable fx : fixes.
  Variable ueq : world -> string -> string -> option bool.
  Variable early : bool.

  (** the stream of issues in the order the checks raise them, each with its de-duplication key *)
  Definition validate_raw (W : world) : list rissue :=
    let m := model_at W 0 in
    plains (if is_ident (m_name m) then [] else [V_MODEL_NAME_VALUE])
    ++ plains (if is_xml_name (m_id m) then [] else [V_XML_ID_ATTRIBUTE])
    ++ plains (validate_trees (fx_math_qual fx) (comp_fuel W) W [] (m_comps m))
    ++ flat_map (fun u => validate_units (units_fuel W) W 0 true [] u ORIGIN) (m_units m)
    ++ validate_connections ueq early W
    ++ plains (check_unique_ids fx m)
    ++ plains (check_unique_reset_orders (fx_reset_set fx) m).

  (** Validator::validateModel(model 0 of the world): the issues, each (level, reference rule) *)
  Definition validate (W : world) : list (level * vrule) :=
    map (fun i => (Error, rule_of i)) (dedup (validate_raw W)).
End Validate.

(* ================================================================================================ instance *)

(** the world as LC.UnitsDefs sees it (C08's model of updateBaseUnitCount) *)
Definition to_uworld (W : world) : UnitsDefs.world :=
  map (fun m =>
         map (fun u => (u_name u,
                        match u_imp u with
                        | Some (s, r) => UnitsDefs.Import (match is_model s with Some j => j | None => length W end) r
                        | None => UnitsDefs.Defs (map (fun it => UnitsDefs.Build_unit_child (ui_ref it) (ui_prefix it)
                                                                   (ui_exp it) (ui_lmult it)) (u_items u))
                        end)) (m_units m)) W.

Definition ueq_c08 (W : world) (n1 n2 : string) : option bool :=
  let w := to_uworld W in
  match UnitsDefs.val_equiv (UnitsDefs.fuel_for w) w 0 n1 n2 with
  | UnitsDefs.Ok (b, _) => Some b
  | _ => None
  end.

(** the tree as it is now: the early exit of publicAndOrPrivateInterfaceTypeRequired is gone (commit c0e1a6b, found by C19) *)
Definition current_early : bool := false.

(** the state of the tree the correspondence run compares with: the repairs of C04 that are in /repo (5d61678 reset
    orders, a5130f0 qualifier children, 1c340b4 name pairs).  fx_isrc_once stays false: counting the id of a shared
    import source once is pinned by the upstream test ParserTransform.annotatedCellMl10Model (known finding
    C04-shared-import-source-id). *)
Definition current_fixes : fixes := mkFx true true false true.

Definition validate_now (W : world) : list (level * vrule) := validate current_fixes ueq_c08 current_early W.
