(** HeapLive.v — C09: destruction does not change what is reachable: [alive (gc s) = alive s]; hence right after any call
    that may destroy objects, every variable listed as equivalent is alive in the resulting state. *)
From Coq Require Import List String Bool Arith PeanoNat Lia.
From LC Require Import HeapDefs HeapBase HeapInv HeapProofs.
Import ListNotations.

Lemma add_all_incl_acc : forall new acc x, In x acc -> In x (add_all new acc).
Proof.
  induction new as [|a t IH]; intros acc x H; cbn; [assumption|].
  destruct (memb a acc); apply IH; [assumption|]. apply in_app_iff. left. assumption.
Qed.

Definition expand (s : state) (R : list nat) : list nat := add_all (flat_map (fun x => succs (getd s x)) R) R.

Lemma reach_iter_S : forall f s R, reach_iter (S f) s R = reach_iter f s (expand s R).
Proof. reflexivity. Qed.

Lemma reach_iter_incl : forall f s R x, In x R -> In x (reach_iter f s R).
Proof.
  induction f as [|f IH]; intros s R x H; [assumption|]. rewrite reach_iter_S. apply IH. unfold expand.
  apply add_all_incl_acc. assumption.
Qed.

Lemma flat_map_ext_in : forall {A B} (f g : A -> list B) l, (forall x, In x l -> f x = g x) -> flat_map f l = flat_map g l.
Proof.
  intros A B f g l. induction l as [|a t IH]; intros H; cbn; [reflexivity|].
  rewrite (H a) by (left; reflexivity). f_equal. apply IH. intros x Hx. apply H. right. assumption.
Qed.

Lemma reach_iter_same : forall f s s' R,
  (forall x, In x (reach_iter f s R) -> succs (getd s' x) = succs (getd s x)) ->
  reach_iter f s' R = reach_iter f s R.
Proof.
  induction f as [|f IH]; intros s s' R H; [reflexivity|]. rewrite !reach_iter_S.
  assert (E : expand s' R = expand s R).
  { unfold expand. f_equal. apply flat_map_ext_in. intros x Hx. apply H. rewrite reach_iter_S. apply reach_iter_incl.
    unfold expand. apply add_all_incl_acc. assumption. }
  rewrite E. apply IH. intros x Hx. apply H. rewrite reach_iter_S. assumption.
Qed.

Lemma succs_gc_alive : forall live s x, live x = true -> succs (getd (gc_with live s) x) = succs (getd s x).
Proof.
  intros live s x H. rewrite getd_gc_with. unfold gc_obj. rewrite H. reflexivity.
Qed.

Lemma reach_set_gc_with : forall live s, (forall x, In x (reach_set s) -> live x = true) ->
  reach_set (gc_with live s) = reach_set s.
Proof.
  intros live s H. unfold reach_set.
  assert (L : List.length (objs (gc_with live s)) = List.length (objs s)) by (unfold gc_with; cbn; apply mapi_from_length).
  rewrite L. change (handles (gc_with live s)) with (handles s).
  apply reach_iter_same. intros x Hx. apply succs_gc_alive. apply H. exact Hx.
Qed.

Theorem reach_set_gc : forall s, reach_set (gc s) = reach_set s.
Proof.
  intros s. unfold gc. apply reach_set_gc_with. intros x Hx. apply memb_true. exact Hx.
Qed.

Theorem alive_gc : forall s x, alive (gc s) x = alive s x.
Proof. intros s x. unfold alive. rewrite reach_set_gc. reflexivity. Qed.

(** "equivalence never yields destroyed variables", at the end of every call that may destroy objects: in the resulting
    state every variable listed as equivalent, and the one listing it, is alive *)
Theorem eqs_alive_after_gc : forall s a b, In b (eqs_of (gc s) a) -> alive (gc s) b = true /\ alive (gc s) a = true.
Proof.
  intros s a b H. rewrite !alive_gc. unfold gc in H. rewrite gc_eqs in H. fold (alive s a) in H.
  destruct (alive s a) eqn:La; [|destruct H]. apply filter_In in H. destruct H as [_ H]. split; [exact H|reflexivity].
Qed.

(** the same for parents: an observed parent is alive, so it is what [parent()] returns *)
Theorem parent_alive_after_gc : forall s x p, parent_of (gc s) x = Some p -> alive (gc s) p = true.
Proof.
  intros s x p H. rewrite alive_gc. unfold gc in H. rewrite gc_parent in H. apply ofilter_some in H. apply H.
Qed.

(** destruction is idempotent on what is observed: children of the living are kept, lists of the dead are empty *)
Theorem children_after_gc : forall s K k, children (gc s) K k = if alive (gc s) k then children s K k else [].
Proof. intros s K k. rewrite alive_gc. unfold gc. rewrite gc_children. reflexivity. Qed.

(* ------------------------------------------------------------------------------------------------ every call ends with destruction *)

Section Shape.
  Variable seq : state -> nat -> nat -> bool.

  Definition settled (s s' : state) : Prop := s' = s \/ exists s1, s' = gc s1.

  Lemma fin_remove_shape : forall s r s' ret, fin_remove s r = Ok s' ret -> settled s s'.
  Proof. intros s r s' ret H. destruct r; cbn in H; inversion H; subst; [right; eauto|left; reflexivity]. Qed.
  Lemma fin_take_shape : forall s r s' ret, fin_take s r = Ok s' ret -> settled s s'.
  Proof. intros s r s' ret H. destruct r as [[? ?]| |]; cbn in H; inversion H; subst; [right; eauto|left; reflexivity]. Qed.
  Lemma fin_replace_shape : forall s r s' ret, fin_replace s r = Ok s' ret -> settled s s'.
  Proof. intros s r s' ret H. destruct r as [[? ?]| |]; cbn in H; inversion H; subst; [right; eauto|left; reflexivity]. Qed.
  Lemma add_plain_shape : forall s K k x s' ret, add_plain true seq s K k x = Ok s' ret -> settled s s'.
  Proof. intros s K k x s' ret H. destruct x; cbn in H; inversion H; subst; [right; eauto|left; reflexivity]. Qed.
  Lemma add_component_shape : forall s k x s' ret, add_component true seq s k x = Ok s' ret -> settled s s'.
  Proof.
    intros s k x s' ret H. unfold add_component in H. destruct x as [c|]; [|inversion H; left; reflexivity].
    destruct (kind_is s k KModel); [inversion H; right; eauto|].
    destruct (Nat.eqb k c); [inversion H; left; reflexivity|].
    destruct (has_ancestor s (fuel_of s) k c) as [[|]|]; inversion H; subst; [left; reflexivity|right; eauto].
  Qed.

  (** a call either leaves the state as it was (refusal) or ends with the destruction of what is unreferenced *)
  Theorem step_settled : forall s o s' r, step true seq s o = Ok s' r -> settled s s'.
  Proof.
    intros s o s' r H. destruct o; cbn [step] in H;
      match type of H with (if ?c then _ else _) = _ => destruct c; [|inversion H; left; reflexivity] end;
      try (eapply fin_remove_shape; eassumption); try (eapply fin_take_shape; eassumption);
      try (eapply fin_replace_shape; eassumption); try (eapply add_plain_shape; eassumption);
      try (eapply add_component_shape; eassumption);
      try (inversion H; subst; right; eauto; fail).
    - (* RemoveComponentPtr *) destruct c as [x|]; [eapply fin_remove_shape; eassumption|].
      destruct deep; [|inversion H; left; reflexivity].
      destruct (with_deep s true (fun _ : nat => @LRefused state) k); inversion H; left; reflexivity.
    - destruct v as [x|]; [eapply fin_remove_shape; eassumption|inversion H; left; reflexivity].
    - destruct r0 as [x|]; [eapply fin_remove_shape; eassumption|inversion H; left; reflexivity].
    - destruct u as [x|]; [eapply fin_remove_shape; eassumption|inversion H; left; reflexivity].
    - destruct a as [x|]; [|inversion H; left; reflexivity]. destruct b as [y|]; [|inversion H; left; reflexivity].
      destruct (add_equivalence s x y). inversion H; right; eauto.
    - destruct a as [x|]; [|inversion H; left; reflexivity]. destruct b as [y|]; [|inversion H; left; reflexivity].
      destruct (add_equivalence s x y). inversion H; right; eauto.
    - destruct a as [x|]; [|inversion H; left; reflexivity]. destruct b as [y|]; [|inversion H; left; reflexivity].
      destruct (remove_equivalence s x y). inversion H; right; eauto.
    - (* Query *) destruct (query_eval true seq s q) as [[b|[x|]| |]|]; inversion H; subst;
        [left; reflexivity|right; eauto|left; reflexivity|left; reflexivity|left; reflexivity].
  Qed.

  (** what an observer sees is what is stored: every listed equivalent variable and every recorded parent is alive *)
  Definition Clean (s : state) : Prop :=
    (forall a b, In b (eqs_of s a) -> alive s b = true) /\ (forall x p, parent_of s x = Some p -> alive s p = true).

  Lemma clean_gc : forall s, Clean (gc s).
  Proof.
    intros s. split.
    - intros a b H. apply (eqs_alive_after_gc s a b H).
    - intros x p H. eapply parent_alive_after_gc; eauto.
  Qed.

  Theorem step_clean : forall s o s' r, Clean s -> step true seq s o = Ok s' r -> Clean s'.
  Proof.
    intros s o s' r C H. destruct (step_settled _ _ _ _ H) as [->|[s1 ->]]; [assumption|apply clean_gc].
  Qed.

  Lemma clean_init : forall u, Clean (init u).
  Proof.
    intros u. split.
    - intros a b H. unfold eqs_of in H. rewrite HeapProofs.getd_init in H. destruct (nth_error u a); destruct H.
    - intros x p H. unfold parent_of in H. rewrite HeapProofs.getd_init in H. destruct (nth_error u x); discriminate.
  Qed.

  (** equivalence never yields destroyed variables, parent() never a destroyed parent: for every history, carve-out or not *)
  Theorem run_clean : forall ops s s', Clean s -> run true seq s ops = Some s' -> Clean s'.
  Proof.
    induction ops as [|o t IH]; intros s s' C H; cbn in H; [inversion H; subst; assumption|].
    destruct (step true seq s o) as [s1 r|] eqn:E; [|discriminate]. eapply IH; [eapply step_clean; eauto|exact H].
  Qed.
End Shape.

(* ------------------------------------------------------------------------------------------------ queries *)

Section Queries.
  Variable seq : state -> nat -> nat -> bool.

  (** a query changes nothing, except that a returned object is one more reference held by the caller *)
  Theorem query_pure : forall s q s' r, step true seq s (Query q) = Ok s' r ->
    s' = s \/ exists x, r = RObj (Some x) /\ s' = gc (add_handle s x).
  Proof.
    intros s q s' r H. cbn [step] in H. destruct (query_ok s q); [|inversion H; left; reflexivity].
    destruct (query_eval true seq s q) as [[b|[x|]| |]|]; inversion H; subst; try (left; reflexivity).
    right. eauto.
  Qed.

  (** a null pointer is equivalent to nothing, in every state: an expired entry never matches *)
  Theorem null_equivalent_to_nothing : forall s v ind,
    query_eval true seq s (QHasEquivalentVariable v None ind) = Some (RBool false).
  Proof. reflexivity. Qed.

  (** what hasEquivalentVariable(w) confirms is alive (in every state of every history, by [run_clean]) *)
  Theorem has_equivalent_alive : forall s v w, Clean s ->
    query_eval true seq s (QHasEquivalentVariable v (Some w) false) = Some (RBool true) -> alive s w = true.
  Proof.
    intros s v w [C _] H. cbn in H. assert (E : memb w (eqs_of s v) = true) by congruence.
    apply (C v w). apply memb_true. exact E.
  Qed.
End Queries.
