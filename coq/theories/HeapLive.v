(** HeapLive.v — C09: destruction does not change what is reachable: [alive (gc s) = alive s]; hence right after any call
    that may destroy objects, every variable listed as equivalent is alive in the resulting state. *)
From Coq Require Import List String Bool Arith PeanoNat Lia.
From LC Require Import HeapDefs HeapBase HeapInv.
Import ListNotations.

Lemma add_all_incl_acc : forall new acc x, In x acc -> In x (add_all new acc).
Proof.
  induction new as [|a t IH]; intros acc x H; cbn; [assumption|].
  destruct (memb a acc); apply IH; [assumption|]. apply in_app_iff. left. assumption.
Qed.

Definition expand (s : state) (R : list nat) : list nat := add_all (flat_map (fun x => succs (getd s x)) R) R.

Lemma reach_iter_S : forall f s R, reach_iter (S f) s R = reach_iter f s (expand s R).
Proof. reflexivity. Qed.

Lemma reach_iter_incl : forall f s R x, In x R -> In x (reach_iter f s R).
Proof.
  induction f as [|f IH]; intros s R x H; [assumption|]. rewrite reach_iter_S. apply IH. unfold expand.
  apply add_all_incl_acc. assumption.
Qed.

Lemma flat_map_ext_in : forall {A B} (f g : A -> list B) l, (forall x, In x l -> f x = g x) -> flat_map f l = flat_map g l.
Proof.
  intros A B f g l. induction l as [|a t IH]; intros H; cbn; [reflexivity|].
  rewrite (H a) by (left; reflexivity). f_equal. apply IH. intros x Hx. apply H. right. assumption.
Qed.

Lemma reach_iter_same : forall f s s' R,
  (forall x, In x (reach_iter f s R) -> succs (getd s' x) = succs (getd s x)) ->
  reach_iter f s' R = reach_iter f s R.
Proof.
  induction f as [|f IH]; intros s s' R H; [reflexivity|]. rewrite !reach_iter_S.
  assert (E : expand s' R = expand s R).
  { unfold expand. f_equal. apply flat_map_ext_in. intros x Hx. apply H. rewrite reach_iter_S. apply reach_iter_incl.
    unfold expand. apply add_all_incl_acc. assumption. }
  rewrite E. apply IH. intros x Hx. apply H. rewrite reach_iter_S. assumption.
Qed.

Lemma succs_gc_alive : forall live s x, live x = true -> succs (getd (gc_with live s) x) = succs (getd s x).
Proof.
  intros live s x H. rewrite getd_gc_with. unfold gc_obj. rewrite H. reflexivity.
Qed.

Lemma reach_set_gc_with : forall live s, (forall x, In x (reach_set s) -> live x = true) ->
  reach_set (gc_with live s) = reach_set s.
Proof.
  intros live s H. unfold reach_set.
  assert (L : List.length (objs (gc_with live s)) = List.length (objs s)) by (unfold gc_with; cbn; apply mapi_from_length).
  rewrite L. change (handles (gc_with live s)) with (handles s).
  apply reach_iter_same. intros x Hx. apply succs_gc_alive. apply H. exact Hx.
Qed.

Theorem reach_set_gc : forall s, reach_set (gc s) = reach_set s.
Proof.
  intros s. unfold gc. apply reach_set_gc_with. intros x Hx. apply memb_true. exact Hx.
Qed.

Theorem alive_gc : forall s x, alive (gc s) x = alive s x.
Proof. intros s x. unfold alive. rewrite reach_set_gc. reflexivity. Qed.

(** "equivalence never yields destroyed variables", at the end of every call that may destroy objects: in the resulting
    state every variable listed as equivalent, and the one listing it, is alive *)
Theorem eqs_alive_after_gc : forall s a b, In b (eqs_of (gc s) a) -> alive (gc s) b = true /\ alive (gc s) a = true.
Proof.
  intros s a b H. rewrite !alive_gc. unfold gc in H. rewrite gc_eqs in H. fold (alive s a) in H.
  destruct (alive s a) eqn:La; [|destruct H]. apply filter_In in H. destruct H as [_ H]. split; [exact H|reflexivity].
Qed.

(** the same for parents: an observed parent is alive, so it is what [parent()] returns *)
Theorem parent_alive_after_gc : forall s x p, parent_of (gc s) x = Some p -> alive (gc s) p = true.
Proof.
  intros s x p H. rewrite alive_gc. unfold gc in H. rewrite gc_parent in H. apply ofilter_some in H. apply H.
Qed.

(** destruction is idempotent on what is observed: children of the living are kept, lists of the dead are empty *)
Theorem children_after_gc : forall s K k, children (gc s) K k = if alive (gc s) k then children s K k else [].
Proof. intros s K k. rewrite alive_gc. unfold gc. rewrite gc_children. reflexivity. Qed.
