(** ExternalRound7Proofs.v — proof depth round 7 (C20): composition laws of markings over [++]. *)
From Coq Require Import List Bool Arith.
From LC Require Import AnalysisDefs ExternalDefs ExternalMarkProofs ExternalProofs.
Import ListNotations.

Lemma filter_map_app : forall {A B} (f : A -> option B) l1 l2,
  filter_map f (l1 ++ l2) = filter_map f l1 ++ filter_map f l2.
Proof.
  intros A B f l1 l2. induction l1 as [|x r IH]; simpl; [reflexivity|].
  destruct (f x); simpl; rewrite IH; reflexivity.
Qed.

(** The marks handed to the analyser are a list homomorphism of the registered marks. *)
Theorem local_marks_app : forall m1 m2, local_marks (m1 ++ m2) = local_marks m1 ++ local_marks m2.
Proof. intros. unfold local_marks. apply filter_map_app. Qed.

Definition is_foreign (m : xmark) : Prop := match xm_var m with XForeign _ => True | XLocal _ => False end.

Lemma local_marks_foreign : forall f, Forall is_foreign f -> local_marks f = [].
Proof.
  intros f H. induction H as [|m r Hm _ IH]; [reflexivity|].
  unfold local_marks in *. simpl. unfold is_foreign in Hm. destruct (xm_var m); [contradiction|]. simpl. exact IH.
Qed.

(** Unconditionally (no range hypothesis), on the code before the repair: marks on variables of another model inserted
    ANYWHERE in the sequence of registered marks do not change the analysis outcome. *)
Theorem unfixed_foreign_marks_irrelevant : forall s m1 f m2, Forall is_foreign f ->
  xr_outcome (analyse_x false s (m1 ++ f ++ m2)) = xr_outcome (analyse_x false s (m1 ++ m2)).
Proof.
  intros s m1 f m2 H. rewrite !analyse_x_unfixed, !local_marks_app, (local_marks_foreign f H). reflexivity.
Qed.

(** The range hypothesis of the marking theorems composes and decomposes over [++]. *)
Theorem marks_in_range_app : forall s m1 m2,
  marks_in_range s (m1 ++ m2) <-> marks_in_range s m1 /\ marks_in_range s m2.
Proof. intros. unfold marks_in_range. apply Forall_app. Qed.
