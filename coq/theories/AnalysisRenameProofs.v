(** AnalysisRenameProofs.v — the analysis does not depend on the identifiers chosen for equivalence classes and
    for variable names: renaming both consistently through injective maps gives exactly the same result
    (results mention variables by position and equations by id, never class or name identifiers). *)
From Coq Require Import List Bool Arith PeanoNat Lia.
From LC Require Import AnalysisDefs AnalysisSpec.
Import ListNotations.
Local Open Scope bool_scope.

Section Rename.
Variable f : nat -> nat.     (* on class identifiers *)
Variable g : nat -> nat.     (* on variable names *)
Hypothesis f_inj : forall a b, f a = f b -> a = b.
Hypothesis g_inj : forall a b, g a = g b -> a = b.
(* identifier 0 is the filler of the model's total accessors (nth with a default); it keeps its meaning *)
Hypothesis f0 : f 0 = 0.
Hypothesis g0 : g 0 = 0.

Definition rn_init (i : init) : init := match i with IRef n => IRef (g n) | x => x end.
Definition rn_var (v : var) : var := mkVar (g (v_name v)) (f (v_cls v)) (rn_init (v_init v)).
Fixpoint rn_expr (e : expr) : expr :=
  match e with
  | EVar n => EVar (g n)
  | EDiff t x => EDiff (g t) (g x)
  | ECn => ECn
  | EOp a b => EOp (rn_expr a) (rn_expr b)
  end.
Definition rn_eqn (q : eqn) : eqn := mkEqn (q_id q) (rn_expr (q_lhs q)) (rn_expr (q_rhs q)).
Definition rn_comp (c : comp) : comp := mkComp (map rn_var (c_vars c)) (map rn_eqn (c_eqs c)).
Definition rn_sys (s : system) : system := map rn_comp s.

Definition rn_iv (v : ivar) : ivar :=
  mkIvar (f (iv_cls v)) (iv_type v) (iv_index v) (iv_external v) (iv_initvar v) (iv_var v) (iv_deps v).
Definition rn_side (sd : side) : side := match sd with SVar n => SVar (g n) | SDiff n => SDiff (g n) | SOther => SOther end.
Definition rn_ieq (e : ieq) : ieq :=
  mkIeq (ie_id e) (ie_comp e) (ie_type e) (rn_side (ie_lhs e)) (rn_side (ie_rhs e)) (ie_diffs e) (ie_deps e)
        (ie_vars e) (ie_odes e) (ie_all e) (ie_unknown e) (ie_nla e) (ie_sibs e) (ie_tc e) (ie_vc e).

Lemma eqb_f : forall a b, (f a =? f b) = (a =? b).
Proof. intros. destruct (Nat.eqb_spec a b) as [->|H]; [apply Nat.eqb_refl|]. apply Nat.eqb_neq. intro K. apply H. apply f_inj. exact K. Qed.
Lemma eqb_g : forall a b, (g a =? g b) = (a =? b).
Proof. intros. destruct (Nat.eqb_spec a b) as [->|H]; [apply Nat.eqb_refl|]. apply Nat.eqb_neq. intro K. apply H. apply g_inj. exact K. Qed.

Lemma rn_dvar : rn_var dvar = dvar.
Proof. unfold rn_var, dvar. cbn. rewrite f0, g0. reflexivity. Qed.
Lemma rn_dcomp : rn_comp dcomp = dcomp.
Proof. reflexivity. Qed.
Lemma rn_divar : rn_iv divar = divar.
Proof. unfold rn_iv, divar. cbn. rewrite f0. reflexivity. Qed.

Lemma get_comp_rn : forall s c, get_comp (rn_sys s) c = rn_comp (get_comp s c).
Proof. intros. unfold get_comp, rn_sys. rewrite <- rn_dcomp at 1. apply map_nth. Qed.

Lemma get_var_rn : forall s r, get_var (rn_sys s) r = rn_var (get_var s r).
Proof. intros. unfold get_var. rewrite get_comp_rn. cbn. rewrite <- rn_dvar at 1. apply map_nth. Qed.

Lemma has_init_rn : forall v, has_init (rn_var v) = has_init v.
Proof. intros [n c i]. destruct i; reflexivity. Qed.

Lemma find_index_map : forall {A B} (h : A -> B) (p : B -> bool) (q : A -> bool) l,
  (forall x, p (h x) = q x) -> find_index p (map h l) = find_index q l.
Proof. intros A B h p q l H. induction l as [|x r IH]; cbn; [reflexivity|]. rewrite H, IH. reflexivity. Qed.

Lemma find_var_rn : forall c n, find_var (rn_comp c) (g n) = find_var c n.
Proof. intros. unfold find_var. cbn. apply find_index_map. intro v. cbn. apply eqb_g. Qed.

Lemma geti_rn : forall ivs p, geti (map rn_iv ivs) p = rn_iv (geti ivs p).
Proof. intros. unfold geti. rewrite <- rn_divar at 1. apply map_nth. Qed.

Lemma upd_map : forall {A B} (h : A -> B) l i x, upd (map h l) i (h x) = map h (upd l i x).
Proof. intros A B h l. induction l as [|y r IH]; intros [|i] x; cbn; try reflexivity. rewrite IH. reflexivity. Qed.

(* ------------------------------------------------------------------ building *)

Lemma new_ivar_rn : forall s r, new_ivar (rn_sys s) r = rn_iv (new_ivar s r).
Proof. intros. unfold new_ivar. rewrite get_var_rn, has_init_rn. destruct (has_init (get_var s r)); reflexivity. Qed.

Lemma internal_variable_rn : forall s ivs r,
  internal_variable (rn_sys s) (map rn_iv ivs) r = (map rn_iv (fst (internal_variable s ivs r)), snd (internal_variable s ivs r)).
Proof.
  intros. unfold internal_variable. rewrite get_var_rn.
  rewrite (find_index_map rn_iv _ (fun iv => iv_cls iv =? v_cls (get_var s r))) by (intro x; cbn; apply eqb_f).
  destruct (find_index _ ivs); cbn; [reflexivity|]. rewrite map_app, map_length, new_ivar_rn. reflexivity.
Qed.

Lemma ivar_of_rn : forall s ivs r, ivar_of (rn_sys s) (map rn_iv ivs) r = ivar_of s ivs r.
Proof. intros. unfold ivar_of. rewrite internal_variable_rn. reflexivity. Qed.

Definition rn_acc (a : list ivar * ieq) : list ivar * ieq := (map rn_iv (fst a), rn_ieq (snd a)).

Lemma analyse_node_rn : forall s c e acc,
  analyse_node (rn_sys s) c (rn_expr e) (rn_acc acc) = option_map rn_acc (analyse_node s c e acc).
Proof.
  intros s c e. induction e as [n|t x| |a IHa b IHb]; intros [ivs q]; cbn [analyse_node rn_expr rn_acc fst snd].
  - rewrite get_comp_rn, find_var_rn. destruct (find_var (get_comp s c) n) as [i|]; [|reflexivity].
    rewrite internal_variable_rn. destruct (internal_variable s ivs (c, i)) as [ivs1 p]. cbn [fst snd].
    unfold rn_ieq at 1. cbn [ie_vars]. destruct (mem_nat p (ie_vars q)); reflexivity.
  - rewrite get_comp_rn, !find_var_rn.
    destruct (find_var (get_comp s c) t) as [ti|]; [|reflexivity].
    destruct (find_var (get_comp s c) x) as [xi|]; [|reflexivity].
    rewrite internal_variable_rn. destruct (internal_variable s ivs (c, xi)) as [ivs1 p]. cbn [fst snd].
    unfold rn_ieq at 1. cbn [ie_odes]. destruct (mem_nat p (ie_odes q)); reflexivity.
  - reflexivity.
  - change (map rn_iv ivs, rn_ieq q) with (rn_acc (ivs, q)). rewrite IHa.
    destruct (analyse_node s c a (ivs, q)) as [acc1|]; cbn [option_map]; [apply IHb|reflexivity].
Qed.

Lemma side_of_rn : forall e, side_of (rn_expr e) = rn_side (side_of e).
Proof. destruct e; reflexivity. Qed.

Lemma build_eq_rn : forall s c ivs q,
  build_eq (rn_sys s) c (map rn_iv ivs) (rn_eqn q) = option_map rn_acc (build_eq s c ivs q).
Proof.
  intros. unfold build_eq. cbn [rn_eqn q_id q_lhs q_rhs]. rewrite !side_of_rn.
  match goal with |- context [analyse_node (rn_sys s) c (rn_expr ?l) (map rn_iv ivs, ?q0)] =>
    match goal with |- context [analyse_node s c l (ivs, ?q1)] => change (map rn_iv ivs, q0) with (rn_acc (ivs, q1)) end end.
  rewrite analyse_node_rn.
  destruct (analyse_node s c (q_lhs q) _) as [acc|]; cbn [option_map]; [apply analyse_node_rn|reflexivity].
Qed.

Definition rn_acc2 (a : list ivar * list ieq) : list ivar * list ieq := (map rn_iv (fst a), map rn_ieq (snd a)).

Lemma build_eqs_rn : forall s c qs acc,
  build_eqs (rn_sys s) c (map rn_eqn qs) (rn_acc2 acc) = option_map rn_acc2 (build_eqs s c qs acc).
Proof.
  intros s c qs. induction qs as [|q r IH]; intros [ivs es]; cbn [build_eqs map]; [reflexivity|].
  cbn [rn_acc2 fst snd]. rewrite build_eq_rn. destruct (build_eq s c ivs q) as [[ivs1 e]|]; cbn [option_map]; [|reflexivity].
  unfold rn_acc. cbn [fst snd]. rewrite <- IH. unfold rn_acc2. cbn [fst snd]. rewrite map_app. reflexivity.
Qed.

Lemma track_inits_rn : forall s c n i ivs,
  track_inits (rn_sys s) c i n (map rn_iv ivs) = map rn_iv (track_inits s c i n ivs).
Proof.
  intros s c n. induction n as [|m IH]; intros i ivs; cbn [track_inits]; [reflexivity|].
  rewrite internal_variable_rn. destruct (internal_variable s ivs (c, i)) as [ivs1 p]. cbn [fst snd].
  rewrite geti_rn. rewrite !get_var_rn, !has_init_rn. cbn [rn_iv iv_var iv_cls iv_index iv_external iv_deps].
  destruct (has_init (get_var s (c, i)) && negb (has_init (get_var s (iv_var (geti ivs1 p))))); [|apply IH].
  rewrite <- IH. f_equal. rewrite <- upd_map. reflexivity.
Qed.

Lemma build_comps_rn : forall s cs c acc,
  build_comps (rn_sys s) c (map rn_comp cs) (rn_acc2 acc) = option_map rn_acc2 (build_comps s c cs acc).
Proof.
  intros s cs. induction cs as [|k r IH]; intros c acc; cbn [build_comps map]; [reflexivity|].
  cbn [rn_comp c_eqs c_vars]. rewrite build_eqs_rn. destruct (build_eqs s c (c_eqs k) acc) as [[ivs1 es1]|]; cbn [option_map]; [|reflexivity].
  cbn [rn_acc2 fst snd]. rewrite map_length, track_inits_rn. apply (IH (S c) (_, es1)).
Qed.

Lemma build_rn : forall s, build (rn_sys s) = option_map rn_acc2 (build s).
Proof. intros. unfold build. apply (build_comps_rn s s 0 ([], [])). Qed.

(* ------------------------------------------------------------------ initial values, voi, states *)

Lemma existsb_ext' : forall {A} (p q : A -> bool) l, (forall x, p x = q x) -> existsb p l = existsb q l.
Proof. intros A p q l H. induction l as [|x r IH]; cbn; [reflexivity|]. rewrite H, IH. reflexivity. Qed.
Lemma filter_ext' : forall {A} (p q : A -> bool) l, (forall x, p x = q x) -> filter p l = filter q l.
Proof. intros A p q l H. induction l as [|x r IH]; cbn; [reflexivity|]. rewrite H, IH. reflexivity. Qed.
Lemma fold_left_map_commute : forall {A B C} (h : A -> B) (F : B -> C -> B) (G : A -> C -> A) xs a,
  (forall a x, F (h a) x = h (G a x)) -> fold_left F xs (h a) = h (fold_left G xs a).
Proof. intros A B C h F G xs. induction xs as [|x r IH]; intros a H; cbn; [reflexivity|]. rewrite H. apply IH. exact H. Qed.

Lemma forallb_map' : forall {A B} (h : A -> B) (p : B -> bool) l, forallb p (map h l) = forallb (fun x => p (h x)) l.
Proof. intros A B h p l. induction l as [|x r IH]; cbn; [reflexivity|]. rewrite IH. reflexivity. Qed.
Lemma forallb_ext' : forall {A} (p q : A -> bool) l, (forall x, p x = q x) -> forallb p l = forallb q l.
Proof. intros A p q l H. induction l as [|x r IH]; cbn; [reflexivity|]. rewrite H, IH. reflexivity. Qed.

Lemma check_inits_comp_rn : forall s ivs c n i,
  check_inits_comp (rn_sys s) (map rn_iv ivs) c i n = check_inits_comp s ivs c i n.
Proof.
  intros s ivs c n. induction n as [|m IH]; intro i; cbn [check_inits_comp]; [reflexivity|].
  rewrite IH. f_equal. rewrite !ivar_of_rn, !geti_rn. cbn [rn_iv iv_var iv_type].
  rewrite !get_var_rn, !has_init_rn. destruct (negb (vref_eqb (c, i) (iv_var (geti ivs (ivar_of s ivs (c, i))))) && has_init (get_var s (c, i))); [reflexivity|].
  destruct (get_var s (iv_var (geti ivs (ivar_of s ivs (c, i))))) as [vn vc vi]. cbn [rn_var v_init rn_init].
  destruct vi as [| |nm]; cbn [rn_init]; try reflexivity.
  rewrite get_comp_rn, find_var_rn. destruct (find_var _ nm) as [j|]; [|reflexivity].
  rewrite ivar_of_rn, geti_rn. reflexivity.
Qed.

Lemma check_inits_rn : forall s ivs cs c,
  check_inits (rn_sys s) (map rn_iv ivs) c (map rn_comp cs) = check_inits s ivs c cs.
Proof.
  intros s ivs cs. induction cs as [|k r IH]; intro c; cbn [check_inits map]; [reflexivity|].
  rewrite IH. cbn [rn_comp c_vars]. rewrite map_length, check_inits_comp_rn. reflexivity.
Qed.

Lemma resolvable_rn : forall s, resolvable (rn_sys s) = resolvable s.
Proof.
  intro s. unfold resolvable, rn_sys. rewrite forallb_map'. apply forallb_ext'. intro k.
  cbn [rn_comp c_vars]. rewrite forallb_map'. apply forallb_ext'. intros [vn vc vi]. cbn.
  destruct vi as [| |nm]; cbn; try reflexivity.
  pose proof (find_var_rn k nm) as H. unfold find_var in H. cbn in H. rewrite H. reflexivity.
Qed.

Lemma all_vrefs_from_rn : forall cs c, all_vrefs_from c (map rn_comp cs) = all_vrefs_from c cs.
Proof. induction cs as [|k r IH]; intro c; cbn; [reflexivity|]. rewrite map_length, IH. reflexivity. Qed.

Lemma members_rn : forall s k, members (rn_sys s) (f k) = members s k.
Proof.
  intros. unfold members. unfold rn_sys at 2. rewrite all_vrefs_from_rn. apply filter_ext'. intro r.
  rewrite get_var_rn. cbn. apply eqb_f.
Qed.

Definition rn_vs (st : voi_state) : voi_state := mkVs (map rn_iv (vs_ivs st)) (vs_voi st) (vs_issues st).

Lemma diff_event_rn : forall s st d, diff_event (rn_sys s) (rn_vs st) d = rn_vs (diff_event s st d).
Proof.
  intros s st [t x]. unfold diff_event. cbn [rn_vs vs_ivs vs_voi vs_issues].
  rewrite ivar_of_rn, geti_rn. rewrite !get_var_rn. cbn [rn_var v_cls]. rewrite members_rn.
  change (set_type (rn_iv (geti (vs_ivs st) (ivar_of s (vs_ivs st) t))) VVoi)
    with (rn_iv (set_type (geti (vs_ivs st) (ivar_of s (vs_ivs st) t)) VVoi)).
  rewrite upd_map, ivar_of_rn, geti_rn.
  assert (Hms : forall v, make_state (rn_iv v) = rn_iv (make_state v)).
  { intro v. unfold make_state. cbn [rn_iv iv_type]. destruct (iv_type v); reflexivity. }
  rewrite Hms, upd_map.
  assert (Hfil : filter (fun r => has_init (get_var (rn_sys s) r)) (members s (v_cls (get_var s t)))
                 = filter (fun r => has_init (get_var s r)) (members s (v_cls (get_var s t)))).
  { apply filter_ext'. intro r. rewrite get_var_rn. apply has_init_rn. }
  rewrite Hfil. clear Hfil.
  set (inited := filter (fun r => has_init (get_var s r)) (members s (v_cls (get_var s t)))).
  destruct (vs_voi st) as [v0|].
  - rewrite get_var_rn. cbn [rn_var v_cls]. rewrite eqb_f. destruct (v_cls (get_var s v0) =? v_cls (get_var s t)); reflexivity.
  - destruct inited; reflexivity.
Qed.

Lemma analyse_asts_rn : forall s ivs es,
  analyse_asts (rn_sys s) (map rn_iv ivs) (map rn_ieq es) = rn_vs (analyse_asts s ivs es).
Proof.
  intros. unfold analyse_asts.
  change (mkVs (map rn_iv ivs) None []) with (rn_vs (mkVs ivs None [])).
  generalize (mkVs ivs None []). induction es as [|e r IH]; intro st; cbn [fold_left map]; [reflexivity|].
  cbn [rn_ieq ie_diffs]. rewrite <- IH. f_equal.
  generalize st. induction (ie_diffs e) as [|d ds IHd]; intro st0; cbn [fold_left]; [reflexivity|].
  rewrite diff_event_rn. apply IHd.
Qed.

(* ------------------------------------------------------------------ check(), the loop *)

Definition rn_cs (st : cstate) : cstate := mkCs (map rn_iv (cs_ivs st)) (cs_sidx st) (cs_vidx st).

Lemma is_known_rn : forall ivs i, is_known (map rn_iv ivs) i = is_known ivs i.
Proof. intros. unfold is_known. rewrite geti_rn. reflexivity. Qed.
Lemma is_known_ode_rn : forall ivs i, is_known_ode (map rn_iv ivs) i = is_known_ode ivs i.
Proof. intros. unfold is_known_ode. rewrite geti_rn. reflexivity. Qed.
Lemma is_nonconst_rn : forall ivs i, is_nonconst (map rn_iv ivs) i = is_nonconst ivs i.
Proof. intros. unfold is_nonconst. rewrite geti_rn. reflexivity. Qed.

Lemma var_name_rn : forall s r, var_name (rn_sys s) r = g (var_name s r).
Proof. intros. unfold var_name. rewrite get_var_rn. reflexivity. Qed.

Lemma on_side_rn : forall s v sd, on_side (rn_sys s) (rn_iv v) (rn_side sd) = on_side s v sd.
Proof. intros s v [n|n|]; cbn; try reflexivity; rewrite var_name_rn; apply eqb_g. Qed.

Lemma on_lhs_or_rhs_rn : forall s e v, on_lhs_or_rhs (rn_sys s) (rn_ieq e) (rn_iv v) = on_lhs_or_rhs s e v.
Proof. intros. unfold on_lhs_or_rhs, on_rhs. cbn [rn_ieq ie_lhs ie_rhs]. rewrite !on_side_rn. reflexivity. Qed.

Lemma first_member_rn : forall s c k, first_member (rn_sys s) c (f k) = first_member s c k.
Proof.
  intros. unfold first_member. rewrite get_comp_rn. cbn [rn_comp c_vars].
  rewrite (find_index_map rn_var _ (fun v => v_cls v =? k)) by (intro x; cbn; apply eqb_f). reflexivity.
Qed.

Lemma retarget_rn : forall s comp tc vc v, retarget (rn_sys s) comp tc vc (rn_iv v) = rn_iv (retarget s comp tc vc v).
Proof.
  intros. unfold retarget. cbn [rn_iv iv_cls]. rewrite first_member_rn.
  destruct (first_member s comp (iv_cls v)) as [r|]; cbn [set_var rn_iv iv_type iv_cls iv_index iv_external iv_initvar iv_var iv_deps];
    destruct (vtype_eqb (iv_type v) VUnknown); reflexivity.
Qed.

Lemma type_variables_rn : forall s comp tc vc ps st unk,
  type_variables (rn_sys s) comp tc vc (rn_cs st) unk ps =
  (let '(st', unk', ok) := type_variables s comp tc vc st unk ps in (rn_cs st', unk', ok)).
Proof.
  intros s comp tc vc ps. induction ps as [|p r IH]; intros st unk; cbn [type_variables]; [reflexivity|].
  cbn [rn_cs cs_ivs cs_sidx cs_vidx]. rewrite geti_rn, retarget_rn.
  set (v2 := retarget s comp tc vc (geti (cs_ivs st) p)).
  cbn [rn_iv iv_type].
  assert (Hsi : forall i, set_index (rn_iv v2) i = rn_iv (set_index v2 i)) by reflexivity.
  destruct (iv_type v2); rewrite ?Hsi, ?upd_map;
    try reflexivity;
    match goal with |- type_variables _ _ _ _ (mkCs (map rn_iv ?l) ?a ?b) _ _ = _ => apply (IH (mkCs l a b)) end.
Qed.

Lemma rn_iv_set_type : forall v t, set_type (rn_iv v) t = rn_iv (set_type v t).
Proof. reflexivity. Qed.

Lemma init_fold_rn : forall xs ivs,
  fold_left (fun l i => if is_initialised_kind (iv_type (geti l i)) then upd l i (set_type (geti l i) VInitAlgebraic) else l) xs (map rn_iv ivs)
  = map rn_iv (fold_left (fun l i => if is_initialised_kind (iv_type (geti l i)) then upd l i (set_type (geti l i) VInitAlgebraic) else l) xs ivs).
Proof.
  intros. apply (fold_left_map_commute (map rn_iv)). intros a x. rewrite geti_rn. cbn [rn_iv iv_type].
  destruct (is_initialised_kind (iv_type (geti a x))); [|reflexivity]. rewrite rn_iv_set_type, upd_map. reflexivity.
Qed.

Lemma over_fold_rn : forall xs ivs,
  fold_left (fun l i => upd l i (set_type (geti l i) VOverconstrained)) xs (map rn_iv ivs)
  = map rn_iv (fold_left (fun l i => upd l i (set_type (geti l i) VOverconstrained)) xs ivs).
Proof.
  intros. apply (fold_left_map_commute (map rn_iv)). intros a x. rewrite geti_rn, rn_iv_set_type, upd_map. reflexivity.
Qed.

Lemma remove_first_cls_rn : forall s k l, remove_first_cls (rn_sys s) (f k) l = remove_first_cls s k l.
Proof.
  intros s k l. induction l as [|x r IH]; cbn [remove_first_cls]; [reflexivity|].
  rewrite get_var_rn. cbn [rn_var v_cls]. rewrite eqb_f, IH. reflexivity.
Qed.

Lemma dep_remove_rn : forall fx s v d, dep_remove fx (rn_sys s) (rn_iv v) d = dep_remove fx s v d.
Proof. intros. unfold dep_remove. cbn [rn_iv iv_cls iv_var]. rewrite remove_first_cls_rn. reflexivity. Qed.

Lemma check_rn : forall s nla st e,
  check (rn_sys s) nla (rn_cs st) (rn_ieq e) = (let '(st', e', b) := check s nla st e in (rn_cs st', rn_ieq e', b)).
Proof.
  intros s nla st e. unfold check. cbn [rn_ieq ie_type ie_id ie_comp ie_lhs ie_rhs ie_diffs ie_deps ie_vars ie_odes ie_all ie_unknown ie_nla ie_sibs ie_tc ie_vc rn_cs cs_ivs cs_sidx cs_vidx].
  destruct (negb (etype_eqb (ie_type e) EUnknown)); [reflexivity|].
  rewrite !(existsb_ext' _ _ _ (is_known_rn (cs_ivs st))), !(existsb_ext' _ _ _ (is_nonconst_rn (cs_ivs st))).
  rewrite (filter_ext' _ _ (ie_vars e) (fun i => f_equal negb (is_known_rn (cs_ivs st) i))).
  rewrite (filter_ext' _ _ (ie_odes e) (fun i => f_equal negb (is_known_ode_rn (cs_ivs st) i))).
  rewrite (filter_ext' _ _ (ie_vars e) (is_known_rn (cs_ivs st))).
  rewrite (map_ext (fun i => iv_var (geti (map rn_iv (cs_ivs st)) i)) (fun i => iv_var (geti (cs_ivs st) i))) by (intro i; rewrite geti_rn; reflexivity).
  rewrite (filter_ext' (fun i => is_initialised_kind (iv_type (geti (map rn_iv (cs_ivs st)) i))) (fun i => is_initialised_kind (iv_type (geti (cs_ivs st) i))))
    by (intro i; rewrite geti_rn; reflexivity).
  set (vars := filter (fun i => negb (is_known (cs_ivs st) i)) (ie_vars e)).
  set (odes := filter (fun i => negb (is_known_ode (cs_ivs st) i)) (ie_odes e)).
  set (do_nla := nla && (length vars + length odes =? 0)).
  set (inits := if do_nla then filter (fun i => is_initialised_kind (iv_type (geti (cs_ivs st) i))) (ie_all e) else []).
  set (ivs1 := if do_nla then fold_left (fun l i => if is_initialised_kind (iv_type (geti l i)) then upd l i (set_type (geti l i) VInitAlgebraic) else l) (ie_all e) (cs_ivs st) else cs_ivs st).
  assert (Hivs1 : (if do_nla then fold_left (fun l i => if is_initialised_kind (iv_type (geti l i)) then upd l i (set_type (geti l i) VInitAlgebraic) else l) (ie_all e) (map rn_iv (cs_ivs st)) else map rn_iv (cs_ivs st)) = map rn_iv ivs1).
  { unfold ivs1. destruct do_nla; [apply init_fold_rn|reflexivity]. }
  rewrite Hivs1. clear Hivs1.
  destruct (do_nla && match inits with [] => true | _ => false end).
  { rewrite over_fold_rn. reflexivity. }
  set (left_var := if length vars + length odes =? 1 then match vars with [] => hd_error odes | p :: _ => Some p end else None).
  assert (Hfires : (match left_var with
                    | Some p => nla || on_lhs_or_rhs (rn_sys s)
                          (mkIeq (ie_id e) (ie_comp e) EUnknown (rn_side (ie_lhs e)) (rn_side (ie_rhs e)) (ie_diffs e)
                             (ie_deps e ++ map (fun i => iv_var (geti (cs_ivs st) i)) (filter (is_known (cs_ivs st)) (ie_vars e)))
                             vars odes (ie_all e) (ie_unknown e) (ie_nla e) (ie_sibs e)
                             (ie_tc e && negb (existsb (is_known (cs_ivs st)) (ie_vars e) || existsb (is_known (cs_ivs st)) (ie_odes e)))
                             (ie_vc e && negb (existsb (is_nonconst (cs_ivs st)) (ie_vars e) || existsb (is_nonconst (cs_ivs st)) (ie_odes e))))
                          (geti (map rn_iv ivs1) p)
                    | None => false end)
                   = (match left_var with
                    | Some p => nla || on_lhs_or_rhs s
                          (mkIeq (ie_id e) (ie_comp e) EUnknown (ie_lhs e) (ie_rhs e) (ie_diffs e)
                             (ie_deps e ++ map (fun i => iv_var (geti (cs_ivs st) i)) (filter (is_known (cs_ivs st)) (ie_vars e)))
                             vars odes (ie_all e) (ie_unknown e) (ie_nla e) (ie_sibs e)
                             (ie_tc e && negb (existsb (is_known (cs_ivs st)) (ie_vars e) || existsb (is_known (cs_ivs st)) (ie_odes e)))
                             (ie_vc e && negb (existsb (is_nonconst (cs_ivs st)) (ie_vars e) || existsb (is_nonconst (cs_ivs st)) (ie_odes e))))
                          (geti ivs1 p)
                    | None => false end)).
  { destruct left_var as [p|]; [|reflexivity]. rewrite geti_rn.
    match goal with |- context [on_lhs_or_rhs (rn_sys s) ?e1 (rn_iv ?v)] =>
      match goal with |- context [on_lhs_or_rhs s ?e2 v] => change e1 with (rn_ieq e2) end end.
    rewrite on_lhs_or_rhs_rn. reflexivity. }
  rewrite Hfires. clear Hfires.
  match goal with |- (if negb ?c then _ else _) = _ => destruct (negb c) end; [reflexivity|].
  change (mkCs (map rn_iv ivs1) (cs_sidx st) (cs_vidx st)) with (rn_cs (mkCs ivs1 (cs_sidx st) (cs_vidx st))).
  rewrite type_variables_rn.
  match goal with |- context [type_variables s ?a ?b ?c ?d ?e0 ?f0] => destruct (type_variables s a b c d e0 f0) as [[st2 unk] ok] end.
  destruct ok; cbn [negb]; [|reflexivity].
  cbn [rn_cs cs_ivs].
  assert (Hdeps : forall d, fold_left (fun d p => dep_remove dependency_fix (rn_sys s) (geti (map rn_iv (cs_ivs st2)) p) d) unk d
                            = fold_left (fun d p => dep_remove dependency_fix s (geti (cs_ivs st2) p) d) unk d).
  { induction unk as [|u r IHu]; intro d; cbn [fold_left]; [reflexivity|]. rewrite geti_rn, dep_remove_rn. apply IHu. }
  rewrite Hdeps. clear Hdeps.
  destruct left_var as [p|]; [|reflexivity].
  rewrite geti_rn.
  match goal with |- context [on_lhs_or_rhs (rn_sys s) ?e1 (rn_iv ?v)] =>
    match goal with |- context [on_lhs_or_rhs s ?e2 v] => change e1 with (rn_ieq e2) end end.
  rewrite on_lhs_or_rhs_rn. cbn [rn_iv iv_type]. reflexivity.
Qed.

Lemma sweep_rn : forall s nla es st,
  sweep (rn_sys s) nla (rn_cs st) (map rn_ieq es) = (let '(st', es', b) := sweep s nla st es in (rn_cs st', map rn_ieq es', b)).
Proof.
  intros s nla es. induction es as [|e r IH]; intro st; cbn [sweep map]; [reflexivity|].
  rewrite check_rn. destruct (check s nla st e) as [[st1 e1] b1]. rewrite IH.
  destruct (sweep s nla st1 r) as [[st2 r1] b2]. reflexivity.
Qed.

Lemma count_unknown_rn : forall es, count_unknown (map rn_ieq es) = count_unknown es.
Proof.
  intro es. unfold count_unknown. induction es as [|e r IH]; cbn; [reflexivity|].
  destruct (etype_eqb (ie_type e) EUnknown); cbn; rewrite IH; reflexivity.
Qed.

Lemma loop_rn : forall s fuel loopn nla st es,
  loop (rn_sys s) fuel loopn nla (rn_cs st) (map rn_ieq es)
  = option_map (fun r => (rn_cs (fst r), map rn_ieq (snd r))) (loop s fuel loopn nla st es).
Proof.
  intros s fuel. induction fuel as [|k IH]; intros loopn nla st es; cbn [loop]; [reflexivity|].
  rewrite sweep_rn. destruct (sweep s nla st es) as [[st1 es1] rel].
  destruct rel; [apply IH|].
  destruct ((loopn =? 1) || (loopn =? 3)); [apply IH|].
  destruct (loopn =? 2); [|reflexivity].
  cbn [rn_cs cs_ivs cs_sidx cs_vidx].
  assert (Hex : existsb iv_external (map rn_iv (cs_ivs st1)) = existsb iv_external (cs_ivs st1)).
  { induction (cs_ivs st1) as [|v r IHr]; cbn; [reflexivity|]. rewrite IHr. reflexivity. }
  rewrite Hex. rewrite map_map.
  assert (Hmark : map (fun x => if iv_external (rn_iv x) && vtype_eqb (iv_type (rn_iv x)) VUnknown then set_type (rn_iv x) VInitialised else rn_iv x) (cs_ivs st1)
                  = map rn_iv (map (fun v => if iv_external v && vtype_eqb (iv_type v) VUnknown then set_type v VInitialised else v) (cs_ivs st1))).
  { rewrite map_map. apply map_ext. intro v. cbn [rn_iv iv_external iv_type].
    destruct (iv_external v && vtype_eqb (iv_type v) VUnknown); reflexivity. }
  rewrite Hmark.
  destruct (existsb iv_external (cs_ivs st1)); [|reflexivity].
  match goal with |- loop _ _ _ _ (mkCs (map rn_iv ?l) ?a ?b) _ = _ => apply (IH 3 false (mkCs l a b)) end.
Qed.

(* ------------------------------------------------------------------ second half *)

Lemma validate_vars_rn : forall ivs vidx,
  validate_vars (map rn_iv ivs) vidx = (let '(l, n, i) := validate_vars ivs vidx in (map rn_iv l, n, i)).
Proof.
  induction ivs as [|v r IH]; intro vidx; cbn [validate_vars map]; [reflexivity|].
  cbn [rn_iv iv_type iv_var].
  destruct (iv_type v); rewrite IH;
    match goal with |- context [validate_vars r ?n] => destruct (validate_vars r n) as [[r1 n1] i1] end; reflexivity.
Qed.

Lemma rn_dieq : rn_ieq dieq = dieq.
Proof. reflexivity. Qed.
Lemma gete_rn : forall es j, gete (map rn_ieq es) j = rn_ieq (gete es j).
Proof. intros. unfold gete. rewrite <- rn_dieq at 1. apply map_nth. Qed.

Lemma new_var_eq_rn : forall ivs p, new_var_eq (map rn_iv ivs) p = rn_ieq (new_var_eq ivs p).
Proof. intros. unfold new_var_eq. rewrite geti_rn. reflexivity. Qed.

Definition rn_ns (st : nla_state) : nla_state := mkNs (map rn_ieq (ns_es st)) (ns_next st) (ns_added_vars st) (ns_removed st).

Lemma nla_step_rn : forall ivs st k, nla_step (map rn_iv ivs) (rn_ns st) k = rn_ns (nla_step ivs st k).
Proof.
  intros ivs st k. unfold nla_step. cbn [rn_ns ns_es ns_next ns_added_vars ns_removed].
  rewrite gete_rn. set (e := gete (ns_es st) k).
  assert (His : is_nla (rn_ieq e) = is_nla e) by reflexivity. rewrite His.
  assert (Hadd : forall l a, fold_left (fun a p => if iv_external (geti (map rn_iv ivs) p) && negb (mem_nat p a) then a ++ [p] else a) l a
                           = fold_left (fun a p => if iv_external (geti ivs p) && negb (mem_nat p a) then a ++ [p] else a) l a).
  { induction l as [|p r IHl]; intro a; cbn; [reflexivity|]. rewrite geti_rn. apply IHl. }
  assert (Hfil : forall l, filter (fun p => negb (iv_external (geti (map rn_iv ivs) p))) l = filter (fun p => negb (iv_external (geti ivs p))) l).
  { intro l. apply filter_ext'. intro p. rewrite geti_rn. reflexivity. }
  cbn [rn_ieq ie_unknown]. rewrite Hadd, Hfil.
  set (ae := if is_nla e then (fold_left (fun a p => if iv_external (geti ivs p) && negb (mem_nat p a) then a ++ [p] else a) (ie_unknown e) (ns_added_vars st),
                               set_unknown e (filter (fun p => negb (iv_external (geti ivs p))) (ie_unknown e)))
             else (ns_added_vars st, e)).
  assert (Hae : (if is_nla e then (fold_left (fun a p => if iv_external (geti ivs p) && negb (mem_nat p a) then a ++ [p] else a) (ie_unknown e) (ns_added_vars st),
                               set_unknown (rn_ieq e) (filter (fun p => negb (iv_external (geti ivs p))) (ie_unknown e)))
             else (ns_added_vars st, rn_ieq e)) = (fst ae, rn_ieq (snd ae))).
  { unfold ae. destruct (is_nla e); reflexivity. }
  rewrite Hae. destruct ae as [added e1]. cbn [fst snd]. cbn [rn_ieq ie_unknown].
  assert (His1 : is_nla (rn_ieq e1) = is_nla e1) by reflexivity. rewrite His1.
  rewrite upd_map.
  destruct (negb (is_nla e1)); [reflexivity|].
  cbn [rn_ieq ie_nla].
  destruct (match ie_nla e1 with Some i => (i, ns_next st) | None => (ns_next st, S (ns_next st)) end) as [idx next].
  change (set_nla (rn_ieq e1) (Some idx)) with (rn_ieq (set_nla e1 (Some idx))). rewrite upd_map.
  set (es2 := upd (upd (ns_es st) k e1) k (set_nla e1 (Some idx))).
  rewrite map_length.
  assert (Hoth : filter (fun j => negb (j =? k) && is_nla (gete (map rn_ieq es2) j) && existsb (fun p => mem_nat p (ie_unknown (gete (map rn_ieq es2) j))) (ie_unknown e1)) (seq 0 (length es2))
               = filter (fun j => negb (j =? k) && is_nla (gete es2 j) && existsb (fun p => mem_nat p (ie_unknown (gete es2 j))) (ie_unknown e1)) (seq 0 (length es2))).
  { apply filter_ext'. intro j. rewrite gete_rn. reflexivity. }
  rewrite Hoth. set (others := filter _ (seq 0 (length es2))).
  assert (Hfold : forall os l, fold_left (fun l j => upd l j (set_nla (gete l j) (Some idx))) os (map rn_ieq l)
                             = map rn_ieq (fold_left (fun l j => upd l j (set_nla (gete l j) (Some idx))) os l)).
  { intros os l. apply (fold_left_map_commute (map rn_ieq)). intros a x. rewrite gete_rn.
    change (set_nla (rn_ieq (gete a x)) (Some idx)) with (rn_ieq (set_nla (gete a x) (Some idx))). apply upd_map. }
  rewrite Hfold. rewrite gete_rn.
  match goal with |- context [set_sibs (rn_ieq ?x) ?l] => change (set_sibs (rn_ieq x) l) with (rn_ieq (set_sibs x l)) end.
  cbn [rn_ieq ie_sibs]. rewrite upd_map. reflexivity.
Qed.

Lemma nla_group_rn : forall ivs es, nla_group (map rn_iv ivs) (map rn_ieq es) = map rn_ieq (nla_group ivs es).
Proof.
  intros. unfold nla_group. rewrite map_length.
  change (mkNs (map rn_ieq es) 0 [] []) with (rn_ns (mkNs es 0 [] [])).
  rewrite (fold_left_map_commute rn_ns (nla_step (map rn_iv ivs)) (nla_step ivs)) by (intros; apply nla_step_rn).
  set (st := fold_left (nla_step ivs) (seq 0 (length es)) (mkNs es 0 [] [])).
  cbn [rn_ns ns_es ns_added_vars ns_removed].
  rewrite (map_ext (new_var_eq (map rn_iv ivs)) (fun p => rn_ieq (new_var_eq ivs p))) by (intro; apply new_var_eq_rn).
  rewrite <- (map_map (new_var_eq ivs) rn_ieq), <- map_app, map_length.
  rewrite map_map. apply map_ext. intro j. rewrite gete_rn. reflexivity.
Qed.

Definition rn_rq (a : list ivar * list ieq * list nat * list issue) : list ivar * list ieq * list nat * list issue :=
  let '(ivs, done, over, iss) := a in (map rn_iv ivs, map rn_ieq done, over, iss).

Lemma requalify_step_rn : forall a e, requalify_step (rn_rq a) (rn_ieq e) = rn_rq (requalify_step a e).
Proof.
  intros [[[ivs done] over] iss] e. unfold requalify_step, rn_rq. cbn [rn_ieq ie_type ie_unknown ie_all ie_sibs].
  destruct (ie_type e); try (rewrite map_app; reflexivity).
  - assert (Hex : existsb (fun p => negb (p =? hd 0 (ie_unknown e)) && negb (is_some_const (iv_type (geti (map rn_iv ivs) p)))) (ie_all e)
                = existsb (fun p => negb (p =? hd 0 (ie_unknown e)) && negb (is_some_const (iv_type (geti ivs p)))) (ie_all e)).
    { apply existsb_ext'. intro p. rewrite geti_rn. reflexivity. }
    rewrite Hex. clear Hex.
    destruct (existsb (fun p => negb (p =? hd 0 (ie_unknown e)) && negb (is_some_const (iv_type (geti ivs p)))) (ie_all e));
      cbv beta iota; rewrite map_app; [|reflexivity].
    rewrite geti_rn, rn_iv_set_type, upd_map. reflexivity.
  - destruct (length (ie_unknown e) <? length (ie_sibs e) + 1); [|cbv beta iota; rewrite map_app; reflexivity].
    assert (Hin : forall l a0 o i,
              fold_left (fun a p => let '(l0, o0, i0) := a in
                           if mem_nat p o0 then a
                           else (upd l0 p (set_type (geti l0 p) VOverconstrained), o0 ++ [p], i0 ++ [mkIssue RComputedTwice (iv_var (geti l0 p))]))
                        l (map rn_iv a0, o, i)
              = (let '(l1, o1, i1) := fold_left (fun a p => let '(l0, o0, i0) := a in
                           if mem_nat p o0 then a
                           else (upd l0 p (set_type (geti l0 p) VOverconstrained), o0 ++ [p], i0 ++ [mkIssue RComputedTwice (iv_var (geti l0 p))]))
                        l (a0, o, i) in (map rn_iv l1, o1, i1))).
    { induction l as [|p r IHl]; intros a0 o i; cbn [fold_left]; [reflexivity|].
      destruct (mem_nat p o); [apply IHl|]. rewrite geti_rn, rn_iv_set_type, upd_map. apply IHl. }
    rewrite Hin. destruct (fold_left _ (ie_unknown e) (ivs, over, iss)) as [[l1 o1] i1]. cbv beta iota. rewrite map_app. reflexivity.
Qed.

Lemma requalify_fold_rn : forall es a,
  fold_left requalify_step (map rn_ieq es) (rn_rq a) = rn_rq (fold_left requalify_step es a).
Proof.
  induction es as [|e r IH]; intro a; cbn [fold_left map]; [reflexivity|]. rewrite requalify_step_rn. apply IH.
Qed.

Lemma make_avars_rn : forall es ivs p si vi,
  make_avars (map rn_ieq es) (map rn_iv ivs) p si vi = make_avars es ivs p si vi.
Proof.
  intros es ivs. induction ivs as [|v r IH]; intros p si vi; cbn [make_avars map]; [reflexivity|].
  assert (Ha : atype_of (rn_iv v) = atype_of v) by reflexivity. rewrite Ha.
  rewrite map_length.
  assert (Hf : filter (fun j => mem_nat p (ie_unknown (gete (map rn_ieq es) j))) (seq 0 (length es))
             = filter (fun j => mem_nat p (ie_unknown (gete es j))) (seq 0 (length es))).
  { apply filter_ext'. intro j. rewrite gete_rn. reflexivity. }
  rewrite Hf. cbn [rn_iv iv_var iv_initvar].
  destruct (atype_of v) as [t|]; [|apply IH]. destruct t; rewrite IH; reflexivity.
Qed.

Lemma dep_lookup_rn : forall fx s ivs avs d, dep_lookup fx (rn_sys s) (map rn_iv ivs) avs d = dep_lookup fx s ivs avs d.
Proof. intros. unfold dep_lookup. rewrite ivar_of_rn. reflexivity. Qed.

Lemma make_aeq_rn : forall s ivs es avs j,
  make_aeq (rn_sys s) (map rn_iv ivs) (map rn_ieq es) avs j = make_aeq s ivs es avs j.
Proof.
  intros. unfold make_aeq.
  assert (Hl : forall l acc, fold_left (fun acc d => match dep_lookup dependency_fix (rn_sys s) (map rn_iv ivs) avs d with Some a => dedup_app acc (av_eqs a) | None => acc end) l acc
                          = fold_left (fun acc d => match dep_lookup dependency_fix s ivs avs d with Some a => dedup_app acc (av_eqs a) | None => acc end) l acc).
  { induction l as [|d r IHl]; intro acc; cbn [fold_left]; [reflexivity|]. rewrite dep_lookup_rn. apply IHl. } rewrite gete_rn. cbn [rn_ieq ie_unknown ie_type ie_deps ie_id ie_nla ie_sibs].
  assert (Hd : flat_map (fun p => iv_deps (geti (map rn_iv ivs) p)) (ie_unknown (gete es j))
             = flat_map (fun p => iv_deps (geti ivs p)) (ie_unknown (gete es j))).
  { induction (ie_unknown (gete es j)) as [|p r IHr]; cbn; [reflexivity|]. rewrite geti_rn, IHr. reflexivity. }
  rewrite Hd. destruct (ie_type (gete es j)); cbn [rn_ieq ie_type];
    destruct (forallb _ _); rewrite ?Hl; reflexivity.
Qed.

Lemma filter_map_ext : forall {A B} (p q : A -> option B) l, (forall x, p x = q x) -> filter_map p l = filter_map q l.
Proof. intros A B p q l H. induction l as [|x r IH]; cbn; [reflexivity|]. rewrite H, IH. reflexivity. Qed.

Lemma package_rn : forall s ty voi ivs es, package (rn_sys s) ty voi (map rn_iv ivs) (map rn_ieq es) = package s ty voi ivs es.
Proof.
  intros. unfold package. rewrite map_length.
  assert (Hc : filter (fun p => vtype_eqb (iv_type (geti (map rn_iv ivs) p)) VConstant) (seq 0 (length ivs))
             = filter (fun p => vtype_eqb (iv_type (geti ivs p)) VConstant) (seq 0 (length ivs))).
  { apply filter_ext'. intro p. rewrite geti_rn. reflexivity. }
  rewrite Hc.
  rewrite (map_ext (new_var_eq (map rn_iv ivs)) (fun p => rn_ieq (new_var_eq ivs p))) by (intro; apply new_var_eq_rn).
  rewrite <- (map_map (new_var_eq ivs) rn_ieq), <- map_app.
  rewrite make_avars_rn, map_length.
  match goal with |- context [filter_map (make_aeq (rn_sys s) (map rn_iv ivs) (map rn_ieq ?e3) ?avs) ?l] =>
    rewrite (filter_map_ext (make_aeq (rn_sys s) (map rn_iv ivs) (map rn_ieq e3) avs) (make_aeq s ivs e3 avs) l (make_aeq_rn s ivs e3 avs)) end.
  rewrite map_map. reflexivity.
Qed.

Lemma model_type_rn : forall voi ivs es, model_type voi (map rn_iv ivs) (map rn_ieq es) = model_type voi ivs es.
Proof.
  intros. unfold model_type.
  assert (He : existsb (fun e => is_nla e && existsb (fun p => negb (iv_external (geti (map rn_iv ivs) p))) (ie_unknown e)) (map rn_ieq es)
             = existsb (fun e => is_nla e && existsb (fun p => negb (iv_external (geti ivs p))) (ie_unknown e)) es).
  { induction es as [|e r IHr]; cbn [existsb map]; [reflexivity|]. rewrite IHr. f_equal.
    cbn [rn_ieq ie_unknown]. f_equal. apply existsb_ext'. intro p. rewrite geti_rn. reflexivity. }
  rewrite He. destruct voi; [reflexivity|]. destruct ivs; reflexivity.
Qed.

Lemma existsb_map_rn : forall (p : ivar -> bool) l, (forall v, p (rn_iv v) = p v) -> existsb p (map rn_iv l) = existsb p l.
Proof. intros p l H. induction l as [|v r IH]; cbn; [reflexivity|]. rewrite H, IH. reflexivity. Qed.

Lemma finish_rn : forall s voi ivs es vidx,
  finish (rn_sys s) voi (map rn_iv ivs) (map rn_ieq es) vidx = finish s voi ivs es vidx.
Proof.
  intros. unfold finish. rewrite validate_vars_rn.
  destruct (validate_vars ivs vidx) as [[ivs1 vidx1] iss1].
  destruct iss1.
  - rewrite nla_group_rn.
    change (map rn_iv ivs1, @nil ieq, @nil nat, @nil issue) with (rn_rq (ivs1, [], [], [])).
    rewrite requalify_fold_rn.
    destruct (fold_left requalify_step (nla_group ivs1 es) (ivs1, [], [], [])) as [[[ivs2 es2] ov] iss2].
    cbn [rn_rq]. destruct iss2; [|reflexivity].
    rewrite model_type_rn. destruct (model_type voi ivs2 es2); try reflexivity; apply package_rn.
  - rewrite !existsb_map_rn by reflexivity. reflexivity.
Qed.

(** Consistent renaming of class identifiers and of variable names leaves the analysis unchanged. *)
Theorem analyse_rename : forall s, analyse (rn_sys s) = analyse s.
Proof.
  intro s. unfold analyse, analyse_ext. rewrite resolvable_rn.
  destruct (negb (resolvable s)); [reflexivity|].
  rewrite build_rn. destruct (build s) as [[ivs0 es0]|]; cbn [option_map]; [|reflexivity].
  unfold rn_acc2. cbn [fst snd].
  assert (Hci : check_inits (rn_sys s) (map rn_iv ivs0) 0 (rn_sys s) = check_inits s ivs0 0 s)
    by (unfold rn_sys at 2; apply check_inits_rn).
  rewrite Hci. clear Hci.
  destruct (check_inits s ivs0 0 s); [|reflexivity].
  cbn [fold_left]. rewrite analyse_asts_rn. cbn [rn_vs vs_issues vs_ivs vs_voi].
  destruct (vs_issues (analyse_asts s ivs0 es0)); [|reflexivity].
  unfold loop_fuel. rewrite count_unknown_rn.
  change (mkCs (map rn_iv (vs_ivs (analyse_asts s ivs0 es0))) 0 0) with (rn_cs (mkCs (vs_ivs (analyse_asts s ivs0 es0)) 0 0)).
  rewrite loop_rn.
  destruct (loop s (count_unknown es0 + 5) 1 false (mkCs (vs_ivs (analyse_asts s ivs0 es0)) 0 0) es0) as [[st es1]|]; cbn [option_map fst snd]; [|reflexivity].
  cbn [rn_cs cs_ivs cs_vidx]. rewrite finish_rn. reflexivity.
Qed.

End Rename.
