(** Properties_C12.v — statements only.  C12: operations are pure — no hidden state, no mutation of their input.
    Each theorem is closed by [exact <lemma of GlobalProofs>] and followed by Print Assumptions.

    The model (GlobalDefs.v) makes libxml2's process-global blank-handling flag an explicit argument and result
    of every service call, and gives the documents as the trees libxml2 builds with the flag on ([strip] of
    them with the flag off; assumption A-xml).  The theorems describe the code with the three repairs of
    fixes/C12-*.diff applied (GlobalSites.v, regenerated from the source, says whether they are: C12_tree_is_repaired);
    the behaviour without them is in the [_unrepaired_refuted] theorems.  K19 itself (the flag leaks from the
    Printer into every later parse) cannot be repaired — a pinned test depends on it — and is characterised
    exactly: C12_math_capture_refuted, C12_parse_after_equal_iff. *)
From Coq Require Import String Ascii List Bool Arith.
From LC Require Import GlobalDefs GlobalProofs GlobalHistoryProofs GlobalRound6Proofs.
From LCGen Require GlobalSites.
Import ListNotations.
Local Open Scope string_scope.

(** ** 1. The state machine of the flag *)

(** printModel of a non-null model leaves the flag off, whatever it was and whatever the model contains *)
Theorem C12_print_leaves_flag_false : forall g maths, step g (OPrint maths) = false.
Proof. exact GlobalProofs.print_leaves_flag_false. Qed.
Print Assumptions C12_print_leaves_flag_false.

(** any XmlNode::convertToString turns it on *)
Theorem C12_convert_sets_flag_true : forall g, step g OConvert = true.
Proof. exact GlobalProofs.convert_sets_flag_true. Qed.
Print Assumptions C12_convert_sets_flag_true.

(** printMath alone leaves it on as soon as the math string has a node (so only the last statement of printModel clears it) *)
Theorem C12_print_math_flag : forall f, snd (print_math f) = negb (is_nil f).
Proof. exact GlobalProofs.print_math_flag. Qed.
Print Assumptions C12_print_math_flag.

(** the effect of every call on the flag is one of: clear, set, keep — independently of the history *)
Theorem C12_step_is_effect : forall g o, step g o = apply_eff (effect o) g.
Proof. exact GlobalProofs.step_is_effect. Qed.
Print Assumptions C12_step_is_effect.

(** nothing but printModel (or the application itself) ever clears the flag *)
Theorem C12_only_print_clears : forall g o, step g o = false -> g = false \/ effect o = SetF.
Proof. exact GlobalProofs.only_print_clears. Qed.
Print Assumptions C12_only_print_clears.

(** [flag_after]: the flag after a history is the fold of the steps, and in closed form the value written by
    the last call that is not [Keep] (the initial value when there is none) *)
Theorem C12_flag_after_is_fold : forall g0 h, flag_after g0 h = flag_char g0 h.
Proof. exact GlobalProofs.flag_after_is_fold. Qed.
Print Assumptions C12_flag_after_is_fold.

Theorem C12_flag_after_last_decisive : forall g0 h,
  flag_after g0 h = match last_decisive h with Some b => b | None => g0 end.
Proof. exact GlobalProofs.flag_after_last_decisive. Qed.
Print Assumptions C12_flag_after_last_decisive.

(** ** 2. What the flag can change: parsing *)

(** everything in a parse result except the captured math — entities, attributes, nesting, issues — is the same
    under both flag values *)
Theorem C12_blank_insensitive_load_structure : forall g1 g2 doc,
  erase_math (parse_ent g1 doc) = erase_math (parse_ent g2 doc) /\ parse_issues g1 doc = parse_issues g2 doc.
Proof. exact GlobalProofs.blank_insensitive_load_structure. Qed.
Print Assumptions C12_blank_insensitive_load_structure.

(** the math captured with the flag off is the blank-stripped form of the math captured with it on *)
Theorem C12_captured_math_by_flag : forall doc,
  ent_maths (parse_ent false doc) = map strip (ent_maths (parse_ent true doc)).
Proof. exact GlobalProofs.captured_math_by_flag. Qed.
Print Assumptions C12_captured_math_by_flag.

(** K19: the same document, the two flag values, different math strings (no issue either way) *)
Theorem C12_math_capture_refuted :
  exists doc, is_element CELLML_2_0_NS "model" doc = true
              /\ parse_math_strings true doc <> parse_math_strings false doc
              /\ parse_issues true doc = [] /\ parse_issues false doc = [].
Proof. exact GlobalProofs.math_capture_refuted. Qed.
Print Assumptions C12_math_capture_refuted.

(** ... and exactly when: the captured strings are equal iff no captured math subtree contains a removable blank node *)
Theorem C12_math_capture_partial : forall doc,
  parse_math_strings false doc = parse_math_strings true doc
  <-> Forall (fun m => strip m = m) (ent_maths (parse_ent true doc)).
Proof. exact GlobalProofs.math_strings_equal_iff. Qed.
Print Assumptions C12_math_capture_partial.

(** ... and they always agree modulo blank nodes *)
Theorem C12_math_capture_modulo_blanks : forall g1 g2 doc,
  map strip (ent_maths (parse_ent g1 doc)) = map strip (ent_maths (parse_ent g2 doc)).
Proof. exact GlobalProofs.math_capture_modulo_blanks. Qed.
Print Assumptions C12_math_capture_modulo_blanks.

(** the set of histories on which two parses of one document differ, exactly *)
Theorem C12_parse_after_equal_iff : forall g0 h1 h2 doc,
  parse_after g0 h1 doc = parse_after g0 h2 doc
  <-> (flag_after g0 h1 = flag_after g0 h2 \/ Forall (fun m => strip m = m) (ent_maths (parse_ent true doc))).
Proof. exact GlobalProofs.parse_after_equal_iff. Qed.
Print Assumptions C12_parse_after_equal_iff.

(** the executable test used by the check (serialised text) is that condition *)
Theorem C12_math_sensitive_iff : forall doc,
  math_sensitive doc = false <-> Forall (fun m => strip m = m) (ent_maths (parse_ent true doc)).
Proof. exact GlobalProofs.math_sensitive_iff. Qed.
Print Assumptions C12_math_sensitive_iff.

(** the blank removal is idempotent (a model printed and parsed again, or parsed under 0 and re-read under 0, is stable) *)
Theorem C12_strip_idempotent : forall t, strip (strip t) = strip t.
Proof. exact GlobalProofs.strip_idem. Qed.
Print Assumptions C12_strip_idempotent.

(** the models an Importer parses into its library: the same, file by file *)
Theorem C12_blank_insensitive_import : forall g1 g2 docs,
  map (fun d => (erase_math (parse_ent g1 d), parse_issues g1 d)) docs
  = map (fun d => (erase_math (parse_ent g2 d), parse_issues g2 d)) docs.
Proof. exact GlobalProofs.blank_insensitive_import. Qed.
Print Assumptions C12_blank_insensitive_import.

(** resolveImports and flattenModel never clear the flag *)
Theorem C12_resolve_keeps_or_sets : forall g docs maths, step g (OResolve docs maths) = false -> g = false.
Proof. exact GlobalProofs.resolve_keeps_or_sets. Qed.
Print Assumptions C12_resolve_keeps_or_sets.

Theorem C12_flatten_keeps_or_sets : forall g maths, step g (OFlatten maths) = false -> g = false.
Proof. exact GlobalProofs.flatten_keeps_or_sets. Qed.
Print Assumptions C12_flatten_keeps_or_sets.

(** ** 3. What the flag cannot change: the consumers of a stored math string *)

(** the printed math does not depend on the flag under which the string was captured (printMath parses under 0) *)
Theorem C12_blank_insensitive_print : forall g f, fst (print_math (forest_as_parsed g f)) = fst (print_math f).
Proof. exact GlobalProofs.blank_insensitive_print. Qed.
Print Assumptions C12_blank_insensitive_print.

Theorem C12_blank_insensitive_print_model : forall g g1 g2 maths,
  fst (print_model g (map (forest_as_parsed g1) maths)) = fst (print_model g (map (forest_as_parsed g2) maths)).
Proof. exact GlobalProofs.blank_insensitive_print_model. Qed.
Print Assumptions C12_blank_insensitive_print_model.

(** the validator re-reads the math under the current flag: for every arity / sibling table, set of supported
    elements, units rule and number recogniser, its issues are the same under both flag values provided the
    blank removal changes no ci / cn element ([tokens_stable]) *)
Theorem C12_blank_insensitive_validate_partial :
  forall supported cn_units rule is_basic_real is_integer names f,
    Forall tokens_stable f ->
    fst (validate_math supported cn_units rule is_basic_real is_integer names false f)
    = fst (validate_math supported cn_units rule is_basic_real is_integer names true f).
Proof. exact GlobalProofs.validate_math_insensitive_partial. Qed.
Print Assumptions C12_blank_insensitive_validate_partial.

(** the unsupported-element scan needs no hypothesis *)
Theorem C12_blank_insensitive_unsupported_scan : forall supported t, v_elements supported (strip t) = v_elements supported t.
Proof. exact GlobalProofs.v_elements_strip. Qed.
Print Assumptions C12_blank_insensitive_unsupported_scan.

(** without the hypothesis the validator's verdict on ONE model object depends on the flag:
    <ci><!--a--> <!--b-->x</ci> is reported with the flag on and accepted with it off *)
Theorem C12_blank_insensitive_validate_refuted :
  exists f,
    fst (validate_math (fun _ => true) (fun _ => []) (fun _ _ _ _ => []) (fun _ => true) (fun _ => true) ["x"] true f) = [VCiEmpty]
    /\ fst (validate_math (fun _ => true) (fun _ => []) (fun _ _ _ _ => []) (fun _ => true) (fun _ => true) ["x"] false f) = [].
Proof. exact GlobalProofs.validate_math_refuted. Qed.
Print Assumptions C12_blank_insensitive_validate_refuted.

(** the analyser's syntax trees, same hypothesis *)
Theorem C12_blank_insensitive_analyse_partial : forall f,
  Forall tokens_stable f -> fst (analyse_math false f) = fst (analyse_math true f).
Proof. exact GlobalProofs.analyse_math_insensitive_partial. Qed.
Print Assumptions C12_blank_insensitive_analyse_partial.

(** the hypothesis is not vacuous: it holds of a math whose blanks ARE removed *)
Example C12_tokens_stable_nonvacuous : tokens_stable k19_math /\ strip k19_math <> k19_math.
Proof. exact GlobalProofs.tokens_stable_nonvacuous. Qed.
Print Assumptions C12_tokens_stable_nonvacuous.

(** ** 4. Each top-level call starts from an empty issue list *)

(** for every entry point of the regenerated table (parse, validate, analyse, resolve, flatten, annotator update
    and, with the repair, print): the issues after the call are those of the call alone *)
Theorem C12_call_resets_issues : forall (I : Type) (s : service) (old body : list I),
  call_issues (resets_now s) old body = body.
Proof. exact GlobalProofs.call_resets_issues. Qed.
Print Assumptions C12_call_resets_issues.

Theorem C12_call_without_reset_refuted : exists (old body : list nat), call_issues false old body <> body.
Proof. exact GlobalProofs.call_without_reset_refuted. Qed.
Print Assumptions C12_call_without_reset_refuted.

(** ** 5. The services do not write to what they are given *)

Theorem C12_services_do_not_mutate : forall (s : svc) (w : world) (old i : nat),
  i < next_id w ->
  content (run w (actions_of (next_id w) old (service_writes true true s))) i = content w i.
Proof. exact GlobalProofs.services_do_not_mutate. Qed.
Print Assumptions C12_services_do_not_mutate.

Theorem C12_readers_do_not_mutate : forall ff fa (s : svc) (w : world) (old i : nat),
  (s = VPrinter \/ s = VValidator \/ s = VAnalyser \/ s = VGenerator) ->
  i < next_id w ->
  content (run w (actions_of (next_id w) old (service_writes ff fa s))) i = content w i.
Proof. exact GlobalProofs.readers_do_not_mutate. Qed.
Print Assumptions C12_readers_do_not_mutate.

Theorem C12_flatten_unrepaired_refuted : exists (w : world) (old : nat),
  old < next_id w /\ content (run w (actions_of (next_id w) old (service_writes false true VFlatten))) old <> content w old.
Proof. exact GlobalProofs.flatten_unrepaired_refuted. Qed.
Print Assumptions C12_flatten_unrepaired_refuted.

Theorem C12_analyser_unrepaired_refuted : exists (w : world) (old : nat),
  old < next_id w
  /\ content (run w (actions_of (next_id w) old (service_writes true false (VAnalyserResult false)))) old <> content w old.
Proof. exact GlobalProofs.analyser_unrepaired_refuted. Qed.
Print Assumptions C12_analyser_unrepaired_refuted.

(** ** 6. The model covers every writer of process-global state found in the source (regenerated tables) *)

Theorem C12_flag_writers_are_modelled :
  GlobalSites.flag_writers =
  [("printer.cpp", "Printer::PrinterImpl::printMath", 0); ("printer.cpp", "Printer::printModel", 0);
   ("xmlnode.cpp", "XmlNode::convertToString", 1)].
Proof. exact GlobalProofs.flag_writers_are_modelled. Qed.
Print Assumptions C12_flag_writers_are_modelled.

Theorem C12_other_global_calls_are_modelled :
  GlobalSites.other_global_calls =
  [("xmldoc.cpp", "XmlDoc::parse", "xmlCleanupParser"); ("xmldoc.cpp", "XmlDoc::parse", "xmlInitParser");
   ("xmldoc.cpp", "XmlDoc::parse", "xmlSetStructuredErrorFunc");
   ("xmldoc.cpp", "XmlDoc::parseMathML", "xmlCleanupParser"); ("xmldoc.cpp", "XmlDoc::parseMathML", "xmlInitParser");
   ("xmldoc.cpp", "XmlDoc::parseMathML", "xmlSetStructuredErrorFunc")].
Proof. exact GlobalProofs.other_global_calls_are_modelled. Qed.
Print Assumptions C12_other_global_calls_are_modelled.

(** the only function-local / file-level objects that survive a call: the DTD text cache (its value is a constant)
    and a debug helper outside the library proper *)
Theorem C12_mutable_statics_are_modelled :
  GlobalSites.mutable_statics =
  [("debug.cpp", "astAsCode", "GeneratorProfilePtr generatorProfile = nullptr");
   ("xmldoc.cpp", "XmlDoc::parseMathML", "std::string mathMLDTD")].
Proof. exact GlobalProofs.mutable_statics_are_modelled. Qed.
Print Assumptions C12_mutable_statics_are_modelled.

Theorem C12_tree_is_repaired :
  GlobalSites.flatten_writes_library = false /\ GlobalSites.analyser_starts_fresh = true
  /\ resets_now SPrinter = true.
Proof. exact GlobalProofs.tree_is_repaired. Qed.
Print Assumptions C12_tree_is_repaired.

(** the rest of the global state: the flag is the only part a result reads; every parse resets the
    application's structured error handler to NULL (observed, outside the property) *)
Theorem C12_parse_clobbers_error_handler : forall s o, uses_parse o = true -> err_handler (gstep s o) = None.
Proof. exact GlobalProofs.parse_clobbers_error_handler. Qed.
Print Assumptions C12_parse_clobbers_error_handler.

(** ** 7. Per-instance state: a result is a function of the argument and the documented state of the object used *)

(** every member variable of the private implementation classes (regenerated list) is classified, and those classified
    per-call scratch are (re)initialised unconditionally at the head of the top-level call *)
Theorem C12_instance_members_ok : members_ok GlobalSites.instance_members = true.
Proof. exact GlobalProofs.instance_members_ok. Qed.
Print Assumptions C12_instance_members_ok.

Theorem C12_instance_members_are_the_modelled_ones :
  map (fun e : string * string * bool => let '(c, m, _) := e in (c, m)) GlobalSites.instance_members =
  [("Logger::LoggerImpl", "mErrors"); ("Logger::LoggerImpl", "mWarnings"); ("Logger::LoggerImpl", "mMessages");
   ("Logger::LoggerImpl", "mIssues");
   ("Parser::ParserImpl", "mParser"); ("Parser::ParserImpl", "mParsing1XVersion"); ("Parser::ParserImpl", "mParsing20Version");
   ("Validator::ValidatorImpl", "mValidator");
   ("Analyser::AnalyserImpl", "mAnalyser"); ("Analyser::AnalyserImpl", "mModel"); ("Analyser::AnalyserImpl", "mExternalVariables");
   ("Analyser::AnalyserImpl", "mInternalVariables"); ("Analyser::AnalyserImpl", "mInternalEquations");
   ("Analyser::AnalyserImpl", "mGeneratorProfile"); ("Analyser::AnalyserImpl", "mStandardUnits"); ("Analyser::AnalyserImpl", "mCiCnUnits");
   ("Generator::GeneratorImpl", "mModel"); ("Generator::GeneratorImpl", "mCode"); ("Generator::GeneratorImpl", "mProfile");
   ("Printer::PrinterImpl", "mPrinter");
   ("Importer::ImporterImpl", "mImporter"); ("Importer::ImporterImpl", "mLibrary"); ("Importer::ImporterImpl", "mImports");
   ("Annotator::AnnotatorImpl", "mAnnotator"); ("Annotator::AnnotatorImpl", "mIdList"); ("Annotator::AnnotatorImpl", "mModel");
   ("Annotator::AnnotatorImpl", "mCounter"); ("Annotator::AnnotatorImpl", "mHash");
   ("Strict::StrictImpl", "mStrict")].
Proof. exact GlobalProofs.instance_members_are_the_modelled_ones. Qed.
Print Assumptions C12_instance_members_are_the_modelled_ones.

(** for a service whose members are all per-call scratch (reset at the head), fixed (written by the constructor / the
    setters of the API only) or transparent caches: op(x) after ANY history ys on the same instance = op(x) on a fresh one *)
Theorem C12_same_instance_history_irrelevant :
  forall (A R : Type) (cls : string -> mclass) (init : istate) (body : A -> istate -> R * istate),
    (forall a s m, is_fixed (cls m) = true -> snd (body a s) m = s m) ->
    (forall a s1 s2, (forall m, is_cache (cls m) = false -> s1 m = s2 m) -> fst (body a s1) = fst (body a s2)) ->
    (forall m, is_reset (cls m) || is_fixed (cls m) || is_cache (cls m) = true) ->
    forall ys x, result_after A R cls init body ys x = result_after A R cls init body [] x.
Proof. exact GlobalProofs.same_instance_history_irrelevant. Qed.
Print Assumptions C12_same_instance_history_irrelevant.

(** in general (documented state may change between the calls): the result is a function of the argument and of the
    members that are neither per-call scratch nor caches *)
Theorem C12_result_depends_on_persistent_state_only :
  forall (A R : Type) (cls : string -> mclass) (init : istate) (body : A -> istate -> R * istate),
    (forall a s1 s2, (forall m, is_cache (cls m) = false -> s1 m = s2 m) -> fst (body a s1) = fst (body a s2)) ->
    forall x s1 s2,
      (forall m, is_reset (cls m) = false -> is_cache (cls m) = false -> s1 m = s2 m) ->
      fst (call A R cls init body x s1) = fst (call A R cls init body x s2).
Proof. exact GlobalProofs.result_depends_on_persistent_state_only. Qed.
Print Assumptions C12_result_depends_on_persistent_state_only.

(** the third premise holds of every member (regenerated list) of every service but the Annotator *)
Theorem C12_services_members_classified : forall c m,
  (c = "Logger::LoggerImpl" \/ c = "Parser::ParserImpl" \/ c = "Validator::ValidatorImpl" \/ c = "Analyser::AnalyserImpl"
   \/ c = "Generator::GeneratorImpl" \/ c = "Printer::PrinterImpl" \/ c = "Importer::ImporterImpl" \/ c = "Strict::StrictImpl") ->
  In m (map (fun e : string * string * bool => let '(_, m, _) := e in m)
            (filter (fun e : string * string * bool => let '(c', _, _) := e in String.eqb c' c) GlobalSites.instance_members)) ->
  is_reset (classify c m) || is_fixed (classify c m) || is_cache (classify c m) = true.
Proof. exact GlobalProofs.services_members_classified. Qed.
Print Assumptions C12_services_members_classified.

(** the Annotator's automatic-id counter is the exception (known finding C12-annotator-id-counter) *)
Theorem C12_counter_member_refuted :
  exists (cls : string -> mclass) (init : istate) (body : nat -> istate -> nat * istate),
    (forall m, cls m = MCounter) /\
    result_after nat nat cls init body [0] 0 <> result_after nat nat cls init body [] 0.
Proof. exact GlobalProofs.counter_member_refuted. Qed.
Print Assumptions C12_counter_member_refuted.

(** ** 8. flattenModel: a new object comes back, the argument is only read (regenerated from Importer::flattenModel) *)

(** the only expression ever assigned to the returned variable is a clone of the argument *)
Theorem C12_flatten_result_is_a_clone : GlobalSites.flatten_result_exprs = ["model->clone()"].
Proof. exact GlobalProofs.flatten_result_is_a_clone. Qed.
Print Assumptions C12_flatten_result_is_a_clone.

(** every call whose receiver is the argument is a reader, and the argument is handed to readers only *)
Theorem C12_flatten_argument_only_read :
  flatten_reads_argument_only GlobalSites.flatten_calls GlobalSites.flatten_model_passed = true.
Proof. exact GlobalProofs.flatten_argument_only_read. Qed.
Print Assumptions C12_flatten_argument_only_read.

(** linkUnits — the statement that repairs unlinked units in place — is applied to the clone and to nothing else *)
Theorem C12_flatten_links_the_clone :
  filter (fun rm => String.eqb (snd rm) "linkUnits") GlobalSites.flatten_calls = [("flatModel", "linkUnits")].
Proof. exact GlobalProofs.flatten_links_the_clone. Qed.
Print Assumptions C12_flatten_links_the_clone.

(** in the frame model: the result is an object that did not exist before the call *)
Theorem C12_result_is_new_object : forall (s : svc) (w : world) (old : nat),
  (forall i, i < next_id w -> i <> result_object w)
  /\ result_object w < next_id (run w (actions_of (next_id w) old (service_writes true true s))).
Proof. exact GlobalProofs.result_is_new_object. Qed.
Print Assumptions C12_result_is_new_object.

(** every observation of every pre-existing object (content, references to other objects, hasUnlinkedUnits /
    hasUnresolvedImports / isDefined / interface types / ids) is the same after the call *)
Theorem C12_services_preserve_every_observation : forall (X : Type) (f : observation X) (s : svc) (w : world) (old i : nat),
  i < next_id w ->
  f (content (run w (actions_of (next_id w) old (service_writes true true s))) i) = f (content w i).
Proof. exact GlobalProofs.services_preserve_every_observation. Qed.
Print Assumptions C12_services_preserve_every_observation.

(** ** 9. History independence at full strength

    For every service class of the library but the Annotator, every implementation of a top-level call that sees the object
    through its member table, every initial state and EVERY history of calls on one object: the result of every call of the
    history is the result of that call on a fresh object.  The premise is the decidable check [class_ok] evaluated by the
    kernel on the member table regenerated from the sources. *)
Theorem C12_table_premise_holds : forallb (class_ok GlobalSites.instance_members) pure_service_classes = true.
Proof. exact GlobalHistoryProofs.table_premise_holds. Qed.
Print Assumptions C12_table_premise_holds.

Theorem C12_result_history_independent :
  forall (c : string), In c pure_service_classes ->
  forall (A R : Type) (init : istate) (code : A -> list nat -> R * list (string * nat)),
    let cls := service_cls GlobalSites.instance_members c in
    let body := scoped_body A R (members_of GlobalSites.instance_members c) cls code in
    forall (h : list A),
      results A R cls init body init h = map (fresh_result A R cls init body) h.
Proof. exact GlobalHistoryProofs.result_history_independent. Qed.
Print Assumptions C12_result_history_independent.

(** the same for arbitrary call bodies, under the two facts about the code that [scoped_body] has by construction;
    call number k of any history *)
Theorem C12_result_k_history_independent :
  forall (A R : Type) (cls : string -> mclass) (init : istate) (body : A -> istate -> R * istate),
    (forall a s m, is_fixed (cls m) = true -> snd (body a s) m = s m) ->
    (forall a s1 s2, (forall m, is_cache (cls m) = false -> s1 m = s2 m) -> fst (body a s1) = fst (body a s2)) ->
    (forall m, is_reset (cls m) || is_fixed (cls m) || is_cache (cls m) = true) ->
    forall h k x, nth_error h k = Some x ->
                  nth_error (results A R cls init body init h) k = Some (fresh_result A R cls init body x).
Proof. exact GlobalHistoryProofs.result_k_history_independent. Qed.
Print Assumptions C12_result_k_history_independent.

(** non-vacuity: a Parser whose call switches to "1.x mode" and never back; with the real table (the member is reset at the
    head) the 2.0 documents parsed after 1.x ones get the fresh result *)
Example C12_history_independence_nonvacuous :
  results nat nat (service_cls GlobalSites.instance_members "Parser::ParserImpl") (fun _ => 0)
          (scoped_body nat nat (members_of GlobalSites.instance_members "Parser::ParserImpl")
                       (service_cls GlobalSites.instance_members "Parser::ParserImpl") sticky_parser_code)
          (fun _ => 0) [1; 0; 1; 0]
  = [11; 0; 11; 0].
Proof. exact GlobalHistoryProofs.history_independence_nonvacuous. Qed.
Print Assumptions C12_history_independence_nonvacuous.

(** ... and the same call code over a table in which that member is not reset is history dependent: the premise is needed *)
Theorem C12_unreset_member_refuted :
  let cls := fun m : string => if String.eqb m "mParsing1XVersion" then MUnknown else MConst in
  let body := scoped_body nat nat ["mParser"; "mParsing1XVersion"; "mParsing20Version"] cls sticky_parser_code in
  results nat nat cls (fun _ => 0) body (fun _ => 0) [1; 0] <> map (fresh_result nat nat cls (fun _ => 0) body) [1; 0].
Proof. exact GlobalHistoryProofs.unreset_member_refuted. Qed.
Print Assumptions C12_unreset_member_refuted.

(** ** 10. Proof depth round 6: composition of histories and when the flag forgets where it started *)

(** running h1 then h2 is running h2 from the flag h1 left *)
Theorem C12_flag_after_app : forall g0 h1 h2,
  flag_after g0 (h1 ++ h2) = flag_after (flag_after g0 h1) h2.
Proof. exact GlobalRound6Proofs.flag_after_app. Qed.
Print Assumptions C12_flag_after_app.

Theorem C12_last_decisive_app : forall h1 h2,
  last_decisive (h1 ++ h2) = match last_decisive h2 with Some b => Some b | None => last_decisive h1 end.
Proof. exact GlobalRound6Proofs.last_decisive_app. Qed.
Print Assumptions C12_last_decisive_app.

(** the flag after a history is independent of the initial value IFF the history contains a decisive (non-Keep) call *)
Theorem C12_flag_after_forgets_initial_iff : forall h,
  flag_after true h = flag_after false h <-> last_decisive h <> None.
Proof. exact GlobalRound6Proofs.flag_after_forgets_initial_iff. Qed.
Print Assumptions C12_flag_after_forgets_initial_iff.

(** a suffix with a decisive call erases the initial value and every prefix *)
Theorem C12_flag_after_suffix_decides : forall h2 b, last_decisive h2 = Some b ->
  forall g0 g0' h1 h1', flag_after g0 (h1 ++ h2) = b /\ flag_after g0 (h1 ++ h2) = flag_after g0' (h1' ++ h2).
Proof. exact GlobalRound6Proofs.flag_after_suffix_decides. Qed.
Print Assumptions C12_flag_after_suffix_decides.

(** ... and so does every parse that follows it *)
Theorem C12_parse_after_suffix_decides : forall h2 b, last_decisive h2 = Some b ->
  forall g0 g0' h1 h1' doc, parse_after g0 (h1 ++ h2) doc = parse_after g0' (h1' ++ h2) doc.
Proof. exact GlobalRound6Proofs.parse_after_suffix_decides. Qed.
Print Assumptions C12_parse_after_suffix_decides.

(** a history of any length without printModel / xmlKeepBlanksDefault(0) never turns the flag off *)
Theorem C12_flag_stays_on_without_clear : forall h,
  Forall (fun o => effect o <> SetF) h -> flag_after true h = true.
Proof. exact GlobalRound6Proofs.flag_stays_on_without_clear. Qed.
Print Assumptions C12_flag_stays_on_without_clear.
