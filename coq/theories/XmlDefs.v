(** XmlDefs.v — XML trees as libcellml sees them through libxml2 (C02, reused by C14 / C04).  No proofs here.

    What is modelled
      * the TREE: elements with a namespace URI and a local name, attributes (namespace URI, local name,
        value), children; text nodes; comments.  Namespace prefixes and xmlns declarations are not part
        of the tree (an attribute "has a prefix" iff its namespace URI is non-empty: an unprefixed
        attribute is in no namespace) — src/xmlnode.cpp: isElement / namespaceUri, src/xmlattribute.cpp:
        isType / namespaceUri / namespacePrefix.
      * the ATTRIBUTE-VALUE TEXT LAYER, because src/printer.cpp assembles the document by string
        concatenation: [decode_attr] is what an XML processor (libxml2: xmlParseAttValueInternal) makes of the
        characters found between the quotes of an attribute: it refuses '<', an unescaped double quote (which ends
        the value early and derails the tag), '&' that does not start a reference it knows, and characters
        that are not XML Chars (control bytes); it replaces the predefined and numeric character
        references, and normalises literal TAB / LF / CR (CR LF counting once: end-of-line handling comes
        first) to a single SPACE (XML 1.0 sections 2.11, 3.3.3, 4.6).  [escape_attr] is the escaping the repaired
        printer applies (fix C02-escape-attribute-values; the same table as libxml2's own serialiser
        xmlAttrSerializeTxtContent).

    What is NOT modelled (assumption A-xml, DESIGN.md section 4): the text <-> tree step of libxml2 for
    everything else — tag syntax, namespace declarations, UTF-8 validity, pretty printing and blank-node
    removal (xmlKeepBlanksDefault(0)): the printer model yields the tree that the concatenated text denotes. *)
From Coq Require Import String Ascii List Bool Arith NArith.
Import ListNotations.
Local Open Scope string_scope.
Local Open Scope bool_scope.

Record attr := mkAttr { a_ns : string; a_name : string; a_val : string }.

Inductive xml :=
| Elem (ns name : string) (attrs : list attr) (kids : list xml)
| Text (s : string)
| Comment.

Definition CELLML_2_0_NS := "http://www.cellml.org/cellml/2.0#".
Definition CELLML_1_0_NS := "http://www.cellml.org/cellml/1.0#".
Definition CELLML_1_1_NS := "http://www.cellml.org/cellml/1.1#".
Definition MATHML_NS := "http://www.w3.org/1998/Math/MathML".
Definition XLINK_NS := "http://www.w3.org/1999/xlink".

(** an attribute without namespace (what the printer writes everywhere except xlink:href) *)
Definition at_ (name val : string) : attr := mkAttr "" name val.
(** a CellML 2.0 element *)
Definition el (name : string) (attrs : list attr) (kids : list xml) : xml := Elem CELLML_2_0_NS name attrs kids.

(* src/xmlnode.cpp: XmlNode::isElement(name, ns) *)
Definition is_element (ns name : string) (x : xml) : bool :=
  match x with Elem n nm _ _ => String.eqb n ns && String.eqb nm name | _ => false end.
Definition is_cellml20 (name : string) (x : xml) : bool := is_element CELLML_2_0_NS name x.
Definition is_mathml (name : string) (x : xml) : bool := is_element MATHML_NS name x.
Definition is_text (x : xml) : bool := match x with Text _ => true | _ => false end.
Definition is_comment (x : xml) : bool := match x with Comment => true | _ => false end.
Definition xml_name (x : xml) : string := match x with Elem _ n _ _ => n | Text _ => "text" | Comment => "comment" end.
Definition xml_ns (x : xml) : string := match x with Elem n _ _ _ => n | _ => "" end.
Definition xml_attrs (x : xml) : list attr := match x with Elem _ _ a _ => a | _ => [] end.
Definition xml_kids (x : xml) : list xml := match x with Elem _ _ _ k => k | _ => [] end.

(* src/xmlattribute.cpp: XmlAttribute::isType(name, ns = "") *)
Definition attr_is (name : string) (a : attr) : bool := String.eqb (a_ns a) "" && String.eqb (a_name a) name.
Definition attr_is_ns (ns name : string) (a : attr) : bool := String.eqb (a_ns a) ns && String.eqb (a_name a) name.

(* src/utilities.cpp: hasNonWhitespaceCharacters — find_first_not_of(" \t\n\v\f\r") *)
Definition is_ws_char (c : ascii) : bool :=
  match nat_of_ascii c with 32 | 9 | 10 | 11 | 12 | 13 => true | _ => false end.
Fixpoint all_ws (s : string) : bool :=
  match s with EmptyString => true | String c r => is_ws_char c && all_ws r end.
Definition has_non_ws (s : string) : bool := negb (all_ws s).

(** * Attribute values as text *)

Definition chr (n : nat) : ascii := ascii_of_nat n.
Definition c_amp := chr 38.   (* & *)
Definition c_lt := chr 60.    (* < *)
Definition c_gt := chr 62.    (* > *)
Definition c_quot := chr 34.  (* double quote *)
Definition c_apos := chr 39.  (* ' *)
Definition c_tab := chr 9.
Definition c_lf := chr 10.
Definition c_cr := chr 13.
Definition c_sp := chr 32.
Definition c_semi := chr 59.  (* ; *)
Definition c_hash := chr 35.  (* # *)

(** the escaping of the repaired printer (fix C02-escape-attribute-values: escapeAttributeValue in src/printer.cpp) *)
Definition escape_char (c : ascii) : string :=
  match nat_of_ascii c with
  | 38 => "&amp;"
  | 60 => "&lt;"
  | 62 => "&gt;"
  | 34 => "&quot;"
  | 9 => "&#9;"
  | 10 => "&#10;"
  | 13 => "&#13;"
  | _ => String c EmptyString
  end.

Fixpoint escape_attr (s : string) : string :=
  match s with
  | EmptyString => EmptyString
  | String c r => escape_char c ++ escape_attr r
  end.

(** bytes that are not XML Chars: C0 controls other than TAB, LF, CR (XML 1.0 production [2]); the
    remaining constraints on Char (UTF-8 well-formedness, U+FFFE/U+FFFF, surrogates) are part of A-xml *)
Definition is_ctrl (c : ascii) : bool :=
  let n := nat_of_ascii c in Nat.ltb n 32 && negb (Nat.eqb n 9 || Nat.eqb n 10 || Nat.eqb n 13).

Fixpoint no_ctrl (s : string) : bool :=
  match s with EmptyString => true | String c r => negb (is_ctrl c) && no_ctrl r end.

(** [starts p s]: the rest of [s] after the prefix [p], if [p] is a prefix *)
Fixpoint starts (p s : string) : option string :=
  match p with
  | EmptyString => Some s
  | String a p' => match s with
                   | String b s' => if Ascii.eqb a b then starts p' s' else None
                   | EmptyString => None
                   end
  end.

(** the references the printer model needs; any other reference makes [decode_attr] fail (an undeclared
    entity is a well-formedness error; other numeric references are never produced by [escape_attr], and
    a raw string that contains one is outside the domain on which the unrepaired printer is described) *)
Definition references : list (string * ascii) :=
  [ ("amp;", c_amp); ("lt;", c_lt); ("gt;", c_gt); ("quot;", c_quot); ("apos;", c_apos);
    ("#9;", c_tab); ("#10;", c_lf); ("#13;", c_cr);
    ("#38;", c_amp); ("#60;", c_lt); ("#62;", c_gt); ("#34;", c_quot); ("#39;", c_apos) ].

Fixpoint match_reference (l : list (string * ascii)) (s : string) : option (ascii * string) :=
  match l with
  | [] => None
  | (p, c) :: l' => match starts p s with Some r => Some (c, r) | None => match_reference l' s end
  end.

(** what the XML processor reads between the quotes.  Fuel = length of the text (each step consumes at
    least one character); [None] = the document is not well-formed (Printer::printModel then returns the empty string). *)
Fixpoint decode_fuel (fuel : nat) (s : string) : option string :=
  match fuel with
  | O => match s with EmptyString => Some EmptyString | _ => None end
  | S f =>
    match s with
    | EmptyString => Some EmptyString
    | String c r =>
      if Ascii.eqb c c_lt || Ascii.eqb c c_quot || is_ctrl c then None
      else if Ascii.eqb c c_amp then
        match match_reference references r with
        | Some (d, r') => option_map (String d) (decode_fuel f r')
        | None => None
        end
      else if Ascii.eqb c c_cr then
        (* end-of-line handling: CR LF and a lone CR both become one LF, which then becomes a space *)
        match r with
        | String c2 r2 => if Ascii.eqb c2 c_lf then option_map (String c_sp) (decode_fuel f r2)
                          else option_map (String c_sp) (decode_fuel f r)
        | EmptyString => Some (String c_sp EmptyString)
        end
      else if Ascii.eqb c c_lf || Ascii.eqb c c_tab then option_map (String c_sp) (decode_fuel f r)
      else option_map (String c) (decode_fuel f r)
    end
  end.

Definition decode_attr (s : string) : option string := decode_fuel (String.length s) s.

(** * Source trees: attribute values are still text; [xml_read] decodes all of them (or fails as a whole) *)

Fixpoint map_opt {A B : Type} (f : A -> option B) (l : list A) : option (list B) :=
  match l with
  | [] => Some []
  | x :: r => match f x, map_opt f r with Some y, Some ys => Some (y :: ys) | _, _ => None end
  end.

Definition read_attr (a : attr) : option attr :=
  option_map (mkAttr (a_ns a) (a_name a)) (decode_attr (a_val a)).

Fixpoint xml_read (x : xml) : option xml :=
  match x with
  | Elem ns nm attrs kids =>
    match map_opt read_attr attrs, (fix go (l : list xml) : option (list xml) :=
                                      match l with
                                      | [] => Some []
                                      | k :: r => match xml_read k, go r with Some y, Some ys => Some (y :: ys) | _, _ => None end
                                      end) kids with
    | Some a, Some k => Some (Elem ns nm a k)
    | _, _ => None
    end
  | Text s => Some (Text s)
  | Comment => Some Comment
  end.

(** * Namespace surveys of loadModel (src/xmlutils.cpp) *)

(* traverseTreeForElementNamespaces: std::map keyed by the element NAME; emplace/insert keep the first
   entry, and a node is entered before its subtree and before its later siblings: first occurrence in
   document order wins.  Result as an association list (name, uri) in order of first occurrence. *)
Fixpoint elem_names (x : xml) : list (string * string) :=
  match x with
  | Elem ns nm _ kids => (nm, ns) :: flat_map elem_names kids
  | _ => []
  end.

Fixpoint assoc_mem (k : string) (l : list (string * string)) : bool :=
  match l with [] => false | (k', _) :: r => String.eqb k k' || assoc_mem k r end.

Fixpoint first_per_name (l acc : list (string * string)) : list (string * string) :=
  match l with
  | [] => rev acc
  | (k, v) :: r => if assoc_mem k acc then first_per_name r acc else first_per_name r ((k, v) :: acc)
  end.

Definition element_namespace_map (x : xml) : list (string * string) := first_per_name (elem_names x) [].

(* traverseTreeForAttributeNamespaces / attributeNamespaces: one entry per attribute that has a prefix:
   (node name, attribute name, attribute uri, node uri) *)
Fixpoint attr_namespaces (x : xml) : list (string * string * string * string) :=
  match x with
  | Elem ns nm attrs kids =>
    map (fun a => (nm, a_name a, a_ns a, ns)) (filter (fun a => negb (String.eqb (a_ns a) "")) attrs)
    ++ flat_map attr_namespaces kids
  | _ => []
  end.
