(** ValidProofs.v — lemmas about the model of the validator (C04). *)
From Coq Require Import String Ascii List Bool Arith ZArith NArith QArith Lia.
From LC Require Import Common NumDefs NumPosDefs MathDefs ValidDefs.
From LCGen Require RuleTable.
Import ListNotations.
Local Open Scope string_scope.
Local Open Scope list_scope.

(** every rule the model can cite is an enumerator of the REGENERATED ReferenceRule enum *)
Lemma rules_in_table : forallb (fun r => match vrule_num r with Some _ => true | None => false end) all_vrules = true.
Proof. vm_compute. reflexivity. Qed.
