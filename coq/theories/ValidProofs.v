(** ValidProofs.v — C04 proofs, assembly: Validator::validateModel against the specification WF. *)
From Coq Require Import String Ascii List Bool Arith ZArith NArith QArith Lia.
From LC Require Import Common NumDefs NumPosDefs MathDefs ValidDefs ValidSpec ValidLeaf ValidMathProofs ValidCompProofs
  ValidConnProofs ValidUnitsProofs.
From LCGen Require RuleTable.
Import ListNotations.
Local Open Scope string_scope.
Local Open Scope list_scope.

(** every rule the model can cite is an enumerator of the REGENERATED ReferenceRule enum *)
Lemma rules_in_table : forallb (fun r => match vrule_num r with Some _ => true | None => false end) all_vrules = true.
Proof. vm_compute. reflexivity. Qed.

(* ------------------------------------------------------------------ de-duplication never hides the verdict *)

Lemma dedup_nil : forall l, dedup l = [] <-> l = [].
Proof.
  intro l. unfold dedup. destruct l as [|[r|k] t]; [split; reflexivity | |]; cbn; split; intro H; discriminate H.
Qed.

Lemma nenames_all : forall (P : comp -> Prop) cs, (forall c, P c -> c_name (c_info c) <> "") ->
  Forall P cs -> nenames cs = map cname cs.
Proof.
  intros P cs HP H. unfold nenames. induction H as [|c l Hc Hl IH]; [reflexivity|]. cbn [map filter].
  pose proof (HP c Hc) as Hne. apply nonempty_iff in Hne. unfold cname at 1. rewrite Hne, IH. reflexivity.
Qed.

Section Main.
  Variable fx : fixes.
  Variable ueq : world -> string -> string -> option bool.

  Lemma validate_nil_raw : forall W, validate fx ueq false W = [] <-> validate_raw fx ueq false W = [].
  Proof. intro W. unfold validate. rewrite map_nil_iff. apply dedup_nil. Qed.

  (** the two passes whose declarative counterpart is proved separately (and only on a sub-domain, see below) *)
  Definition IdsOK (W : world) : Prop := check_unique_ids fx (model_at W 0) = [].
  Definition OrdersOK (W : world) : Prop := check_unique_reset_orders (fx_reset_set fx) (model_at W 0) = [].

  (** the models on which validateModel stays inside the validated model: no import source of model 0 has a model attached *)
  Definition unresolved_world (W : world) : Prop :=
    units_stay_local (model_at W 0) /\ Forall (fun c => unresolved (c_info c)) (model_comps (model_at W 0)).

  Lemma comp_fuel_pos : forall W, exists f, comp_fuel W = S f.
  Proof. intro W. unfold comp_fuel. eexists. reflexivity. Qed.

  (** the component pass = every component fine + names unique *)
  Lemma trees_pass_nil : forall W, Repr (model_at W 0) ->
    Forall (fun c => unresolved (c_info c)) (model_comps (model_at W 0)) ->
    (validate_trees (fx_math_qual fx) (comp_fuel W) W [] (m_comps (model_at W 0)) = [] <->
     Forall (fun c => CompOK (fx_math_qual fx) W 0 (c_info c)) (model_comps (model_at W 0))
     /\ NoDup (map (fun c => c_name (c_info c)) (model_comps (model_at W 0)))).
  Proof.
    intros W HR Hun. destruct (comp_fuel_pos W) as [f Hf]. rewrite Hf. rewrite validate_trees_nil.
    unfold tree_ok. fold (model_comps (model_at W 0)). set (m := model_at W 0) in *. set (q := fx_math_qual fx).
    assert (Hfine : forall c, In c (model_comps m) -> (comp_fine q (S f) W c <-> CompOKop q W 0 (c_info c))).
    { intros c Hc. unfold comp_fine. apply validate_component_nil. rewrite Forall_forall in Hun. apply Hun. exact Hc. }
    (* names of fine components are identifiers, hence non-empty *)
    assert (Hnames : Forall (fun c => CompOKop q W 0 (c_info c)) (model_comps m) -> nenames (model_comps m) = map cname (model_comps m)).
    { apply nenames_all. intros c [Hid _]. apply IsIdent_nonempty. exact Hid. }
    split.
    - intros [H1 [H2 _]].
      assert (Hop : Forall (fun c => CompOKop q W 0 (c_info c)) (model_comps m)).
      { rewrite Forall_forall in *. intros c Hc. apply (Hfine c Hc). apply H1. exact Hc. }
      rewrite (Hnames Hop) in H2. split; [|exact H2].
      rewrite Forall_forall in *. intros c Hc. specialize (Hop c Hc). unfold CompOKop, CompOK in *. fold m in Hop |- *.
      destruct Hop as [A [B C]]. split; [exact A|]. split; [exact B|]. destruct (c_imp (c_info c)); [exact C|].
      destruct C as [C1 [C2 [C3 C4]]]. repeat split; try assumption.
      rewrite Forall_forall in *. intros r Hr. apply (reset_ok_iff q m c r HR H2 Hc). apply C3. exact Hr.
    - intros [H1 H2].
      assert (Hop : Forall (fun c => CompOKop q W 0 (c_info c)) (model_comps m)).
      { rewrite Forall_forall in *. intros c Hc. specialize (H1 c Hc). unfold CompOKop, CompOK in *. fold m in H1 |- *.
        destruct H1 as [A [B C]]. split; [exact A|]. split; [exact B|]. destruct (c_imp (c_info c)); [exact C|].
        destruct C as [C1 [C2 [C3 C4]]]. repeat split; try assumption.
        rewrite Forall_forall in *. intros r Hr. apply (reset_ok_iff q m c r HR H2 Hc). apply C3. exact Hr. }
      split; [|split].
      + rewrite Forall_forall in *. intros c Hc. apply (Hfine c Hc). apply Hop. exact Hc.
      + rewrite (Hnames Hop). exact H2.
      + intros n _ [].
  Qed.

  (** interfaces of the variables of non-imported components are valid strings once the components are fine *)
  Lemma ifaces_valid : forall W,
    Forall (fun c => CompOK (fx_math_qual fx) W 0 (c_info c)) (model_comps (model_at W 0)) ->
    forall me, In me (model_locs (model_at W 0)) -> l_import me = false -> valid_iface (v_iface (l_var me)).
  Proof.
    intros W H me Hme Himp. destruct (in_model_locs _ _ Hme) as [c [Hc [Hv [_ [_ Hi]]]]].
    rewrite Forall_forall in H. specialize (H c Hc). destruct H as [_ [_ H]]. rewrite Himp in Hi. unfold is_import_c in Hi.
    destruct (c_imp (c_info c)); [discriminate Hi|]. destruct H as [H _]. rewrite Forall_forall in H.
    destruct (H _ Hv) as [_ [_ [_ [H4 _]]]]. exact H4.
  Qed.

  (** THE MAIN EQUIVALENCE (the tree as it is now: no early exit in the interface scan) *)
  Theorem validate_nil_iff : forall W, Repr (model_at W 0) -> unresolved_world W ->
    (validate fx ueq false W = [] <-> WF fx ueq W /\ IdsOK W /\ OrdersOK W).
  Proof.
    intros W HR [Hu Hc]. rewrite validate_nil_raw. unfold validate_raw. cbv zeta.
    rewrite !app_nil_iff, !plains_nil.
    rewrite (if_nil_iff (is_ident (m_name (model_at W 0))) V_MODEL_NAME_VALUE), is_ident_iff.
    rewrite (if_nil_iff (is_xml_name (m_id (model_at W 0))) V_XML_ID_ATTRIBUTE).
    rewrite (trees_pass_nil W HR Hc), (units_pass_nil W Hu).
    unfold IdsOK, OrdersOK. split.
    - intros [H1 [H2 [[H3 H4] [[H5 [H6 [H7 H8]]] [H9 [H10 H11]]]]]]. split; [|split; assumption].
      apply (validate_connections_nil ueq W (ifaces_valid W H3)) in H9.
      constructor; assumption.
    - intros [[A1 A2 A3 A4 A5 A6 A7 A8 A9] [B C]]. repeat split; try assumption.
      apply (validate_connections_nil ueq W (ifaces_valid W A3)). exact A9.
  Qed.

  Corollary validate_complete : forall W, Repr (model_at W 0) -> unresolved_world W ->
    WF fx ueq W -> IdsOK W -> OrdersOK W -> validate fx ueq false W = [].
  Proof. intros W HR HU H1 H2 H3. apply (validate_nil_iff W HR HU). split; [exact H1 | split; assumption]. Qed.

  Corollary validate_sound : forall W, Repr (model_at W 0) -> unresolved_world W ->
    validate fx ueq false W = [] -> WF fx ueq W.
  Proof. intros W HR HU H. apply (validate_nil_iff W HR HU) in H. tauto. Qed.
End Main.

(* ------------------------------------------------------------------ the two model-wide passes, one step towards their declarative form *)

Lemma dup_strings_nil : forall l seen, dup_strings l seen [] = [] <-> NoDup l /\ (forall s, In s l -> ~ In s seen).
Proof.
  induction l as [|s r IH]; intro seen; cbn [dup_strings].
  - split; [intros _; split; [constructor | intros s []] | reflexivity].
  - destruct (str_in s seen) eqn:E.
    + cbn [str_in existsb]. split; [intro H; discriminate H|]. intros [_ H]. exfalso. apply (H s); [left; reflexivity | apply str_in_iff; exact E].
    + apply str_in_false_iff in E. rewrite IH. split.
      * intros [H1 H2]. split.
        -- constructor; [|exact H1]. intro Hin. apply (H2 s Hin). left. reflexivity.
        -- intros x [Hx|Hx]; [subst; exact E|]. intro Hs. apply (H2 x Hx). right. exact Hs.
      * intros [H1 H2]. inversion H1; subst. split; [assumption|]. intros x Hx [Hs|Hs]; [subst; contradiction | apply (H2 x); [right; exact Hx | exact Hs]].
Qed.

Lemma has_dup_z_false : forall l, has_dup_z l = false <-> NoDup l.
Proof.
  induction l as [|x r IH]; cbn [has_dup_z].
  - split; [constructor | reflexivity].
  - rewrite orb_false_iff, IH. split.
    + intros [H1 H2]. constructor; [|exact H2]. intro Hin. assert (Ht : existsb (Z.eqb x) r = true) by (apply existsb_exists; exists x; split; [exact Hin | apply Z.eqb_refl]). congruence.
    + intro H. inversion H; subst. split; [|assumption]. apply not_true_is_false. intro Ht. apply existsb_exists in Ht.
      destruct Ht as [y [Hy Hxy]]. apply Z.eqb_eq in Hxy. subst y. contradiction.
Qed.

(** checkUniqueIds is silent iff the ids met on the way that must be XML names are, and the collected ids are pairwise distinct *)
Theorem ids_pass_nil : forall fx m,
  check_unique_ids fx m = [] <-> ia_issues (model_idacc fx m) = [] /\ NoDup (ia_ids (model_idacc fx m)).
Proof.
  intros fx m. unfold check_unique_ids. cbv zeta. rewrite app_nil_iff, map_nil_iff, dup_strings_nil. split.
  - intros [H1 [H2 _]]. split; assumption.
  - intros [H1 H2]. split; [exact H1|]. split; [exact H2 | intros s _ []].
Qed.

(** checkUniqueResetOrders is silent iff within every group of the order map the orders are pairwise distinct *)
Theorem orders_pass_nil : forall ws m,
  check_unique_reset_orders ws m = [] <-> Forall (fun kv => NoDup (snd kv)) (build_omap ws m).
Proof.
  intros ws m. unfold check_unique_reset_orders. rewrite flat_map_nil_iff, !Forall_forall. split; intros H kv Hkv; specialize (H kv Hkv).
  - apply has_dup_z_false. destruct (has_dup_z (snd kv)); [discriminate H | reflexivity].
  - apply has_dup_z_false in H. rewrite H. reflexivity.
Qed.
