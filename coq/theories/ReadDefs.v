(** ReadDefs.v — the intended reading of an equation AST as an expression tree, the level at which the
    generator's text for it sits in the target grammar, and the decidable class [safe_b] of ASTs for which the
    text is proved to read back as intended (C03).  No proofs.

    [tr]     AST -> tree: what the MathML means.  Operators the profile has as infix operators become [TBin];
             those it only has as functions become calls of the profile's function name.  Three numeric
             simplifications of the generator are part of the reading, keyed on the *tree* of the qualifier
             being a literal: x^0.5 = sqrt(x), root of degree 2 = sqrt, log base 10 = log10.
    [lvl]    level (GramDefs) of the outermost construct of the emitted text.
    [safe_b] every operand sits at a level its position accepts (either because the generator parenthesises
             it or because its own level is high enough), or is an associative continuation
             (a+(b+c), a+(b-c), a*(b*c), a*(b/c), a&&(b&&c), a||(b||c) printed without parentheses).
             A unary minus over a product is printed "-a*b", read (-a)*b: accepted as the same value.
    [norm]   trees up to that re-association: left-nested chains, negation pushed to the leftmost factor. *)
From Coq Require Import String Ascii List Bool Arith ZArith.
From LC Require Import NumDefs AstDefs GenDefs GramDefs.
Import ListNotations.
Local Open Scope string_scope.
Local Open Scope bool_scope.

(** ** leaves the theorems cover *)

Fixpoint all_chars (f : ascii -> bool) (s : string) : bool :=
  match s with EmptyString => true | String c r => f c && all_chars f r end.

Definition plain_ident_char (c : ascii) : bool := is_alpha c || is_digit c.

(* a C / Python identifier that is not a keyword of the emitted language *)
Definition var_ok (v : string) : bool :=
  match v with
  | String c r => is_alpha c && all_chars plain_ident_char r
                  && negb (String.eqb v "if") && negb (String.eqb v "else")
  | EmptyString => false
  end.

(* characters a numeric token may continue with, as in GramDefs.continues (LNum _ ae) *)
Fixpoint num_chars_ok (ae : bool) (s : string) : bool :=
  match s with
  | EmptyString => negb ae               (* the text does not end with the exponent letter *)
  | String c r =>
      (is_digit c || Ascii.eqb c "." || is_alpha c || (ae && (Ascii.eqb c "+" || Ascii.eqb c "-")))
      && num_chars_ok (is_e c) r
  end.

Definition num_body_ok (s : string) : bool :=
  match s with
  | String c r => (is_digit c || Ascii.eqb c ".") && num_chars_ok false r && real_dfa s
  | EmptyString => false
  end.

(* the printed text of a CN: optional '-' then a decimal floating literal *)
Definition cn_body (v : string) : string :=
  let s := double_code v in
  match s with String c r => if Ascii.eqb c "-" then r else s | EmptyString => s end.
Definition cn_neg (v : string) : bool := starts_with "-" (double_code v).
Definition cn_ok (v : string) : bool := is_real v && num_body_ok (cn_body v).

(** ** trees up to re-association *)

Fixpoint graft_add (L R : tree) : tree :=
  match R with
  | TBin Add x y => TBin Add (graft_add L x) y
  | TBin Sub x y => TBin Sub (graft_add L x) y
  | _ => TBin Add L R
  end.
Fixpoint graft_mul (L R : tree) : tree :=
  match R with
  | TBin Mul x y => TBin Mul (graft_mul L x) y
  | TBin Div x y => TBin Div (graft_mul L x) y
  | _ => TBin Mul L R
  end.
Fixpoint graft_and (L R : tree) : tree :=
  match R with
  | TBin And x y => TBin And (graft_and L x) y
  | _ => TBin And L R
  end.
Fixpoint graft_or (L R : tree) : tree :=
  match R with
  | TBin Or x y => TBin Or (graft_or L x) y
  | _ => TBin Or L R
  end.

(* -(a*b) = (-a)*b, -(a/b) = (-a)/b: a negated product is printed "-a*b" *)
Fixpoint neg_left (t : tree) : tree :=
  match t with
  | TBin Mul x y => TBin Mul (neg_left x) y
  | TBin Div x y => TBin Div (neg_left x) y
  | _ => TNeg t
  end.

Fixpoint norm (t : tree) : tree :=
  match t with
  | TVar _ | TLit _ => t
  | TNeg a => neg_left (norm a)
  | TNot a => TNot (norm a)
  | TBin Add a b => graft_add (norm a) (norm b)
  | TBin Mul a b => graft_mul (norm a) (norm b)
  | TBin And a b => graft_and (norm a) (norm b)
  | TBin Or a b => graft_or (norm a) (norm b)
  | TBin op a b => TBin op (norm a) (norm b)
  | TCond c a b => TCond (norm c) (norm a) (norm b)
  | TCall1 f a => TCall1 f (norm a)
  | TCall2 f a b => TCall2 f (norm a) (norm b)
  end.

Definition binop_eqb (a b : binop) : bool :=
  match a, b with
  | Add, Add | Sub, Sub | Mul, Mul | Div, Div | Lt, Lt | Le, Le | Gt, Gt | Ge, Ge | Eq, Eq | Ne, Ne
  | And, And | Or, Or => true
  | _, _ => false
  end.

Fixpoint tree_eqb (x y : tree) : bool :=
  match x, y with
  | TVar a, TVar b => String.eqb a b
  | TLit a, TLit b => String.eqb a b
  | TNeg a, TNeg b => tree_eqb a b
  | TNot a, TNot b => tree_eqb a b
  | TBin o a b, TBin o' a' b' => binop_eqb o o' && tree_eqb a a' && tree_eqb b b'
  | TCond c a b, TCond c' a' b' => tree_eqb c c' && tree_eqb a a' && tree_eqb b b'
  | TCall1 f a, TCall1 f' a' => String.eqb f f' && tree_eqb a a'
  | TCall2 f a b, TCall2 f' a' b' => String.eqb f f' && tree_eqb a a' && tree_eqb b b'
  | _, _ => false
  end.

Definition lit_is (t : tree) (num den : Z) : bool :=
  match t with TLit s => text_is_number s num den | _ => false end.

Section Read.
Variable L : lang.
Variable p : profile.

Definition infix_or_call (has : bool) (op : binop) (f : string) (a b : tree) : tree :=
  if has then TBin op a b else TCall2 f a b.

Definition lit_tree (v : string) : tree :=
  if cn_neg v then TNeg (TLit (cn_body v)) else TLit (cn_body v).

(** the intended reading *)
Fixpoint tr (a : ast) : tree :=
  match a with
  | Null => TVar null_marker
  | Node t v l r =>
      let c1 (f : string) := TCall1 f (tr l) in
      let c2 (f : string) := TCall2 f (tr l) (tr r) in
      match t with
      | EQUALITY => TCall2 "=" (tr l) (tr r)        (* a statement, not an expression: outside [safe_b] *)
      | EQ => infix_or_call (has_eq_operator p) Eq (eq_string p) (tr l) (tr r)
      | NEQ => infix_or_call (has_neq_operator p) Ne (neq_string p) (tr l) (tr r)
      | LT => infix_or_call (has_lt_operator p) Lt (lt_string p) (tr l) (tr r)
      | LEQ => infix_or_call (has_leq_operator p) Le (leq_string p) (tr l) (tr r)
      | GT => infix_or_call (has_gt_operator p) Gt (gt_string p) (tr l) (tr r)
      | GEQ => infix_or_call (has_geq_operator p) Ge (geq_string p) (tr l) (tr r)
      | AND => infix_or_call (has_and_operator p) And (and_string p) (tr l) (tr r)
      | OR => infix_or_call (has_or_operator p) Or (or_string p) (tr l) (tr r)
      | XOR => c2 (xor_string p)
      | NOT => if has_not_operator p then TNot (tr l) else c1 (not_string p)
      | PLUS => if is_nil r then tr l else TBin Add (tr l) (tr r)
      | MINUS => if is_nil r then TNeg (tr l) else TBin Sub (tr l) (tr r)
      | TIMES => TBin Mul (tr l) (tr r)
      | DIVIDE => TBin Div (tr l) (tr r)
      | POWER => if lit_is (tr r) 1 2 then c1 (square_root_string p) else c2 (power_string p)
      | ROOT =>
          if is_nil r then c1 (square_root_string p)
          else
            (* l is the DEGREE qualifier, r the radicand *)
            if lit_is (tr l) 2 1 then TCall1 (square_root_string p) (tr r)
            else TCall2 (power_string p) (tr r) (TBin Div (TLit "1.0") (tr l))
      | ABS => c1 (absolute_value_string p)
      | EXP => c1 (exponential_string p)
      | LN => c1 (natural_logarithm_string p)
      | LOG =>
          if is_nil r then c1 (common_logarithm_string p)
          else
            (* l is the LOGBASE qualifier, r the argument *)
            if lit_is (tr l) 10 1 then TCall1 (common_logarithm_string p) (tr r)
            else TBin Div (TCall1 (natural_logarithm_string p) (tr r)) (TCall1 (natural_logarithm_string p) (tr l))
      | CEILING => c1 (ceiling_string p)
      | FLOOR => c1 (floor_string p)
      | MIN => c2 (min_string p)
      | MAX => c2 (max_string p)
      | REM => c2 (rem_string p)
      | DIFF => TCall2 "d/d" (tr r) (tr l)          (* outside [safe_b] *)
      | SIN => c1 (sin_string p) | COS => c1 (cos_string p) | TAN => c1 (tan_string p)
      | SEC => c1 (sec_string p) | CSC => c1 (csc_string p) | COT => c1 (cot_string p)
      | SINH => c1 (sinh_string p) | COSH => c1 (cosh_string p) | TANH => c1 (tanh_string p)
      | SECH => c1 (sech_string p) | CSCH => c1 (csch_string p) | COTH => c1 (coth_string p)
      | ASIN => c1 (asin_string p) | ACOS => c1 (acos_string p) | ATAN => c1 (atan_string p)
      | ASEC => c1 (asec_string p) | ACSC => c1 (acsc_string p) | ACOT => c1 (acot_string p)
      | ASINH => c1 (asinh_string p) | ACOSH => c1 (acosh_string p) | ATANH => c1 (atanh_string p)
      | ASECH => c1 (asech_string p) | ACSCH => c1 (acsch_string p) | ACOTH => c1 (acoth_string p)
      | PIECEWISE =>
          (* l is a PIECE (value, condition); r is null, a last PIECE, an OTHERWISE or the next PIECEWISE *)
          let nan := TVar (nan_string p) in
          let els := match r with
                     | Null => nan
                     | Node PIECE _ v2 c2' => TCond (tr c2') (tr v2) nan
                     | _ => tr r
                     end in
          match l with
          | Node PIECE _ v1 c1' => TCond (tr c1') (tr v1) els
          | _ => TCond (TVar null_marker) (tr l) els
          end
      | PIECE => TCond (tr r) (tr l) (TVar null_marker)   (* only meaningful under PIECEWISE *)
      | OTHERWISE => tr l
      | CI => TVar v
      | CN => lit_tree v
      | DEGREE => tr l
      | LOGBASE => tr l
      | BVAR => tr l
      | TRUE => TLit (true_string p)
      | FALSE => TLit (false_string p)
      | E => TLit (e_string p)
      | PI => TLit (pi_string p)
      | INF => TVar (inf_string p)
      | NAN => TVar (nan_string p)
      end
  end.

(** level of the outermost construct of [gen p a] *)
Fixpoint lvl (a : ast) : nat :=
  match a with
  | Null => 0
  | Node t v l r =>
      match t with
      | EQ | NEQ => if is_relational p a then 4 else 9
      | LT | LEQ | GT | GEQ => if is_relational p a then 5 else 9
      | AND => if has_and_operator p then 3 else 9
      | OR => if has_or_operator p then 2 else 9
      | NOT => if has_not_operator p then 8 else 9
      | PLUS => if is_nil r then lvl l else 6
      | MINUS => if is_nil r then (if paren_unary_minus p l then 8 else Nat.min 8 (lvl l)) else 6
      | TIMES | DIVIDE => 7
      | LOG => if is_nil r then 9 else if lit_is (tr l) 10 1 then 9 else 7
      | PIECEWISE => 1
      | OTHERWISE | DEGREE | LOGBASE | BVAR => lvl l
      | CN => if cn_neg v then 8 else 9
      | EQUALITY | DIFF | PIECE => 0
      | _ => 9
      end
  end.

(* operators whose same-level right operand may be printed without parentheses *)
Definition assoc_ok (op : binop) : bool :=
  match op with Add | Mul | And | Or => true | _ => false end.

Definition operand_ok (paren : bool) (need : nat) (a : ast) : bool := paren || (need <=? lvl a)%nat.

Definition bin_ok (t : ty) (op : binop) (q : nat) (l r : ast) : bool :=
  operand_ok (paren_left p t l r) q l
  && (operand_ok (paren_right p t l r (gen p r)) (S q) r || (assoc_ok op && (lvl r =? q)%nat)).

(* the else part of a conditional and its operands: Python wants or_test (level 2) for value and condition *)
Definition piece_ok (v c : ast) : bool :=
  if is_C L then true else (2 <=? lvl v)%nat && (2 <=? lvl c)%nat.

Fixpoint safe_b (a : ast) : bool :=
  match a with
  | Null => false
  | Node t v l r =>
      let infix (has : bool) (op : binop) (q : nat) :=
        safe_b l && safe_b r && (if has then bin_ok t op q l r else true) in
      let c1 := safe_b l in
      let c2 := safe_b l && safe_b r in
      match t with
      | EQUALITY | DIFF | PIECE => false
      | EQ => infix (has_eq_operator p) Eq 4
      | NEQ => infix (has_neq_operator p) Ne 4
      | LT => infix (has_lt_operator p) Lt 5
      | LEQ => infix (has_leq_operator p) Le 5
      | GT => infix (has_gt_operator p) Gt 5
      | GEQ => infix (has_geq_operator p) Ge 5
      | AND => infix (has_and_operator p) And 3
      | OR => infix (has_or_operator p) Or 2
      | XOR => negb (has_xor_operator p) && c2
      | NOT => c1 && (if has_not_operator p then (8 <=? lvl l)%nat else true)
      | PLUS => if is_nil r then c1 else infix true Add 6
      | MINUS =>
          if is_nil r then
            c1 && operand_ok (paren_unary_minus p l) 7 l
            && (paren_unary_minus p l || negb (is_C L) || negb (starts_with "-" (gen p l)))
          else infix true Sub 6
      | TIMES => infix true Mul 7
      | DIVIDE => infix true Div 7
      | POWER =>
          negb (has_power_operator p) && str_is_empty (square_string p) && c2
          && Bool.eqb (text_is_number (gen p r) 1 2) (lit_is (tr r) 1 2)
      | ROOT =>
          if is_nil r then c1
          else
            match l with
            | Node DEGREE _ d _ =>
                negb (has_power_operator p) && safe_b d && safe_b r
                && Bool.eqb (text_is_number (gen p l) 2 1) (lit_is (tr l) 2 1)
                && (lit_is (tr l) 2 1
                    || operand_ok (paren_right p DIVIDE (Node CN "1.0" Null Null) d (gen p d)) 8 d)
            | _ => false
            end
      | LOG =>
          if is_nil r then c1
          else
            match l with
            | Node LOGBASE _ b _ =>
                safe_b b && safe_b r && Bool.eqb (text_is_number (gen p l) 10 1) (lit_is (tr l) 10 1)
            | _ => false
            end
      | MIN | MAX | REM => c2
      | PIECEWISE =>
          match l with
          | Node PIECE _ v1 c1' =>
              safe_b v1 && safe_b c1' && piece_ok v1 c1'
              && match r with
                 | Null => true
                 | Node PIECE _ v2 c2' => safe_b v2 && safe_b c2' && piece_ok v2 c2'
                 | Node OTHERWISE _ x _ => safe_b x
                 | _ => safe_b r
                 end
          | _ => false
          end
      | OTHERWISE | DEGREE | LOGBASE | BVAR => false   (* only judged in their positions under PIECEWISE / ROOT / LOG *)
      | CI => var_ok v
      | CN => cn_ok v
      | TRUE | FALSE | E | PI | INF | NAN => true
      | _ => c1      (* the one-parameter functions *)
      end
  end.

(** what the oracle compares: the tree read from a text against the intended reading, up to re-association *)
Definition reads_as (s : string) (a : ast) : bool :=
  match read L s with
  | Some t => tree_eqb (norm t) (norm (tr a))
  | None => false
  end.

End Read.

(** ** printing trees (for the drivers and replays) *)
Definition binop_name (o : binop) : string :=
  match o with
  | Add => "+" | Sub => "-" | Mul => "*" | Div => "/" | Lt => "<" | Le => "<=" | Gt => ">" | Ge => ">="
  | Eq => "==" | Ne => "!=" | And => "&&" | Or => "||"
  end.

Fixpoint show_tree (t : tree) : string :=
  match t with
  | TVar s => s
  | TLit s => s
  | TNeg a => "(neg " ++ show_tree a ++ ")"
  | TNot a => "(not " ++ show_tree a ++ ")"
  | TBin o a b => "(" ++ binop_name o ++ " " ++ show_tree a ++ " " ++ show_tree b ++ ")"
  | TCond c a b => "(if " ++ show_tree c ++ " " ++ show_tree a ++ " " ++ show_tree b ++ ")"
  | TCall1 f a => "(" ++ f ++ " " ++ show_tree a ++ ")"
  | TCall2 f a b => "(" ++ f ++ " " ++ show_tree a ++ " " ++ show_tree b ++ ")"
  end.

(** ** where a text fails to be safe: the minimal unsafe sub-ASTs (used to classify known findings) *)
Section Sites.
Variable L : lang.
Variable p : profile.
Fixpoint unsafe_sites (a : ast) : list ast :=
  match a with
  | Null => []
  | Node t v l r =>
      let sub := (unsafe_sites l ++ unsafe_sites r)%list in
      match t with
      | PIECE | OTHERWISE | DEGREE | LOGBASE | BVAR => sub   (* never sites by themselves: judged with their parent *)
      | _ => if safe_b L p a then [] else match sub with [] => [a] | _ => sub end
      end
  end.
End Sites.

Fixpoint ast_line (a : ast) : string :=
  match a with
  | Null => "_"
  | Node t v l r =>
      ty_name t ++ " " ++ (match t with CI | CN => "=" ++ v | _ => "-" end) ++ " " ++ ast_line l ++ " " ++ ast_line r
  end.
