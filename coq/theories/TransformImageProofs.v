(** TransformImageProofs.v — C14: content preservation at full strength, for EVERY CellML 1.0 / 1.1 document tree that holds
    no CellML 2.0-namespaced reset / encapsulation / connection element ([pure_1x]): the transformed model is exactly the
    IMAGE of the document, read off it with filters and maps —
      units        the model-level, component-level and imported units, in document order            ([doc_units])
      components   one per 1.x component element, in document order (plus the components an import names): name and id
                   from its attributes, its variables = the images of its variable children in order, its math = the
                   rewritten math children in order, nothing else                                    ([comp_image], [doc_comps])
      hierarchy    loadEncapsulation applied to those components and the FIRST encapsulation group   ([doc_encs])
      connections  loadConnection folded over the 1.x connection elements in order                   ([doc_conns])
    Every other child (rdf:RDF, reaction, documentation, containment groups, ...) contributes NOTHING to the model.
    Definitions of the image first, then the lemmas. *)
From Coq Require Import String Ascii List Bool ZArith Arith.
From LC Require Import Common NumDefs XmlDefs EntTreeDefs PrintDefs LoadDefs Load1xDefs Load1xProofs.
Import ListNotations.
Local Open Scope string_scope.
Local Open Scope bool_scope.
Local Open Scope list_scope.

Section Image.
Variable E : env.
Variable fx fi fd : bool.

(** ** the image of a component element *)
Definition doc_vars (ks : list xml) : list variable :=
  map (fun k => fst (load_variable1 fi k)) (filter (is_cellml_any "variable") ks).

Definition is_math_kid (k : xml) : bool := negb (is_cellml_any "variable" k) && is_mathml "math" k.

Definition doc_math (ks : list xml) (start : string) : string :=
  fold_left (fun acc k => (acc ++ math_text E (rewrite_math k) ++ String c_lf EmptyString)%string) (filter is_math_kid ks) start.

Definition comp_image (x : xml) : component :=
  let a := nid_attrs1 (xattrs x) in
  Comp {| c_name := na_name a; c_id := na_id a; c_encid := ""; c_src := None; c_ref := ""; c_math := doc_math (xml_kids x) "";
          c_vars := doc_vars (xml_kids x); c_resets := [] |} [].

(** ... and the issues of a component element: those of its attributes, of its variable children, and ONE MESSAGE for every
    other child element that is neither math nor named units (reaction, rdf:RDF, ...) *)
Definition comp_kid_issues (k : xml) : list issue :=
  if is_cellml_any "variable" k then snd (load_variable1 fi k)
  else if is_mathml "math" k then []
  else match k with
       | Elem _ nm _ _ => if String.eqb nm "units" then [] else [msg]
       | _ => stray_msg k
       end.

Definition comp_issues (x : xml) : list issue :=
  let a := nid_attrs1 (xattrs x) in
  na_issues a ++ (if na_has_name a then [] else [err "COMPONENT_NAME"]) ++ flat_map comp_kid_issues (xml_kids x).

Definition no_reset_kids (x : xml) : bool := forallb (fun g => negb (is_cellml20 "reset" g)) (xml_kids x).

(** ** the image of the model element's children (the tests mirror the order of the branches of loadModel) *)
Definition is_cui (k : xml) : bool := is_1x "component" k || is_1x "units" k || is_1x "import" k.

Fixpoint doc_comps (tag : nat) (ks : list xml) : list component :=
  match ks with
  | [] => []
  | k :: r =>
    if is_1x "component" k then comp_image k :: doc_comps tag r
    else if is_1x "units" k then doc_comps tag r
    else if is_1x "import" k then snd (fst (load_import1 tag k)) ++ doc_comps (S tag) r
    else doc_comps tag r
  end.

Definition doc_encs (ks : list xml) : list xml := filter (fun k => negb (is_cui k) && is_1x "group" k && is_enc_rel k) ks.
Definition doc_conns (ks : list xml) : list xml := filter (fun k => negb (is_cui k) && negb (is_1x "group" k) && is_1x "connection" k) ks.

(** the issues of the children of the model element: those of the images, NOTHING for a group (also a containment group)
    or a connection at this point, and ONE MESSAGE for every other child element *)
Fixpoint doc_kid_issues (tag : nat) (ks : list xml) : list issue :=
  match ks with
  | [] => []
  | k :: r =>
    if is_1x "component" k then comp_issues k ++ snd (units_from_component E fd k) ++ doc_kid_issues tag r
    else if is_1x "units" k then snd (load_units1 E fd k) ++ doc_kid_issues tag r
    else if is_1x "import" k then snd (load_import1 tag k) ++ doc_kid_issues (S tag) r
    else if is_1x "group" k || is_1x "connection" k then doc_kid_issues tag r
    else stray_msg k ++ doc_kid_issues tag r
  end.

(** no CellML 2.0-namespaced reset inside a component, no 2.0 encapsulation / connection in the model *)
Definition pure_1x (x : xml) : bool :=
  forallb (fun k => negb (is_cellml20 "encapsulation" k) && negb (is_cellml20 "connection" k)
                    && (negb (is_1x "component" k) || no_reset_kids k)) (xml_kids x).

(** the transformed model, assembled from the image *)
Definition document_image (x : xml) : model :=
  let a := nid_attrs1 (xattrs x) in
  let ks := xml_kids x in
  let enc := match doc_encs ks with
             | [] => doc_comps 0 ks
             | e :: _ => fst (load_encapsulation1 fd (doc_comps 0 ks) e)
             end in
  let c := fold_left (load_connection1 fx fd) (doc_conns ks) {| cs_comps := enc; cs_eqv := []; cs_used := []; cs_issues := [] |} in
  {| m_name := na_name a; m_id := na_id a; m_encid := ""; m_units := doc_units E fd 0 ks; m_comps := cs_comps c; m_eqv := cs_eqv c |}.

(** the issue list, assembled the same way: the transformation message first *)
Definition document_issues (x : xml) : list issue :=
  let a := nid_attrs1 (xattrs x) in
  let ks := xml_kids x in
  let enc := match doc_encs ks with
             | [] => (doc_comps 0 ks, [])
             | e :: r => let l := load_encapsulation1 fd (doc_comps 0 ks) e in
                         (fst l, snd l ++ match r with [] => [] | _ => [err "MODEL_MORE_THAN_ONE_ENCAPSULATION"] end)
             end in
  let c := fold_left (load_connection1 fx fd) (doc_conns ks) {| cs_comps := fst enc; cs_eqv := []; cs_used := []; cs_issues := [] |} in
  [msg] ++ na_issues a ++ doc_kid_issues 0 ks ++ snd enc ++ cs_issues c ++ link_units_issues (doc_units E fd 0 ks) (cs_comps c).

(** ** lemmas *)
Lemma comp_kids_image : forall ks st, forallb (fun g => negb (is_cellml20 "reset" g)) ks = true ->
  ck_vars (fold_left (load_component_kid1 E fi) ks st) = ck_vars st ++ doc_vars ks
  /\ ck_resets (fold_left (load_component_kid1 E fi) ks st) = ck_resets st
  /\ ck_math (fold_left (load_component_kid1 E fi) ks st) = doc_math ks (ck_math st)
  /\ ck_issues (fold_left (load_component_kid1 E fi) ks st) = ck_issues st ++ flat_map comp_kid_issues ks.
Proof.
  induction ks as [|k r IH]; intros st H; [cbn; now rewrite !app_nil_r|].
  cbn [forallb] in H. apply andb_true_iff in H. destruct H as [Hk Hr]. apply negb_true_iff in Hk.
  cbn [fold_left]. destruct (IH (load_component_kid1 E fi st k) Hr) as (I1 & I2 & I3 & I4). rewrite I1, I2, I3, I4. clear IH I1 I2 I3 I4.
  unfold doc_vars, doc_math, is_math_kid. cbn [filter flat_map]. unfold comp_kid_issues at 2. unfold load_component_kid1. rewrite Hk.
  destruct (is_cellml_any "variable" k) eqn:Ev.
  - cbn [negb andb map ck_vars ck_resets ck_math ck_issues]. repeat split; now rewrite <- app_assoc.
  - cbn [negb andb]. destruct (is_mathml "math" k) eqn:Em.
    + cbn [ck_vars ck_resets ck_math ck_issues fold_left app]. repeat split.
    + destruct k as [ns nm a kk|s|]; [destruct (String.eqb nm "units")|..];
        cbn [ck_vars ck_resets ck_math ck_issues app]; repeat split; now rewrite <- ?app_assoc.
Qed.

Lemma component_image : forall x, no_reset_kids x = true -> fst (load_component1 E fi x) = comp_image x.
Proof.
  intros x H. unfold load_component1, comp_image. cbn [fst].
  destruct (comp_kids_image (xml_kids x) ckids_acc0 H) as (H1 & H2 & H3 & _). rewrite H1, H2, H3. reflexivity.
Qed.

Lemma component_issues : forall x, no_reset_kids x = true -> snd (load_component1 E fi x) = comp_issues x.
Proof.
  intros x H. unfold load_component1, comp_issues. cbn [snd].
  destruct (comp_kids_image (xml_kids x) ckids_acc0 H) as (_ & _ & _ & H4). rewrite H4. reflexivity.
Qed.

Definition kid_pure (k : xml) : bool :=
  negb (is_cellml20 "encapsulation" k) && negb (is_cellml20 "connection" k) && (negb (is_1x "component" k) || no_reset_kids k).

Lemma model_kids_image : forall ks st, forallb kid_pure ks = true ->
  let r := fold_left (load_model_kid1 E fi fd) ks st in
  ma_comps r = ma_comps st ++ doc_comps (ma_imports st) ks
  /\ ma_encs r = ma_encs st ++ doc_encs ks
  /\ ma_conns r = ma_conns st ++ doc_conns ks
  /\ ma_encid r = ma_encid st
  /\ ma_issues r = ma_issues st ++ doc_kid_issues (ma_imports st) ks.
Proof.
  induction ks as [|k r IH]; intros st H; [cbn; now rewrite !app_nil_r|].
  cbn [forallb] in H. apply andb_true_iff in H. destruct H as [Hk Hr].
  unfold kid_pure in Hk. apply andb_true_iff in Hk. destruct Hk as [Hk Hres]. apply andb_true_iff in Hk. destruct Hk as [He Hc].
  apply negb_true_iff in He, Hc.
  cbv zeta. cbn [fold_left]. destruct (IH (load_model_kid1 E fi fd st k) Hr) as (I1 & I2 & I3 & I4 & I5). cbv zeta in I1, I2, I3, I4, I5.
  rewrite I1, I2, I3, I4, I5. clear IH I1 I2 I3 I4 I5.
  unfold doc_encs, doc_conns, is_cui. cbn [doc_comps doc_kid_issues filter]. unfold load_model_kid1. rewrite He, Hc.
  destruct (is_1x "component" k) eqn:Ec.
  - cbn [orb negb andb ma_comps ma_encs ma_conns ma_encid ma_imports ma_issues].
    rewrite component_image, component_issues by exact Hres.
    repeat split; now rewrite <- ?app_assoc.
  - destruct (is_1x "units" k) eqn:Eu;
      [cbn [orb negb andb ma_comps ma_encs ma_conns ma_encid ma_imports ma_issues]; repeat split; now rewrite <- ?app_assoc|].
    destruct (is_1x "import" k) eqn:Ei.
    { destruct (load_import1 (ma_imports st) k) as [[us cs] is]. cbn [orb negb andb fst snd ma_comps ma_encs ma_conns ma_encid ma_imports ma_issues].
      repeat split; now rewrite <- ?app_assoc. }
    cbn [orb negb andb]. destruct (is_1x "group" k) eqn:Eg.
    { destruct (is_enc_rel k); cbn [orb negb andb ma_comps ma_encs ma_conns ma_encid ma_imports ma_issues]; repeat split; now rewrite <- ?app_assoc. }
    cbn [orb negb andb]. destruct (is_1x "connection" k); cbn [ma_comps ma_encs ma_conns ma_encid ma_imports ma_issues upd_issues];
      repeat split; now rewrite <- ?app_assoc.
Qed.

(** THE THEOREM: the transformed model of every pure 1.x document is its image *)
Theorem transform_document_image : forall x, is_cellml20 "model" x = false -> is_1x "model" x = true -> pure_1x x = true ->
  fst (load1x E fx fi fd false x) = document_image x.
Proof.
  intros x H20 H1x Hp. unfold load1x. rewrite H20, H1x. cbn [negb andb]. unfold load_1x_root, document_image. cbn [fst].
  destruct (model_kids_image (xml_kids x) model_acc0 Hp) as (I1 & I2 & I3 & I4 & _). cbv zeta in I1, I2, I3, I4.
  cbn [model_acc0 ma_comps ma_encs ma_conns ma_encid ma_imports app] in I1, I2, I3, I4.
  rewrite (model_kids_units E fi fd (xml_kids x) model_acc0), I1, I2, I3, I4. cbn [model_acc0 ma_units ma_imports app].
  destruct (doc_encs (xml_kids x)) as [|e r]; reflexivity.
Qed.

(** ... and its issues are the image's: the transformation message, the issues of the images, one message per dropped
    child element, the issues of the first encapsulation group and of the connections, the unit-linking warnings *)
Theorem transform_document_issues : forall x, is_cellml20 "model" x = false -> is_1x "model" x = true -> pure_1x x = true ->
  snd (load1x E fx fi fd false x) = document_issues x.
Proof.
  intros x H20 H1x Hp. unfold load1x. rewrite H20, H1x. cbn [negb andb]. unfold load_1x_root, document_issues. cbn [snd].
  destruct (model_kids_image (xml_kids x) model_acc0 Hp) as (I1 & I2 & I3 & I4 & I5). cbv zeta in I1, I2, I3, I4, I5.
  cbn [model_acc0 ma_comps ma_encs ma_conns ma_encid ma_imports ma_issues app] in I1, I2, I3, I4, I5.
  rewrite (model_kids_units E fi fd (xml_kids x) model_acc0), I1, I2, I3, I5. cbn [model_acc0 ma_units ma_imports app].
  destruct (doc_encs (xml_kids x)) as [|e r]; reflexivity.
Qed.

End Image.
