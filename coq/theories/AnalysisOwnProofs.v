(** AnalysisOwnProofs.v — "a variable is computed once": the invariant of check() / the loop on
    mUnknownVariables (C05, the core of clause W3). *)
From Coq Require Import List Bool Arith PeanoNat Lia.
From LC Require Import AnalysisDefs AnalysisSpec AnalysisProofs AnalysisWfProofs.
Import ListNotations.
Local Open Scope bool_scope.

(* the equations that list p among the variables they compute *)
Definition owners (es : list ieq) (p : nat) : list ieq := filter (fun e => mem_nat p (ie_unknown e)) es.

Definition pre_type (t : vtype) : bool := match t with VUnknown | VShouldBeState | VInitialised | VVoi => true | _ => false end.
Definition comp_type (t : vtype) : bool := match t with VCompTrue | VCompVarBased | VAlgebraic => true | _ => false end.
Definition ode_type (t : vtype) : bool := match t with VState | VShouldBeState | VVoi | VOverconstrained => true | _ => false end.

(* the type of a directly computed variable and the type of its equation *)
Definition agree (t : vtype) (q : etype) : bool :=
  match q, t with
  | ENla, _ => true
  | EOde, VState | ETrueConst, VCompTrue | EVarBasedConst, VCompVarBased | EAlgebraic, VAlgebraic => true
  | _, _ => false
  end.

Definition has_index (v : ivar) : bool := match iv_index v with Some _ => true | None => false end.

(* what the variable at position p may expect of the equations, given its type *)
Definition own_at (ivs : list ivar) (es : list ieq) (p : nat) : Prop :=
  let v := geti ivs p in
  (pre_type (iv_type v) = true \/ (iv_type v = VState /\ has_index v = false) -> owners es p = []) /\
  (comp_type (iv_type v) = true \/ (iv_type v = VState /\ has_index v = true) ->
     exists e, owners es p = [e] /\ ie_unknown e = [p] /\ agree (iv_type v) (ie_type e) = true) /\
  (iv_type v = VInitAlgebraic -> forall e, In e (owners es p) -> ie_type e = ENla).

Record own_inv (ivs : list ivar) (es : list ieq) : Prop := {
  oi_untyped : forall e, In e es -> ie_type e = EUnknown -> ie_unknown e = [];
  oi_odes : forall e p, In e es -> In p (ie_odes e) -> ode_type (iv_type (geti ivs p)) = true;
  oi_index : forall p, p < length ivs -> comp_type (iv_type (geti ivs p)) = true -> has_index (geti ivs p) = true;
  oi_own : forall p, p < length ivs -> own_at ivs es p;
  oi_bounds : Forall (eq_inv ivs) es }.

Lemma owners_app : forall a b p, owners (a ++ b) p = owners a p ++ owners b p.
Proof. intros. unfold owners. apply filter_app. Qed.

Lemma owners_cons : forall e r p, owners (e :: r) p = (if mem_nat p (ie_unknown e) then [e] else []) ++ owners r p.
Proof. intros. unfold owners. cbn. destruct (mem_nat p (ie_unknown e)); reflexivity. Qed.

Lemma owners_mid : forall pre e post p,
  owners (pre ++ e :: post) p = owners pre p ++ (if mem_nat p (ie_unknown e) then [e] else []) ++ owners post p.
Proof. intros. rewrite owners_app, owners_cons. reflexivity. Qed.

(* replacing an equation that computes nothing by one that computes exactly the list l *)
Lemma owners_replace : forall pre e e' post p, ie_unknown e = [] ->
  owners (pre ++ e' :: post) p = (if mem_nat p (ie_unknown e') then owners pre p ++ [e'] ++ owners post p else owners (pre ++ e :: post) p).
Proof.
  intros pre e e' post p He. rewrite !owners_mid. rewrite He. cbn [mem_nat existsb].
  destruct (mem_nat p (ie_unknown e')); reflexivity.
Qed.

(* ------------------------------------------------------------------ type_variables on the two kinds of lists *)

Lemma retarget_type : forall s comp tc vc v,
  iv_type (retarget s comp tc vc v) =
  (if vtype_eqb (iv_type v) VUnknown then (if tc then VCompTrue else if vc then VCompVarBased else VAlgebraic) else iv_type v).
Proof.
  intros. unfold retarget.
  assert (H : iv_type (match first_member s comp (iv_cls v) with Some r => set_var v r | None => v end) = iv_type v)
    by (destruct (first_member s comp (iv_cls v)); reflexivity).
  rewrite H. destruct (vtype_eqb (iv_type v) VUnknown); [reflexivity|exact H].
Qed.

Lemma retarget_index : forall s comp tc vc v, iv_index (retarget s comp tc vc v) = iv_index v.
Proof.
  intros. unfold retarget. destruct (first_member s comp (iv_cls v)); cbn [set_var iv_type];
    destruct (vtype_eqb (iv_type v) VUnknown); reflexivity.
Qed.

Lemma type_variables_single : forall s comp tc vc st unk p st' unk' ok,
  type_variables s comp tc vc st unk [p] = (st', unk', ok) ->
  let v2 := retarget s comp tc vc (geti (cs_ivs st) p) in
  (ok = false -> unk' = unk /\ cs_ivs st' = upd (cs_ivs st) p v2 /\ iv_type v2 <> VState /\ comp_type (iv_type v2) = false /\ iv_type v2 <> VInitAlgebraic) /\
  (ok = true -> unk' = unk ++ [p] /\
                (iv_type v2 = VState \/ comp_type (iv_type v2) = true \/ iv_type v2 = VInitAlgebraic) /\
                exists i, cs_ivs st' = upd (cs_ivs st) p (set_index v2 (Some i))).
Proof.
  intros s comp tc vc st unk p st' unk' ok H. cbn [type_variables] in H. cbn zeta.
  set (v2 := retarget s comp tc vc (geti (cs_ivs st) p)) in *.
  destruct (iv_type v2) eqn:E; inversion H; subst; cbn [cs_ivs]; split; intro K; try discriminate;
    try (split; [reflexivity|]; split; [reflexivity|]; split; [discriminate|]; split; [reflexivity|discriminate]);
    (split; [reflexivity|]; split; [cbn; auto|]; eexists; reflexivity).
Qed.

Lemma type_variables_initalg : forall s comp tc vc ps st unk,
  Forall (fun q => q < length (cs_ivs st)) ps ->
  (forall q, In q ps -> iv_type (geti (cs_ivs st) q) = VInitAlgebraic) ->
  exists st', type_variables s comp tc vc st unk ps = (st', unk ++ ps, true) /\
    length (cs_ivs st') = length (cs_ivs st) /\
    (forall q, iv_type (geti (cs_ivs st') q) = iv_type (geti (cs_ivs st) q)) /\
    (forall q, In q ps -> has_index (geti (cs_ivs st') q) = true) /\
    (forall q, has_index (geti (cs_ivs st) q) = true -> has_index (geti (cs_ivs st') q) = true) /\
    (forall q, ~ In q ps -> geti (cs_ivs st') q = geti (cs_ivs st) q).
Proof.
  intros s comp tc vc ps. induction ps as [|p r IH]; intros st unk Hb Hty.
  - exists st. rewrite app_nil_r. repeat split; auto; intros q [].
  - inversion Hb as [|? ? Hp Hr]; subst. cbn [type_variables].
    set (v2 := retarget s comp tc vc (geti (cs_ivs st) p)).
    assert (Hv2 : iv_type v2 = VInitAlgebraic).
    { unfold v2. rewrite retarget_type. rewrite (Hty p (or_introl eq_refl)). reflexivity. }
    rewrite Hv2.
    set (st1 := mkCs (upd (cs_ivs st) p (set_index v2 (Some (cs_vidx st)))) (cs_sidx st) (S (cs_vidx st))).
    assert (Hty1 : forall q, iv_type (geti (cs_ivs st1) q) = iv_type (geti (cs_ivs st) q)).
    { intro q. cbn [st1 cs_ivs]. unfold geti. destruct (Nat.eq_dec p q) as [->|Hd].
      - rewrite nth_upd_same by exact Hp. cbn. rewrite Hv2. symmetry. apply (Hty q). left. reflexivity.
      - rewrite nth_upd_other by exact Hd. reflexivity. }
    destruct (IH st1 (unk ++ [p])) as (st' & E & L & T & I1 & I2 & I3).
    { cbn [st1 cs_ivs]. rewrite upd_length. exact Hr. }
    { intros q Hq. rewrite Hty1. apply Hty. right. exact Hq. }
    exists st'. rewrite E. rewrite <- app_assoc. split; [reflexivity|].
    split; [rewrite L; cbn [st1 cs_ivs]; apply upd_length|].
    split; [intro q; rewrite T; apply Hty1|].
    assert (Hp1 : has_index (geti (cs_ivs st1) p) = true).
    { cbn [st1 cs_ivs]. rewrite geti_upd_same by exact Hp. reflexivity. }
    split; [|split].
    + intros q [<-|Hq]; [apply I2; exact Hp1|apply I1; exact Hq].
    + intros q Hq. apply I2. cbn [st1 cs_ivs]. unfold geti. destruct (Nat.eq_dec p q) as [->|Hd].
      * rewrite nth_upd_same by exact Hp. reflexivity.
      * rewrite nth_upd_other by exact Hd. exact Hq.
    + intros q Hq. rewrite I3 by (intro K; apply Hq; right; exact K). cbn [st1 cs_ivs]. unfold geti.
      apply nth_upd_other. intro K. apply Hq. left. exact K.
Qed.

(* ------------------------------------------------------------------ the two folds of the NLA branch *)

Definition init_step (l : list ivar) (i : nat) : list ivar :=
  if is_initialised_kind (iv_type (geti l i)) then upd l i (set_type (geti l i) VInitAlgebraic) else l.

Lemma init_step_spec : forall ivs x q,
  length (init_step ivs x) = length ivs /\
  has_index (geti (init_step ivs x) q) = has_index (geti ivs q) /\
  (iv_type (geti (init_step ivs x) q) = iv_type (geti ivs q)
   \/ (is_initialised_kind (iv_type (geti ivs q)) = true /\ iv_type (geti (init_step ivs x) q) = VInitAlgebraic)) /\
  (x = q -> q < length ivs -> is_initialised_kind (iv_type (geti ivs q)) = true -> iv_type (geti (init_step ivs x) q) = VInitAlgebraic) /\
  (x <> q -> geti (init_step ivs x) q = geti ivs q).
Proof.
  intros ivs x q. unfold init_step. destruct (is_initialised_kind (iv_type (geti ivs x))) eqn:E.
  - split; [apply upd_length|]. unfold geti in *. destruct (Nat.eq_dec x q) as [->|Hd].
    + destruct (Nat.lt_ge_cases q (length ivs)) as [Lq|Lq].
      * rewrite nth_upd_same by exact Lq. cbn. split; [reflexivity|]. split; [right; split; [exact E|reflexivity]|].
        split; [reflexivity|]. intro K. contradiction.
      * rewrite upd_beyond by exact Lq. split; [reflexivity|]. split; [left; reflexivity|]. split; [intros _ K; lia|]. intro K. contradiction.
    + rewrite nth_upd_other by exact Hd. split; [reflexivity|]. split; [left; reflexivity|]. split; [intro K; contradiction|reflexivity].
  - split; [reflexivity|]. split; [reflexivity|]. split; [left; reflexivity|]. split; [|reflexivity].
    intros -> _ K. congruence.
Qed.

Lemma init_fold_spec : forall xs ivs q,
  length (fold_left init_step xs ivs) = length ivs /\
  has_index (geti (fold_left init_step xs ivs) q) = has_index (geti ivs q) /\
  (iv_type (geti (fold_left init_step xs ivs) q) = iv_type (geti ivs q)
   \/ (is_initialised_kind (iv_type (geti ivs q)) = true /\ iv_type (geti (fold_left init_step xs ivs) q) = VInitAlgebraic)) /\
  (In q xs -> q < length ivs -> is_initialised_kind (iv_type (geti ivs q)) = true -> iv_type (geti (fold_left init_step xs ivs) q) = VInitAlgebraic) /\
  (~ In q xs -> geti (fold_left init_step xs ivs) q = geti ivs q).
Proof.
  induction xs as [|x r IH]; intros ivs q; cbn [fold_left].
  - split; [reflexivity|]. split; [reflexivity|]. split; [left; reflexivity|]. split; [intros []|reflexivity].
  - destruct (init_step_spec ivs x q) as (L1 & I1 & T1 & A1 & F1).
    destruct (IH (init_step ivs x) q) as (L2 & I2 & T2 & A2 & F2).
    split; [congruence|]. split; [congruence|].
    assert (Hkeep : iv_type (geti (init_step ivs x) q) = VInitAlgebraic -> iv_type (geti (fold_left init_step r (init_step ivs x)) q) = VInitAlgebraic).
    { intro K. destruct T2 as [T2|(_ & T2)]; [rewrite T2; exact K|exact T2]. }
    split; [|split].
    + destruct T1 as [T1|(K1 & T1)].
      * rewrite T1 in T2. exact T2.
      * right. split; [exact K1|]. apply Hkeep. exact T1.
    + intros [->|Hin] Lq K.
      * apply Hkeep. apply A1; [reflexivity|exact Lq|exact K].
      * destruct T1 as [T1|(_ & T1)]; [|apply Hkeep; exact T1].
        apply A2; [exact Hin|rewrite L1; exact Lq|rewrite T1; exact K].
    + intro Hn. rewrite F2 by (intro K; apply Hn; right; exact K). apply F1. intro K. apply Hn. left. exact K.
Qed.

Definition over_step (l : list ivar) (i : nat) : list ivar := upd l i (set_type (geti l i) VOverconstrained).

Lemma over_fold_spec : forall xs ivs q,
  length (fold_left over_step xs ivs) = length ivs /\
  has_index (geti (fold_left over_step xs ivs) q) = has_index (geti ivs q) /\
  (iv_type (geti (fold_left over_step xs ivs) q) = iv_type (geti ivs q) \/ iv_type (geti (fold_left over_step xs ivs) q) = VOverconstrained).
Proof.
  induction xs as [|x r IH]; intros ivs q; cbn [fold_left].
  - split; [reflexivity|]. split; [reflexivity|]. left. reflexivity.
  - destruct (IH (over_step ivs x) q) as (L2 & I2 & T2).
    assert (H1 : length (over_step ivs x) = length ivs) by apply upd_length.
    assert (H2 : has_index (geti (over_step ivs x) q) = has_index (geti ivs q) /\
                 (iv_type (geti (over_step ivs x) q) = iv_type (geti ivs q) \/ iv_type (geti (over_step ivs x) q) = VOverconstrained)).
    { unfold over_step, geti. destruct (Nat.eq_dec x q) as [->|Hd].
      - destruct (Nat.lt_ge_cases q (length ivs)) as [Lq|Lq].
        + rewrite nth_upd_same by exact Lq. split; [reflexivity|right; reflexivity].
        + rewrite upd_beyond by exact Lq. split; [reflexivity|left; reflexivity].
      - rewrite nth_upd_other by exact Hd. split; [reflexivity|left; reflexivity]. }
    destruct H2 as (I1 & T1).
    split; [congruence|]. split; [congruence|].
    destruct T2 as [T2|T2]; [|right; exact T2]. rewrite T2. exact T1.
Qed.

(* ------------------------------------------------------------------ what one call of check() does *)

Definition k1 (ivs ivs' : list ivar) : Prop :=
  length ivs' = length ivs /\ forall q,
    has_index (geti ivs' q) = has_index (geti ivs q) /\
    (iv_type (geti ivs' q) = iv_type (geti ivs q)
     \/ (is_initialised_kind (iv_type (geti ivs q)) = true /\ iv_type (geti ivs' q) = VInitAlgebraic)
     \/ iv_type (geti ivs' q) = VOverconstrained).

Definition same_th (a b : ivar) : Prop := iv_type a = iv_type b /\ has_index a = has_index b.

Lemma filter_incl' : forall {A} (f : A -> bool) l, incl (filter f l) l.
Proof. intros A f l x Hx. apply filter_In in Hx. apply Hx. Qed.

Lemma check_cases : forall s nla st e st' e' b,
  check s nla st e = (st', e', b) -> ie_type e = EUnknown -> eq_inv (cs_ivs st) e ->
  let ivs := cs_ivs st in let ivs' := cs_ivs st' in
  (* nothing typed *)
  (ie_type e' = EUnknown /\ ie_unknown e' = ie_unknown e /\ incl (ie_odes e') (ie_odes e) /\ k1 ivs ivs')
  \/
  (* one variable typed *)
  (exists p, p < length ivs /\ ie_unknown e' = ie_unknown e ++ [p] /\ incl (ie_odes e') (ie_odes e) /\
     ie_type e' <> EUnknown /\ length ivs' = length ivs /\ (forall q, q <> p -> geti ivs' q = geti ivs q) /\
     has_index (geti ivs' p) = true /\
     ((In p (ie_vars e) /\ iv_type (geti ivs p) = VUnknown) \/ (In p (ie_odes e) /\ has_index (geti ivs p) = false)) /\
     ((iv_type (geti ivs p) = VUnknown /\ comp_type (iv_type (geti ivs' p)) = true)
      \/ (iv_type (geti ivs p) <> VUnknown /\ iv_type (geti ivs' p) = iv_type (geti ivs p))) /\
     (iv_type (geti ivs' p) = VState \/ comp_type (iv_type (geti ivs' p)) = true \/ iv_type (geti ivs' p) = VInitAlgebraic) /\
     (iv_type (geti ivs' p) = VInitAlgebraic \/ agree (iv_type (geti ivs' p)) (ie_type e') = true))
  \/
  (* the initialised variables of an otherwise determined equation become its unknowns *)
  (exists inits, inits <> [] /\ ie_type e' = ENla /\ ie_unknown e' = ie_unknown e ++ inits /\ incl (ie_odes e') (ie_odes e) /\
     length ivs' = length ivs /\
     (forall q, In q inits -> q < length ivs /\ is_initialised_kind (iv_type (geti ivs q)) = true /\
                              iv_type (geti ivs' q) = VInitAlgebraic /\ has_index (geti ivs' q) = true) /\
     (forall q, ~ In q inits -> same_th (geti ivs' q) (geti ivs q))).
Proof.
  intros s nla st e st' e' b H Hty Hinv. cbv zeta. unfold check in H.
  rewrite Hty in H. cbn [etype_eqb negb] in H. cbv zeta in H. destruct Hinv as (I1 & I2 & I3 & I4 & I5).
  set (ivs := cs_ivs st) in *.
  set (vars := filter (fun i => negb (is_known ivs i)) (ie_vars e)) in *.
  set (odes := filter (fun i => negb (is_known_ode ivs i)) (ie_odes e)) in *.
  set (do_nla := nla && (length vars + length odes =? 0)) in *.
  set (inits := if do_nla then filter (fun i => is_initialised_kind (iv_type (geti ivs i))) (ie_all e) else []) in *.
  change (fun (l : list ivar) (i : nat) => if is_initialised_kind (iv_type (geti l i)) then upd l i (set_type (geti l i) VInitAlgebraic) else l)
    with init_step in H.
  change (fun (l : list ivar) (i : nat) => upd l i (set_type (geti l i) VOverconstrained)) with over_step in H.
  set (ivs1 := if do_nla then fold_left init_step (ie_all e) ivs else ivs) in *.
  set (tc := ie_tc e && negb (existsb (is_known ivs) (ie_vars e) || existsb (is_known ivs) (ie_odes e))) in *.
  set (vc := ie_vc e && negb (existsb (is_nonconst ivs) (ie_vars e) || existsb (is_nonconst ivs) (ie_odes e))) in *.
  assert (Hodes : incl odes (ie_odes e)) by apply filter_incl'.
  assert (Hk1 : k1 ivs ivs1).
  { unfold ivs1. destruct do_nla.
    - split; [apply (init_fold_spec (ie_all e) ivs 0)|]. intro q. destruct (init_fold_spec (ie_all e) ivs q) as (_ & A & B & _).
      split; [exact A|]. destruct B as [B|B]; [left; exact B|right; left; exact B].
    - split; [reflexivity|]. intro q. split; [reflexivity|left; reflexivity]. }
  match type of H with (if ?c then _ else _) = _ => destruct c eqn:C1 end.
  { (* over-constrained *)
    inversion H; subst. cbn [cs_ivs ie_type ie_unknown ie_odes]. left.
    split; [reflexivity|]. split; [reflexivity|]. split; [exact Hodes|].
    destruct Hk1 as (L1 & K1). split.
    - rewrite (proj1 (over_fold_spec (ie_all e) ivs1 0)). exact L1.
    - intro q. destruct (over_fold_spec (ie_all e) ivs1 q) as (_ & A & B). destruct (K1 q) as (A1 & B1).
      split; [congruence|]. destruct B as [B|B]; [rewrite B; exact B1|right; right; exact B]. }
  match type of H with (if ?c then _ else _) = _ => destruct c eqn:C2 end.
  { inversion H; subst. cbn [cs_ivs ie_type ie_unknown ie_odes]. left.
    split; [reflexivity|]. split; [reflexivity|]. split; [exact Hodes|exact Hk1]. }
  apply negb_false_iff in C2.
  destruct (length vars + length odes =? 1) eqn:L1.
  - (* exactly one unknown (ODE) variable left *)
    apply Nat.eqb_eq in L1.
    assert (Hnla0 : do_nla = false).
    { unfold do_nla. rewrite L1. cbn. apply andb_false_r. }
    assert (Hivs1 : ivs1 = ivs) by (unfold ivs1; rewrite Hnla0; reflexivity).
    assert (Hcase : exists p,
              (match vars with [] => hd_error odes | p :: _ => Some p end) = Some p /\
              (match vars with [] => match odes with [] => inits | _ :: _ => odes end | _ :: _ => vars end) = [p] /\
              ((In p (ie_vars e) /\ iv_type (geti ivs p) = VUnknown) \/ (In p (ie_odes e) /\ has_index (geti ivs p) = false)) /\
              p < length ivs).
    { destruct vars as [|v0 vr] eqn:Ev.
      - destruct odes as [|o0 or] eqn:Eo; [cbn in L1; lia|]. destruct or; [|cbn in L1; lia].
        exists o0. split; [reflexivity|]. split; [reflexivity|].
        assert (Hin : In o0 odes) by (rewrite Eo; left; reflexivity).
        unfold odes in Hin. apply filter_In in Hin. destruct Hin as (Hin & Hk). split.
        + right. split; [exact Hin|]. unfold is_known_ode in Hk. unfold has_index. destruct (iv_index (geti ivs o0)); [discriminate|reflexivity].
        + rewrite Forall_forall in I2. apply I2. exact Hin.
      - destruct vr; [|cbn in L1; lia]. destruct odes; [|cbn in L1; lia].
        exists v0. split; [reflexivity|]. split; [reflexivity|].
        assert (Hin : In v0 vars) by (rewrite Ev; left; reflexivity).
        unfold vars in Hin. apply filter_In in Hin. destruct Hin as (Hin & Hk). split.
        + left. split; [exact Hin|]. unfold is_known in Hk. apply negb_true_iff in Hk. apply negb_false_iff in Hk. apply vtype_eqb_eq in Hk. exact Hk.
        + rewrite Forall_forall in I1. apply I1. exact Hin. }
    destruct Hcase as (p & Hlv & Hvars & Hwhere & Hp).
    rewrite Hvars, Hlv in H. rewrite Hivs1 in *.
    match type of H with context [type_variables ?a ?b ?c ?d ?e0 ?f ?g] =>
      destruct (type_variables a b c d e0 f g) as [[st2 unk] ok] eqn:TV end.
    apply type_variables_single in TV. cbn [cs_ivs] in TV. cbv zeta in TV. destruct TV as (TVf & TVt).
    set (v2 := retarget s (ie_comp e) tc vc (geti ivs p)) in *.
    assert (Hv2ty : iv_type v2 = (if vtype_eqb (iv_type (geti ivs p)) VUnknown
                                 then (if tc then VCompTrue else if vc then VCompVarBased else VAlgebraic)
                                 else iv_type (geti ivs p))) by apply retarget_type.
    destruct ok; cbn [negb] in H.
    + (* typed *)
      destruct (TVt eq_refl) as (Eunk & Hv2 & (i & Eivs)). inversion H; subst st' e' b. clear H.
      cbn [cs_ivs ie_type ie_unknown ie_odes]. right. left. exists p.
      assert (Hgp : geti (cs_ivs st2) p = set_index v2 (Some i)) by (rewrite Eivs; apply geti_upd_same; exact Hp).
      assert (Htyv : iv_type (geti (cs_ivs st2) p) = iv_type v2) by (rewrite Hgp; reflexivity).
      split; [exact Hp|]. split; [exact Eunk|]. split; [exact Hodes|].
      split.
      { destruct (negb (on_lhs_or_rhs s _ (geti (cs_ivs st2) p))); [discriminate|].
        rewrite Htyv. destruct (iv_type v2); discriminate. }
      split; [rewrite Eivs; apply upd_length|].
      split; [intros q Hq; rewrite Eivs; unfold geti; apply nth_upd_other; congruence|].
      split; [rewrite Hgp; reflexivity|].
      split; [exact Hwhere|].
      split.
      { rewrite Htyv, Hv2ty. destruct (vtype_eqb (iv_type (geti ivs p)) VUnknown) eqn:Eu.
        - left. apply vtype_eqb_eq in Eu. split; [exact Eu|]. destruct tc; [reflexivity|]. destruct vc; reflexivity.
        - right. split; [|reflexivity]. intro K. rewrite K in Eu. discriminate. }
      split; [rewrite Htyv; exact Hv2|].
      destruct (negb (on_lhs_or_rhs s _ (geti (cs_ivs st2) p))); [right; destruct (iv_type (geti (cs_ivs st2) p)); reflexivity|].
      rewrite Htyv. destruct Hv2 as [Hs|[Hc|Hi]].
      * right. rewrite Hs. reflexivity.
      * right. destruct (iv_type v2); cbn in Hc; try discriminate; reflexivity.
      * left. exact Hi.
    + (* abandoned ("default: return false"): only mVariable may have moved *)
      destruct (TVf eq_refl) as (Eunk & Eivs & N1 & N2 & N3). inversion H; subst st' e' b. clear H.
      cbn [cs_ivs ie_type ie_unknown ie_odes]. left.
      split; [reflexivity|]. split; [exact Eunk|]. split; [exact Hodes|].
      assert (Hsame : iv_type v2 = iv_type (geti ivs p)).
      { rewrite Hv2ty. destruct (vtype_eqb (iv_type (geti ivs p)) VUnknown) eqn:Eu; [|reflexivity].
        exfalso. rewrite Hv2ty in N2. destruct tc; [discriminate|]. destruct vc; discriminate. }
      split; [rewrite Eivs; apply upd_length|]. intro q. rewrite Eivs. unfold geti.
      destruct (Nat.eq_dec p q) as [<-|Hd].
      * rewrite nth_upd_same by exact Hp. split; [|left; exact Hsame].
        unfold has_index, v2. rewrite retarget_index. reflexivity.
      * rewrite nth_upd_other by exact Hd. split; [reflexivity|left; reflexivity].
  - (* no single variable left: only the initialised ones can make the equation fire *)
    cbn [orb] in C2.
    assert (Hin : inits <> []) by (destruct inits; [discriminate|discriminate]).
    assert (Hnla1 : do_nla = true) by (unfold inits in Hin; destruct do_nla; [reflexivity|contradiction]).
    assert (Hleft : vars = [] /\ odes = []).
    { unfold do_nla in Hnla1. apply andb_true_iff in Hnla1. destruct Hnla1 as (_ & Hl). apply Nat.eqb_eq in Hl.
      destruct vars; [|cbn in Hl; lia]. destruct odes; [|cbn in Hl; lia]. split; reflexivity. }
    destruct Hleft as (Ev & Eo). rewrite Ev, Eo in H.
    assert (Hivs1 : ivs1 = fold_left init_step (ie_all e) ivs) by (unfold ivs1; rewrite Hnla1; reflexivity).
    assert (Hinits : inits = filter (fun i => is_initialised_kind (iv_type (geti ivs i))) (ie_all e)) by (unfold inits; rewrite Hnla1; reflexivity).
    assert (Hmem : forall q, In q inits -> In q (ie_all e) /\ q < length ivs /\ is_initialised_kind (iv_type (geti ivs q)) = true).
    { intros q Hq. rewrite Hinits in Hq. apply filter_In in Hq. destruct Hq as (Hq1 & Hq2).
      split; [exact Hq1|]. split; [|exact Hq2]. rewrite Forall_forall in I3. apply I3. exact Hq1. }
    destruct (type_variables_initalg s (ie_comp e) tc vc inits (mkCs ivs1 (cs_sidx st) (cs_vidx st)) (ie_unknown e)) as (st2 & TV & L2 & T2 & X2 & M2 & F2).
    { cbn [cs_ivs]. rewrite Forall_forall. intros q Hq. rewrite (proj1 Hk1). apply Hmem. exact Hq. }
    { cbn [cs_ivs]. intros q Hq. destruct (Hmem q Hq) as (A & B & C). rewrite Hivs1.
      apply (proj1 (proj2 (proj2 (proj2 (init_fold_spec (ie_all e) ivs q))))); assumption. }
    rewrite TV in H. cbn [negb] in H. inversion H; subst st' e' b. clear H.
    cbn [cs_ivs ie_type ie_unknown ie_odes] in *. right. right. exists inits.
    split; [exact Hin|]. split; [reflexivity|]. split; [reflexivity|]. split; [intros x []|].
    split; [rewrite L2; apply Hk1|]. split.
    + intros q Hq. destruct (Hmem q Hq) as (A & B & C). split; [exact B|]. split; [exact C|]. split.
      * rewrite T2, Hivs1. apply (proj1 (proj2 (proj2 (proj2 (init_fold_spec (ie_all e) ivs q))))); assumption.
      * apply X2. exact Hq.
    + intros q Hq. rewrite (F2 q Hq). unfold same_th.
      destruct (init_fold_spec (ie_all e) ivs q) as (_ & A & B & _ & Fr). rewrite Hivs1. split; [|exact A].
      destruct (in_dec Nat.eq_dec q (ie_all e)) as [Hi|Hi]; [|rewrite (Fr Hi); reflexivity].
      destruct B as [B|(B1 & B2)]; [exact B|].
      exfalso. apply Hq. rewrite Hinits. apply filter_In. split; assumption.
Qed.

(* ------------------------------------------------------------------ check() keeps the invariant *)

Lemma in_mid : forall {A} (x : A) pre e post, In x (pre ++ e :: post) <-> In x pre \/ x = e \/ In x post.
Proof. intros. rewrite in_app_iff. cbn. split; intros [H|[H|H]]; auto. Qed.

Lemma owners_skip : forall pre e e' post q, ie_unknown e = [] -> mem_nat q (ie_unknown e') = false ->
  owners (pre ++ e' :: post) q = owners (pre ++ e :: post) q.
Proof. intros pre e e' post q He He'. rewrite !owners_mid, He, He'. reflexivity. Qed.

Lemma own_at_same : forall ivs ivs' es es' q,
  iv_type (geti ivs' q) = iv_type (geti ivs q) -> has_index (geti ivs' q) = has_index (geti ivs q) ->
  owners es' q = owners es q -> own_at ivs es q -> own_at ivs' es' q.
Proof. intros ivs ivs' es es' q Ht Hi Ho H. unfold own_at in *. cbv zeta in *. rewrite Ht, Hi, Ho. exact H. Qed.

Lemma own_k1 : forall ivs ivs' pre e e' post,
  own_inv ivs (pre ++ e :: post) -> ie_type e = EUnknown ->
  ie_type e' = EUnknown -> ie_unknown e' = ie_unknown e -> incl (ie_odes e') (ie_odes e) -> k1 ivs ivs' ->
  Forall (eq_inv ivs') (pre ++ e' :: post) -> own_inv ivs' (pre ++ e' :: post).
Proof.
  intros ivs ivs' pre e e' post [U O X W B] Hte Hte' Hunk Hodes (L & K) HB.
  assert (He0 : ie_unknown e = []) by (apply U; [apply in_mid; auto|exact Hte]).
  assert (Hown : forall q, owners (pre ++ e' :: post) q = owners (pre ++ e :: post) q).
  { intro q. apply owners_skip; [exact He0|]. rewrite Hunk, He0. reflexivity. }
  constructor.
  - intros x Hx Hu. apply in_mid in Hx. destruct Hx as [Hx|[->|Hx]].
    + apply U; [apply in_mid; auto|exact Hu].
    + rewrite Hunk. exact He0.
    + apply U; [apply in_mid; auto|exact Hu].
  - intros x p Hx Hp.
    assert (Hold : ode_type (iv_type (geti ivs p)) = true).
    { apply in_mid in Hx. destruct Hx as [Hx|[->|Hx]].
      - apply (O x p); [apply in_mid; auto|exact Hp].
      - apply (O e p); [apply in_mid; auto|apply Hodes; exact Hp].
      - apply (O x p); [apply in_mid; auto|exact Hp]. }
    destruct (K p) as (_ & [T|[(T1 & T2)|T]]).
    + rewrite T. exact Hold.
    + exfalso. destruct (iv_type (geti ivs p)); cbn in Hold, T1; discriminate.
    + rewrite T. reflexivity.
  - intros p Hp Hc. rewrite L in Hp. destruct (K p) as (I & [T|[(T1 & T2)|T]]).
    + rewrite I. apply X; [exact Hp|]. rewrite <- T. exact Hc.
    + rewrite T2 in Hc. discriminate.
    + rewrite T in Hc. discriminate.
  - intros p Hp. rewrite L in Hp. specialize (W p Hp). destruct (K p) as (I & [T|[(T1 & T2)|T]]).
    + eapply own_at_same; [exact T|exact I|apply Hown|exact W].
    + unfold own_at in *. cbv zeta in *. rewrite T2, Hown. destruct W as (W1 & W2 & W3).
      split; [intros [K0|(K0 & _)]; discriminate|]. split; [intros [K0|(K0 & _)]; discriminate|].
      intros _ x Hx. destruct (iv_type (geti ivs p)) eqn:Et; cbn in T1; try discriminate.
      * rewrite W1 in Hx by (left; reflexivity). destruct Hx.
      * apply W3; [reflexivity|exact Hx].
    + unfold own_at. cbv zeta. rewrite T.
      split; [intros [K0|(K0 & _)]; discriminate|]. split; [intros [K0|(K0 & _)]; discriminate|]. intro K0. discriminate.
  - exact HB.
Qed.

Lemma mem_nat_single : forall q p, mem_nat q [p] = (q =? p).
Proof. intros. unfold mem_nat. cbn. apply orb_false_r. Qed.

Lemma own_k2 : forall ivs ivs' pre e e' post p,
  own_inv ivs (pre ++ e :: post) -> ie_type e = EUnknown ->
  p < length ivs -> ie_unknown e' = ie_unknown e ++ [p] -> incl (ie_odes e') (ie_odes e) -> ie_type e' <> EUnknown ->
  length ivs' = length ivs -> (forall q, q <> p -> geti ivs' q = geti ivs q) -> has_index (geti ivs' p) = true ->
  ((In p (ie_vars e) /\ iv_type (geti ivs p) = VUnknown) \/ (In p (ie_odes e) /\ has_index (geti ivs p) = false)) ->
  ((iv_type (geti ivs p) = VUnknown /\ comp_type (iv_type (geti ivs' p)) = true)
   \/ (iv_type (geti ivs p) <> VUnknown /\ iv_type (geti ivs' p) = iv_type (geti ivs p))) ->
  (iv_type (geti ivs' p) = VState \/ comp_type (iv_type (geti ivs' p)) = true \/ iv_type (geti ivs' p) = VInitAlgebraic) ->
  (iv_type (geti ivs' p) = VInitAlgebraic \/ agree (iv_type (geti ivs' p)) (ie_type e') = true) ->
  Forall (eq_inv ivs') (pre ++ e' :: post) -> own_inv ivs' (pre ++ e' :: post).
Proof.
  intros ivs ivs' pre e e' post p [U O X W B] Hte Hp Hunk Hodes Hty' L Fr Hidx Hwhere Hchg Hin5 Hagree HB.
  assert (He0 : ie_unknown e = []) by (apply U; [apply in_mid; auto|exact Hte]).
  rewrite He0 in Hunk. cbn in Hunk.
  (* the variable had no owner, was unknown or an unindexed state *)
  assert (Hold : (iv_type (geti ivs p) = VUnknown /\ comp_type (iv_type (geti ivs' p)) = true)
                 \/ (iv_type (geti ivs p) = VState /\ has_index (geti ivs p) = false /\ iv_type (geti ivs' p) = VState)).
  { destruct Hwhere as [(_ & Hu)|(Hino & Hni)].
    - left. destruct Hchg as [Hc|(Hc & _)]; [exact Hc|contradiction].
    - assert (Ho : ode_type (iv_type (geti ivs p)) = true) by (apply (O e p); [apply in_mid; auto|exact Hino]).
      destruct Hchg as [(Hu & _)|(Hnu & Hs)]; [rewrite Hu in Ho; discriminate|].
      right. rewrite Hs in Hin5. destruct (iv_type (geti ivs p)) eqn:Et; cbn in Ho; try discriminate;
        try (destruct Hin5 as [K|[K|K]]; discriminate).
      split; [reflexivity|]. split; [exact Hni|exact Hs]. }
  assert (Hnoown : owners (pre ++ e :: post) p = []).
  { destruct (W p Hp) as (W1 & _). apply W1. destruct Hold as [(Hu & _)|(Hs & Hni & _)]; [left; rewrite Hu; reflexivity|right; split; assumption]. }
  assert (Hsame : forall q, q <> p -> owners (pre ++ e' :: post) q = owners (pre ++ e :: post) q).
  { intros q Hq. apply owners_skip; [exact He0|]. rewrite Hunk, mem_nat_single. apply Nat.eqb_neq. exact Hq. }
  constructor.
  - intros x Hx Hu. apply in_mid in Hx. destruct Hx as [Hx|[->|Hx]]; [apply U; [apply in_mid; auto|exact Hu]|contradiction|apply U; [apply in_mid; auto|exact Hu]].
  - intros x q Hx Hq.
    assert (Holdq : ode_type (iv_type (geti ivs q)) = true).
    { apply in_mid in Hx. destruct Hx as [Hx|[->|Hx]].
      - apply (O x q); [apply in_mid; auto|exact Hq].
      - apply (O e q); [apply in_mid; auto|apply Hodes; exact Hq].
      - apply (O x q); [apply in_mid; auto|exact Hq]. }
    destruct (Nat.eq_dec q p) as [->|Hne]; [|rewrite (Fr q Hne); exact Holdq].
    destruct Hold as [(Hu & _)|(Hs & _ & Hs')]; [rewrite Hu in Holdq; discriminate|rewrite Hs'; reflexivity].
  - intros q Hq Hc. destruct (Nat.eq_dec q p) as [->|Hne]; [exact Hidx|].
    rewrite (Fr q Hne) in *. apply X; [rewrite <- L; exact Hq|exact Hc].
  - intros q Hq. rewrite L in Hq. destruct (Nat.eq_dec q p) as [->|Hne].
    + unfold own_at. cbv zeta.
      assert (Hown : owners (pre ++ e' :: post) p = [e']).
      { rewrite owners_mid. rewrite owners_mid, He0 in Hnoown. cbn [mem_nat existsb app] in Hnoown.
        apply app_eq_nil in Hnoown. destruct Hnoown as (N1 & N2). rewrite N1, N2, Hunk, mem_nat_single, Nat.eqb_refl. reflexivity. }
      assert (Hnew : iv_type (geti ivs' p) = VState \/ comp_type (iv_type (geti ivs' p)) = true).
      { destruct Hold as [(_ & Hc)|(_ & _ & Hs)]; [right; exact Hc|left; exact Hs]. }
      split; [|split].
      * intros [K|(K1 & K2)]; [|congruence]. destruct Hnew as [Hn|Hn]; [rewrite Hn in K; discriminate|].
        destruct (iv_type (geti ivs' p)); cbn in K, Hn; discriminate.
      * intros _. exists e'. split; [exact Hown|]. split; [exact Hunk|].
        destruct Hagree as [Ha|Ha]; [|exact Ha]. destruct Hnew as [Hn|Hn]; rewrite Ha in Hn; discriminate.
      * intro K. destruct Hnew as [Hn|Hn]; rewrite K in Hn; discriminate.
    + eapply own_at_same; [rewrite (Fr q Hne); reflexivity|rewrite (Fr q Hne); reflexivity|apply Hsame; exact Hne|apply W; exact Hq].
  - exact HB.
Qed.

Lemma own_k3 : forall ivs ivs' pre e e' post inits,
  own_inv ivs (pre ++ e :: post) -> ie_type e = EUnknown ->
  ie_type e' = ENla -> ie_unknown e' = ie_unknown e ++ inits -> incl (ie_odes e') (ie_odes e) ->
  length ivs' = length ivs ->
  (forall q, In q inits -> q < length ivs /\ is_initialised_kind (iv_type (geti ivs q)) = true /\
                           iv_type (geti ivs' q) = VInitAlgebraic /\ has_index (geti ivs' q) = true) ->
  (forall q, ~ In q inits -> same_th (geti ivs' q) (geti ivs q)) ->
  Forall (eq_inv ivs') (pre ++ e' :: post) -> own_inv ivs' (pre ++ e' :: post).
Proof.
  intros ivs ivs' pre e e' post inits [U O X W B] Hte Hty' Hunk Hodes L Hin Hout HB.
  assert (He0 : ie_unknown e = []) by (apply U; [apply in_mid; auto|exact Hte]).
  rewrite He0 in Hunk. cbn in Hunk.
  constructor.
  - intros x Hx Hu. apply in_mid in Hx. destruct Hx as [Hx|[->|Hx]]; [apply U; [apply in_mid; auto|exact Hu]|congruence|apply U; [apply in_mid; auto|exact Hu]].
  - intros x q Hx Hq.
    assert (Holdq : ode_type (iv_type (geti ivs q)) = true).
    { apply in_mid in Hx. destruct Hx as [Hx|[->|Hx]].
      - apply (O x q); [apply in_mid; auto|exact Hq].
      - apply (O e q); [apply in_mid; auto|apply Hodes; exact Hq].
      - apply (O x q); [apply in_mid; auto|exact Hq]. }
    destruct (in_dec Nat.eq_dec q inits) as [Hi|Hi].
    + destruct (Hin q Hi) as (_ & K & _). destruct (iv_type (geti ivs q)); cbn in K, Holdq; discriminate.
    + destruct (Hout q Hi) as (T & _). rewrite T. exact Holdq.
  - intros q Hq Hc. destruct (in_dec Nat.eq_dec q inits) as [Hi|Hi].
    + apply (Hin q Hi).
    + destruct (Hout q Hi) as (T & I). rewrite I. apply X; [rewrite <- L; exact Hq|rewrite <- T; exact Hc].
  - intros q Hq. rewrite L in Hq. destruct (in_dec Nat.eq_dec q inits) as [Hi|Hi].
    + destruct (Hin q Hi) as (_ & K & T & _). unfold own_at. cbv zeta. rewrite T.
      split; [intros [K0|(K0 & _)]; discriminate|]. split; [intros [K0|(K0 & _)]; discriminate|].
      intros _ x Hx. rewrite owners_mid in Hx.
      assert (Hold : In x (owners (pre ++ e :: post) q) -> ie_type x = ENla).
      { intro Hxo. destruct (W q Hq) as (W1 & _ & W3). destruct (iv_type (geti ivs q)) eqn:Et; cbn in K; try discriminate.
        - rewrite W1 in Hxo by (left; reflexivity). destruct Hxo.
        - apply W3; [reflexivity|exact Hxo]. }
      rewrite owners_mid, He0 in Hold. cbn [mem_nat existsb app] in Hold.
      apply in_app_iff in Hx. destruct Hx as [Hx|Hx]; [apply Hold; apply in_app_iff; left; exact Hx|].
      apply in_app_iff in Hx. destruct Hx as [Hx|Hx]; [|apply Hold; apply in_app_iff; right; exact Hx].
      destruct (mem_nat q (ie_unknown e')); [destruct Hx as [<-|[]]; exact Hty'|destruct Hx].
    + destruct (Hout q Hi) as (T & I).
      eapply own_at_same; [exact T|exact I| |apply W; exact Hq].
      apply owners_skip; [exact He0|]. rewrite Hunk. destruct (mem_nat q inits) eqn:Em; [|reflexivity].
      apply mem_nat_In in Em. contradiction.
  - exact HB.
Qed.

Lemma check_own : forall s nla st e st' e' b pre post,
  check s nla st e = (st', e', b) ->
  own_inv (cs_ivs st) (pre ++ e :: post) -> own_inv (cs_ivs st') (pre ++ e' :: post).
Proof.
  intros s nla st e st' e' b pre post H Hinv.
  assert (He : eq_inv (cs_ivs st) e).
  { pose proof (oi_bounds _ _ Hinv) as HB. rewrite Forall_forall in HB. apply HB. apply in_mid. auto. }
  destruct (check_inv _ _ _ _ _ _ _ H He) as (Hev & He').
  assert (HB' : Forall (eq_inv (cs_ivs st')) (pre ++ e' :: post)).
  { pose proof (oi_bounds _ _ Hinv) as HB. rewrite Forall_forall in *. intros x Hx. apply in_mid in Hx.
    destruct Hx as [Hx|[->|Hx]]; [|exact He'|]; (eapply eq_inv_evolves; [exact Hev|]); apply HB; apply in_mid; auto. }
  destruct (etype_eqb (ie_type e) EUnknown) eqn:Et.
  - apply etype_eqb_eq in Et.
    destruct (check_cases _ _ _ _ _ _ _ H Et He) as [(A1 & A2 & A3 & A4)|[(p & A)|(inits & A)]].
    + eapply own_k1; eassumption.
    + destruct A as (A1 & A2 & A3 & A4 & A5 & A6 & A7 & A8 & A9 & A10 & A11). eapply own_k2; eassumption.
    + destruct A as (A1 & A2 & A3 & A4 & A5 & A6 & A7). eapply own_k3; eassumption.
  - unfold check in H. rewrite Et in H. cbn [negb] in H. inversion H; subst. exact Hinv.
Qed.

(* ------------------------------------------------------------------ sweep and loop *)

Lemma sweep_own : forall s nla es pre st st' es' b,
  sweep s nla st es = (st', es', b) -> own_inv (cs_ivs st) (pre ++ es) -> own_inv (cs_ivs st') (pre ++ es').
Proof.
  intros s nla es. induction es as [|e r IH]; intros pre st st' es' b H Hinv; cbn in H.
  - inversion H; subst. exact Hinv.
  - destruct (check s nla st e) as [[st1 e1] b1] eqn:Hc.
    destruct (sweep s nla st1 r) as [[st2 r1] b2] eqn:Hs.
    inversion H; subst. clear H.
    pose proof (check_own _ _ _ _ _ _ _ pre r Hc Hinv) as H1.
    change (pre ++ e1 :: r) with (pre ++ [e1] ++ r) in H1. rewrite app_assoc in H1.
    pose proof (IH _ _ _ _ _ Hs H1) as H2. rewrite <- app_assoc in H2. exact H2.
Qed.

Lemma noext_evolves : forall s a b, evolves s a b -> Forall (fun v => iv_external v = false) a -> Forall (fun v => iv_external v = false) b.
Proof.
  intros s a b (L & Hp) Ha. rewrite Forall_forall. intros x Hx. apply In_nth with (d := divar) in Hx. destruct Hx as (n & Hn & <-).
  rewrite L in Hn. destruct (Hp n Hn) as (_ & S2 & _). unfold geti in S2. rewrite S2.
  rewrite Forall_forall in Ha. apply Ha. apply nth_In. exact Hn.
Qed.

Lemma loop_own : forall s fuel loopn nla st es st' es',
  loop s fuel loopn nla st es = Some (st', es') ->
  Forall (fun v => iv_external v = false) (cs_ivs st) ->
  own_inv (cs_ivs st) es -> own_inv (cs_ivs st') es'.
Proof.
  intros s fuel. induction fuel as [|f IH]; intros loopn nla st es st' es' H Hne Hinv; [discriminate|].
  cbn [loop] in H. destruct (sweep s nla st es) as [[st1 es1] rel] eqn:Hs.
  pose proof (sweep_own _ _ _ [] _ _ _ _ Hs Hinv) as H1. cbn [app] in H1.
  destruct (sweep_inv _ _ _ _ _ _ _ Hs (oi_bounds _ _ Hinv)) as (Hev & _).
  pose proof (noext_evolves _ _ _ Hev Hne) as Hne1.
  destruct rel; [eapply IH; eassumption|].
  destruct ((loopn =? 1) || (loopn =? 3)); [eapply IH; eassumption|].
  assert (Hmark : map (fun v => if iv_external v && vtype_eqb (iv_type v) VUnknown then set_type v VInitialised else v) (cs_ivs st1) = cs_ivs st1).
  { clear - Hne1. induction (cs_ivs st1) as [|v r IHr]; cbn; [reflexivity|]. inversion Hne1; subst.
    rewrite H1. cbn. rewrite IHr by assumption. reflexivity. }
  destruct (loopn =? 2).
  - rewrite Hmark in H. destruct (existsb iv_external (cs_ivs st1)).
    + eapply IH; [exact H| |]; cbn [cs_ivs]; assumption.
    + inversion H; subst. cbn [cs_ivs]. exact H1.
  - inversion H; subst. exact H1.
Qed.

(* ------------------------------------------------------------------ establishing the invariant *)

Lemma find_index_app : forall {A} (p : A -> bool) l t i, find_index p l = Some i -> find_index p (l ++ t) = Some i.
Proof.
  intros A p l. induction l as [|x r IH]; intros t i H; cbn in *; [discriminate|].
  destruct (p x); [exact H|]. destruct (find_index p r) as [j|] eqn:E; [|discriminate].
  rewrite (IH t j eq_refl). exact H.
Qed.

Lemma find_index_cls : forall (c : nat) ivs,
  find_index (fun iv => iv_cls iv =? c) ivs = find_index (fun k => k =? c) (map iv_cls ivs).
Proof. intros. induction ivs as [|v r IH]; cbn; [reflexivity|]. rewrite IH. reflexivity. Qed.

(* the position of the internal variable of r only depends on the list of classes, and is stable when that
   list is extended once the class is in it *)
Lemma ivar_of_stable : forall s a b r tl, map iv_cls b = map iv_cls a ++ tl ->
  In (v_cls (get_var s r)) (map iv_cls a) -> ivar_of s b r = ivar_of s a r.
Proof.
  intros s a b r tl Hb Hin. unfold ivar_of, internal_variable. rewrite !find_index_cls, Hb.
  destruct (find_index_exists (fun k => k =? v_cls (get_var s r)) (map iv_cls a) _ Hin (Nat.eqb_refl _)) as (i & Hi).
  rewrite (find_index_app _ _ tl _ Hi), Hi. reflexivity.
Qed.

Definition cls_prefix (a b : list ivar) : Prop := exists tl, map iv_cls b = map iv_cls a ++ tl.
Lemma cls_prefix_refl : forall a, cls_prefix a a.
Proof. intro. exists []. rewrite app_nil_r. reflexivity. Qed.
Lemma cls_prefix_trans : forall a b c, cls_prefix a b -> cls_prefix b c -> cls_prefix a c.
Proof. intros a b c (t1 & H1) (t2 & H2). exists (t1 ++ t2). rewrite H2, H1, app_assoc. reflexivity. Qed.
Lemma extends_cls_prefix : forall a b, extends a b -> cls_prefix a b.
Proof. intros a b (tl & ->). exists (map iv_cls tl). apply map_app. Qed.

(* every ODE variable of the equation is the internal variable of the variable of one of its DIFF nodes *)
Definition odes_diffs (s : system) (ivs : list ivar) (e : ieq) : Prop :=
  forall p, In p (ie_odes e) -> exists d, In d (ie_diffs e) /\ ivar_of s ivs (snd d) = p /\ In (v_cls (get_var s (snd d))) (map iv_cls ivs).

Lemma odes_diffs_mono : forall s a b e, cls_prefix a b -> odes_diffs s a e -> odes_diffs s b e.
Proof.
  intros s a b e (tl & Hp) H p Hin. destruct (H p Hin) as (d & D1 & D2 & D3). exists d. split; [exact D1|].
  split; [rewrite (ivar_of_stable s a b (snd d) tl Hp D3); exact D2|]. rewrite Hp. apply in_app_iff. left. exact D3.
Qed.

Lemma internal_variable_pos : forall s ivs r, ivs_ok s ivs -> in_range s r = true ->
  let ivs' := fst (internal_variable s ivs r) in
  ivar_of s ivs' r = snd (internal_variable s ivs r) /\ In (v_cls (get_var s r)) (map iv_cls ivs').
Proof.
  intros s ivs r Hok Hr. cbv zeta. destruct (internal_variable s ivs r) as [ivs1 p] eqn:E. cbn [fst snd].
  destruct (internal_variable_spec _ _ _ _ _ E Hok Hr) as (A1 & A2 & A3 & A4).
  assert (Hin : In (v_cls (get_var s r)) (map iv_cls ivs1)).
  { change (v_cls (get_var s r)) with (cls_of s r). rewrite <- A3. apply in_map. apply geti_In. exact A2. }
  split; [|exact Hin].
  unfold internal_variable in E. destruct (find_index (fun iv => iv_cls iv =? v_cls (get_var s r)) ivs) as [i|] eqn:F.
  - inversion E; subst. unfold ivar_of, internal_variable. rewrite F. reflexivity.
  - inversion E; subst. unfold ivar_of, internal_variable.
    destruct (find_index (fun iv => iv_cls iv =? v_cls (get_var s r)) (ivs ++ [new_ivar s r])) as [j|] eqn:F2.
    + cbn. destruct (find_index_Some _ _ _ divar F2) as (J1 & J2).
      destruct (Nat.lt_ge_cases j (length ivs)) as [Lj|Lj].
      * rewrite app_nth1 in J2 by exact Lj. rewrite (find_index_None _ _ F (nth j ivs divar)) in J2 by (apply nth_In; exact Lj). discriminate.
      * rewrite app_length in J1. cbn in J1. lia.
    + exfalso. apply in_map_iff in Hin. destruct Hin as (x & Hx1 & Hx2).
      pose proof (find_index_None _ _ F2 x Hx2) as K. cbn in K. rewrite Hx1, Nat.eqb_refl in K. discriminate.
Qed.

Lemma analyse_node_odes : forall s c e acc acc',
  analyse_node s c e acc = Some acc' -> ivs_ok s (fst acc) -> eq_ok s (length (fst acc)) (snd acc) ->
  odes_diffs s (fst acc) (snd acc) -> odes_diffs s (fst acc') (snd acc').
Proof.
  intros s c e. induction e as [n|t x| |a IHa b IHb]; intros [ivs q] acc' H Hok Heq Hd; cbn [analyse_node fst snd] in *.
  - destruct (find_var (get_comp s c) n) as [i|] eqn:F; [|discriminate].
    destruct (internal_variable s ivs (c, i)) as [ivs1 p] eqn:I.
    destruct (internal_variable_spec _ _ _ _ _ I Hok (find_var_in_range _ _ _ _ F)) as (_ & _ & _ & H4).
    pose proof (odes_diffs_mono _ _ _ _ (extends_cls_prefix _ _ H4) Hd) as Hd1.
    destruct (mem_nat p (ie_vars q)); inversion H; subst; exact Hd1.
  - destruct (find_var (get_comp s c) t) as [ti|] eqn:Ft; [|discriminate].
    destruct (find_var (get_comp s c) x) as [xi|] eqn:Fx; [|discriminate].
    pose proof (internal_variable_pos s ivs (c, xi) Hok (find_var_in_range _ _ _ _ Fx)) as Hpos. cbv zeta in Hpos.
    destruct (internal_variable s ivs (c, xi)) as [ivs1 p] eqn:I. cbn [fst snd] in Hpos. destruct Hpos as (P1 & P2).
    destruct (internal_variable_spec _ _ _ _ _ I Hok (find_var_in_range _ _ _ _ Fx)) as (_ & _ & _ & H4).
    pose proof (odes_diffs_mono _ _ _ _ (extends_cls_prefix _ _ H4) Hd) as Hd1.
    assert (Hold : forall p0, In p0 (ie_odes q) -> exists d, In d (ie_diffs q ++ [((c, ti), (c, xi))]) /\ ivar_of s ivs1 (snd d) = p0 /\ In (v_cls (get_var s (snd d))) (map iv_cls ivs1)).
    { intros p0 Hp0. destruct (Hd1 p0 Hp0) as (d & D1 & D2 & D3). exists d. split; [apply in_app_iff; left; exact D1|]. split; assumption. }
    destruct (mem_nat p (ie_odes q)); inversion H; subst; intros p0 Hp0; cbn [ie_odes ie_diffs fst snd] in *.
    + apply Hold. exact Hp0.
    + apply in_app_iff in Hp0. destruct Hp0 as [Hp0|[<-|[]]]; [apply Hold; exact Hp0|].
      exists ((c, ti), (c, xi)). split; [apply in_app_iff; right; left; reflexivity|]. cbn [snd]. split; [reflexivity|exact P2].
  - inversion H; subst. exact Hd.
  - destruct (analyse_node s c a (ivs, q)) as [acc1|] eqn:Ea; [|discriminate].
    destruct (analyse_node_spec _ _ _ _ _ Ea Hok Heq) as (A1 & A2 & _).
    apply (IHb _ _ H A1 A2). apply (IHa _ _ Ea Hok Heq Hd).
Qed.

Lemma build_eqs_odes : forall s c qs acc acc',
  build_eqs s c qs acc = Some acc' -> ivs_ok s (fst acc) -> Forall (eq_ok s (length (fst acc))) (snd acc) ->
  Forall (odes_diffs s (fst acc)) (snd acc) -> Forall (odes_diffs s (fst acc')) (snd acc').
Proof.
  intros s c qs. induction qs as [|q r IH]; intros acc acc' H Hok Heq Hd; cbn in H.
  - inversion H; subst. exact Hd.
  - destruct (build_eq s c (fst acc) q) as [[ivs1 e]|] eqn:E; [|discriminate].
    destruct (build_eq_spec _ _ _ _ _ _ E Hok) as (A1 & A2 & A3).
    assert (He : odes_diffs s ivs1 e).
    { unfold build_eq in E.
      match type of E with match analyse_node s c ?l (?i, ?q0) with _ => _ end = _ =>
        destruct (analyse_node s c l (i, q0)) as [acc1|] eqn:E1; [|discriminate];
        assert (Hq0 : eq_ok s (length i) q0) by (unfold eq_ok; cbn; repeat (split; [constructor|]); reflexivity);
        assert (Hd0 : odes_diffs s i q0) by (intros p0 []) end.
      destruct (analyse_node_spec _ _ _ _ _ E1 Hok Hq0) as (B1 & B2 & _).
      pose proof (analyse_node_odes _ _ _ _ _ E1 Hok Hq0 Hd0) as B3.
      apply (analyse_node_odes _ _ _ _ _ E B1 B2 B3). }
    apply (IH _ _ H); cbn [fst snd].
    + exact A1.
    + apply Forall_snoc; [|exact A2]. eapply Forall_impl; [|exact Heq]. intros x Hx. eapply eq_ok_mono; [|exact Hx]. apply extends_length. exact A3.
    + apply Forall_snoc; [|exact He]. eapply Forall_impl; [|exact Hd]. intros x Hx. eapply odes_diffs_mono; [|exact Hx]. apply extends_cls_prefix. exact A3.
Qed.

Lemma track_inits_cls_prefix : forall s c n i ivs, cls_prefix ivs (track_inits s c i n ivs).
Proof.
  intros s c n. induction n as [|m IH]; intros i ivs; cbn [track_inits]; [apply cls_prefix_refl|].
  destruct (internal_variable s ivs (c, i)) as [ivs1 p] eqn:I.
  assert (H1 : cls_prefix ivs ivs1).
  { unfold internal_variable in I. destruct (find_index _ ivs); inversion I; subst; [apply cls_prefix_refl|].
    exists [iv_cls (new_ivar s (c, i))]. apply map_app. }
  eapply cls_prefix_trans; [exact H1|]. eapply cls_prefix_trans; [|apply IH].
  destruct (has_init (get_var s (c, i)) && negb (has_init (get_var s (iv_var (geti ivs1 p))))); [|apply cls_prefix_refl].
  exists []. rewrite app_nil_r. apply upd_classes. reflexivity.
Qed.

Lemma build_comps_odes : forall s cs c acc acc',
  build_comps s c cs acc = Some acc' -> cs = skipn c s ->
  ivs_ok s (fst acc) -> Forall (eq_ok s (length (fst acc))) (snd acc) -> Forall (odes_diffs s (fst acc)) (snd acc) ->
  Forall (odes_diffs s (fst acc')) (snd acc').
Proof.
  intros s cs. induction cs as [|k r IH]; intros c acc acc' H Hs Hok Heq Hd; cbn in H.
  - inversion H; subst. exact Hd.
  - symmetry in Hs. destruct (skipn_cons_inv _ _ _ _ dcomp Hs) as (S1 & S2 & S3).
    destruct (build_eqs s c (c_eqs k) acc) as [[ivs1 es1]|] eqn:E; [|discriminate].
    destruct (build_eqs_spec _ _ _ _ _ E Hok Heq) as (A1 & A2 & A3).
    pose proof (build_eqs_odes _ _ _ _ _ E Hok Heq Hd) as A4. cbn [fst snd] in *.
    assert (Hk : get_comp s c = k) by exact S1.
    destruct (track_inits_spec s c (length (c_vars k)) 0 ivs1 A1) as (B1 & B2 & B3 & B4).
    { intros j Hj. apply in_range_intro; [exact S3|]. rewrite Hk. lia. }
    apply (IH (S c) _ _ H); cbn [fst snd]; [symmetry; exact S2|exact B1| |].
    + eapply Forall_impl; [|exact A2]. intros x Hx. eapply eq_ok_mono; [|exact Hx]. exact B4.
    + eapply Forall_impl; [|exact A4]. intros x Hx. eapply odes_diffs_mono; [|exact Hx]. apply track_inits_cls_prefix.
Qed.

Lemma build_odes : forall s ivs es, build s = Some (ivs, es) -> Forall (odes_diffs s ivs) es.
Proof.
  intros s ivs es H. unfold build in H.
  apply (build_comps_odes _ _ _ _ _ H); cbn; [reflexivity|split; constructor|constructor|constructor].
Qed.

Definition asts_type (t : vtype) : bool := match t with VUnknown | VInitialised | VShouldBeState | VState | VVoi => true | _ => false end.
Definition stable3 (t : vtype) : bool := match t with VShouldBeState | VState | VVoi => true | _ => false end.
Definition asts_iv (v : ivar) : Prop := asts_type (iv_type v) = true /\ iv_index v = None.

Lemma ivar_of_cls_eq : forall s a b r, map iv_cls a = map iv_cls b -> ivar_of s a r = ivar_of s b r.
Proof. intros s a b r H. unfold ivar_of, internal_variable. rewrite !find_index_cls, H, <- (map_length iv_cls a), <- (map_length iv_cls b), H.
  destruct (find_index _ (map iv_cls b)); reflexivity. Qed.

Lemma diff_event_types : forall s st d,
  Forall asts_iv (vs_ivs st) ->
  let st' := diff_event s st d in
  Forall asts_iv (vs_ivs st') /\ map iv_cls (vs_ivs st') = map iv_cls (vs_ivs st) /\
  (forall q, stable3 (iv_type (geti (vs_ivs st) q)) = true -> stable3 (iv_type (geti (vs_ivs st') q)) = true) /\
  (ivar_of s (vs_ivs st) (snd d) < length (vs_ivs st) -> stable3 (iv_type (geti (vs_ivs st') (ivar_of s (vs_ivs st) (snd d)))) = true).
Proof.
  intros s st [t x] HA. cbv zeta. unfold diff_event. cbn [snd].
  set (ivs := vs_ivs st) in *. set (pt := ivar_of s ivs t).
  set (ivs1 := upd ivs pt (set_type (geti ivs pt) VVoi)).
  match goal with |- context [let '(a, b) := ?m in _] => destruct m as [voi1 iss1] end. cbn [vs_ivs].
  assert (Hc1 : map iv_cls ivs1 = map iv_cls ivs) by (apply upd_classes; reflexivity).
  assert (Hpx : ivar_of s ivs1 x = ivar_of s ivs x) by (apply ivar_of_cls_eq; exact Hc1).
  rewrite Hpx. set (px := ivar_of s ivs x).
  assert (HAd : asts_iv divar) by (split; reflexivity).
  assert (HA1 : Forall asts_iv ivs1).
  { apply Forall_upd; [exact HA|]. destruct (Forall_geti _ _ pt HA HAd) as (_ & I). split; [reflexivity|exact I]. }
  assert (Hms : forall v, asts_iv v -> asts_iv (make_state v) /\ stable3 (iv_type (make_state v)) = true).
  { intros v (T & I). unfold make_state, asts_iv. destruct (iv_type v) eqn:E; cbn in T; try discriminate;
      cbn [set_type iv_type iv_index]; rewrite ?E; (split; [split; [reflexivity|exact I]|reflexivity]). }
  destruct (Hms _ (Forall_geti _ _ px HA1 HAd)) as (M1 & M2).
  split; [apply Forall_upd; [exact HA1|exact M1]|].
  split; [rewrite upd_classes; [exact Hc1|]; apply (make_state_same (geti ivs1 px))|].
  assert (Hst1 : forall q, stable3 (iv_type (geti ivs q)) = true -> stable3 (iv_type (geti ivs1 q)) = true).
  { intros q Hq. unfold ivs1, geti. destruct (Nat.eq_dec pt q) as [->|Hd].
    - destruct (Nat.lt_ge_cases q (length ivs)) as [L|L]; [rewrite nth_upd_same by exact L; reflexivity|rewrite upd_beyond by exact L; exact Hq].
    - rewrite nth_upd_other by exact Hd. exact Hq. }
  split.
  - intros q Hq. specialize (Hst1 q Hq). unfold geti. destruct (Nat.eq_dec px q) as [->|Hd].
    + destruct (Nat.lt_ge_cases q (length ivs1)) as [L|L]; [rewrite nth_upd_same by exact L; exact M2|rewrite upd_beyond by exact L; exact Hst1].
    + rewrite nth_upd_other by exact Hd. exact Hst1.
  - intro Hb. rewrite geti_upd_same; [exact M2|]. unfold ivs1. rewrite upd_length. exact Hb.
Qed.

Lemma diff_events_types : forall s ds st,
  Forall asts_iv (vs_ivs st) ->
  (forall d, In d ds -> ivar_of s (vs_ivs st) (snd d) < length (vs_ivs st)) ->
  let st' := fold_left (diff_event s) ds st in
  Forall asts_iv (vs_ivs st') /\ map iv_cls (vs_ivs st') = map iv_cls (vs_ivs st) /\
  (forall q, stable3 (iv_type (geti (vs_ivs st) q)) = true -> stable3 (iv_type (geti (vs_ivs st') q)) = true) /\
  (forall d, In d ds -> stable3 (iv_type (geti (vs_ivs st') (ivar_of s (vs_ivs st) (snd d)))) = true).
Proof.
  intros s ds. induction ds as [|d r IH]; intros st HA Hb; cbn [fold_left]; cbv zeta.
  - split; [exact HA|]. split; [reflexivity|]. split; [auto|]. intros d [].
  - destruct (diff_event_types s st d HA) as (A1 & A2 & A3 & A4). cbv zeta in *.
    assert (Hlen : length (vs_ivs (diff_event s st d)) = length (vs_ivs st)) by apply diff_event_length.
    destruct (IH (diff_event s st d) A1) as (B1 & B2 & B3 & B4).
    { intros d0 Hd0. rewrite Hlen. rewrite (ivar_of_cls_eq s _ _ (snd d0) A2). apply Hb. right. exact Hd0. }
    cbv zeta in *. split; [exact B1|]. split; [congruence|]. split; [auto|].
    intros d0 [<-|Hd0].
    + apply B3. apply A4. apply Hb. left. reflexivity.
    + rewrite <- (ivar_of_cls_eq s _ _ (snd d0) A2). apply B4. exact Hd0.
Qed.

Lemma analyse_asts_types : forall s ivs es,
  Forall asts_iv ivs ->
  (forall e d, In e es -> In d (ie_diffs e) -> ivar_of s ivs (snd d) < length ivs) ->
  Forall asts_iv (vs_ivs (analyse_asts s ivs es)) /\
  map iv_cls (vs_ivs (analyse_asts s ivs es)) = map iv_cls ivs /\
  (forall e d, In e es -> In d (ie_diffs e) -> stable3 (iv_type (geti (vs_ivs (analyse_asts s ivs es)) (ivar_of s ivs (snd d)))) = true).
Proof.
  intros s ivs es HA Hb. unfold analyse_asts.
  assert (G : forall es st, Forall asts_iv (vs_ivs st) -> map iv_cls (vs_ivs st) = map iv_cls ivs -> length (vs_ivs st) = length ivs ->
            (forall e d, In e es -> In d (ie_diffs e) -> ivar_of s ivs (snd d) < length ivs) ->
            let st' := fold_left (fun st e => fold_left (diff_event s) (ie_diffs e) st) es st in
            Forall asts_iv (vs_ivs st') /\ map iv_cls (vs_ivs st') = map iv_cls ivs /\
            (forall q, stable3 (iv_type (geti (vs_ivs st) q)) = true -> stable3 (iv_type (geti (vs_ivs st') q)) = true) /\
            (forall e d, In e es -> In d (ie_diffs e) -> stable3 (iv_type (geti (vs_ivs st') (ivar_of s ivs (snd d)))) = true)).
  { clear es Hb. induction es as [|e r IH]; intros st HAs Hc Hl Hb; cbn [fold_left]; cbv zeta.
    - split; [exact HAs|]. split; [exact Hc|]. split; [auto|]. intros e d [].
    - destruct (diff_events_types s (ie_diffs e) st HAs) as (A1 & A2 & A3 & A4).
      { intros d Hd. rewrite Hl, (ivar_of_cls_eq s _ ivs (snd d) Hc). apply (Hb e d); [left; reflexivity|exact Hd]. }
      cbv zeta in *.
      destruct (IH (fold_left (diff_event s) (ie_diffs e) st) A1) as (B1 & B2 & B3 & B4).
      { congruence. }
      { pose proof (f_equal (@length _) A2) as K. rewrite !map_length in K. congruence. }
      { intros e0 d Hin Hd. apply (Hb e0 d); [right; exact Hin|exact Hd]. }
      cbv zeta in *. split; [exact B1|]. split; [exact B2|]. split; [auto|].
      intros e0 d [<-|Hin] Hd.
      + apply B3. rewrite <- (ivar_of_cls_eq s _ ivs (snd d) Hc). apply A4. exact Hd.
      + apply (B4 e0 d Hin Hd). }
  destruct (G es (mkVs ivs None []) HA eq_refl eq_refl Hb) as (G1 & G2 & _ & G4). cbv zeta in *.
  split; [exact G1|]. split; [exact G2|exact G4].
Qed.

Lemma owners_none : forall es p, (forall e, In e es -> ie_unknown e = []) -> owners es p = [].
Proof.
  intros es p H. unfold owners. induction es as [|e r IH]; cbn; [reflexivity|].
  rewrite (H e (or_introl eq_refl)). cbn. apply IH. intros x Hx. apply H. right. exact Hx.
Qed.

Lemma own_inv_initial : forall s ivs0 es0,
  build s = Some (ivs0, es0) ->
  own_inv (vs_ivs (analyse_asts s ivs0 es0)) es0 /\ length (vs_ivs (analyse_asts s ivs0 es0)) = length ivs0.
Proof.
  intros s ivs0 es0 Hb.
  destruct (build_spec _ _ _ Hb) as (B1 & B2 & B3).
  pose proof (build_fresh _ _ _ Hb) as B4. pose proof (build_odes _ _ _ Hb) as B5.
  assert (HA : Forall asts_iv ivs0).
  { eapply Forall_impl; [|exact B4]. intros v ([T|T] & _ & I); split; try exact I; rewrite T; reflexivity. }
  assert (Hpos : forall e d, In e es0 -> In d (ie_diffs e) -> ivar_of s ivs0 (snd d) < length ivs0).
  { intros e d He Hd. rewrite Forall_forall in B2. destruct (B2 e He) as (D & _). rewrite Forall_forall in D.
    destruct (D d Hd) as (_ & R). apply ivar_of_spec; [exact B1|]. apply B3; [exact R|]. apply in_range_comp in R. apply R. }
  destruct (analyse_asts_types s ivs0 es0 HA Hpos) as (T1 & T2 & T3).
  set (ivs := vs_ivs (analyse_asts s ivs0 es0)) in *.
  assert (Hlen : length ivs = length ivs0).
  { pose proof (f_equal (@length _) T2) as K. rewrite !map_length in K. exact K. }
  split; [|exact Hlen].
  assert (Hunk : forall e, In e es0 -> ie_unknown e = [] /\ ie_type e = EUnknown).
  { intros e He. rewrite Forall_forall in B2. destruct (B2 e He) as (_ & _ & _ & _ & U & T). split; assumption. }
  assert (Hown0 : forall p, owners es0 p = []).
  { intro p. apply owners_none. intros e He. apply Hunk. exact He. }
  constructor.
  - intros e He _. apply Hunk. exact He.
  - intros e p He Hp. rewrite Forall_forall in B5. destruct (B5 e He p Hp) as (d & D1 & D2 & _).
    specialize (T3 e d He D1). rewrite D2 in T3. destruct (iv_type (geti ivs p)); cbn in T3; try discriminate; reflexivity.
  - intros p Hp Hc. rewrite Forall_forall in T1. destruct (T1 _ (geti_In _ _ Hp)) as (T & _).
    destruct (iv_type (geti ivs p)); cbn in T, Hc; discriminate.
  - intros p Hp. unfold own_at. cbv zeta. rewrite Forall_forall in T1. destruct (T1 _ (geti_In _ _ Hp)) as (T & I).
    split; [intros _; apply Hown0|]. split.
    + intros [K|(_ & K)]; [destruct (iv_type (geti ivs p)); cbn in T, K; discriminate|].
      unfold has_index in K. rewrite I in K. discriminate.
    + intro K. rewrite K in T. discriminate.
  - eapply Forall_impl; [|exact B2]. intros e He. eapply eq_ok_eq_inv. rewrite Hlen. exact He.
Qed.

(** The state of the analysis when the do/while loop stops: every internal variable that was given a direct type
    (computed constant / algebraic, or a state that received its index) is listed in mUnknownVariables of exactly
    one equation, which lists nothing else and whose type matches; a variable turned into an NLA unknown
    (INITIALISED_ALGEBRAIC) is only listed by NLA equations; all other variables are listed by none. *)
Theorem loop_definers : forall s ivs0 es0 st es1,
  build s = Some (ivs0, es0) -> vs_issues (analyse_asts s ivs0 es0) = [] ->
  loop s (loop_fuel es0) 1 false (mkCs (vs_ivs (analyse_asts s ivs0 es0)) 0 0) es0 = Some (st, es1) ->
  own_inv (cs_ivs st) es1.
Proof.
  intros s ivs0 es0 st es1 Hb Hi Hl.
  destruct (own_inv_initial _ _ _ Hb) as (H0 & Hlen).
  destruct (build_spec _ _ _ Hb) as (B1 & B2 & B3). pose proof (build_fresh _ _ _ Hb) as B4.
  destruct (analyse_asts_inv s ivs0 es0 B1 B3 B4 B2 Hi) as ((_ & _ & _ & _ & Hne) & _).
  eapply loop_own; [exact Hl| |]; cbn [cs_ivs]; assumption.
Qed.

Corollary loop_definers_spelled : forall s ivs0 es0 st es1,
  build s = Some (ivs0, es0) -> vs_issues (analyse_asts s ivs0 es0) = [] ->
  loop s (loop_fuel es0) 1 false (mkCs (vs_ivs (analyse_asts s ivs0 es0)) 0 0) es0 = Some (st, es1) ->
  forall p, p < length (cs_ivs st) ->
    let v := geti (cs_ivs st) p in
    (* directly computed: exactly one equation, computing only p, of the matching type *)
    ((comp_type (iv_type v) = true \/ (iv_type v = VState /\ has_index v = true)) ->
       exists e, filter (fun x => mem_nat p (ie_unknown x)) es1 = [e] /\ ie_unknown e = [p] /\ agree (iv_type v) (ie_type e) = true) /\
    (* NLA unknown with an initial guess: only NLA equations *)
    (iv_type v = VInitAlgebraic -> forall e, In e es1 -> mem_nat p (ie_unknown e) = true -> ie_type e = ENla) /\
    (* not computed: no equation *)
    ((pre_type (iv_type v) = true \/ (iv_type v = VState /\ has_index v = false)) ->
       forall e, In e es1 -> mem_nat p (ie_unknown e) = false).
Proof.
  intros s ivs0 es0 st es1 Hb Hi Hl p Hp. cbv zeta.
  pose proof (loop_definers _ _ _ _ _ Hb Hi Hl) as H. destruct (oi_own _ _ H p Hp) as (W1 & W2 & W3).
  split; [exact W2|]. split.
  - intros K e He Hm. apply (W3 K). unfold owners. apply filter_In. split; assumption.
  - intros K e He. destruct (mem_nat p (ie_unknown e)) eqn:Em; [|reflexivity].
    assert (Hin : In e (owners es1 p)) by (unfold owners; apply filter_In; split; assumption).
    rewrite (W1 K) in Hin. destruct Hin.
Qed.
