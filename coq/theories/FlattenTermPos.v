(* FlattenTermPos.v -- C06: the positive half of termination, for the units-transfer recursion.
   transferUnitsRenamingIfRequired (FlattenDefs.transfer) walks the reference graph of the SOURCE units list: for every unit child
   whose reference names a units of the source it clones that units and transfers the clone first.  When the source's reference
   graph is acyclic -- certified by a rank assignment checked by the boolean ranked_b -- the recursion ends within rank + 1 levels,
   Units::equivalent being guarded (85ba0d4, units_equivalent_g never answers FFuel).  Name capture is exactly what breaks the
   hypothesis: it writes a name into the clone that makes its reference graph cyclic (FlattenTerm.v: rec_lib / rec_origin). *)
From Coq Require Import List String Ascii ZArith QArith Bool Arith Lia.
From LC Require Import Common NumDefs UnitsDefs FlattenDefs FlattenProofs.
Import ListNotations.
Local Open Scope string_scope.
Local Open Scope nat_scope.
Local Open Scope list_scope.

Definition rk_of (rl : list (string * nat)) (n : string) : nat := match assoc n rl with Some k => k | None => 0 end.

(* every reference of a units of S to a units of S goes down in rank *)
Definition ranked_b (S : list units) (rl : list (string * nat)) : bool :=
  forallb (fun x => forallb (fun d => negb (has_units (uc_ref d) S) || Nat.ltb (rk_of rl (uc_ref d)) (rk_of rl (u_name x))) (u_defs x)) S.

Lemma find_units_in : forall n l x, find_units n l = Some x -> In x l /\ u_name x = n.
Proof.
  intros n l. induction l as [|y r IH]; intros x H; [discriminate|]. cbn [find_units] in H.
  destruct (String.eqb (u_name y) n) eqn:E.
  - inversion H; subst. split; [left; reflexivity | apply String.eqb_eq; exact E].
  - destruct (IH _ H) as [H1 H2]. split; [right; exact H1 | exact H2].
Qed.

Lemma ranked_find : forall S rl n x d, ranked_b S rl = true -> find_units n S = Some x -> In d (u_defs x) ->
  has_units (uc_ref d) S = true -> rk_of rl (uc_ref d) < rk_of rl n.
Proof.
  intros S rl n x d Hr Hf Hd Hh. destruct (find_units_in _ _ _ Hf) as [Hin Hn]. subst n.
  unfold ranked_b in Hr. rewrite forallb_forall in Hr. specialize (Hr x Hin). rewrite forallb_forall in Hr. specialize (Hr d Hd).
  rewrite Hh in Hr. cbn in Hr. apply Nat.ltb_lt. exact Hr.
Qed.

(* ---- the guarded Units::equivalent never diverges *)
Lemma ueg_not_fuel : forall fx libs ms ia na ib nb, fx_cycle_guard fx = true -> units_equivalent_g fx libs ms ia na ib nb <> FFuel.
Proof.
  intros fx libs ms ia na ib nb Hg. unfold units_equivalent_g. rewrite Hg. destruct (units_equivalent libs ms ia na ib nb); discriminate.
Qed.

Lemma meu_not_fuel : forall fx libs T home n l, fx_cycle_guard fx = true -> models_equivalent_units fx libs T home n l <> FFuel.
Proof.
  intros fx libs T home n l Hg. induction l as [|t r IH]; cbn [models_equivalent_units]; [discriminate|].
  pose proof (ueg_not_fuel fx libs [T; home] 0 (u_name t) 1 n Hg) as H.
  destruct (units_equivalent_g fx libs [T; home] 0 (u_name t) 1 n) as [b| | |]; cbn [fbind]; try discriminate; [|congruence].
  destruct b; [discriminate | exact IH].
Qed.

(* ---- a parent-less clone's transfer leaves the source alone *)
Definition keeps_S (rec : units -> ust -> fres transfer_result) : Prop :=
  forall u s s' m c n, rec u s = FOk (s', m, c, n) -> us_S s' = us_S s.

Lemma transfer_kids_S : forall rec fx, keeps_S rec -> forall k i u s u1 s1, transfer_kids rec fx k i u s = FOk (u1, s1) -> us_S s1 = us_S s.
Proof.
  intros rec fx Hrec. induction k as [|k IH]; intros i u s u1 s1 H; cbn [transfer_kids] in H; [inversion H; reflexivity|].
  destruct (nth_error (u_defs u) i) as [d|]; [|inversion H; reflexivity].
  destruct (negb (str_is_empty (uc_ref d)) && negb (is_std_name (uc_ref d)) && has_units (uc_ref d) (us_S s)); [|apply (IH _ _ _ _ _ H)].
  destruct (find_units (uc_ref d) (us_S s)) as [src|]; [|discriminate].
  destruct (clone_units src (us_st s)) as [child st1].
  destruct (rec child (us_with_st st1 s)) as [[[[s2 mv] ch] fn]| | |] eqn:Er; cbn [fbind] in H; try discriminate.
  rewrite (IH _ _ _ _ _ H). cbn. apply (Hrec _ _ _ _ _ _ Er).
Qed.

Lemma transfer_orphan_S : forall fuel fx libs, keeps_S (transfer fuel fx libs true).
Proof.
  induction fuel as [|f IH]; intros fx libs u s s' m c n H; cbn [transfer] in H; [discriminate|].
  destruct (models_equivalent_units fx libs (us_T s) (transfer_home true u s) (transfer_qname true u) (us_T s)) as [tg| | |]; cbn [fbind] in H; try discriminate.
  destruct tg as [tname|].
  - destruct (String.eqb tname (u_name u)); inversion H; subst; [reflexivity | apply us_op_S].
  - destruct (transfer_kids (transfer f fx libs true) fx (List.length (u_defs u)) 0 u s) as [[u1 s1]| | |] eqn:Ek; cbn [fbind] in H; try discriminate.
    pose proof (transfer_kids_S _ fx (IH fx libs) _ _ _ _ _ _ Ek) as HS.
    destruct (free_name (map u_name (us_T s1)) (u_name u1)) as [newname|]; [|discriminate].
    destruct (negb (String.eqb (u_name u1) newname)); inversion H; subst; rewrite ?us_op_S; exact HS.
Qed.

(* ---- termination *)
Lemma nth_error_set_nth_other : forall (A : Type) (l : list A) i j x, i <> j -> nth_error (set_nth i x l) j = nth_error l j.
Proof.
  intros A l. induction l as [|y r IH]; intros i j x H; [destruct i; reflexivity|].
  destruct i as [|i]; destruct j as [|j]; cbn; try reflexivity; [congruence | apply IH; lia].
Qed.

Lemma u_set_ref_nth_other : forall i r u j, i <> j -> nth_error (u_defs (u_set_ref i r u)) j = nth_error (u_defs u) j.
Proof.
  intros i r u j H. unfold u_set_ref. destruct (nth_error (u_defs u) i); [|reflexivity]. cbn. apply nth_error_set_nth_other. exact H.
Qed.

(* the references of u from position i on that name a units of S have rank below m *)
Definition later_refs_below (S : list units) (rl : list (string * nat)) (m i : nat) (u : units) : Prop :=
  forall j d, i <= j -> nth_error (u_defs u) j = Some d -> has_units (uc_ref d) S = true -> rk_of rl (uc_ref d) < m.

Definition refs_below (S : list units) (rl : list (string * nat)) (m : nat) (u : units) : Prop :=
  forall d, In d (u_defs u) -> has_units (uc_ref d) S = true -> rk_of rl (uc_ref d) < m.

Lemma transfer_kids_terminates : forall (rec : units -> ust -> fres transfer_result) fx S rl m,
  keeps_S rec ->
  (forall child s n', us_S s = S -> n' < m -> refs_below S rl n' child -> rec child s <> FFuel) ->
  ranked_b S rl = true ->
  forall k i u s, us_S s = S -> later_refs_below S rl m i u -> transfer_kids rec fx k i u s <> FFuel.
Proof.
  intros rec fx S rl m Hkeep Hrec Hr. induction k as [|k IH]; intros i u s HS Hlt; cbn [transfer_kids]; [discriminate|].
  destruct (nth_error (u_defs u) i) as [d|] eqn:Ed; [|discriminate].
  destruct (negb (str_is_empty (uc_ref d)) && negb (is_std_name (uc_ref d)) && has_units (uc_ref d) (us_S s)) eqn:Ec.
  - apply andb_true_iff in Ec. destruct Ec as [_ Hh]. rewrite HS in Hh.
    destruct (find_units (uc_ref d) (us_S s)) as [src|] eqn:Ef; [|discriminate].
    destruct (clone_units src (us_st s)) as [child st1] eqn:Ecl.
    assert (Hchild : u_defs child = u_defs src) by (unfold clone_units in Ecl; cbn in Ecl; inversion Ecl; reflexivity).
    assert (Hrc : rec child (us_with_st st1 s) <> FFuel).
    { apply (Hrec child (us_with_st st1 s) (rk_of rl (uc_ref d))); [cbn; exact HS | apply (Hlt i d (le_n i) Ed Hh)|].
      intros d' Hd' Hh'. rewrite Hchild in Hd'. rewrite HS in Ef. apply (ranked_find S rl _ _ _ Hr Ef Hd' Hh'). }
    destruct (rec child (us_with_st st1 s)) as [[[[s2 mv] ch] fn]| | |] eqn:Er; cbn [fbind]; try discriminate; [|congruence].
    assert (HS2 : us_S (us_log [u_own u] s2) = S) by (cbn; rewrite (Hkeep _ _ _ _ _ _ Er); cbn; exact HS).
    apply IH; [exact HS2|].
    intros j d' Hj Hn Hh'. rewrite u_set_ref_nth_other in Hn by lia. apply (Hlt j d' (ltac:(lia)) Hn Hh').
  - apply IH; [exact HS|]. intros j d' Hj Hn Hh'. apply (Hlt j d' (ltac:(lia)) Hn Hh').
Qed.

(* transfer_terminates: with the guard (85ba0d4), a source whose reference graph is ranked, and a units whose references to units
   of the source have rank < n: fuel n + 1 suffices -- the transfer returns a result or a null dereference, never "no return" *)
Theorem transfer_terminates : forall rl fuel n fx libs orphan u s,
  fx_cycle_guard fx = true -> ranked_b (us_S s) rl = true -> refs_below (us_S s) rl n u ->
  n < fuel -> transfer fuel fx libs orphan u s <> FFuel.
Proof.
  intros rl fuel. induction fuel as [|f IH]; intros n fx libs orphan u s Hg Hr Hu Hf; [lia|]. cbn [transfer].
  pose proof (meu_not_fuel fx libs (us_T s) (transfer_home orphan u s) (transfer_qname orphan u) (us_T s) Hg) as Hm.
  destruct (models_equivalent_units fx libs (us_T s) (transfer_home orphan u s) (transfer_qname orphan u) (us_T s)) as [tg| | |]; cbn [fbind];
    try discriminate; [|congruence].
  destruct tg as [tname|]; [destruct (String.eqb tname (u_name u)); discriminate|].
  assert (Hk : transfer_kids (transfer f fx libs true) fx (List.length (u_defs u)) 0 u s <> FFuel).
  { apply (transfer_kids_terminates (transfer f fx libs true) fx (us_S s) rl n (transfer_orphan_S f fx libs)); try assumption; try reflexivity.
    - intros child s0 n' HS0 Hn' Hc. apply (IH n' fx libs true child s0 Hg); [rewrite HS0; exact Hr | rewrite HS0; exact Hc | lia].
    - intros j d _ Hn Hh. apply (Hu d (nth_error_In _ _ Hn) Hh). }
  destruct (transfer_kids (transfer f fx libs true) fx (List.length (u_defs u)) 0 u s) as [[u1 s1]| | |]; cbn [fbind]; try discriminate; [|congruence].
  destruct (free_name_total (map u_name (us_T s1)) (u_name u1)) as [c [Hc _]]. rewrite Hc.
  destruct (negb (String.eqb (u_name u1) c)); discriminate.
Qed.

(* ---- a fuel bound computed from the certificate *)
Definition max_rank (rl : list (string * nat)) : nat := fold_right (fun kv m => Nat.max (snd kv) m) 0 rl.

Lemma rk_of_le_max : forall rl x, rk_of rl x <= max_rank rl.
Proof.
  intros rl x. unfold rk_of. induction rl as [|[k v] r IH]; cbn [assoc max_rank fold_right snd]; [lia|].
  destruct (String.eqb x k); [lia|]. fold (max_rank r). destruct (assoc x r); lia.
Qed.

Definition transfer_fuel_bound (rl : list (string * nat)) : nat := max_rank rl + 2.

(* transfer_terminates_without_capture: whatever units is transferred, and from whatever state, as long as the source's reference
   graph is ranked (no captured name has made it cyclic) the transfer with fuel transfer_fuel_bound does not run out of fuel *)
Theorem transfer_terminates_without_capture : forall rl fx libs orphan u s,
  fx_cycle_guard fx = true -> ranked_b (us_S s) rl = true ->
  transfer (transfer_fuel_bound rl) fx libs orphan u s <> FFuel.
Proof.
  intros rl fx libs orphan u s Hg Hr. apply (transfer_terminates rl _ (S (max_rank rl)) fx libs orphan u s Hg Hr).
  - intros d _ _. pose proof (rk_of_le_max rl (uc_ref d)). lia.
  - unfold transfer_fuel_bound. lia.
Qed.

(* ---- not vacuous: the hand case same_name_different_units.  Source (clone of the imported model): mm = milli metre, mm2 = mm^2;
   target (flat model): mm = centi metre.  mm2 is transferred: its dependency mm is added as mm_1, mm2 = [mm_1^2] is added. *)
Definition tp_uc (r p : string) (e : Z) : unit_child := {| uc_ref := r; uc_prefix := p; uc_exp := inject_Z e; uc_mult := 0 |}.
Definition tp_mm2 : units := {| u_own := OFresh 1; u_name := "mm2"; u_imp := None; u_defs := [tp_uc "mm" "" 2] |}.
Definition tp_state : ust :=
  {| us_S := [ {| u_own := OFresh 1; u_name := "mm"; u_imp := None; u_defs := [tp_uc "metre" "milli" 1] |}; tp_mm2 ];
     us_So := OFresh 1;
     us_T := [ {| u_own := OFresh 0; u_name := "mm"; u_imp := None; u_defs := [tp_uc "metre" "centi" 1] |} ];
     us_To := OFresh 0; us_ops := []; us_comp := true; us_st := {| nx := 10; wlog := [] |} |}.
Definition tp_ranks : list (string * nat) := [("mm", 0); ("mm2", 1)].

Example transfer_terminates_nonvacuous :
  ranked_b (us_S tp_state) tp_ranks = true /\ transfer_fuel_bound tp_ranks = 3 /\
  exists s', transfer (transfer_fuel_bound tp_ranks) flat_current_fixes [] false tp_mm2 tp_state = FOk (s', true, [], "mm2") /\
             map (fun u => (u_name u, map uc_ref (u_defs u))) (us_T s') = [("mm", ["metre"]); ("mm_1", ["metre"]); ("mm2", ["mm_1"])].
Proof. split; [reflexivity|]. split; [reflexivity|]. eexists. split; vm_compute; reflexivity. Qed.

(* ... and the hypothesis is what name capture destroys: the clone of FlattenTerm.rec_lib after "v" has been replaced by the
   importer's name "q" reads q = [q]; no rank assignment passes the check *)
Lemma self_reference_not_ranked : forall x rl d, In d (u_defs x) -> uc_ref d = u_name x -> ranked_b [x] rl = false.
Proof.
  intros x rl d Hin Href. unfold ranked_b. cbn [forallb]. rewrite andb_true_r.
  destruct (forallb (fun d0 => negb (has_units (uc_ref d0) [x]) || Nat.ltb (rk_of rl (uc_ref d0)) (rk_of rl (u_name x))) (u_defs x)) eqn:E; [|reflexivity].
  rewrite forallb_forall in E. specialize (E d Hin). rewrite Href in E. unfold has_units in E. cbn [find_units] in E.
  rewrite String.eqb_refl, Nat.ltb_irrefl in E. discriminate.
Qed.

Example capture_is_not_ranked : forall rl,
  ranked_b [ {| u_own := OFresh 1; u_name := "q"; u_imp := None; u_defs := [tp_uc "q" "" 1] |} ] rl = false.
Proof. intros rl. apply (self_reference_not_ranked _ rl (tp_uc "q" "" 1)); [left; reflexivity | reflexivity]. Qed.
