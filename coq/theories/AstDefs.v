(** AstDefs.v — the equation AST of libcellml's analyser (C03, C17).  No proofs.

    /repo/src/api/libcellml/analyserequationast.h: an AnalyserEquationAst node has a Type (the enumeration is
    regenerated into LCGen.AstTypes on every run), a value (text of a CN), a variable (for a CI; the model keeps
    its name), a parent (weak) and two owned children, either of which may be null.
    [Null] is the null pointer.  The parent link is not stored: the only place the generator reads it
    (generateCode, case CI: ast->parent()->type() != DIFF) is handled by the DIFF case of GenDefs.gen. *)
From Coq Require Import String List.
From LCGen Require Export AstTypes.
Import ListNotations.
Local Open Scope string_scope.

Inductive ast : Set :=
| Null
| Node (t : ty) (v : string) (l r : ast).

Definition is_nil (a : ast) : bool := match a with Null => true | _ => false end.

(* ast->rightChild() != nullptr, for a non-null ast *)
Definition has_right (a : ast) : bool :=
  match a with Node _ _ _ (Node _ _ _ _) => true | _ => false end.

Definition left_of (a : ast) : ast := match a with Node _ _ l _ => l | Null => Null end.
Definition right_of (a : ast) : ast := match a with Node _ _ _ r => r | Null => Null end.

Definition ty_eqb (a b : ty) : bool := ty_beq a b.

Definition has_type (t : ty) (a : ast) : bool :=
  match a with Node u _ _ _ => ty_eqb u t | Null => false end.

Fixpoint size (a : ast) : nat :=
  match a with Null => 0 | Node _ _ l r => S (size l + size r) end.

Fixpoint depth (a : ast) : nat :=
  match a with Null => 0 | Node _ _ l r => S (Nat.max (depth l) (depth r)) end.

(* constructors used by examples and witnesses *)
Definition ci (n : string) : ast := Node CI n Null Null.
Definition cn (v : string) : ast := Node CN v Null Null.
Definition un (t : ty) (a : ast) : ast := Node t "" a Null.
Definition bin (t : ty) (a b : ast) : ast := Node t "" a b.

(* enumerator name -> type (used by the drivers to read case files) *)
Definition ty_of_name (s : string) : option ty :=
  find (fun t => String.eqb (ty_name t) s) all_types.
