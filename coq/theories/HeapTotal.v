(** HeapTotal.v — C09: under the invariant no call of the (repaired) object model crashes: the two recursions that
    could exhaust the stack — hasAncestor over parents, the search of encapsulated components over children — end
    within |objs| steps. *)
From Coq Require Import List String Bool Arith PeanoNat Lia Relations.
From LC Require Import HeapDefs HeapBase HeapInv HeapOps HeapProofs.
Import ListNotations.

(** the ancestors of x, nearest first, at most [f] of them *)
Fixpoint chain (s : state) (f : nat) (x : nat) : list nat :=
  match f with
  | 0 => []
  | S f' => match parent_of s x with None => [] | Some p => p :: chain s f' p end
  end.

Lemma chain_anc : forall s f x y, In y (chain s f x) -> anc s x y.
Proof.
  intros s f. induction f as [|f IH]; intros x y H; cbn in H; [destruct H|].
  destruct (parent_of s x) as [p|] eqn:E; [|destruct H]. destruct H as [<-|H].
  - apply t1n_step. exact E.
  - eapply Relation_Operators.t1n_trans; [exact E|]. apply IH. exact H.
Qed.

Lemma chain_nodup : forall s, (forall x, ~ anc s x x) -> forall f x, NoDup (chain s f x).
Proof.
  intros s A f. induction f as [|f IH]; intros x; cbn; [constructor|].
  destruct (parent_of s x) as [p|] eqn:E; [|constructor]. constructor; [|apply IH].
  intros H. apply (A p). eapply chain_anc; eauto.
Qed.

Lemma anc_target_inr : forall s, Inv s -> forall x y, anc s x y -> inr s y.
Proof.
  intros s I x y H. destruct (anc_last _ _ _ H) as [z Hz]. destruct (inv_ln s I _ _ Hz) as [K HK].
  eapply children_inr; eauto.
Qed.

Lemma chain_len : forall s, Inv s -> forall f x, List.length (chain s f x) <= List.length (objs s).
Proof.
  intros s I f x. rewrite <- (seq_length (List.length (objs s)) 0).
  apply NoDup_incl_length; [apply chain_nodup; apply (inv_ac s I)|].
  intros y Hy. apply in_seq. split; [lia|]. cbn. apply chain_anc in Hy. eapply anc_target_inr; eauto.
Qed.

Lemma has_ancestor_none_chain : forall s f x a, has_ancestor s f x a = None -> List.length (chain s f x) = f.
Proof.
  intros s f. induction f as [|f IH]; intros x a H; cbn in *; [reflexivity|].
  destruct (parent_of s x) as [p|]; [|discriminate]. destruct (Nat.eqb p a); [discriminate|].
  cbn. f_equal. eapply IH; eauto.
Qed.

(** hasAncestor ends: fuel above the number of objects is never used up *)
Theorem has_ancestor_terminates : forall s, Inv s -> forall f x a,
  f > List.length (objs s) -> has_ancestor s f x a <> None.
Proof.
  intros s I f x a Hf H. apply has_ancestor_none_chain in H. pose proof (chain_len s I f x). lia.
Qed.

Lemma chain_stable : forall s f x, List.length (chain s (S f) x) <= f -> chain s (S f) x = chain s f x.
Proof.
  intros s f. induction f as [|f IH]; intros x H.
  - cbn in *. destruct (parent_of s x); [cbn in H; lia|reflexivity].
  - cbn [chain] in *. destruct (parent_of s x) as [p|]; [|reflexivity]. f_equal. apply IH. cbn in H. lia.
Qed.

Definition depth (s : state) (x : nat) : nat := List.length (chain s (List.length (objs s)) x).

Lemma depth_child : forall s, Inv s -> forall k c, In c (children s CComps k) -> depth s c = S (depth s k).
Proof.
  intros s I k c Hc. unfold depth. set (n := List.length (objs s)).
  assert (E : chain s (S n) c = chain s n c) by (apply chain_stable; apply chain_len; assumption).
  rewrite <- E. cbn [chain]. rewrite (inv_cp s I _ _ _ Hc). reflexivity.
Qed.

Lemma depth_bound : forall s, Inv s -> forall k c, In c (children s CComps k) -> depth s k < List.length (objs s).
Proof.
  intros s I k c Hc. pose proof (depth_child s I k c Hc). unfold depth in *.
  pose proof (chain_len s I (List.length (objs s)) c). lia.
Qed.

(** the search of the encapsulated components ends *)
Lemma deep_no_crash : forall {A} s (f : nat -> local A), Inv s -> (forall c, f c <> LCrash) ->
  forall fuel k, fuel + depth s k > List.length (objs s) -> deep fuel s f k <> LCrash.
Proof.
  intros A s f I Hf fuel. induction fuel as [|fu IH]; intros k Hd.
  - cbn in Hd. unfold depth in Hd. pose proof (chain_len s I (List.length (objs s)) k). lia.
  - cbn [deep].
    assert (G : forall l, (forall c, In c l -> In c (children s CComps k)) ->
                (fix go (l : list nat) : local A :=
                   match l with
                   | [] => LRefused
                   | c :: t => match f c with
                               | LDone a => LDone a
                               | LCrash => LCrash
                               | LRefused => match deep fu s f c with
                                             | LDone a => LDone a
                                             | LCrash => LCrash
                                             | LRefused => go t
                                             end
                               end
                   end) l <> LCrash).
    { induction l as [|c t IHl]; intros Hl; [discriminate|]. cbn.
      destruct (f c) as [a| |] eqn:Ef; [discriminate| |exfalso; eapply Hf; eauto].
      assert (Hc : In c (children s CComps k)) by (apply Hl; left; reflexivity).
      destruct (deep fu s f c) as [a| |] eqn:Ed; [discriminate| |].
      - apply IHl. intros c' Hc'. apply Hl. right. assumption.
      - exfalso. eapply IH; [|exact Ed]. rewrite (depth_child s I k c Hc). lia. }
    apply G. auto.
Qed.

Lemma with_deep_no_crash : forall {A} s dp (f : nat -> local A) k, Inv s -> (forall c, f c <> LCrash) ->
  with_deep s dp f k <> LCrash.
Proof.
  intros A s dp f k I Hf. unfold with_deep. destruct (f k) as [a| |] eqn:E; [discriminate| |exfalso; eapply Hf; eauto].
  destruct dp; [|discriminate]. apply deep_no_crash; auto. unfold fuel_of. lia.
Qed.

Section NoCrash.
  Variable seq : state -> nat -> nat -> bool.

  Lemma of_opt_no_crash : forall {A} (o : option A), of_opt o <> LCrash.
  Proof. intros A o. destruct o; discriminate. Qed.

  Lemma replace_at_no_crash : forall s K k io co, Inv s -> replace_at true seq s K k io co <> LCrash.
  Proof.
    intros s K k io co I. unfold replace_at. destruct io as [i|]; [|discriminate].
    destruct (nth_error (children s K k) i) as [old|]; [|discriminate].
    destruct co as [c|]; [|discriminate].
    destruct (ck_eqb K CComps && Nat.eqb c k); [discriminate|].
    destruct (ck_eqb K CComps) eqn:EK.
    - destruct (has_ancestor s (fuel_of s) k c) as [[|]|] eqn:E; [discriminate| |].
      + destruct (Nat.eqb old c); [discriminate|].
        destruct (match parent_of s c with Some _ => _ | None => _ end); [|discriminate].
        unfold replace_core. destruct (detach_at _ K k n) as [[? ?]|]; discriminate.
      + exfalso. eapply has_ancestor_terminates; eauto; unfold fuel_of; lia.
    - destruct (Nat.eqb old c); [discriminate|].
      destruct (match parent_of s c with Some _ => _ | None => _ end); [|discriminate].
      unfold replace_core. destruct (detach_at _ K k n) as [[? ?]|]; discriminate.
  Qed.

  Lemma fin_remove_ok : forall s r, r <> LCrash -> fin_remove s r <> Crash.
  Proof. intros s r H. destruct r; cbn; try discriminate. contradiction. Qed.
  Lemma fin_take_ok : forall s r, r <> LCrash -> fin_take s r <> Crash.
  Proof. intros s r H. destruct r as [[? ?]| |]; cbn; try discriminate. contradiction. Qed.
  Lemma fin_replace_ok : forall s r, r <> LCrash -> fin_replace s r <> Crash.
  Proof. intros s r H. destruct r as [[? ?]| |]; cbn; try discriminate. contradiction. Qed.

  Ltac nc := first [ apply fin_remove_ok | apply fin_take_ok | apply fin_replace_ok ];
             first [ apply of_opt_no_crash
                   | apply with_deep_no_crash; [assumption|]; intros; first [apply of_opt_no_crash | apply replace_at_no_crash; assumption]
                   | apply replace_at_no_crash; assumption ].

  Lemma found_some : forall {A} (r : local A), r <> LCrash -> found r <> None.
  Proof. intros A r H. destruct r; cbn; try discriminate. contradiction. Qed.
  Lemma found_obj_some : forall r, r <> LCrash -> found_obj r <> None.
  Proof. intros r H. destruct r; cbn; try discriminate. contradiction. Qed.
  Lemma obool_some : forall b, b <> None -> obool b <> None.
  Proof. intros b H. destruct b; cbn; [discriminate|contradiction]. Qed.

  (** no query runs forever *)
  Lemma query_eval_total : forall s q, Inv s -> query_eval true seq s q <> None.
  Proof.
    intros s q I. destruct q; cbn [query_eval]; try discriminate.
    - apply obool_some. apply found_some. apply with_deep_no_crash; [assumption|]. intros. apply of_opt_no_crash.
    - apply obool_some. apply found_some. apply with_deep_no_crash; [assumption|]. intros. destruct c; [apply of_opt_no_crash|discriminate].
    - apply found_obj_some. apply with_deep_no_crash; [assumption|]. intros. apply of_opt_no_crash.
    - destruct a as [y|]; [|discriminate]. apply obool_some. apply has_ancestor_terminates; [assumption|]. unfold fuel_of. lia.
  Qed.

  (** no call crashes *)
  Theorem no_crash : forall s o, Inv s -> step true seq s o <> Crash.
  Proof.
    intros s o I. destruct o; cbn [step];
      match goal with |- (if ?c then _ else _) <> _ => destruct c; [|discriminate] end;
      try discriminate; try nc.
    - (* AddComponent *) destruct c as [c|]; [|discriminate]. unfold add_component.
      destruct (kind_is s k KModel); [discriminate|]. destruct (Nat.eqb k c); [discriminate|].
      destruct (has_ancestor s (fuel_of s) k c) as [[|]|] eqn:E; try discriminate.
      exfalso. eapply has_ancestor_terminates; eauto; unfold fuel_of; lia.
    - (* RemoveComponentPtr *) destruct c as [x|].
      + nc.
      + destruct deep; [|discriminate].
        pose proof (with_deep_no_crash s true (fun _ : nat => @LRefused state) k I) as W.
        destruct (with_deep s true (fun _ : nat => @LRefused state) k); try discriminate.
        exfalso. apply W; [discriminate|reflexivity].
    - destruct v; [|discriminate]. unfold add_plain. discriminate.
    - destruct v; [|discriminate]. nc.
    - destruct r; [|discriminate]. unfold add_plain. discriminate.
    - destruct r; [|discriminate]. nc.
    - destruct u; [|discriminate]. unfold add_plain. discriminate.
    - destruct u; [|discriminate]. nc.
    - destruct a; [|discriminate]. destruct b; [|discriminate]. destruct (add_equivalence s n n0). discriminate.
    - destruct a; [|discriminate]. destruct b; [|discriminate]. destruct (add_equivalence s n n0). discriminate.
    - destruct a; [|discriminate]. destruct b; [|discriminate]. destruct (remove_equivalence s n n0). discriminate.
    - (* Query *) pose proof (query_eval_total s q I) as T.
      destruct (query_eval true seq s q) as [[b|[x|]| |]|]; try discriminate. contradiction.
  Qed.

  (** histories never crash *)
  Theorem run_no_crash : forall ops s, Inv s -> no_readds seq s ops -> run true seq s ops <> None.
  Proof.
    induction ops as [|o t IH]; intros s I N; cbn; [discriminate|].
    destruct N as [N1 N2]. destruct (step true seq s o) as [s1 r|] eqn:E.
    - apply IH; [eapply step_inv; eauto|exact N2].
    - exfalso. eapply no_crash; eauto.
  Qed.
End NoCrash.
