(** UnitsFuelProofs.v — C08, round 4: fuel monotonicity of the validator's and the analyser's reducers, and fuel independence
    of their results on acyclic worlds.  Proofs only; nothing here is extracted. *)
From Coq Require Import String Ascii List ZArith QArith Bool Lia Relations.
From LC Require Import Common NumDefs UnitsDefs UnitsSpec UnitsProofs.
From LCGen Require Import UnitTables PrefixTable.
Import ListNotations.
Local Open Scope string_scope.
Local Open Scope Q_scope.

Lemma val_go_mono : forall w f f' mi n uexp lm dir s, (f <= f')%nat ->
  val_go f w mi n uexp lm dir s <> OutOfFuel -> val_go f' w mi n uexp lm dir s = val_go f w mi n uexp lm dir s.
Proof.
  intros w. induction f as [|f0 IH]; intros f' mi n uexp lm dir s Hle H; [contradiction H; reflexivity|].
  destruct f' as [|f0']; [lia|]. rewrite !val_go_S in *.
  destruct (lookup w mi n) as [d|]; [|reflexivity].
  assert (Hb : is_base (S f0) w mi n <> OutOfFuel) by (intros E; rewrite E in H; apply H; reflexivity).
  rewrite (is_base_mono w (S f0) (S f0') mi n Hle Hb).
  destruct (is_base (S f0) w mi n) as [[|]| |]; try reflexivity.
  destruct d as [l|mj r]; [|reflexivity].
  apply fold_res_mono; [|exact H]. intros c x _ Hc.
  destruct (negb (is_std_name (uc_ref c))); [|reflexivity]. apply IH; [lia|exact Hc].
Qed.

Lemma val_side_mono : forall w f f' mi n dir s, (f <= f')%nat ->
  val_side f w mi n dir s <> OutOfFuel -> val_side f' w mi n dir s = val_side f w mi n dir s.
Proof.
  intros w f f' mi n dir s Hle H. unfold val_side in *.
  destruct (lookup w mi n); [apply val_go_mono; assumption|].
  destruct (assoc n (fst s)); [reflexivity|]. destruct (is_std_name n); [apply val_go_mono; assumption|reflexivity].
Qed.

Lemma val_equiv_mono : forall w f f' mi n1 n2, (f <= f')%nat ->
  val_equiv f w mi n1 n2 <> OutOfFuel -> val_equiv f' w mi n1 n2 = val_equiv f w mi n1 n2.
Proof.
  intros w f f' mi n1 n2 Hle H. unfold val_equiv in *.
  set (s0 := (map (fun b : string => (b, 0)) base_units_list, 0)) in *.
  assert (H1 : val_side f w mi n1 1 s0 <> OutOfFuel) by (intros E; rewrite E in H; apply H; reflexivity).
  rewrite (val_side_mono w f f' mi n1 1 s0 Hle H1).
  destruct (val_side f w mi n1 1 s0) as [s1| |]; try reflexivity.
  assert (H2 : val_side f w mi n2 (-1 # 1) s1 <> OutOfFuel) by (intros E; rewrite E in H; apply H; reflexivity).
  rewrite (val_side_mono w f f' mi n2 (-1 # 1) s1 Hle H2). reflexivity.
Qed.

Lemma val_scale_mono : forall w f f' mi n, (f <= f')%nat ->
  val_scale f w mi n <> OutOfFuel -> val_scale f' w mi n = val_scale f w mi n.
Proof.
  intros w f f' mi n Hle H. unfold val_scale in *.
  set (s0 := (map (fun b : string => (b, 0)) base_units_list, 0)) in *.
  assert (H1 : val_side f w mi n 1 s0 <> OutOfFuel) by (intros E; rewrite E in H; apply H; reflexivity).
  rewrite (val_side_mono w f f' mi n 1 s0 Hle H1). reflexivity.
Qed.

Lemma ana_map_go_mono : forall w f f' mi n e acc, (f <= f')%nat ->
  ana_map_go f w mi n e acc <> OutOfFuel -> ana_map_go f' w mi n e acc = ana_map_go f w mi n e acc.
Proof.
  intros w. induction f as [|f0 IH]; intros f' mi n e acc Hle H; [contradiction H; reflexivity|].
  destruct f' as [|f0']; [lia|]. rewrite !ana_map_go_S in *.
  destruct (is_std_name n); [reflexivity|]. destruct (lookup w mi n) as [d|]; [|reflexivity].
  assert (Hb : is_base (S f0) w mi n <> OutOfFuel) by (intros E; rewrite E in H; apply H; reflexivity).
  rewrite (is_base_mono w (S f0) (S f0') mi n Hle Hb).
  destruct (is_base (S f0) w mi n) as [[|]| |]; try reflexivity.
  destruct d as [l|mj r]; [|reflexivity].
  apply fold_res_mono; [|exact H]. intros c x _ Hc.
  destruct (is_std_name (uc_ref c)); [reflexivity|]. apply IH; [lia|exact Hc].
Qed.

Lemma ana_mult_go_mono : forall w f f' mi n e um acc, (f <= f')%nat ->
  ana_mult_go f w mi n e um acc <> OutOfFuel -> ana_mult_go f' w mi n e um acc = ana_mult_go f w mi n e um acc.
Proof.
  intros w. induction f as [|f0 IH]; intros f' mi n e um acc Hle H; [contradiction H; reflexivity|].
  destruct f' as [|f0']; [lia|]. rewrite !ana_mult_go_S in *.
  destruct (is_std_name n); [reflexivity|]. destruct (lookup w mi n) as [d|]; [|reflexivity].
  assert (Hb : is_base (S f0) w mi n <> OutOfFuel) by (intros E; rewrite E in H; apply H; reflexivity).
  rewrite (is_base_mono w (S f0) (S f0') mi n Hle Hb).
  destruct (is_base (S f0) w mi n) as [[|]| |]; try reflexivity.
  destruct d as [l|mj r]; [|reflexivity].
  apply fold_res_mono; [|exact H]. intros c x _ Hc.
  destruct (is_std_name (uc_ref c)); [reflexivity|]. apply IH; [lia|exact Hc].
Qed.

Lemma ana_map_mono : forall w f f' mi n, (f <= f')%nat ->
  ana_map f w mi n <> OutOfFuel -> ana_map f' w mi n = ana_map f w mi n.
Proof. intros. unfold ana_map. apply ana_map_go_mono; assumption. Qed.

Lemma ana_scale_mono : forall w f f' mi n, (f <= f')%nat ->
  ana_scale f w mi n <> OutOfFuel -> ana_scale f' w mi n = ana_scale f w mi n.
Proof. intros. unfold ana_scale. apply ana_mult_go_mono; assumption. Qed.

(* an answer of the analyser's verdict (no null dereference) stays *)
Lemma ana_equiv_mono : forall w f f' mi n1 n2 b, (f <= f')%nat ->
  ana_equiv f w mi n1 n2 = Ok b -> ana_equiv f' w mi n1 n2 = Ok b.
Proof.
  intros w f f' mi n1 n2 b Hle H. unfold ana_equiv in *.
  destruct (ana_map f w mi n1) as [m1| |] eqn:E1; destruct (ana_map f w mi n2) as [m2| |] eqn:E2;
    destruct (ana_scale f w mi n1) as [s1| |] eqn:E3; destruct (ana_scale f w mi n2) as [s2| |] eqn:E4; try discriminate.
  rewrite (ana_map_mono w f f' mi n1 Hle), (ana_map_mono w f f' mi n2 Hle),
          (ana_scale_mono w f f' mi n1 Hle), (ana_scale_mono w f f' mi n2 Hle), E1, E2, E3, E4;
    try (rewrite ?E1, ?E2, ?E3, ?E4; discriminate). exact H.
Qed.

(** On an acyclic world, every fuel above the number of units objects gives the validator's and the analyser's reducers the
    answer they give at the drivers' fuel. *)
Lemma fuel_independent_val_ana : forall w f, acyclic w -> (world_size w < f)%nat ->
  (forall mi n1 n2, val_equiv f w mi n1 n2 = val_equiv (fuel_for w) w mi n1 n2 /\ val_equiv f w mi n1 n2 <> OutOfFuel) /\
  (forall mi n, val_scale f w mi n = val_scale (fuel_for w) w mi n) /\
  (forall mi n, ana_map f w mi n = ana_map (fuel_for w) w mi n /\ ana_scale f w mi n = ana_scale (fuel_for w) w mi n) /\
  (forall mi n1 n2, ana_equiv f w mi n1 n2 = ana_equiv (fuel_for w) w mi n1 n2 /\ ana_equiv f w mi n1 n2 <> OutOfFuel).
Proof.
  intros w f Hac Hf. unfold fuel_for.
  assert (Hle : (S (world_size w) <= f)%nat) by lia.
  assert (ND : forall mi n, ~ deep w (S (world_size w)) mi n).
  { intros mi n. apply acyclic_not_deep; [exact Hac|lia]. }
  destruct (reducers_terminate unfixed (S (world_size w)) w Hac (Nat.lt_succ_diag_r _)) as [_ [T2 _]].
  destruct (reducers_terminate unfixed f w Hac Hf) as [_ [T2' _]].
  assert (AM : forall mi n, ana_map (S (world_size w)) w mi n <> OutOfFuel).
  { intros mi n H. apply (ND mi n). apply (ana_map_go_deep w _ _ _ _ _ H). }
  assert (AS : forall mi n, ana_scale (S (world_size w)) w mi n <> OutOfFuel).
  { intros mi n H. apply (ND mi n). apply (ana_mult_go_deep w _ _ _ _ _ _ H). }
  assert (VS : forall mi n, val_scale (S (world_size w)) w mi n <> OutOfFuel).
  { intros mi n H. unfold val_scale in H.
    destruct (val_side (S (world_size w)) w mi n 1 (map (fun b : string => (b, 0)) base_units_list, 0)) eqn:E; try discriminate.
    unfold val_side in E. destruct (lookup w mi n).
    - apply (ND mi n), (val_go_deep w _ _ _ _ _ _ _ E).
    - destruct (assoc n _); [discriminate|]. destruct (is_std_name n); [|discriminate].
      apply (ND mi n), (val_go_deep w _ _ _ _ _ _ _ E). }
  split; [|split; [|split]].
  - intros mi n1 n2. split; [apply val_equiv_mono; [exact Hle|apply T2]|apply T2'].
  - intros mi n. apply val_scale_mono; [exact Hle|apply VS].
  - intros mi n. split; [apply ana_map_mono; [exact Hle|apply AM]|apply ana_scale_mono; [exact Hle|apply AS]].
  - intros mi n1 n2. split; [|apply T2'].
    unfold ana_equiv.
    rewrite (ana_map_mono w _ f mi n1 Hle (AM mi n1)), (ana_map_mono w _ f mi n2 Hle (AM mi n2)),
            (ana_scale_mono w _ f mi n1 Hle (AS mi n1)), (ana_scale_mono w _ f mi n2 Hle (AS mi n2)). reflexivity.
Qed.

(** The agreement of the three scale formulas on agree_cond, at every fuel from the one at which agree_cond holds. *)
Lemma three_agree_every_fuel : forall fx f f' w mi n, agree_cond f w mi n = true -> (f <= f')%nat ->
  exists u v a, mult_go fx f' w mi n = Ok (Some u) /\ val_scale f' w mi n = Ok v /\ ana_scale f' w mi n = Ok a /\
                v == u /\ a == u /\
                mult_go fx f' w mi n = mult_go fx f w mi n /\ val_scale f' w mi n = val_scale f w mi n /\
                ana_scale f' w mi n = ana_scale f w mi n.
Proof.
  intros fx f f' w mi n H Hle.
  destruct (three_agree_partial fx f w mi n H) as [u [v [a [U [V [A [E1 E2]]]]]]].
  assert (U' : mult_go fx f' w mi n = mult_go fx f w mi n) by (apply mult_go_mono; [exact Hle|rewrite U; discriminate]).
  assert (V' : val_scale f' w mi n = val_scale f w mi n) by (apply val_scale_mono; [exact Hle|rewrite V; discriminate]).
  assert (A' : ana_scale f' w mi n = ana_scale f w mi n) by (apply ana_scale_mono; [exact Hle|rewrite A; discriminate]).
  exists u, v, a. rewrite U', V', A'. repeat split; assumption.
Qed.

Lemma fuel_val_ana_nonvacuous :
  acyclic w_mm /\ (world_size w_mm < 40)%nat /\ agree_cond 5 w_mm 0 "mm" = true /\
  val_equiv 40 w_mm 0 "mm2" "m2" = Ok (true, -6 # 1) /\ ana_scale 40 w_mm 0 "mm_sq" = Ok (-6 # 1) /\
  ana_equiv 40 w_mm 0 "mm" "mm" = Ok true.
Proof.
  split; [exact acyclic_w_mm|]. split; [vm_compute; lia|]. split; [vm_compute; reflexivity|].
  assert (Hf : (world_size w_mm < 40)%nat) by (vm_compute; lia).
  destruct (fuel_independent_val_ana w_mm 40 acyclic_w_mm Hf) as [V [_ [A Q]]].
  split; [rewrite (proj1 (V _ _ _)); vm_compute; reflexivity|].
  split; [rewrite (proj2 (A _ _)); vm_compute; reflexivity|].
  rewrite (proj1 (Q _ _ _)). vm_compute. reflexivity.
Qed.
