(** HeapWitness.v — C09: step-level corollaries, witnesses against the code before the "fix:" commits (model with
    [fixed = false]), and non-vacuity examples; all by computation on the extracted model [step_conc]. *)
From Coq Require Import List String Bool Arith PeanoNat Lia.
From LC Require Import HeapDefs HeapBase HeapInv HeapOps HeapProofs HeapFrame.
Import ListNotations.
Local Open Scope string_scope.

Section Exact.
  Variable seq : state -> nat -> nat -> bool.

  (** by-pointer removal of a child removes exactly that child (all four kinds; components: without search) *)
  Theorem step_remove_child_exact : forall s k x,
    (recv s k CVars = true -> arg_ok s x KVar = true -> In x (children s CVars k) ->
       exists i, nth_error (children s CVars k) i = Some x /\
                 step true seq s (RemoveVariablePtr k (Some x)) = Ok (gc (detached s CVars k i x)) (RBool true)) /\
    (recv s k CResets = true -> arg_ok s x KReset = true -> In x (children s CResets k) ->
       exists i, nth_error (children s CResets k) i = Some x /\
                 step true seq s (RemoveResetPtr k (Some x)) = Ok (gc (detached s CResets k i x)) (RBool true)) /\
    (recv s k CUnits = true -> arg_ok s x KUnits = true -> In x (children s CUnits k) ->
       exists i, nth_error (children s CUnits k) i = Some x /\
                 step true seq s (RemoveUnitsPtr k (Some x)) = Ok (gc (detached s CUnits k i x)) (RBool true)) /\
    (recv s k CComps = true -> arg_ok s x KComp = true -> In x (children s CComps k) ->
       exists i, nth_error (children s CComps k) i = Some x /\
                 step true seq s (RemoveComponentPtr k (Some x) false) = Ok (gc (detached s CComps k i x)) (RBool true)).
  Proof.
    intros s k x. repeat split; intros Hr Ha Hin;
      destruct (remove_ptr_local_in seq _ _ _ _ Hin) as [i [Hn E]]; exists i; (split; [exact Hn|]);
      cbn [step oarg_ok]; rewrite Hr, Ha; cbn [andb]; unfold with_deep; rewrite E; reflexivity.
  Qed.
End Exact.

(** after destruction only live variables are listed as equivalent (liveness as computed when the call finished) *)
Lemma eqs_live_after_gc : forall s a b, In b (eqs_of (gc s) a) -> alive s b = true /\ alive s a = true.
Proof.
  intros s a b H. unfold gc in H. rewrite gc_eqs in H. fold (alive s a) in H.
  destruct (alive s a) eqn:La; [|destruct H]. apply filter_In in H. destruct H as [_ H]. split; [exact H|reflexivity].
Qed.

(* ------------------------------------------------------------------------------------------------ before the fixes *)

Definition U1 : list (kind * string) := [(KModel, "m"); (KComp, "a"); (KComp, "a"); (KModel, "m")].
Definition U2 : list (kind * string) := [(KComp, "a"); (KComp, "b"); (KVar, "x"); (KVar, "x"); (KUnits, "u"); (KUnits, "u"); (KModel, "m")].

(** look-alike removal (DESIGN row 15): removeComponent(c2) with an identical sibling c1 erases c1 and clears c2's parent *)
Lemma unfixed_lookalike_removal :
  exists s', run false seq_conc (init U1) [AddComponent 0 (Some 1); AddComponent 0 (Some 2); RemoveComponentPtr 0 (Some 2) false] = Some s' /\
             children s' CComps 0 = [2] /\ parent_of s' 2 = None /\ parent_of s' 1 = Some 0.
Proof. eexists. vm_compute. repeat split. Qed.

(** look-alike move (row 16): addVariable(v2) to b erases v1 from a, v2 is listed by both *)
Lemma unfixed_lookalike_move :
  exists s', run false seq_conc (init U2) [AddVariable 0 (Some 2); AddVariable 0 (Some 3); AddVariable 1 (Some 3)] = Some s' /\
             children s' CVars 0 = [3] /\ children s' CVars 1 = [3].
Proof. eexists. vm_compute. repeat split. Qed.

(** self-insertion of a parented component (row 17): own parent, and the next ancestor query never ends *)
Lemma unfixed_self_parent :
  (exists s', run false seq_conc (init U1) [AddComponent 0 (Some 1); AddComponent 1 (Some 1)] = Some s' /\
              parent_of s' 1 = Some 1 /\ children s' CComps 1 = [1]) /\
  run false seq_conc (init U1) [AddComponent 0 (Some 1); AddComponent 1 (Some 1); AddComponent 1 (Some 2)] = None.
Proof. split; [eexists|]; vm_compute; repeat split. Qed.

(** null arguments (row 18) *)
Lemma unfixed_null_crashes :
  step false seq_conc (init U2) (AddEquivalence4 (Some 2) None) = Crash /\
  (exists s1 r, step false seq_conc (init U1) (AddComponent 0 (Some 1)) = Ok s1 r /\
                step false seq_conc s1 (ReplaceComponentIdx 0 0 None) = Crash) /\
  (exists s1 r, step false seq_conc (init U2) (AddUnits 6 (Some 4)) = Ok s1 r /\
                step false seq_conc s1 (ReplaceUnitsIdx 6 0 None) = Crash).
Proof. split; [|split]; [|eexists; eexists|eexists; eexists]; vm_compute; repeat split. Qed.

(** replacement by an entity held elsewhere: listed by two containers *)
Lemma unfixed_replace_two_listers :
  exists s', run false seq_conc (init U1) [AddComponent 0 (Some 1); AddComponent 3 (Some 2); ReplaceComponentIdx 0 0 (Some 2)] = Some s' /\
             children s' CComps 0 = [2] /\ children s' CComps 3 = [2].
Proof. eexists. vm_compute. repeat split. Qed.

(* ------------------------------------------------------------------------------------------------ the same histories after the fixes; non-vacuity *)

Definition H1 : list op := [AddComponent 0 (Some 1); AddComponent 0 (Some 2); RemoveComponentPtr 0 (Some 2) false].
Definition H2 : list op := [AddVariable 0 (Some 2); AddVariable 0 (Some 3); AddVariable 1 (Some 3);
                            AddEquivalence (Some 2) (Some 3); AddUnits 6 (Some 4); SetUnits 2 (Some 4); Release 0].

Lemma fixed_histories :
  (exists s', run true seq_conc (init U1) H1 = Some s' /\ children s' CComps 0 = [1] /\ parent_of s' 2 = None /\ parent_of s' 1 = Some 0) /\
  (exists s', run true seq_conc (init U2) H2 = Some s' /\
              children s' CVars 1 = [3] /\ parent_of s' 3 = Some 1 /\
              (* component 0 is destroyed: variable 2 has lost its owner, stays equivalent to 3, keeps its units alive *)
              alive s' 0 = false /\ parent_of s' 2 = None /\ eqs_of s' 2 = [3] /\ eqs_of s' 3 = [2] /\ alive s' 4 = true) /\
  step true seq_conc (init U2) (AddEquivalence4 (Some 2) None) = Ok (init U2) (RBool false) /\
  (exists s1 r, step true seq_conc (init U1) (AddComponent 0 (Some 1)) = Ok s1 r /\
                step true seq_conc s1 (AddComponent 1 (Some 1)) = Ok s1 (RBool false) /\
                step true seq_conc s1 (ReplaceComponentIdx 0 0 None) = Ok s1 (RBool false)).
Proof.
  split; [|split; [|split]].
  - eexists. vm_compute. repeat split.
  - eexists. vm_compute. repeat split.
  - vm_compute. reflexivity.
  - eexists. eexists. vm_compute. repeat split.
Qed.

Lemma histories_in_claim : no_readds seq_conc (init U1) H1 /\ no_readds seq_conc (init U2) H2.
Proof. split; vm_compute; repeat split. Qed.

(** a re-add to the current parent is really outside: the entity is then listed twice (pinned by the library's tests) *)
Lemma readd_lists_twice :
  exists s', run true seq_conc (init U1) [AddComponent 0 (Some 1); AddComponent 0 (Some 1)] = Some s' /\
             children s' CComps 0 = [1; 1] /\
             readds (init U1) (AddComponent 0 (Some 1)) = false.
Proof. eexists. vm_compute. repeat split. Qed.

(** bad arguments that are not null: never added / owner destroyed / one past the end / unknown name *)
Lemma bad_arg_examples :
  bad_arg true seq_conc (init U2) (RemoveVariablePtr 0 (Some 2)) = true /\
  bad_arg true seq_conc (init U2) (TakeVariableIdx 0 0) = true /\
  bad_arg true seq_conc (init U2) (RemoveUnitsName 6 "zz") = true /\
  bad_arg true seq_conc (init U1) (RemoveComponentName 0 "a" true) = true /\
  (exists s', run true seq_conc (init U2) [AddVariable 0 (Some 2)] = Some s' /\
              bad_arg true seq_conc s' (RemoveVariablePtr 0 (Some 3)) = false /\      (* matched to the look-alike *)
              bad_arg true seq_conc s' (RemoveVariablePtr 1 (Some 2)) = true /\       (* a child of another component *)
              bad_arg true seq_conc s' (TakeVariableIdx 0 1) = true).                 (* one past the end *)
Proof. repeat split; try (vm_compute; reflexivity). eexists. vm_compute. repeat split. Qed.
