(** HeapFrame.v — C09: "removal, take, replacement or moving of an object that is a child affects exactly that
    object": frame lemmas for the building blocks of remove / take / add / replace, and what they mean for [step]. *)
From Coq Require Import List String Bool Arith PeanoNat Lia.
From LC Require Import HeapDefs HeapBase HeapInv HeapOps HeapProofs.
Import ListNotations.

Lemma detached_frame : forall s K k i x y, y <> k -> y <> x -> getd (detached s K k i x) y = getd s y.
Proof.
  intros s K k i x y Hk Hx. unfold detached, erase_child, set_parent_of, set_children.
  rewrite getd_upd_other by congruence. rewrite getd_upd_other by congruence. reflexivity.
Qed.

(** what happens to the two objects involved *)
Lemma detached_container : forall s K k i x, inr s k -> k <> x ->
  getd (detached s K k i x) k = set_clist K (remove_nth i (children s K k)) (getd s k).
Proof.
  intros s K k i x Hk Hne. unfold detached, erase_child, set_parent_of, set_children.
  rewrite getd_upd_other by congruence. rewrite getd_upd_same by assumption. reflexivity.
Qed.

Lemma detached_child : forall s K k i x, inr s x -> k <> x ->
  getd (detached s K k i x) x = set_parent None (getd s x).
Proof.
  intros s K k i x Hx Hne. unfold detached, erase_child, set_parent_of, set_children.
  rewrite getd_upd_same by (unfold inr; rewrite length_upd; exact Hx). rewrite getd_upd_other by congruence. reflexivity.
Qed.

Section Frame.
  Variable seq : state -> nat -> nat -> bool.

  (** remove / take by index: only the container and the erased child change *)
  Theorem detach_frame : forall s K k i s' x, detach_at s K k i = Some (s', x) ->
    nth_error (children s K k) i = Some x /\ forall y, y <> k -> y <> x -> getd s' y = getd s y.
  Proof.
    intros s K k i s' x H. apply detach_at_spec in H. destruct H as [Hn ->]. split; [assumption|].
    intros y Hk Hx. apply detached_frame; assumption.
  Qed.

  (** remove by pointer: a child is removed itself, whatever look-alikes precede it *)
  Theorem remove_child_exact : forall s K k x s', In x (children s K k) ->
    remove_ptr_local true seq s K k x = Some s' ->
    exists i, nth_error (children s K k) i = Some x /\ s' = detached s K k i x.
  Proof.
    intros s K k x s' Hin H. destruct (remove_ptr_local_in seq _ _ _ _ Hin) as [i [Hn E]].
    rewrite E in H. inversion H; subst. eauto.
  Qed.

  (** an object that is not a child is refused, or matched to a structurally equal child whose own links are updated *)
  Theorem remove_nonchild_matched : forall s K k x s', ~ In x (children s K k) ->
    remove_ptr_local true seq s K k x = Some s' ->
    exists i y, nth_error (children s K k) i = Some y /\ seq s y x = true /\ s' = detached s K k i y.
  Proof.
    intros s K k x s' Hni H. unfold remove_ptr_local in H. cbn [orb] in H.
    destruct (find_child true seq s K k x) as [i|] eqn:E; [|discriminate].
    unfold find_child in E. cbn [orb] in E.
    destruct (index_of x (children s K k)) as [j|] eqn:Ej.
    { exfalso. apply Hni. apply index_of_some in Ej. eapply nth_error_In; eauto. }
    apply find_index_some in E. destruct E as [y [Hy Hs]].
    unfold detach_at in H. rewrite Hy in H. cbn in H. inversion H; subst. exists i, y. auto.
  Qed.

  (** moving: besides the new container and the moved object only the previous parent changes, and it loses exactly
      the moved object *)
  Theorem attach_frame : forall s K k c, Inv s -> kindd s c = child_kind K ->
    forall y, y <> k -> y <> c -> parent_of s c <> Some y -> getd (attach true seq s K k c) y = getd s y.
  Proof.
    intros s K k c I Hkc y Hk Hc Hp. unfold attach, push_child, set_children, set_parent_of.
    rewrite getd_upd_other by congruence. rewrite getd_upd_other by congruence.
    unfold leave_parent. destruct (parent_of s c) as [p|] eqn:E; [|reflexivity].
    destruct (oeqb (Some p) (Some k)); [reflexivity|].
    destruct (inv_ln s I _ _ E) as [K' HK'].
    assert (K' = K). { apply child_kind_inj. destruct (inv_ty s I _ _ _ HK') as [A _]. congruence. } subst K'.
    destruct (remove_ptr_local_in seq _ _ _ _ HK') as [i [Hn ->]].
    apply detached_frame; congruence.
  Qed.

  Theorem attach_old_parent : forall s K k c p, Inv s -> kindd s c = child_kind K -> parent_of s c = Some p -> p <> k ->
    exists i, nth_error (children s K p) i = Some c /\
              leave_parent true seq s K c (Some k) = detached s K p i c.
  Proof.
    intros s K k c p I Hkc E Hne. unfold leave_parent. rewrite E.
    assert (O : oeqb (Some p) (Some k) = false) by (cbn; apply Nat.eqb_neq; assumption). rewrite O.
    destruct (inv_ln s I _ _ E) as [K' HK'].
    assert (K' = K). { apply child_kind_inj. destruct (inv_ty s I _ _ _ HK') as [A _]. congruence. } subst K'.
    destruct (remove_ptr_local_in seq _ _ _ _ HK') as [i [Hn ->]]. eauto.
  Qed.

  (** replacement: container, replaced child, replacement and the replacement's previous parent *)
  Theorem replace_frame : forall s K k io c s' b, Inv s -> kindd s c = child_kind K ->
    replace_at true seq s K k io (Some c) = LDone (s', b) ->
    exists i old, io = Some i /\ nth_error (children s K k) i = Some old /\
      forall y, y <> k -> y <> old -> y <> c -> parent_of s c <> Some y -> getd s' y = getd s y.
  Proof.
    intros s K k io c s' b I Hkc H. unfold replace_at in H.
    destruct io as [i|]; [|discriminate].
    destruct (nth_error (children s K k) i) as [old|] eqn:Hn; [|discriminate].
    exists i, old. split; [reflexivity|split; [exact Hn|]]. intros y Hk Ho Hc Hp.
    destruct (ck_eqb K CComps && Nat.eqb c k); [discriminate|].
    destruct (if ck_eqb K CComps then has_ancestor s (fuel_of s) k c else Some false) as [[|]|]; try discriminate.
    destruct (Nat.eqb old c); [inversion H; subst; reflexivity|].
    set (s1 := leave_parent true seq s K c None) in *.
    assert (E1 : getd s1 y = getd s y).
    { subst s1. unfold leave_parent. destruct (parent_of s c) as [p|] eqn:E; [|reflexivity]. cbn [oeqb].
      destruct (inv_ln s I _ _ E) as [K' HK'].
      assert (K' = K). { apply child_kind_inj. destruct (inv_ty s I _ _ _ HK') as [A _]. congruence. } subst K'.
      destruct (remove_ptr_local_in seq _ _ _ _ HK') as [j [Hj ->]]. apply detached_frame; congruence. }
    assert (Hj : forall j, (match parent_of s c with Some _ => index_of old (children s1 K k) | None => Some i end) = Some j ->
                           nth_error (children s1 K k) j = Some old).
    { intros j Hj. destruct (parent_of s c) eqn:Epc.
      - apply index_of_some. assumption.
      - inversion Hj; subst j. subst s1. unfold leave_parent. rewrite Epc. assumption. }
    destruct (match parent_of s c with Some _ => index_of old (children s1 K k) | None => Some i end) as [j|].
    2:{ inversion H; subst. exact E1. }
    specialize (Hj j eq_refl).
    unfold replace_core, detach_at in H. rewrite Hj in H. inversion H; subst s' b.
    unfold set_parent_of at 1. rewrite getd_upd_other by congruence.
    unfold insert_child, set_children. rewrite getd_upd_other by congruence.
    change (getd (detached s1 K k j old) y = getd s y). rewrite detached_frame by congruence. exact E1.
  Qed.
End Frame.
