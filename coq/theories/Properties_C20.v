(** Properties_C20.v — statements only.  Each theorem is closed by [exact <lemma>] and followed by Print Assumptions.
    C20: external variables turn unknowns into inputs without disturbing the rest.

    Model: ExternalDefs.v (marks, addDependency, the primaryExternalVariables block of analyseModel with its three
    messages, hasExternalVariables, isStateRateBased, isToBeComputedAgain, generateEquationCode and the four generated
    methods as statement sequences) on top of C05's AnalysisDefs.v (mIsExternal, third pass, NLA-unknown pruning,
    EXTERNAL types).  [analyse_x true] is the code with fixes/C20-voi-external.diff, [analyse_x false] the code before;
    [sfx] / [sibling_fix]: the generator with / without fixes/C20-nla-sibling-dependencies.diff. *)
From Coq Require Import List Bool Arith.
From LC Require Import AnalysisDefs AnalysisSpec AnalysisOwnProofs ExternalDefs ExternalEmitProofs ExternalMarkProofs ExternalProofs ExternalWitness
                       ExternalMsgProofs ExternalOwnProofs ExternalWitness2 ExternalNlaProofs ExternalDepsProofs ExternalDepsConvProofs ExternalRound7Proofs.
Import ListNotations.

(** ** The model is C05's *)

(** Without the repair, the analysis with marks is literally AnalysisDefs.analyse_ext on the marks that name variables of
    the model; without marks both codes are C05's [analyse]. *)
Theorem C20_unrepaired_model_is_analyse_ext : forall s marks,
  xr_outcome (analyse_x false s marks) = analyse_ext s (local_marks marks).
Proof. exact ExternalProofs.analyse_x_unfixed. Qed.
Print Assumptions C20_unrepaired_model_is_analyse_ext.

Theorem C20_no_marks_is_analyse : forall fixed s, xr_outcome (analyse_x fixed s []) = analyse s.
Proof. exact ExternalProofs.analyse_x_no_marks. Qed.
Print Assumptions C20_no_marks_is_analyse.

(** ** What marks do (the lemma everything else rests on)

    For marks that name variables of the model (or of another model), the whole analysis is the UNMARKED first stages
    (build, initial-value checks, analyseEquationAst) followed by the do/while loop and the second half of analyseModel
    run on the unmarked internal variables re-marked pointwise: mIsExternal / mDependencies set at the position on which
    the first mark of its class lands, unless that internal variable is the variable of integration. *)
Theorem C20_marks_characterised : forall s marks, marks_in_range s marks ->
  (xr_outcome (analyse_x true s marks), xr_has_ext (analyse_x true s marks)) = spec_x s marks.
Proof. exact ExternalMarkProofs.analyse_x_spec. Qed.
Print Assumptions C20_marks_characterised.

(** ** externals_exact *)

(** In a valid result a variable is of type EXTERNAL exactly when its class is marked through a variable of the model
    and it is not the variable of integration. *)
Theorem C20_externals_exact : forall s marks r,
  marks_in_range s marks -> xr_outcome (analyse_x true s marks) = Done r -> valid_type (r_type r) = true ->
  forall a, In a (all_avars r) ->
    (av_type a = AExternal <->
     In (cls_of s (av_var a)) (marked_classes s marks) /\ is_voi_class s r (cls_of s (av_var a)) = false).
Proof. exact ExternalProofs.externals_exact. Qed.
Print Assumptions C20_externals_exact.

(** "... with a placeholder equation of type EXTERNAL": exactly one equation, of type EXTERNAL, computing only the
    variable, whose dependencies are the equations computing the declared dependencies.

    REFUTED as stated, in a corner that C05 owns: the analyser declares valid a model in which a state is computed by no
    equation (one equation for two rates); such a state marked as external is an EXTERNAL variable without any equation.
    Model and library agree (Analyser output identical; the Generator crashes on the unmarked model: state->equation(0)
    is null).  Known finding C20-external-without-equation. *)
Theorem C20_placeholder_refuted :
  match result_of (analyse_x true sysD []), result_of (analyse_x true sysD mark_x) with
  | Some r0, Some r1 =>
      r_type r0 = MOde /\ map (fun a => (av_var a, av_eqs a)) (r_states r0) = [((0, 1), []); ((0, 2), [])] /\ r_eqs r0 = [] /\
      r_type r1 = MOde /\ map (fun a => (av_var a, av_type a, av_eqs a)) (r_vars r1) = [((0, 1), AExternal, [])] /\ r_eqs r1 = []
  | _, _ => False
  end.
Proof. exact ExternalWitness2.placeholder_refuted. Qed.
Print Assumptions C20_placeholder_refuted.

(** The part of the clause that is proved: C05's one-definer invariant holds at the end of the do/while loop of the
    MARKED analysis too (C05 proves it for loops without external variables; the third pass only turns UNKNOWN into
    INITIALISED, for which the invariant asks the same).  So when the loop stops every internal variable — external or
    not — with a direct type is listed by exactly one equation, which lists nothing else and whose type matches; an NLA
    unknown with an initial guess only by NLA equations; every other one (a marked constant, an unknown rescued by the
    third pass, a state that never got its index) by none. *)
Theorem C20_one_definer_with_externals : forall s marks b ivs0 es0 st es1,
  marks_in_range s marks -> build s = Some (ivs0, es0) ->
  let U := vs_ivs (analyse_asts s ivs0 es0) in
  loop s (loop_fuel es0) 1 false (mkCs (map (state_rescue b) (remark (eff s ivs0 U marks) 0 U)) 0 0) es0 = Some (st, es1) ->
  own_inv (cs_ivs st) es1.
Proof. exact ExternalOwnProofs.one_definer_with_externals. Qed.
Print Assumptions C20_one_definer_with_externals.

(** NLA grouping is computed on the PRUNED unknown sets: when the walk of analyseModel stands on the NLA equation k, the
    siblings it records for it are exactly the other NLA equations that share with it an unknown that is NOT marked as
    external — two NLA equations whose only common unknown is an external variable are not siblings.  (Direct siblings;
    the NLA system index is propagated along them during the same walk, which is not transitive in general: C05's known
    finding C05-nla-system-split.) *)
Theorem C20_nla_grouping_after_pruning : forall ivs st k,
  let es := ns_es st in
  k < length es -> is_nla (gete es k) = true ->
  ie_sibs (gete (ns_es (nla_step ivs st k)) k) =
  ie_sibs (gete es k) ++
  filter (fun j => negb (j =? k) && is_nla (gete es j) && shares_kept_unknown ivs es k j) (seq 0 (length es)).
Proof. exact ExternalNlaProofs.nla_grouping_after_pruning. Qed.
Print Assumptions C20_nla_grouping_after_pruning.

Example C20_nla_grouping_example :
  let nla r := map (fun e => (ae_id e, ae_vars e, ae_nla e, ae_sibs e)) (filter (fun e => qtype_eqb (ae_type e) QNla) (r_eqs r)) in
  option_map (fun r => (r_type r, nla r)) (result_of (analyse_x true sysN [])) =
    Some (MNla, [(Some 1001, [(0, 0); (0, 2)], Some 0, [1]); (Some 1002, [(0, 1); (0, 2)], Some 0, [0])]) /\
  option_map (fun r => (r_type r, nla r)) (result_of (analyse_x true sysN mark_e)) =
    Some (MNla, [(Some 1001, [(0, 0)], Some 0, []); (Some 1002, [(0, 1)], Some 1, [])]).
Proof. exact ExternalWitness2.grouping_example. Qed.
Print Assumptions C20_nla_grouping_example.

(* NOT PROVED (the _partial of the refutation above): for an external variable whose internal variable is not a state left
   without index, av_eqs a = [ae_pos e] with e in r_eqs r, ae_type e = QExternal, ae_vars e = [av_var a], and ae_deps e = the
   populated equations of the declared dependencies.  What is missing after C20_one_definer_with_externals is the
   re-packaging: (i) nla_group with pruning (an external unknown leaves every NLA equation and gets ONE added equation; an
   NLA equation left without unknown is erased; sibling lists are renumbered), for which C05 only has the external-free
   case (nla_group_core); (ii) that an INITIALISED_ALGEBRAIC variable has at least one owner; (iii) requalification and
   the dummy equations of constants keep the unknown lists; (iv) make_avars / make_aeq / clean_deps.  Evaluated on every
   run: on the implementation's output for every valid marked case (checks/c20.py oracle (a)) and on the extracted model
   for all small systems (search: placeholder_bad = 0 of 284 790 valid marked analyses); the E= field (dependencies) is
   compared with the library field by field. *)

(** Before the repair the "not the variable of integration" part is FALSE: the variable of integration marked as
    external gets the message and still becomes an EXTERNAL variable that no equation computes. *)
Theorem C20_externals_exact_voi_refuted :
  match result_of (analyse_x false sysA []), result_of (analyse_x false sysA mark_voi) with
  | Some r0, Some r1 =>
      valid_type (r_type r0) = true /\ valid_type (r_type r1) = true /\
      xr_messages (analyse_x false sysA mark_voi) = [mkXissue XVoi (XLocal (0, 0))] /\
      length (r_vars r1) = S (length (r_vars r0)) /\
      xr_has_ext (analyse_x false sysA mark_voi) = true /\
      exists a, In a (r_vars r1) /\ av_type a = AExternal /\ voi_class sysA r1 = Some (cls_of sysA (av_var a)) /\ av_eqs a = []
  | _, _ => False
  end.
Proof. exact ExternalWitness.voi_marked_unfixed. Qed.
Print Assumptions C20_externals_exact_voi_refuted.

(** ** marking_messages *)

(** A variable of another model: never changes the analysis, and is reported. *)
Theorem C20_foreign_marks_ignored : forall s marks, marks_in_range s marks ->
  xr_outcome (analyse_x true s marks) = xr_outcome (analyse_x true s (filter is_local_mark marks)) /\
  xr_has_ext (analyse_x true s marks) = xr_has_ext (analyse_x true s (filter is_local_mark marks)).
Proof. exact ExternalProofs.foreign_marks_ignored. Qed.
Print Assumptions C20_foreign_marks_ignored.

Theorem C20_foreign_mark_message : forall s marks ivs0 es0,
  resolvable s = true -> build s = Some (ivs0, es0) -> check_inits s ivs0 0 s = [] ->
  vs_issues (analyse_asts s ivs0 es0) = [] ->
  forall m k, In m marks -> xm_var m = XForeign k ->
  In (mkXissue XDifferentModel (XForeign k)) (xr_messages (analyse_x true s marks)).
Proof. exact ExternalProofs.foreign_message. Qed.
Print Assumptions C20_foreign_mark_message.

(** A non-primary member of an equivalence class: which member of a class carries the mark never changes the analysis
    (same declared dependencies); a class that is marked only through variables other than the one the analyser holds
    for it gets a message naming that primary variable. *)
Theorem C20_member_choice_irrelevant : forall s marks marks',
  marks_in_range s marks -> marks_in_range s marks' -> Forall2 (same_class_mark s) marks marks' ->
  xr_outcome (analyse_x true s marks) = xr_outcome (analyse_x true s marks') /\
  xr_has_ext (analyse_x true s marks) = xr_has_ext (analyse_x true s marks').
Proof. exact ExternalProofs.member_choice_irrelevant. Qed.
Print Assumptions C20_member_choice_irrelevant.

Theorem C20_non_primary_mark_message : forall s marks ivs0 es0,
  resolvable s = true -> build s = Some (ivs0, es0) -> check_inits s ivs0 0 s = [] ->
  vs_issues (analyse_asts s ivs0 es0) = [] -> marks_in_range s marks ->
  forall m r, In m marks -> xm_var m = XLocal r ->
  (forall m' r', In m' marks -> xm_var m' = XLocal r' -> cls_of s r' = cls_of s r -> r' <> primary_at_marking s r) ->
  exists key rule, cls_of s key = cls_of s r /\ (rule = XVoi \/ rule = XUsePrimary) /\
                   In (mkXissue rule (XLocal key)) (xr_messages (analyse_x true s marks)).
Proof. exact ExternalProofs.non_primary_message. Qed.
Print Assumptions C20_non_primary_mark_message.
(** The property's sentence, exactly: marking a NON-PRIMARY member of an equivalence class is reported with a message.
    Whatever else is marked, every mark on a variable that is not the variable the analyser holds for its class when
    the marks are read ([primary_at_marking]) yields a MESSAGE on that primary variable (USE_PRIMARY_VARIABLE, or VOI
    when the class is the variable of integration) — and by C20_member_choice_irrelevant the analysis is the one obtained
    by marking the primary variable instead. *)
Theorem C20_non_primary_member_message : forall s marks ivs0 es0,
  resolvable s = true -> build s = Some (ivs0, es0) -> check_inits s ivs0 0 s = [] ->
  vs_issues (analyse_asts s ivs0 es0) = [] -> marks_in_range s marks ->
  forall m r, In m marks -> xm_var m = XLocal r -> r <> primary_at_marking s r ->
  exists rule, (rule = XVoi \/ rule = XUsePrimary) /\
               cls_of s (primary_at_marking s r) = cls_of s r /\
               In (mkXissue rule (XLocal (primary_at_marking s r))) (xr_messages (analyse_x true s marks)).
Proof. exact ExternalMsgProofs.non_primary_member_message. Qed.
Print Assumptions C20_non_primary_member_message.

(** A class marked more than once (two AnalyserExternalVariable objects on variables of one class — the same variable
    twice included) gets the message as well. *)
Theorem C20_class_marked_twice_message : forall s marks ivs0 es0,
  resolvable s = true -> build s = Some (ivs0, es0) -> check_inits s ivs0 0 s = [] ->
  vs_issues (analyse_asts s ivs0 es0) = [] -> marks_in_range s marks ->
  forall l1 m1 l2 m2 l3 r1 r2,
  marks = l1 ++ m1 :: l2 ++ m2 :: l3 -> xm_var m1 = XLocal r1 -> xm_var m2 = XLocal r2 -> cls_of s r1 = cls_of s r2 ->
  exists rule, (rule = XVoi \/ rule = XUsePrimary) /\
               cls_of s (primary_at_marking s r1) = cls_of s r1 /\
               In (mkXissue rule (XLocal (primary_at_marking s r1))) (xr_messages (analyse_x true s marks)).
Proof. exact ExternalMsgProofs.class_marked_twice_message. Qed.
Print Assumptions C20_class_marked_twice_message.

(** The variable of integration (or any variable equivalent to it): with the repair, never changes the analysis, and
    is reported.  (Before the repair: C20_externals_exact_voi_refuted.) *)
Theorem C20_voi_marks_ignored : forall s marks, marks_in_range s marks ->
  xr_outcome (analyse_x true s marks) = xr_outcome (analyse_x true s (filter (fun m => negb (is_voi_mark s m)) marks)) /\
  xr_has_ext (analyse_x true s marks) = xr_has_ext (analyse_x true s (filter (fun m => negb (is_voi_mark s m)) marks)).
Proof. exact ExternalProofs.voi_marks_ignored. Qed.
Print Assumptions C20_voi_marks_ignored.

Theorem C20_voi_mark_message : forall s marks ivs0 es0,
  resolvable s = true -> build s = Some (ivs0, es0) -> check_inits s ivs0 0 s = [] ->
  vs_issues (analyse_asts s ivs0 es0) = [] -> marks_in_range s marks ->
  forall m r, In m marks -> xm_var m = XLocal r -> is_voi_mark s m = true ->
  exists key, cls_of s key = cls_of s r /\ In (mkXissue XVoi (XLocal key)) (xr_messages (analyse_x true s marks)).
Proof. exact ExternalProofs.voi_message. Qed.
Print Assumptions C20_voi_mark_message.

Example C20_marking_messages_nonvacuous :
  xr_outcome (analyse_x true sysA mark_voi) = xr_outcome (analyse_x true sysA []) /\
  xr_outcome (analyse_x true sysA mark_voi_member) = xr_outcome (analyse_x true sysA []) /\
  xr_has_ext (analyse_x true sysA mark_voi) = false /\
  xr_messages (analyse_x true sysA mark_voi) = [mkXissue XVoi (XLocal (0, 0))] /\
  xr_messages (analyse_x true sysA mark_voi_member) = [mkXissue XVoi (XLocal (0, 0))].
Proof. exact ExternalWitness.voi_marked_fixed. Qed.
Print Assumptions C20_marking_messages_nonvacuous.

Example C20_marks_examples :
  option_map (ext_classes sysA) (result_of (analyse_x true sysA mark_k)) = Some [2] /\
  option_map (ext_classes sysA) (result_of (analyse_x true sysA mark_y_nonprimary)) = Some [3] /\
  xr_messages (analyse_x true sysA mark_y_nonprimary) = [mkXissue XUsePrimary (XLocal (0, 3))] /\
  xr_outcome (analyse_x true sysA mark_foreign) = xr_outcome (analyse_x true sysA []) /\
  xr_messages (analyse_x true sysA mark_foreign) = [mkXissue XDifferentModel (XForeign 0)] /\
  option_map (fun r => definition_of sysA r 1) (result_of (analyse_x true sysA mark_z_dep_y)) =
  option_map (fun r => definition_of sysA r 1) (result_of (analyse_x true sysA [])) /\
  depends_on sysA 1 [2] = true /\ depends_on sysA 2 [4] = true.
Proof. exact ExternalWitness.marks_examples. Qed.
Print Assumptions C20_marks_examples.

(** AnalyserExternalVariable::addDependency refuses the variable itself, an equivalent one, a variable of another model
    and a repetition. *)
Example C20_add_dependency_example :
  make_mark sysA (XLocal (1, 1)) [XLocal (0, 1); XLocal (0, 3); XLocal (1, 0); XLocal (1, 1); XForeign 1; XLocal (0, 3); XLocal (1, 2)] =
  (mkXmark (XLocal (1, 1)) [XLocal (0, 1); XLocal (0, 3); XLocal (1, 0); XLocal (1, 2)], [true; true; true; false; false; false; true]).
Proof. exact ExternalWitness.add_dependency_example. Qed.
Print Assumptions C20_add_dependency_example.

(** ** independent_unchanged *)

(* NOT PROVED: forall s marks r0 r1 k,
     marks_in_range s marks -> xr_outcome (analyse_x true s []) = Done r0 -> valid_type (r_type r0) = true ->
     xr_outcome (analyse_x true s marks) = Done r1 -> valid_type (r_type r1) = true ->
     depends_on s k (marked_classes s marks) = false -> definition_of s r1 k = definition_of s r0 k.
   ([depends_on] is the UNDIRECTED notion: k is linked to a marked class by a chain of equations, ExternalDefs.linked_classes;
   [definition_of] = (type, [(id, type) of the equations computing it]).)  By C20_marks_characterised the two runs enter the
   loop with the same equations and with internal variables that differ only in mIsExternal / mDependencies at the marked
   positions, and check() only reads and writes the internal variables its equation mentions.  What is missing is the
   non-interference of the LOOP: the pass switches (checkNlaSystems, the third pass) are global, so the unlinked part of the
   marked run sees extra sweeps in which it makes no progress, and a check() that returns false is NOT a no-op (it filters
   mVariables, accumulates dependencies, re-targets mVariable of a variable it cannot type, which changes later
   variableOnLhsRhs name tests).  The proof needs "idle sweeps change nothing that a later successful check reads", i.e.
   an invariant about the variables that can never be typed; not done.
   Evidence: exhaustive over all one-component systems with <= 4 classes and <= 3 equations / <= 3 classes and <= 4
   equations drawn from 5 shapes, every marking of 1 or 2 classes (ocaml/external/driver.ml search: independent_changed = 0
   of 240 162 comparisons), and on the implementation for every valid generated case of every run (checks/c20.py oracle (b)). *)

Example C20_independent_unchanged_example :
  match result_of (analyse_x true sysI []), result_of (analyse_x true sysI mark_a) with
  | Some r0, Some r1 =>
      valid_type (r_type r0) = true /\ valid_type (r_type r1) = true /\
      depends_on sysI 2 (marked_classes sysI mark_a) = false /\ depends_on sysI 3 (marked_classes sysI mark_a) = false /\
      definition_of sysI r1 2 = definition_of sysI r0 2 /\ definition_of sysI r1 3 = definition_of sysI r0 3 /\
      depends_on sysI 1 (marked_classes sysI mark_a) = true /\
      definition_of sysI r0 1 = Some (ACompConst, [(Some 1002, QVarBasedConst)]) /\
      definition_of sysI r1 1 = Some (AAlgebraic, [(Some 1002, QAlgebraic)])
  | _, _ => False
  end.
Proof. exact ExternalWitness.independent_example. Qed.
Print Assumptions C20_independent_unchanged_example.

(** ** underconstrained_rescued *)

(** What holds in general: a class marked as external is never among the variables reported as unused ("the type of
    variable ... is unknown"), whatever else the model suffers from (the third pass gives every external variable that
    is still unknown the type INITIALISED, and no type is ever lost). *)
Theorem C20_underconstrained_rescued_partial : forall s marks r,
  marks_in_range s marks -> xr_outcome (analyse_x true s marks) = Done r ->
  forall i, In i (r_issues r) -> is_rule i = RUnused -> ~ In (cls_of s (is_item i)) (marked_classes s marks).
Proof. exact ExternalProofs.marked_never_unused. Qed.
Print Assumptions C20_underconstrained_rescued_partial.

(** "A model whose only reported problem is unused variables becomes valid when they are marked" is FALSE: the analyser
    reports one kind of problem at a time. *)
Theorem C20_underconstrained_rescued_refuted :
  option_map (fun r => (r_type r, map is_rule (r_issues r))) (result_of (analyse_x true sysU [])) =
    Some (MUnderconstrained, [RUnused; RUnused]) /\
  option_map (fun r => (r_type r, map is_rule (r_issues r))) (result_of (analyse_x true sysU mark_unused)) =
    Some (MOverconstrained, [RComputedTwice]).
Proof. exact ExternalWitness.rescue_naive_refuted. Qed.
Print Assumptions C20_underconstrained_rescued_refuted.

(** ... and BEFORE the repair fixes/C20-uninitialised-state-rescue.diff the rescue did not cover a state that lacks its
    initial value: marked as external it was still reported "used in an ODE, but not initialised". *)
Theorem C20_uninitialised_state_not_rescued :
  option_map (fun r => (r_type r, r_issues r)) (result_of (analyse_xg true false false sysE [])) = Some (MUnderconstrained, [mkIssue RStateNotInit (0, 1)]) /\
  option_map (fun r => (r_type r, r_issues r)) (result_of (analyse_xg true false false sysE mark_x)) = Some (MUnderconstrained, [mkIssue RStateNotInit (0, 1)]).
Proof. exact ExternalWitness2.uninitialised_state_not_rescued. Qed.
Print Assumptions C20_uninitialised_state_not_rescued.

(** With the repair it becomes the external variable of a valid model, its ODE the placeholder equation. *)
Example C20_uninitialised_state_rescued :
  option_map (fun r => (r_type r, r_issues r)) (result_of (analyse_x true sysE [])) = Some (MUnderconstrained, [mkIssue RStateNotInit (0, 1)]) /\
  option_map (fun r => (r_type r, map (fun a => (av_var a, av_type a, av_eqs a)) (r_vars r), map (fun e => (ae_id e, ae_type e)) (r_eqs r)))
             (result_of (analyse_x true sysE mark_x)) = Some (MOde, [((0, 1), AExternal, [0])], [(Some 1001, QExternal)]).
Proof. exact ExternalWitness2.uninitialised_state_rescued. Qed.
Print Assumptions C20_uninitialised_state_rescued.

(* NOT PROVED (the strong form): if the system with the unknown classes given an initial value (i.e. as constants) is valid,
   then the system with those classes marked as external is valid — the weakest hypothesis found ("only UNUSED issues" is not
   enough: C20_underconstrained_rescued_refuted).  The two analyses run on DIFFERENT systems (the classes are INITIALISED from
   the start in one, UNKNOWN during the first two passes in the other, so the greedy NLA pass may type other variables in
   between): it needs a simulation between two loops that do not proceed in lockstep.  What is proved is
   C20_underconstrained_rescued_partial.  Evidence: exhaustive search (13 619 such small systems, all rescued);
   on the implementation: two variants per generated system on every run (checks/c20.py oracle (d)). *)

Example C20_underconstrained_rescued_example :
  option_map (fun r => (r_type r, r_issues r)) (result_of (analyse_x true sysA_no_k [])) =
    Some (MUnderconstrained, [mkIssue RUnused (0, 2)]) /\
  option_map (fun r => (r_type r, ext_classes sysA_no_k r)) (result_of (analyse_x true sysA_no_k mark_k)) = Some (MOde, [2]).
Proof. exact ExternalWitness.rescue_example. Qed.
Print Assumptions C20_underconstrained_rescued_example.

(** ** callback_after_dependencies *)

(** In computeComputedConstants, computeRates and computeVariables, when the dependency graph of the equations is acyclic
    (a rank decreasing along every dependency the generator may follow, constant on an NLA system), the code of an
    external equation — the callback — is emitted only after every dependency that the generator wants (not an ODE, not
    a constant, and in computeVariables: still to be generated or to be computed again) has been emitted in that method
    (itself, or its NLA system through a sibling) or had already been generated by an earlier method.  Holds for the
    generator before and after fixes/C20-nla-sibling-dependencies.diff ([sfx]). *)
Theorem C20_callback_after_dependencies_rates : forall r sfx rank rem, acyclic_by r rank -> NoDup rem ->
  ordered_from r true [] rem [] (eq_positions (fst (rates_body r sfx rem))) = true.
Proof. exact ExternalEmitProofs.rates_body_ordered. Qed.
Print Assumptions C20_callback_after_dependencies_rates.

Theorem C20_callback_after_dependencies_constants : forall r sfx rank rem, acyclic_by r rank -> NoDup rem ->
  ordered_from r true [] rem [] (eq_positions (fst (computed_constants_body r sfx rem))) = true.
Proof. exact ExternalEmitProofs.computed_constants_body_ordered. Qed.
Print Assumptions C20_callback_after_dependencies_constants.

Theorem C20_callback_after_dependencies_variables : forall r sfx rank rem, acyclic_by r rank -> NoDup (all_pos r) ->
  ordered_from r false rem (all_pos r) [] (eq_positions (variables_body r sfx rem)) = true.
Proof. exact ExternalEmitProofs.variables_body_ordered. Qed.
Print Assumptions C20_callback_after_dependencies_variables.

(** [ordered_from], spelled out *)
Theorem C20_ordered_from_means : forall r icc efd rem0 code done,
  ordered_from r icc efd rem0 done code = true ->
  forall l1 p l2 e d de, code = l1 ++ p :: l2 -> find_aeq r p = Some e -> ae_type e = QExternal ->
    In d (ae_deps e) -> find_aeq r d = Some de -> dep_wanted r icc efd de = true -> mem_nat d rem0 = true ->
    In d done \/ exists q, In q l1 /\ (d = q \/ exists eq, find_aeq r q = Some eq /\ In d (ae_sibs eq)).
Proof. exact ExternalEmitProofs.ordered_from_spelled. Qed.
Print Assumptions C20_ordered_from_means.

Example C20_callback_after_dependencies_nonvacuous :
  match result_of (analyse_x true sysA mark_z_dep_y) with
  | Some r =>
      acyclic_by r (fun p => p) /\ NoDup (all_pos r) /\
      b_vars (method_bodies r sibling_fix) = [SEq 1; SEq 2] /\
      option_map ae_type (find_aeq r 2) = Some QExternal /\ option_map ae_deps (find_aeq r 2) = Some [1] /\
      option_map ae_type (find_aeq r 1) = Some QAlgebraic
  | None => False
  end.
Proof. exact ExternalWitness.callback_order_example. Qed.
Print Assumptions C20_callback_after_dependencies_nonvacuous.

(** The claim is FALSE for initialiseVariables (known finding C20-initialise-callback-before-dependencies): the callback
    is emitted there although the equation of a declared dependency is emitted nowhere in that method ... *)
Theorem C20_callback_in_initialise_refuted :
  option_map init_uncomputed_dependency (result_of (analyse_x true sysA mark_z_dep_y)) = Some true.
Proof. exact ExternalWitness.initialise_refuted. Qed.
Print Assumptions C20_callback_in_initialise_refuted.

(** ... and without acyclicity (known finding C20-cyclic-declared-dependency): a declared dependency computed from the
    external variable itself is emitted AFTER the callback. *)
Theorem C20_callback_cyclic_refuted :
  match result_of (analyse_x true sysC mark_cyclic) with
  | Some r =>
      valid_type (r_type r) = true /\
      b_vars (method_bodies r sibling_fix) = [SEq 1; SEq 0] /\
      option_map ae_type (find_aeq r 1) = Some QExternal /\ option_map ae_deps (find_aeq r 1) = Some [0] /\
      ordered_from r false [] (all_pos r) [] (eq_positions (b_vars (method_bodies r sibling_fix))) = false /\
      forall rank, ~ acyclic_by r rank
  | None => False
  end.
Proof. exact ExternalWitness.cyclic_refuted. Qed.
Print Assumptions C20_callback_cyclic_refuted.

(** "All other values still match the equations" needs more than the ordering of the callbacks: before the repair
    (fixes/C20-nla-sibling-dependencies.diff) generateEquationCode generated only the dependencies of the NLA equation it
    reached first, so marking a constant on which another equation of the NLA system depends left that dependency (and
    the callback) un-generated before the findRoot call of computeRates. *)
Theorem C20_nla_sibling_dependencies_refuted :
  match result_of (analyse_x true sysS mark_k4) with
  | Some r =>
      valid_type (r_type r) = true /\
      ids_of r (b_rates (method_bodies r false)) = [(Some 1002, QNla); (Some 1004, QOde)] /\
      ids_of r (b_init (method_bodies r false) ++ b_consts (method_bodies r false)) = [(None, QExternal)] /\
      ids_of r (b_rates (method_bodies r true)) = [(None, QExternal); (Some 1001, QAlgebraic); (Some 1002, QNla); (Some 1004, QOde)] /\
      map (fun e => (ae_id e, ae_type e, ae_deps e, ae_sibs e)) (filter (fun e => qtype_eqb (ae_type e) QNla) (r_eqs r)) =
        [(Some 1002, QNla, [], [2]); (Some 1003, QNla, [0], [1])]
  | None => False
  end.
Proof. exact ExternalWitness.sibling_dependencies_witness. Qed.
Print Assumptions C20_nla_sibling_dependencies_refuted.

(** The DECLARED dependencies are dependencies of the placeholder equation (this was only compared so far): in the
    packaged result (AnalysisDefs.package: dummy equations of the constants, API variables, API equations,
    cleanUpDependencies) the dependencies of an EXTERNAL equation contain every API equation [k] of the analyser variable
    [a] that the declared dependency [d] (mDependencies of the internal variable [p] it computes) is looked up to. *)
Theorem C20_declared_dependencies_are_equation_dependencies : forall s ty voi ivs es,
  let es3 := es ++ map (new_var_eq ivs) (filter (fun p => vtype_eqb (iv_type (geti ivs p)) VConstant) (seq 0 (length ivs))) in
  let avs := make_avars es3 ivs 0 0 0 in
  let r := package s ty voi ivs es in
  forall e, In e (r_eqs r) -> ae_type e = QExternal ->
  forall p d a k, In p (ie_unknown (gete es3 (ae_pos e))) -> In d (iv_deps (geti ivs p)) ->
    dep_lookup dependency_fix s ivs avs d = Some a -> In k (av_eqs a) -> In k (all_pos r) -> In k (ae_deps e).
Proof. exact ExternalDepsProofs.declared_dependencies_are_equation_dependencies. Qed.
Print Assumptions C20_declared_dependencies_are_equation_dependencies.

(** callback_after_dependencies at full strength, in terms of the DECLARED dependencies: for every packaged result whose
    equation dependency graph is acyclic, in computeVariables the callback of an external equation [e] stands after the
    code of every equation [k] — or of an NLA sibling of it, one findRoot computes the system — that computes a declared
    dependency of a variable of [e] and that the generator wants (not an ODE, not a constant, still to be generated or to
    be computed again).  The exception is exactly the cyclic case: C20_callback_cyclic_refuted (known finding
    C20-cyclic-declared-dependency); initialiseVariables is C20_callback_in_initialise_refuted. *)
Theorem C20_dependencies_computed_before_callback : forall s ty voi ivs es,
  let es3 := es ++ map (new_var_eq ivs) (filter (fun p => vtype_eqb (iv_type (geti ivs p)) VConstant) (seq 0 (length ivs))) in
  let avs := make_avars es3 ivs 0 0 0 in
  let r := package s ty voi ivs es in
  forall sfx rank rem e l1 l2,
  acyclic_by r rank ->
  In e (r_eqs r) -> ae_type e = QExternal ->
  eq_positions (variables_body r sfx rem) = l1 ++ ae_pos e :: l2 ->
  forall p d a k ke, In p (ie_unknown (gete es3 (ae_pos e))) -> In d (iv_deps (geti ivs p)) ->
    dep_lookup dependency_fix s ivs avs d = Some a -> In k (av_eqs a) ->
    find_aeq r k = Some ke -> dep_wanted r false rem ke = true ->
    exists q, In q l1 /\ (k = q \/ exists eq, find_aeq r q = Some eq /\ In k (ae_sibs eq)).
Proof. exact ExternalDepsProofs.dependencies_computed_before_callback. Qed.
Print Assumptions C20_dependencies_computed_before_callback.

Example C20_dependencies_computed_before_callback_nonvacuous :
  match result_of (analyse_x true sysA mark_z_dep_y) with
  | Some r =>
      map (fun e => (ae_pos e, ae_type e, ae_vars e, ae_deps e)) (r_eqs r) =
        [(0, QOde, [(0, 1)], []); (1, QAlgebraic, [(0, 3)], [0]); (2, QExternal, [(1, 1)], [1])] /\
      eq_positions (variables_body r sibling_fix [1; 2]) = [1; 2] /\
      option_map (dep_wanted r false [1; 2]) (find_aeq r 1) = Some true
  | None => False
  end.
Proof. exact ExternalDepsProofs.declared_dependency_example. Qed.
Print Assumptions C20_dependencies_computed_before_callback_nonvacuous.

(** the hypothesis NoDup (all_pos r) holds for every result of the analysis *)
Theorem C20_result_positions_distinct : forall fixed s marks r, xr_outcome (analyse_x fixed s marks) = Done r -> NoDup (all_pos r).
Proof. exact ExternalProofs.analysis_pos_nodup. Qed.
Print Assumptions C20_result_positions_distinct.

(** The converse: an EXTERNAL equation has NO other dependency — every dependency of it is an API equation ([k] is one of
    the result's equations) of the analyser variable of a declared dependency of a variable it computes.  Together with
    C20_declared_dependencies_are_equation_dependencies: the dependencies of a placeholder equation are EXACTLY the API
    equations computing the declared dependencies. *)
Theorem C20_equation_dependencies_are_declared : forall s ty voi ivs es,
  let es3 := es ++ map (new_var_eq ivs) (filter (fun p => vtype_eqb (iv_type (geti ivs p)) VConstant) (seq 0 (length ivs))) in
  let avs := make_avars es3 ivs 0 0 0 in
  let r := package s ty voi ivs es in
  forall e, In e (r_eqs r) -> ae_type e = QExternal ->
  forall k, In k (ae_deps e) ->
    In k (all_pos r) /\
    exists p d a, In p (ie_unknown (gete es3 (ae_pos e))) /\ In d (iv_deps (geti ivs p)) /\
                  dep_lookup dependency_fix s ivs avs d = Some a /\ In k (av_eqs a).
Proof. exact ExternalDepsConvProofs.equation_dependencies_are_declared. Qed.
Print Assumptions C20_equation_dependencies_are_declared.

Example C20_equation_dependencies_example :
  option_map (fun r => map (fun e => (ae_type e, ae_vars e, ae_deps e)) (filter (fun e => qtype_eqb (ae_type e) QExternal) (r_eqs r)))
             (result_of (analyse_x true sysA mark_z_dep_y)) = Some [(QExternal, [(1, 1)], [1])] /\
  option_map (fun r => map (fun e => (ae_type e, ae_vars e, ae_deps e)) (filter (fun e => qtype_eqb (ae_type e) QExternal) (r_eqs r)))
             (result_of (analyse_x true sysA mark_k)) = Some [(QExternal, [(0, 2)], [])].
Proof. exact ExternalDepsConvProofs.converse_example. Qed.
Print Assumptions C20_equation_dependencies_example.

(* NOT PROVED: the link from [package] to every valid analysis result with its internal state spelled out (finish calls
   package on the requalified internal variables: which unknowns an external equation has is the placeholder clause, see
   C20_placeholder_refuted / C20_one_definer_with_externals); compared with the library on every run (E= field). *)

(** ** Proof depth round 7: markings compose over [++] *)

(** The marks handed to the analyser are a list homomorphism of the registered marks. *)
Theorem C20_local_marks_app : forall m1 m2, local_marks (m1 ++ m2) = local_marks m1 ++ local_marks m2.
Proof. exact ExternalRound7Proofs.local_marks_app. Qed.
Print Assumptions C20_local_marks_app.

(** Without any range hypothesis, on the code before the repair: marks on variables of another model inserted anywhere
    in the sequence of registered marks do not change the analysis outcome. *)
Theorem C20_unfixed_foreign_marks_irrelevant : forall s m1 f m2,
  Forall (fun m => match xm_var m with XForeign _ => True | XLocal _ => False end) f ->
  xr_outcome (analyse_x false s (m1 ++ f ++ m2)) = xr_outcome (analyse_x false s (m1 ++ m2)).
Proof. exact ExternalRound7Proofs.unfixed_foreign_marks_irrelevant. Qed.
Print Assumptions C20_unfixed_foreign_marks_irrelevant.

(** The range hypothesis of the marking theorems composes and decomposes over [++]. *)
Theorem C20_marks_in_range_app : forall s m1 m2,
  marks_in_range s (m1 ++ m2) <-> marks_in_range s m1 /\ marks_in_range s m2.
Proof. exact ExternalRound7Proofs.marks_in_range_app. Qed.
Print Assumptions C20_marks_in_range_app.
