(** Properties_C20.v — statements only (being filled in). *)
From Coq Require Import List Bool Arith.
From LC Require Import AnalysisDefs AnalysisSpec ExternalDefs.
Import ListNotations.

Example C20_stub : voi_fix = true.
Proof. reflexivity. Qed.
Print Assumptions C20_stub.
