(** ExternalEmitProofs.v — the emission order of the generated methods (ExternalDefs.gen_eq and the method bodies):
    in every method body an external equation is emitted after each dependency the generator wants, provided the
    dependency graph is acyclic (ExternalDefs.acyclic_by). *)
From Coq Require Import List Bool Arith PeanoNat Lia.
From LC Require Import AnalysisDefs AnalysisSpec AnalysisWfProofs ExternalDefs.
Import ListNotations.
Local Open Scope bool_scope.

(* ------------------------------------------------------------------ lists of positions *)

Lemma mem_nat_cons : forall p y t, mem_nat p (y :: t) = (p =? y) || mem_nat p t.
Proof. reflexivity. Qed.

Lemma mem_remove_sub : forall x l p, mem_nat p (remove_nat x l) = true -> mem_nat p l = true.
Proof.
  intros x l. induction l as [|y t IH]; intros p H; cbn [remove_nat] in H; [exact H|].
  rewrite mem_nat_cons. destruct (y =? x) eqn:E.
  - rewrite H. apply orb_true_r.
  - rewrite mem_nat_cons in H. apply orb_true_iff in H. apply orb_true_iff.
    destruct H as [H|H]; [left; exact H|right; apply IH; exact H].
Qed.

Lemma mem_remove_other : forall x l p, mem_nat p (remove_nat x l) = false -> mem_nat p l = true -> p = x.
Proof.
  intros x l. induction l as [|y t IH]; intros p H1 H2; cbn [remove_nat] in H1; [discriminate|].
  rewrite mem_nat_cons in H2. destruct (y =? x) eqn:E.
  - apply orb_true_iff in H2. destruct H2 as [H2|H2]; [|congruence].
    apply Nat.eqb_eq in H2. apply Nat.eqb_eq in E. congruence.
  - rewrite mem_nat_cons in H1. apply orb_false_iff in H1. destruct H1 as (A & B).
    apply orb_true_iff in H2. destruct H2 as [H2|H2]; [congruence|]. apply IH; assumption.
Qed.

Lemma remove_nat_length : forall x l, length (remove_nat x l) <= length l.
Proof. intros x l. induction l as [|y t IH]; cbn [remove_nat length]; [lia|]. destruct (y =? x); cbn [length]; lia. Qed.

Lemma remove_nat_length_mem : forall x l, mem_nat x l = true -> S (length (remove_nat x l)) = length l.
Proof.
  intros x l. induction l as [|y t IH]; intro H; [discriminate|].
  rewrite mem_nat_cons in H. cbn [remove_nat length].
  destruct (y =? x) eqn:E; [reflexivity|]. cbn [length]. f_equal. apply IH.
  apply orb_true_iff in H. destruct H as [H|H]; [|exact H]. rewrite Nat.eqb_sym in H. congruence.
Qed.

Lemma remove_nat_In : forall x l p, In p (remove_nat x l) -> In p l.
Proof. intros x l p H. apply mem_nat_In. eapply mem_remove_sub. apply mem_nat_In. exact H. Qed.

Lemma remove_nat_NoDup : forall x l, NoDup l -> NoDup (remove_nat x l) /\ mem_nat x (remove_nat x l) = false.
Proof.
  intros x l. induction l as [|y t IH]; intro H; cbn [remove_nat]; [split; [constructor|reflexivity]|].
  inversion H as [|? ? Hy Ht]; subst. destruct (y =? x) eqn:E.
  - split; [exact Ht|]. apply Nat.eqb_eq in E. subst y.
    destruct (mem_nat x t) eqn:M; [|reflexivity]. apply mem_nat_In in M. contradiction.
  - destruct (IH Ht) as (A & B). split.
    + constructor; [|exact A]. intro K. apply Hy. eapply remove_nat_In. exact K.
    + rewrite mem_nat_cons, B. rewrite Nat.eqb_sym, E. reflexivity.
Qed.

Definition rm_all (sibs : list nat) (l : list nat) : list nat := fold_left (fun l0 sib => remove_nat sib l0) sibs l.

Lemma rm_all_sub : forall sibs l p, mem_nat p (rm_all sibs l) = true -> mem_nat p l = true.
Proof.
  intros sibs. induction sibs as [|x t IH]; intros l p H; unfold rm_all in *; cbn [fold_left] in *; [exact H|].
  eapply mem_remove_sub. apply IH. exact H.
Qed.

Lemma rm_all_other : forall sibs l p, mem_nat p (rm_all sibs l) = false -> mem_nat p l = true -> In p sibs.
Proof.
  intros sibs. induction sibs as [|x t IH]; intros l p H1 H2; unfold rm_all in *; cbn [fold_left] in *; [congruence|].
  destruct (mem_nat p (remove_nat x l)) eqn:M.
  - right. eapply IH; eassumption.
  - left. symmetry. eapply mem_remove_other; eassumption.
Qed.

Lemma rm_all_length : forall sibs l, length (rm_all sibs l) <= length l.
Proof.
  intros sibs. induction sibs as [|x t IH]; intro l; unfold rm_all in *; cbn [fold_left]; [lia|].
  pose proof (IH (remove_nat x l)). pose proof (remove_nat_length x l). lia.
Qed.

Lemma rm_all_NoDup : forall sibs l, NoDup l -> NoDup (rm_all sibs l).
Proof.
  intros sibs. induction sibs as [|x t IH]; intros l H; unfold rm_all in *; cbn [fold_left]; [exact H|]. apply IH. apply remove_nat_NoDup. exact H.
Qed.

Lemma find_aeq_In : forall r p e, find_aeq r p = Some e -> In e (r_eqs r) /\ ae_pos e = p.
Proof.
  intros r p e H. unfold find_aeq in H. apply find_some in H. destruct H as (A & B).
  split; [exact A|]. apply Nat.eqb_eq. exact B.
Qed.

(* ------------------------------------------------------------------ the invariant of generateEquationCode *)

Section Emit.
Variable r : result.
Variable sfx : bool.
Variable rank : nat -> nat.
Hypothesis Hacy : acyclic_by r rank.
Variable icc : bool.
Variable efd : list nat.
Variable rem0 : list nat.

(* what a piece of code marks as computed: the equations emitted and their NLA siblings *)
Definition clos (code : list nat) : list nat :=
  flat_map (fun p => match find_aeq r p with Some e => p :: ae_sibs e | None => [p] end) code.

Lemma clos_app : forall a b, clos (a ++ b) = clos a ++ clos b.
Proof. intros. unfold clos. apply flat_map_app. Qed.

Lemma ordered_from_app : forall c1 c2 done,
  ordered_from r icc efd rem0 done (c1 ++ c2) =
  ordered_from r icc efd rem0 done c1 && ordered_from r icc efd rem0 (done ++ clos c1) c2.
Proof.
  induction c1 as [|p t IH]; intros c2 done; cbn [app ordered_from clos flat_map].
  - rewrite app_nil_r. reflexivity.
  - destruct (find_aeq r p) as [e|] eqn:E; [|reflexivity].
    rewrite IH. rewrite <- andb_assoc. f_equal. f_equal. f_equal.
    fold (clos t). rewrite <- app_assoc. reflexivity.
Qed.

(* in progress: on the stack of calls, or an NLA sibling of an equation on the stack *)
Definition inprog (stk : list nat) (p : nat) : Prop :=
  exists a, In a stk /\ (p = a \/ exists e, find_aeq r a = Some e /\ In p (ae_sibs e)).

Definition Inv (stk rem done : list nat) : Prop :=
  forall p, mem_nat p rem0 = true -> mem_nat p rem = false -> In p done \/ inprog stk p.

Lemma Inv_done_mono : forall stk rem done extra, Inv stk rem done -> Inv stk rem (done ++ extra).
Proof.
  intros stk rem done extra H p H1 H2. destruct (H p H1 H2) as [K|K]; [left; apply in_or_app; left; exact K|right; exact K].
Qed.

Definition step (f : nat) (acc : list nat * list nat) (d : nat) : list nat * list nat :=
  match find_aeq r d with
  | Some de => if dep_wanted r icc efd de
               then let '(c, rm) := gen_eq r sfx f icc efd d (snd acc) in (fst acc ++ c, rm)
               else acc
  | None => acc
  end.

Definition gen_post (pos : nat) (rem : list nat) (stk done : list nat) (code rem' : list nat) : Prop :=
  ordered_from r icc efd rem0 done code = true /\ Inv stk rem' (done ++ clos code) /\
  (find_aeq r pos <> None -> mem_nat pos rem' = false) /\
  (forall x, mem_nat x rem' = true -> mem_nat x rem = true) /\ length rem' <= length rem /\ NoDup rem'.

Definition gen_ok (f : nat) : Prop :=
  forall pos rem code rem' stk done,
    gen_eq r sfx f icc efd pos rem = (code, rem') -> length rem < f -> NoDup rem ->
    (forall a, In a stk -> rank pos < rank a) -> Inv stk rem done ->
    gen_post pos rem stk done code rem'.

Lemma deps_fold_inv : forall f, gen_ok f ->
  forall deps stk acc_code acc_rem code2 rem2 done,
    fold_left (step f) deps (acc_code, acc_rem) = (code2, rem2) ->
    length acc_rem < f -> NoDup acc_rem ->
    (forall d de, In d deps -> find_aeq r d = Some de -> dep_wanted r icc efd de = true -> forall a, In a stk -> rank d < rank a) ->
    Inv stk acc_rem (done ++ clos acc_code) -> ordered_from r icc efd rem0 done acc_code = true ->
    ordered_from r icc efd rem0 done code2 = true /\ Inv stk rem2 (done ++ clos code2) /\ NoDup rem2 /\
    length rem2 <= length acc_rem /\ (forall x, mem_nat x rem2 = true -> mem_nat x acc_rem = true) /\
    (forall d de, In d deps -> find_aeq r d = Some de -> dep_wanted r icc efd de = true -> mem_nat d rem2 = false).
Proof.
  intros f Hf deps. induction deps as [|d t IH]; intros stk acc_code acc_rem code2 rem2 done H Hlen Hnd Hrank Hinv Hord; cbn [fold_left] in H.
  - inversion H; subst. repeat split; try assumption; try lia; [intros x Hx; exact Hx|intros d de []].
  - unfold step at 2 in H. cbn [fst snd] in H.
    destruct (find_aeq r d) as [de|] eqn:Ed.
    2:{ destruct (IH stk _ _ _ _ done H Hlen Hnd) as (A & B & C & D & E & F); try assumption.
        { intros d0 de0 Hin. apply Hrank. right. exact Hin. }
        repeat split; try assumption. intros d0 de0 [->|Hin] Hd0 Hw; [congruence|]. eapply F; eassumption. }
    destruct (dep_wanted r icc efd de) eqn:Ew.
    2:{ destruct (IH stk _ _ _ _ done H Hlen Hnd) as (A & B & C & D & E & F); try assumption.
        { intros d0 de0 Hin. apply Hrank. right. exact Hin. }
        repeat split; try assumption. intros d0 de0 [->|Hin] Hd0 Hw; [congruence|]. eapply F; eassumption. }
    destruct (gen_eq r sfx f icc efd d acc_rem) as [c rm] eqn:Eg.
    assert (Hr : forall a, In a stk -> rank d < rank a).
    { intros a Ha. eapply Hrank; [left; reflexivity|exact Ed|exact Ew|exact Ha]. }
    destruct (Hf _ _ _ _ stk (done ++ clos acc_code) Eg Hlen Hnd Hr Hinv) as (G1 & G2 & G3 & G4 & G5 & G6).
    assert (Hord1 : ordered_from r icc efd rem0 done (acc_code ++ c) = true).
    { rewrite ordered_from_app, Hord, G1. reflexivity. }
    assert (Hinv1 : Inv stk rm (done ++ clos (acc_code ++ c))).
    { rewrite clos_app, app_assoc. exact G2. }
    destruct (IH stk _ _ _ _ done H) as (A & B & C & D & E & F); try assumption; try lia.
    { intros d0 de0 Hin. apply Hrank. right. exact Hin. }
    repeat split; try assumption; try lia.
    + intros x Hx. apply G4. apply E. exact Hx.
    + intros d0 de0 [->|Hin] Hd0 Hw; [|eapply F; eassumption].
      destruct (mem_nat d0 rem2) eqn:M; [|reflexivity]. apply E in M.
      rewrite G3 in M; [discriminate|congruence].
Qed.

Lemma gen_eq_inv : forall f, gen_ok f.
Proof.
  induction f as [|f IH]; intros pos rem code rem' stk done H Hlen Hnd Hrank Hinv; [lia|].
  cbn [gen_eq] in H.
  destruct (mem_nat pos rem) eqn:Em; cbn [negb] in H.
  2:{ inversion H; subst. unfold gen_post. cbn [clos flat_map]. rewrite app_nil_r.
      split; [reflexivity|]. split; [exact Hinv|]. split; [intros _; exact Em|]. split; [auto|]. split; [lia|exact Hnd]. }
  destruct (find_aeq r pos) as [e|] eqn:Ee.
  2:{ inversion H; subst. unfold gen_post. cbn [clos flat_map]. rewrite app_nil_r.
      split; [reflexivity|]. split; [exact Hinv|]. split; [intro K; congruence|]. split; [auto|]. split; [lia|exact Hnd]. }
  change (fold_left (fun l sib => remove_nat sib l) (ae_sibs e) (remove_nat pos rem)) with (rm_all (ae_sibs e) (remove_nat pos rem)) in H.
  set (rem1 := rm_all (ae_sibs e) (remove_nat pos rem)) in *.
  destruct (find_aeq_In _ _ _ Ee) as (HeIn & Hepos).
  destruct (remove_nat_NoDup pos rem Hnd) as (Hnd0 & Hpos0).
  assert (Hnd1 : NoDup rem1) by (apply rm_all_NoDup; exact Hnd0).
  assert (Hlen1 : length rem1 < f).
  { pose proof (rm_all_length (ae_sibs e) (remove_nat pos rem)). pose proof (remove_nat_length_mem pos rem Em). unfold rem1. lia. }
  assert (Hsub1 : forall x, mem_nat x rem1 = true -> mem_nat x rem = true).
  { intros x Hx. eapply mem_remove_sub. eapply rm_all_sub. exact Hx. }
  assert (Hpos1 : mem_nat pos rem1 = false).
  { destruct (mem_nat pos rem1) eqn:M; [|reflexivity]. apply rm_all_sub in M. congruence. }
  assert (Hinv1 : Inv (pos :: stk) rem1 done).
  { intros p Hp0 Hp1. destruct (mem_nat p rem) eqn:Mp.
    - right. destruct (mem_nat p (remove_nat pos rem)) eqn:Mq.
      + exists pos. split; [left; reflexivity|]. right. exists e. split; [exact Ee|]. eapply rm_all_other; eassumption.
      + exists pos. split; [left; reflexivity|]. left. eapply mem_remove_other; eassumption.
    - destruct (Hinv p Hp0 Mp) as [K|(a & Ha & K)]; [left; exact K|right]. exists a. split; [right; exact Ha|exact K]. }
  (* the dependencies *)
  assert (Hfold : exists code2 rem2,
            (if is_some_constant e icc then ([], rem1) else
             fold_left (fun acc d => match find_aeq r d with
                                     | Some de => if dep_wanted r icc efd de
                                                  then let '(c, rm) := gen_eq r sfx f icc efd d (snd acc) in (fst acc ++ c, rm)
                                                  else acc
                                     | None => acc end) (system_deps r sfx e) ([], rem1)) = (code2, rem2)).
  { destruct (if is_some_constant e icc then _ else _) as [c2 r2]. exists c2, r2. reflexivity. }
  destruct Hfold as (code2 & rem2 & Hfold). rewrite Hfold in H. inversion H; subst code rem'. clear H.
  assert (Hsub : forall d, In d (ae_deps e) -> In d (system_deps r sfx e)).
  { intros d Hd. unfold system_deps. destruct sfx; [apply in_or_app; left; exact Hd|exact Hd]. }
  assert (Hrank1 : forall d de, In d (system_deps r sfx e) -> find_aeq r d = Some de -> dep_wanted r icc efd de = true ->
                    forall a, In a (pos :: stk) -> rank d < rank a).
  { intros d de Hd Hde Hw a Ha.
    assert (Hnode : ae_type de <> QOde).
    { unfold dep_wanted in Hw. apply andb_true_iff in Hw. destruct Hw as (Hw & _). apply andb_true_iff in Hw. destruct Hw as (Hw & _).
      intro K. rewrite K in Hw. discriminate. }
    assert (Hlt : rank d < rank pos).
    { destruct Hacy as (A1 & A2). rewrite <- Hepos.
      assert (Hcases : In d (ae_deps e) \/ exists sb se, In sb (ae_sibs e) /\ find_aeq r sb = Some se /\ In d (ae_deps se)).
      { unfold system_deps in Hd. destruct sfx; [|left; exact Hd].
        apply in_app_or in Hd. destruct Hd as [Hd|Hd]; [left; exact Hd|right].
        apply in_flat_map in Hd. destruct Hd as (sb & Hsb & Hd). destruct (find_aeq r sb) as [se|] eqn:Ese; [|destruct Hd].
        exists sb, se. repeat split; assumption. }
      destruct Hcases as [Hd1|(sb & se & Hsb & Hse & Hd1)].
      - eapply A1; [exact HeIn|exact Hd1|exact Hde|exact Hnode].
      - destruct (find_aeq_In _ _ _ Hse) as (S1 & S2).
        pose proof (A1 se d de S1 Hd1 Hde Hnode) as K1. pose proof (A2 e sb HeIn Hsb) as K2. rewrite S2 in K1. lia. }
    destruct Ha as [<-|Ha]; [exact Hlt|]. specialize (Hrank a Ha). lia. }
  assert (Hdeps : ordered_from r icc efd rem0 done code2 = true /\ Inv (pos :: stk) rem2 (done ++ clos code2) /\ NoDup rem2 /\
                  length rem2 <= length rem1 /\ (forall x, mem_nat x rem2 = true -> mem_nat x rem1 = true) /\
                  (is_some_constant e icc = false ->
                   forall d de, In d (system_deps r sfx e) -> find_aeq r d = Some de -> dep_wanted r icc efd de = true -> mem_nat d rem2 = false)).
  { destruct (is_some_constant e icc) eqn:Ec.
    - inversion Hfold; subst. cbn [clos flat_map]. rewrite app_nil_r.
      split; [reflexivity|]. split; [exact Hinv1|]. split; [exact Hnd1|]. split; [lia|]. split; [auto|discriminate].
    - change (fun acc d => _) with (step f) in Hfold.
      destruct (deps_fold_inv f IH (system_deps r sfx e) (pos :: stk) [] rem1 code2 rem2 done Hfold Hlen1 Hnd1 Hrank1) as (A & B & C & D & E & F).
      { cbn [clos flat_map]. rewrite app_nil_r. exact Hinv1. }
      { reflexivity. }
      split; [exact A|]. split; [exact B|]. split; [exact C|]. split; [exact D|]. split; [exact E|]. intros _. exact F. }
  destruct Hdeps as (D1 & D2 & D3 & D4 & D5 & D6).
  unfold gen_post. rewrite ordered_from_app, D1. cbn [andb ordered_from]. rewrite Ee.
  assert (Hpos2 : mem_nat pos rem2 = false).
  { destruct (mem_nat pos rem2) eqn:M; [|reflexivity]. apply D5 in M. congruence. }
  repeat split.
  - (* the emission of pos itself *)
    rewrite andb_true_r. destruct (qtype_eqb (ae_type e) QExternal) eqn:Ex; [|reflexivity].
    apply forallb_forall. intros d Hd. destruct (find_aeq r d) as [de|] eqn:Ede; [|reflexivity].
    destruct (dep_wanted r icc efd de) eqn:Ew; [|reflexivity]. cbn [negb orb].
    unfold covered. destruct (mem_nat d rem0) eqn:M0; [|reflexivity]. cbn [negb orb].
    assert (Hc : is_some_constant e icc = false).
    { unfold is_some_constant. destruct (ae_type e); try reflexivity; discriminate. }
    pose proof (D6 Hc d de (Hsub d Hd) Ede Ew) as Md.
    destruct (D2 d M0 Md) as [K|(a & Ha & K)]; [apply mem_nat_In; exact K|exfalso].
    pose proof (Hrank1 d de (Hsub d Hd) Ede Ew a Ha) as Hlt.
    destruct K as [->|(ea & Hea & Hsib)]; [lia|].
    destruct Hacy as (_ & A2). destruct (find_aeq_In _ _ _ Hea) as (I1 & I2).
    pose proof (A2 ea d I1 Hsib) as K. rewrite I2 in K. lia.
  - (* the invariant, with pos and its siblings now done *)
    rewrite clos_app. cbn [clos flat_map]. rewrite Ee, app_nil_r.
    intros p Hp0 Hp2. destruct (D2 p Hp0 Hp2) as [K|(a & [<-|Ha] & K)].
    + left. rewrite app_assoc. apply in_or_app. left. exact K.
    + left. apply in_or_app. right. apply in_or_app. right.
      destruct K as [->|(e' & He' & Hs)]; [left; reflexivity|]. right. congruence.
    + right. exists a. split; assumption.
  - intros _. exact Hpos2.
  - intros x Hx. apply Hsub1. apply D5. exact Hx.
  - pose proof (rm_all_length (ae_sibs e) (remove_nat pos rem)). pose proof (remove_nat_length pos rem). unfold rem1 in *. lia.
  - exact D3.
Qed.

(* ------------------------------------------------------------------ method bodies: top-level calls *)

Lemma eq_positions_app : forall a b, eq_positions (a ++ b) = eq_positions a ++ eq_positions b.
Proof.
  intros a b. unfold eq_positions. induction a as [|x t IH]; cbn; [reflexivity|]. destruct x; cbn; rewrite IH; reflexivity.
Qed.

Lemma eq_positions_SEq : forall c, eq_positions (map SEq c) = c.
Proof. induction c as [|x t IH]; cbn; [reflexivity|]. unfold eq_positions in *. cbn. rewrite IH. reflexivity. Qed.

Definition top_ok (acc : list stmt * list nat) : Prop :=
  ordered_from r icc efd rem0 [] (eq_positions (fst acc)) = true /\ Inv [] (snd acc) (clos (eq_positions (fst acc))) /\ NoDup (snd acc).

Lemma gen_top_ok : forall acc pos, top_ok acc -> top_ok (gen_top r sfx icc efd acc pos).
Proof.
  intros [code rem] pos (A & B & C). unfold gen_top. cbn [fst snd] in *.
  destruct (gen_eq r sfx (S (length rem)) icc efd pos rem) as [c rm] eqn:Eg.
  destruct (gen_eq_inv (S (length rem)) pos rem c rm [] (clos (eq_positions code)) Eg) as (G1 & G2 & _ & _ & _ & G6); try assumption; try lia.
  { intros a []. }
  unfold top_ok. cbn [fst snd]. rewrite eq_positions_app, eq_positions_SEq. split; [|split].
  - rewrite ordered_from_app, A. cbn [app]. exact G1.
  - rewrite clos_app. exact G2.
  - exact G6.
Qed.

Lemma fold_top_ok : forall (sel : aeq -> bool) es acc,
  top_ok acc -> top_ok (fold_left (fun a e => if sel e then gen_top r sfx icc efd a (ae_pos e) else a) es acc).
Proof.
  intros sel es. induction es as [|e t IH]; intros acc H; cbn [fold_left]; [exact H|].
  apply IH. destruct (sel e); [apply gen_top_ok; exact H|exact H].
Qed.

Lemma top_ok_start : forall rem, rem = rem0 -> NoDup rem -> top_ok ([], rem).
Proof.
  intros rem -> Hnd. unfold top_ok. cbn. split; [reflexivity|]. split; [|exact Hnd].
  intros p H1 H2. congruence.
Qed.

End Emit.

(* ------------------------------------------------------------------ the three computing methods *)

Theorem rates_body_ordered : forall r sfx rank rem, acyclic_by r rank -> NoDup rem ->
  ordered_from r true [] rem [] (eq_positions (fst (rates_body r sfx rem))) = true.
Proof.
  intros r sfx rank rem Ha Hnd. unfold rates_body. destruct (has_odes r); [|reflexivity].
  apply (fold_top_ok r sfx rank Ha true [] rem (is_rate_equation r)). apply top_ok_start; [reflexivity|exact Hnd].
Qed.

Theorem computed_constants_body_ordered : forall r sfx rank rem, acyclic_by r rank -> NoDup rem ->
  ordered_from r true [] rem [] (eq_positions (fst (computed_constants_body r sfx rem))) = true.
Proof.
  intros r sfx rank rem Ha Hnd. unfold computed_constants_body.
  apply (fold_top_ok r sfx rank Ha true [] rem (fun e => qtype_eqb (ae_type e) QVarBasedConst)). apply top_ok_start; [reflexivity|exact Hnd].
Qed.

Theorem variables_body_ordered : forall r sfx rank rem, acyclic_by r rank -> NoDup (all_pos r) ->
  ordered_from r false rem (all_pos r) [] (eq_positions (variables_body r sfx rem)) = true.
Proof.
  intros r sfx rank rem Ha Hnd. unfold variables_body.
  apply (fold_top_ok r sfx rank Ha false rem (all_pos r) (fun e => mem_nat (ae_pos e) rem || to_be_computed_again r e)).
  apply top_ok_start; [reflexivity|exact Hnd].
Qed.

(** What [ordered_from] says, spelled out: wherever the code of an external equation stands in the body, each
    dependency that the generator wants and that was still to be generated when the method started stands before it
    (itself, or an NLA sibling of it: one findRoot call computes the whole system). *)
Lemma ordered_from_spelled : forall r icc efd rem0 code done,
  ordered_from r icc efd rem0 done code = true ->
  forall l1 p l2 e d de, code = l1 ++ p :: l2 -> find_aeq r p = Some e -> ae_type e = QExternal ->
    In d (ae_deps e) -> find_aeq r d = Some de -> dep_wanted r icc efd de = true -> mem_nat d rem0 = true ->
    In d done \/ exists q, In q l1 /\ (d = q \/ exists eq, find_aeq r q = Some eq /\ In d (ae_sibs eq)).
Proof.
  intros r icc efd rem0 code. induction code as [|x t IH]; intros done H l1 p l2 e d de Hc He Hx Hd Hde Hw Hm.
  - destruct l1; discriminate.
  - cbn [ordered_from] in H. destruct (find_aeq r x) as [ex|] eqn:Eex; [|discriminate].
    apply andb_true_iff in H. destruct H as (H1 & H2).
    destruct l1 as [|y l1'].
    + cbn in Hc. inversion Hc; subst. rewrite He in Eex. inversion Eex; subst ex.
      rewrite Hx in H1. cbn [qtype_eqb] in H1. rewrite forallb_forall in H1. specialize (H1 d Hd). rewrite Hde, Hw in H1.
      cbn [negb orb] in H1. unfold covered in H1. rewrite Hm in H1. cbn in H1. left. apply mem_nat_In. exact H1.
    + cbn in Hc. inversion Hc; subst.
      destruct (IH _ H2 l1' p l2 e d de eq_refl He Hx Hd Hde Hw Hm) as [K|(q & Hq & K)].
      * apply in_app_or in K. destruct K as [K|K]; [left; exact K|right].
        exists y. split; [left; reflexivity|]. destruct K as [<-|K]; [left; reflexivity|right]. exists ex. split; assumption.
      * right. exists q. split; [right; exact Hq|exact K].
Qed.
