(** AnalysisEqVarsProofs.v — clause W3b (31) of C05: every equation of a result lists at least one variable, each of
    them a variable of the result that lists the equation back, equation positions are distinct, an equation that is
    not part of an NLA system has no NLA system index; and conversely every equation listed by a variable lists that
    variable. *)
From Coq Require Import List Bool Arith PeanoNat Lia Permutation.
From LC Require Import AnalysisDefs AnalysisSpec AnalysisProofs AnalysisWfProofs AnalysisOwnProofs AnalysisConfluenceProofs AnalysisDefinerProofs AnalysisDepProofs.
Import ListNotations.
Local Open Scope bool_scope.

(* ------------------------------------------------------------------ mNlaSystemIndex is untouched before the grouping *)

Definition nn (e : ieq) : Prop := ie_nla e = None.

Lemma analyse_node_nla : forall s c e acc acc', analyse_node s c e acc = Some acc' -> ie_nla (snd acc') = ie_nla (snd acc).
Proof.
  intros s c e. induction e as [n|t x| |a IHa b IHb]; intros [ivs q] acc' H; cbn [analyse_node fst snd] in *.
  - destruct (find_var (get_comp s c) n) as [i|]; [|discriminate].
    destruct (internal_variable s ivs (c, i)) as [ivs1 p].
    destruct (mem_nat p (ie_vars q)); inversion H; subst; reflexivity.
  - destruct (find_var (get_comp s c) t) as [ti|]; [|discriminate].
    destruct (find_var (get_comp s c) x) as [xi|]; [|discriminate].
    destruct (internal_variable s ivs (c, xi)) as [ivs1 p].
    destruct (mem_nat p (ie_odes q)); inversion H; subst; reflexivity.
  - inversion H; subst. reflexivity.
  - destruct (analyse_node s c a (ivs, q)) as [acc1|] eqn:E1; [|discriminate].
    rewrite (IHb _ _ H), (IHa _ _ E1). reflexivity.
Qed.

Lemma build_eq_nla : forall s c ivs q ivs' e, build_eq s c ivs q = Some (ivs', e) -> nn e.
Proof.
  intros s c ivs q ivs' e H. unfold build_eq in H.
  match type of H with match analyse_node s c ?l (?i, ?q0) with _ => _ end = _ =>
    destruct (analyse_node s c l (i, q0)) as [acc1|] eqn:E1; [|discriminate] end.
  unfold nn. change e with (snd (ivs', e)). rewrite (analyse_node_nla _ _ _ _ _ H), (analyse_node_nla _ _ _ _ _ E1). reflexivity.
Qed.

Lemma build_eqs_nla : forall s c qs acc acc', build_eqs s c qs acc = Some acc' -> Forall nn (snd acc) -> Forall nn (snd acc').
Proof.
  intros s c qs. induction qs as [|q r IH]; intros acc acc' H Hn; cbn in H.
  - inversion H; subst. exact Hn.
  - destruct (build_eq s c (fst acc) q) as [[ivs1 e]|] eqn:Eb; [|discriminate].
    apply (IH _ _ H). cbn [snd]. apply Forall_snoc; [exact Hn|]. eapply build_eq_nla; exact Eb.
Qed.

Lemma build_comps_nla : forall s cs c acc acc', build_comps s c cs acc = Some acc' -> Forall nn (snd acc) -> Forall nn (snd acc').
Proof.
  intros s cs. induction cs as [|k r IH]; intros c acc acc' H Hn; cbn in H.
  - inversion H; subst. exact Hn.
  - destruct (build_eqs s c (c_eqs k) acc) as [[ivs1 es1]|] eqn:Ee; [|discriminate].
    apply (IH _ _ _ H). cbn [snd]. apply (build_eqs_nla _ _ _ _ _ Ee Hn).
Qed.

Lemma build_nla : forall s ivs es, build s = Some (ivs, es) -> Forall nn es.
Proof. intros s ivs es H. unfold build in H. apply (build_comps_nla _ _ _ _ _ H). constructor. Qed.

Lemma check_nla : forall s nla st e st' e' b, check s nla st e = (st', e', b) -> ie_nla e' = ie_nla e.
Proof.
  intros s nla st e st' e' b H.
  destruct (etype_eqb (ie_type e) EUnknown) eqn:Et.
  2:{ unfold check in H. rewrite Et in H. cbn [negb] in H. inversion H; subst. reflexivity. }
  unfold check in H. rewrite Et in H. cbn [negb] in H. cbv zeta in H.
  match type of H with (if ?c then _ else _) = _ => destruct c end.
  { inversion H; subst. reflexivity. }
  match type of H with (if ?c then _ else _) = _ => destruct c end.
  { inversion H; subst. reflexivity. }
  match type of H with context [type_variables ?a ?b ?c ?d ?e0 ?f ?g] =>
    destruct (type_variables a b c d e0 f g) as [[st2 unk] ok] end.
  destruct ok; cbn [negb] in H; inversion H; subst; reflexivity.
Qed.

Lemma sweep_nla : forall s nla es st st' es' b, sweep s nla st es = (st', es', b) -> Forall nn es -> Forall nn es'.
Proof.
  intros s nla es. induction es as [|e r IH]; intros st st' es' b H Hn; cbn in H.
  - inversion H; subst. constructor.
  - destruct (check s nla st e) as [[st1 e1] b1] eqn:Hc.
    destruct (sweep s nla st1 r) as [[st2 r1] b2] eqn:Hs.
    inversion H; subst. inversion Hn; subst. constructor.
    + unfold nn. rewrite (check_nla _ _ _ _ _ _ _ Hc). assumption.
    + eapply IH; eassumption.
Qed.

Lemma loop_nla : forall s fuel loopn nla st es st' es', loop s fuel loopn nla st es = Some (st', es') -> Forall nn es -> Forall nn es'.
Proof.
  intros s fuel. induction fuel as [|f IH]; intros loopn nla st es st' es' H Hn; [discriminate|].
  cbn [loop] in H. destruct (sweep s nla st es) as [[st1 es1] rel] eqn:Hs.
  pose proof (sweep_nla _ _ _ _ _ _ _ Hs Hn) as H1.
  destruct rel; [eapply IH; eassumption|].
  destruct ((loopn =? 1) || (loopn =? 3)); [eapply IH; eassumption|].
  destruct (loopn =? 2).
  - destruct (existsb iv_external (cs_ivs st1)); [eapply IH; eassumption|inversion H; subst; exact H1].
  - inversion H; subst. exact H1.
Qed.

(* ------------------------------------------------------------------ the grouping gives an index to NLA equations only *)

Definition nls (e : ieq) : Prop := ie_nla e <> None -> is_nla e = true.

Lemma upd_pred : forall (P : ieq -> Prop) l k x, (P (gete l k) -> P x) -> (forall j, P (gete l j)) -> forall j, P (gete (upd l k x) j).
Proof.
  intros P l k x H Hl j. rewrite gete_upd. destruct ((j =? k) && (k <? length l)) eqn:E; [|apply Hl].
  apply H. apply Hl.
Qed.

Lemma nla_step_nls : forall ivs st k, (forall j, nls (gete (ns_es st) j)) -> forall j, nls (gete (ns_es (nla_step ivs st k)) j).
Proof.
  intros ivs st k H. unfold nla_step.
  set (l := ns_es st) in *. set (e := gete l k).
  match goal with |- context [if is_nla e then (?a, ?b) else (?c, ?d)] =>
    set (pr := if is_nla e then (a, b) else (c, d));
    assert (He1 : ie_nla (snd pr) = ie_nla e /\ ie_type (snd pr) = ie_type e) by (unfold pr; destruct (is_nla e); cbn; auto) end.
  destruct pr as [added e1]. cbn [snd] in He1. destruct He1 as (N1 & T1).
  assert (Hn1 : nls e1).
  { intro K. rewrite N1 in K. unfold is_nla. rewrite T1. apply (H k). exact K. }
  set (l1 := upd l k e1).
  assert (H1 : forall j, nls (gete l1 j)) by (apply upd_pred; [intros _; exact Hn1|exact H]).
  destruct (negb (is_nla e1)) eqn:En; cbn [ns_es]; [exact H1|].
  apply negb_false_iff in En.
  match goal with |- context [let '(idx, next) := ?m in _] => destruct m as [idx next] end.
  cbn [ns_es].
  set (l2 := upd l1 k (set_nla e1 (Some idx))).
  assert (H2 : forall j, nls (gete l2 j)).
  { apply upd_pred; [|exact H1]. intros _ _. exact En. }
  match goal with |- context [fold_left ?f ?oo l2] => set (os := oo); set (l3 := fold_left f os l2) end.
  assert (Hos : forall z, In z os -> is_nla (gete l2 z) = true).
  { intros z Hz. unfold os in Hz. apply filter_In in Hz. destruct Hz as (_ & Hz).
    apply andb_true_iff in Hz. destruct Hz as (Hz & _). apply andb_true_iff in Hz. apply Hz. }
  assert (H3 : (forall j, nls (gete l3 j)) /\ (forall j, ie_type (gete l3 j) = ie_type (gete l2 j))).
  { unfold l3. revert Hos. generalize os. intro o.
    assert (G : forall l0, (forall j, nls (gete l0 j)) -> (forall j, ie_type (gete l0 j) = ie_type (gete l2 j)) ->
              (forall z, In z o -> is_nla (gete l2 z) = true) ->
              (forall j, nls (gete (fold_left (fun l j => upd l j (set_nla (gete l j) (Some idx))) o l0) j)) /\
              (forall j, ie_type (gete (fold_left (fun l j => upd l j (set_nla (gete l j) (Some idx))) o l0) j) = ie_type (gete l2 j))).
    { induction o as [|z o IHo]; intros l0 A B C; cbn [fold_left]; [split; assumption|].
      apply IHo.
      - apply upd_pred; [|exact A]. intros _ _. unfold is_nla. cbn. rewrite B. apply C. left. reflexivity.
      - intro j. rewrite gete_upd. destruct ((j =? z) && (z <? length l0)) eqn:E; [|apply B].
        apply andb_true_iff in E. destruct E as (E & _). apply Nat.eqb_eq in E. subst. cbn. apply B.
      - intros z' Hz'. apply C. right. exact Hz'. }
    intro Hos. apply G; [exact H2|reflexivity|exact Hos]. }
  destruct H3 as (H3 & _).
  apply upd_pred; [|exact H3]. intros K. exact K.
Qed.

Lemma nla_group_nls : forall ivs es, Forall (fun v => iv_external v = false) ivs -> Forall nn es ->
  forall e', In e' (nla_group ivs es) -> nls e'.
Proof.
  intros ivs es Hne Hn e' Hin. unfold nla_group in Hin.
  assert (Hfold : forall ks st, (forall j, nls (gete (ns_es st) j)) -> forall j, nls (gete (ns_es (fold_left (nla_step ivs) ks st)) j)).
  { induction ks as [|k r IH]; intros st H0; cbn [fold_left]; [exact H0|]. apply IH. apply nla_step_nls; assumption. }
  destruct (nla_fold_more ivs es (length es) (mkNs es 0 [] []) Hne eq_refl eq_refl (le_n _) (fun _ _ => I)) as (A1 & A2 & _).
  assert (H0 : forall j, nls (gete (ns_es (mkNs es 0 [] [])) j)).
  { intros j K. exfalso. apply K. cbn [ns_es]. unfold gete.
    destruct (Nat.lt_ge_cases j (length es)) as [L|L]; [|rewrite nth_overflow by exact L; reflexivity].
    rewrite Forall_forall in Hn. apply Hn. apply nth_In. exact L. }
  pose proof (Hfold (seq 0 (length es)) _ H0) as Hs.
  set (st := fold_left (nla_step ivs) (seq 0 (length es)) (mkNs es 0 [] [])) in *.
  rewrite A2 in Hin. cbn [map] in Hin. rewrite app_nil_r in Hin.
  apply in_map_iff in Hin. destruct Hin as (j & <- & _). exact (Hs j).
Qed.

Definition keeps_nla (e e' : ieq) : Prop := ie_nla e' = ie_nla e /\ (ie_type e' = ENla <-> ie_type e = ENla) /\ ie_unknown e' = ie_unknown e.

Lemma requalify_step_nla : forall ivs done over iss e ivs' done' over' iss',
  requalify_step (ivs, done, over, iss) e = (ivs', done', over', iss') ->
  exists e', done' = done ++ [e'] /\ keeps_nla e e'.
Proof.
  intros ivs done over iss e ivs' done' over' iss' H. unfold requalify_step in H.
  assert (Hr : keeps_nla e e) by (unfold keeps_nla; tauto).
  destruct (ie_type e) eqn:Et; try (inversion H; subst; exists e; split; [reflexivity|exact Hr]).
  - destruct (existsb _ (ie_all e)); inversion H; subst; [|exists e; split; [reflexivity|exact Hr]].
    exists (set_etype e EAlgebraic). split; [reflexivity|]. unfold keeps_nla. cbn. rewrite Et.
    repeat split; try reflexivity; intro K; discriminate.
  - destruct (length (ie_unknown e) <? length (ie_sibs e) + 1).
    + match type of H with context [fold_left ?f (ie_unknown e) ?a] => destruct (fold_left f (ie_unknown e) a) as [[ivs3 over3] iss3] end.
      inversion H; subst. exists e. split; [reflexivity|exact Hr].
    + inversion H; subst. exists e. split; [reflexivity|exact Hr].
Qed.

Lemma requalify_fold_nla : forall es ivs done over iss ivs2 es2 over2 iss2,
  fold_left requalify_step es (ivs, done, over, iss) = (ivs2, es2, over2, iss2) ->
  forall e2, In e2 es2 -> In e2 done \/ exists e, In e es /\ keeps_nla e e2.
Proof.
  induction es as [|e r IH]; intros ivs done over iss ivs2 es2 over2 iss2 H e2 He2; cbn [fold_left] in H.
  - inversion H; subst. left. exact He2.
  - destruct (requalify_step (ivs, done, over, iss) e) as [[[ivs1 done1] over1] iss1] eqn:E.
    destruct (requalify_step_nla _ _ _ _ _ _ _ _ _ E) as (e' & -> & Hs).
    destruct (IH _ _ _ _ _ _ _ _ H e2 He2) as [K|(x & Hx & Hsx)].
    + apply in_app_iff in K. destruct K as [K|[<-|[]]]; [left; exact K|right]. exists e. split; [left; reflexivity|exact Hs].
    + right. exists x. split; [right; exact Hx|exact Hsx].
Qed.

(* ------------------------------------------------------------------ the packaging *)

Lemma vref_eqb_iff : forall a b, vref_eqb a b = true <-> a = b.
Proof.
  intros [a1 a2] [b1 b2]. unfold vref_eqb. cbn. rewrite andb_true_iff, !Nat.eqb_eq. split; [intros (A & B); congruence|intro H; inversion H; auto].
Qed.

Lemma filter_map_In : forall {A B} (f : A -> option B) l u a, In u l -> f u = Some a -> In a (filter_map f l).
Proof.
  intros A B f l u a. induction l as [|x r IH]; intros Hin Hf; [destruct Hin|]. cbn [filter_map].
  destruct Hin as [->|Hin]; [rewrite Hf; left; reflexivity|]. destruct (f x); [right|]; apply IH; assumption.
Qed.
Lemma filter_map_In_inv : forall {A B} (f : A -> option B) l a, In a (filter_map f l) -> exists u, In u l /\ f u = Some a.
Proof.
  intros A B f l a. induction l as [|x r IH]; intro H; [destruct H|]. cbn [filter_map] in H.
  destruct (f x) as [y|] eqn:E; [destruct H as [<-|H]; [exists x; split; [left; reflexivity|exact E]|]|];
    destruct (IH H) as (u & U1 & U2); exists u; split; [right; exact U1|exact U2|right; exact U1|exact U2].
Qed.

Lemma filter_map_pos_nodup : forall (F : nat -> option aeq) l,
  (forall j y, In j l -> F j = Some y -> ae_pos y = j) -> NoDup l -> NoDup (map ae_pos (filter_map F l)).
Proof.
  intros F l. induction l as [|j r IH]; intros HF Hnd; cbn [filter_map map]; [constructor|].
  inversion Hnd; subst.
  assert (IHr : NoDup (map ae_pos (filter_map F r))) by (apply IH; [intros j' y Hj' Hy; apply HF; [right; exact Hj'|exact Hy]|assumption]).
  destruct (F j) as [y|] eqn:E; [|exact IHr]. cbn [map]. constructor; [|exact IHr].
  rewrite (HF j y (or_introl eq_refl) E). intro K. apply in_map_iff in K. destruct K as (y' & P & Hy').
  apply filter_map_In_inv in Hy'. destruct Hy' as (j' & J1 & J2). rewrite (HF j' y' (or_intror J1) J2) in P. subst j'. contradiction.
Qed.

(** the converse of clause 31: every equation of the result that a variable lists lists that variable *)
Definition vars_list_back (r : result) : Prop :=
  forall a j e, In a (all_avars r) -> In j (av_eqs a) -> find_aeq r j = Some e -> In (av_var a) (ae_vars e).

Lemma package_eqvars : forall s ty voi ivs es,
  eqs_fin ivs es -> Forall (fun v => iv_external v = false) ivs -> ivs_ok s ivs ->
  (forall e, In e es -> ie_type e <> ENla -> ie_nla e = None) ->
  wf_equation_vars (package s ty voi ivs es) = true /\ vars_list_back (package s ty voi ivs es).
Proof.
  intros s ty voi ivs es Hfe Hne Hok Hnla. unfold package.
  set (consts := filter (fun p => vtype_eqb (iv_type (geti ivs p)) VConstant) (seq 0 (length ivs))).
  set (dum := map (new_var_eq ivs) consts).
  set (es3 := es ++ dum).
  set (avs := make_avars es3 ivs 0 0 0).
  set (F := make_aeq s ivs es3 avs).
  set (aeqs := filter_map F (seq 0 (length es3))).
  set (pop := map ae_pos aeqs).
  set (r := mkResult ty [] voi _ _ _ _).
  assert (Hreqs : r_eqs r = map (clean_deps pop) aeqs) by reflexivity.
  assert (Hvcls : forall i, i < length ivs -> cls_of s (iv_var (geti ivs i)) = iv_cls (geti ivs i)).
  { intros i Hi. destruct (ivs_ok_geti _ _ _ Hok Hi) as (_ & K & _). exact K. }
  assert (Hat : forall q, q < length ivs -> forall t, atype_of (geti ivs q) = Some t -> t <> AExternal /\
            exists a, lookup_avar avs q = Some a /\ av_type a = t /\ av_var a = iv_var (geti ivs q) /\ av_eqs a = eqs_of es3 q).
  { intros q Hq t Ht. split.
    - unfold atype_of in Ht. rewrite (noext_geti _ q Hne) in Ht. destruct (iv_type (geti ivs q)); inversion Ht; discriminate.
    - destruct (make_avars_lookup es3 ivs 0 0 0 q t) as (a & A1 & _ & A3 & A4 & A5); [lia|lia|rewrite Nat.sub_0_r; exact Ht|].
      rewrite Nat.sub_0_r in A4. exists a. auto. }
  assert (Hcomp : forall q, q < length ivs -> computed_type (iv_type (geti ivs q)) = true -> exists t, atype_of (geti ivs q) = Some t).
  { intros q Hq Hc. unfold atype_of. rewrite (noext_geti _ q Hne). destruct (iv_type (geti ivs q)); cbn in Hc; try discriminate; eauto. }
  assert (Havs : forall q a, In (q, a) avs -> q < length ivs /\ av_var a = iv_var (geti ivs q) /\ av_eqs a = eqs_of es3 q).
  { intros q a Hin. destruct (make_avars_In _ _ _ _ _ _ _ Hin) as (_ & Hq & _ & Hv & He). rewrite Nat.sub_0_r in Hv. cbn in Hq. auto. }
  assert (Hall : forall a, In a (all_avars r) <-> exists q, In (q, a) avs).
  { intro a. unfold all_avars, r. cbn [r_states r_vars]. rewrite <- map_app. rewrite in_map_iff. split.
    - intros ([q a'] & E & Hin). cbn in E. subst a'. exists q. apply in_app_iff in Hin. destruct Hin as [K|K]; apply filter_In in K; apply K.
    - intros (q & Hin). exists (q, a). split; [reflexivity|]. apply in_app_iff.
      destruct (atype_eqb (av_type a) AState) eqn:E; [left|right]; apply filter_In; cbn; rewrite E; auto. }
  assert (Hlk : forall u, u < length ivs -> computed_type (iv_type (geti ivs u)) = true ->
            exists a, lookup_avar avs u = Some a /\ av_type a <> AExternal /\ av_var a = iv_var (geti ivs u) /\ av_eqs a = eqs_of es3 u).
  { intros u U1 U2. destruct (Hcomp u U1 U2) as (t & Ht). destruct (Hat u U1 t Ht) as (Hx & a & L1 & L2 & L3 & L4).
    exists a. split; [exact L1|]. split; [rewrite L2; exact Hx|]. auto. }
  assert (HF : forall j y, j < length es3 -> F j = Some y -> j < length es /\ ae_pos y = j /\ ae_nla y = ie_nla (gete es j) /\
            ae_vars y = map av_var (filter_map (lookup_avar avs) (ie_unknown (gete es j))) /\
            ae_type y = qtype_of (ie_type (gete es j))).
  { intros j y Hj3 Hy. destruct (Nat.lt_ge_cases j (length es)) as [Hj|Hj].
    - assert (Hg : gete es3 j = gete es j) by (unfold gete, es3; apply app_nth1; exact Hj).
      destruct (Hfe (gete es j) (nth_In _ _ Hj)) as (E1 & E2 & E3).
      destruct (ie_unknown (gete es j)) as [|p rest] eqn:Eu; [contradiction|].
      destruct (E3 p (or_introl eq_refl)) as (P1 & P2). destruct (Hlk p P1 P2) as (a0 & L0 & T0 & _).
      destruct (make_aeq_typed s ivs es3 avs j p a0 rest) as (x & X1 & X2 & X3 & X4 & X5); try (rewrite Hg; assumption); try assumption.
      unfold F in Hy. rewrite X1 in Hy. inversion Hy; subst y. rewrite Hg, ?Eu in *. auto.
    - exfalso.
      unfold es3 in Hj3. rewrite app_length in Hj3.
      assert (Hg : gete es3 j = nth (j - length es) dum dieq) by (unfold gete, es3; apply app_nth2; lia).
      assert (Hin : In (nth (j - length es) dum dieq) dum) by (apply nth_In; lia).
      unfold dum in Hin. apply in_map_iff in Hin. destruct Hin as (c & Hc1 & Hc2).
      unfold consts in Hc2. apply filter_In in Hc2. destruct Hc2 as (Hc2 & Hc3). apply in_seq in Hc2. apply vtype_eqb_eq in Hc3.
      assert (Ht : atype_of (geti ivs c) = Some AConstant) by (unfold atype_of; rewrite (noext_geti _ c Hne), Hc3; reflexivity).
      destruct (Hat c (proj2 Hc2) _ Ht) as (_ & a0 & L0 & T0 & _).
      assert (Hg' : gete es3 j = new_var_eq ivs c) by (rewrite Hg; unfold dum; symmetry; exact Hc1).
      unfold F in Hy. rewrite (make_aeq_dummy s ivs es3 avs j c a0) in Hy; [discriminate|rewrite Hg'; reflexivity|rewrite Hg'; reflexivity|exact L0|rewrite T0; discriminate]. }
  assert (Hres : forall x, In x (r_eqs r) -> exists j, j < length es /\ ae_pos x = j /\ ae_nla x = ie_nla (gete es j) /\
            ae_vars x = map av_var (filter_map (lookup_avar avs) (ie_unknown (gete es j))) /\ ae_type x = qtype_of (ie_type (gete es j))).
  { intros x Hx. rewrite Hreqs in Hx. apply in_map_iff in Hx. destruct Hx as (y & <- & Hy).
    unfold aeqs in Hy. apply filter_map_In_inv in Hy. destruct Hy as (j & J1 & J2). apply in_seq in J1.
    destruct (HF j y (proj2 J1) J2) as (Hj & Y1 & Y2 & Y3 & Y4).
    destruct (clean_deps_proj pop y) as (C1 & C2 & C3 & C4). exists j. rewrite C1, C2, C3, C4. auto. }
  split.
  - (* clause 31 *)
    unfold wf_equation_vars. apply andb_true_iff. split.
    + apply nodupb_NoDup. rewrite Hreqs, map_map.
      rewrite (map_ext (fun x => ae_pos (clean_deps pop x)) ae_pos) by (intro x; apply clean_deps_proj).
      apply filter_map_pos_nodup; [|apply seq_NoDup].
      intros j y Hj Hy. apply in_seq in Hj. apply (HF j y (proj2 Hj) Hy).
    + apply forallb_forall. intros x Hx. destruct (Hres x Hx) as (j & Hj & X1 & X2 & X3 & X4).
      set (e := gete es j) in *. assert (Hein : In e es) by (apply nth_In; exact Hj).
      destruct (Hfe e Hein) as (E1 & E2 & E3).
      assert (Hv : forall v, In v (ae_vars x) -> exists u a, In u (ie_unknown e) /\ lookup_avar avs u = Some a /\ av_var a = v).
      { intros v Hv. rewrite X3 in Hv. apply in_map_iff in Hv. destruct Hv as (a & A1 & A2).
        apply filter_map_In_inv in A2. destruct A2 as (u & U1 & U2). exists u, a. auto. }
      apply andb_true_iff. split; [apply andb_true_iff; split|].
      * destruct (ie_unknown e) as [|p rest] eqn:Eu; [contradiction|].
        destruct (E3 p (or_introl eq_refl)) as (P1 & P2). destruct (Hlk p P1 P2) as (a0 & L0 & _).
        rewrite X3. cbn [filter_map]. rewrite L0. reflexivity.
      * apply forallb_forall. intros v Hvin. destruct (Hv v Hvin) as (u & a & U1 & U2 & U3).
        destruct (E3 u U1) as (P1 & P2).
        apply lookup_avar_In in U2. destruct (Havs _ _ U2) as (_ & Q2 & Q3).
        unfold find_avar. destruct (find (fun a0 => vref_eqb (av_var a0) v) (all_avars r)) as [a'|] eqn:Ef.
        -- apply find_some in Ef. destruct Ef as (Ha' & Hv'). apply vref_eqb_iff in Hv'.
           apply Hall in Ha'. destruct Ha' as (q' & Hq'). destruct (Havs _ _ Hq') as (R1 & R2 & R3).
           assert (q' = u).
           { eapply cls_inj; [exact Hok|exact R1|exact P1|]. rewrite <- (Hvcls q' R1), <- (Hvcls u P1), <- R2, <- Q2. congruence. }
           subst q'. rewrite R3. apply mem_nat_In. unfold eqs_of. apply filter_In. split.
           ++ apply in_seq. unfold es3. rewrite app_length. lia.
           ++ apply mem_nat_In. rewrite X1. replace (gete es3 j) with e; [exact U1|]. unfold gete, es3, e. symmetry. apply app_nth1. exact Hj.
        -- exfalso. assert (Ha : In a (all_avars r)) by (apply Hall; exists u; exact U2).
           pose proof (find_none _ _ Ef a Ha) as K. cbv beta in K. rewrite U3 in K.
           assert (K' : vref_eqb v v = true) by (apply vref_eqb_iff; reflexivity). congruence.
      * unfold q_nla. rewrite X4. destruct (ie_type e) eqn:Ty; cbn; try reflexivity;
          rewrite X2, (Hnla e Hein) by (rewrite Ty; discriminate); reflexivity.
  - (* the converse *)
    intros a j x Ha Hj Hf. apply Hall in Ha. destruct Ha as (q & Hq). destruct (Havs _ _ Hq) as (Q1 & Q2 & Q3).
    rewrite Q3 in Hj. unfold eqs_of in Hj. apply filter_In in Hj. destruct Hj as (_ & Hmem). apply mem_nat_In in Hmem.
    unfold find_aeq in Hf. apply find_some in Hf. destruct Hf as (Hx & Epos). apply Nat.eqb_eq in Epos.
    destruct (Hres x Hx) as (j' & Hj' & X1 & _ & X3 & _). rewrite Epos in X1. subst j'.
    assert (Hg : gete es3 j = gete es j) by (unfold gete, es3; apply app_nth1; exact Hj').
    rewrite Hg in Hmem.
    destruct (Hfe (gete es j) (nth_In _ _ Hj')) as (_ & _ & E3). destruct (E3 q Hmem) as (P1 & P2).
    destruct (Hlk q P1 P2) as (a0 & L0 & _ & L2 & _).
    rewrite X3, Q2, <- L2. apply in_map. eapply filter_map_In; eassumption.
Qed.

(* ------------------------------------------------------------------ the theorem *)

Lemma invalid_eqvars : forall t iss, wf_equation_vars (invalid_result t iss) = true /\ vars_list_back (invalid_result t iss).
Proof. intros t iss. split; [reflexivity|]. intros a j e Ha. destruct Ha. Qed.

Lemma finish_eqvars : forall s voi ivs es vidx,
  own_inv ivs es -> Forall (fun v => iv_external v = false) ivs -> ivs_ok s ivs -> Forall nn es ->
  wf_equation_vars (finish s voi ivs es vidx) = true /\ vars_list_back (finish s voi ivs es vidx).
Proof.
  intros s voi ivs es vidx Hown Hne Hok Hnn. unfold finish.
  destruct (validate_vars ivs vidx) as [[ivs1 vidx1] iss1] eqn:Ev.
  destruct iss1 as [|i1 ir1]; [|apply invalid_eqvars].
  destruct (fold_left requalify_step (nla_group ivs1 es) (ivs1, [], [], [])) as [[[ivs2 es2] ov] iss2] eqn:Er.
  destruct iss2 as [|i2 ir2]; [|apply invalid_eqvars].
  destruct (finish_weak s _ _ _ _ _ _ _ _ Hown Hne Ev Er) as (Hev2 & Hne2 & _ & Hfe & _).
  pose proof (evolves_ivs_ok _ _ _ Hok Hev2) as Hok2.
  destruct (validate_vars_spec s _ _ _ _ _ Ev) as (V1 & _).
  pose proof (noext_evolves _ _ _ (Forall2_evolves _ _ _ V1) Hne) as Hne1.
  assert (Hnla : forall e, In e es2 -> ie_type e <> ENla -> ie_nla e = None).
  { intros e2 He2 Hty. destruct (requalify_fold_nla _ _ _ _ _ _ _ _ _ Er e2 He2) as [[]|(e' & He' & (K1 & K2 & _))].
    pose proof (nla_group_nls ivs1 es Hne1 Hnn e' He') as Hs. rewrite K1.
    destruct (ie_nla e') eqn:En; [|reflexivity]. exfalso. apply Hty. apply K2.
    assert (Hi : is_nla e' = true) by (apply Hs; rewrite En; discriminate). unfold is_nla in Hi. apply etype_eqb_eq in Hi. exact Hi. }
  destruct (model_type voi ivs2 es2); try (apply package_eqvars; assumption). apply invalid_eqvars.
Qed.

(** Clause 31 (W3b) and its converse, for EVERY input: in the result of the analysis the positions of the equations
    are distinct, every equation lists at least one variable, each variable it lists is a variable of the result
    whose equations() contains the equation, an equation that is not of type NLA has no NLA system index; and every
    equation of the result that a variable lists, lists that variable.  (Invalid results have no equations.) *)
Theorem result_wf_equation_vars : forall s r, analyse s = Done r -> wf_equation_vars r = true /\ vars_list_back r.
Proof.
  intros s r H. unfold analyse, analyse_ext in H.
  destruct (negb (resolvable s)); [discriminate|].
  destruct (build s) as [[ivs0 es0]|] eqn:Eb; [|discriminate].
  destruct (check_inits s ivs0 0 s); [|inversion H; subst; apply invalid_eqvars].
  cbn [fold_left] in H.
  destruct (vs_issues (analyse_asts s ivs0 es0)) eqn:Ei; [|inversion H; subst; apply invalid_eqvars].
  destruct (loop s (loop_fuel es0) 1 false (mkCs (vs_ivs (analyse_asts s ivs0 es0)) 0 0) es0) as [[st es1]|] eqn:El; [|discriminate].
  inversion H; subst r. clear H.
  destruct (own_inv_initial _ _ _ Eb) as (H0 & Hlen).
  destruct (build_spec _ _ _ Eb) as (B1 & B2 & B3). pose proof (build_fresh _ _ _ Eb) as B4.
  destruct (analyse_asts_inv s ivs0 es0 B1 B3 B4 B2 Ei) as ((Hok & _ & _ & _ & Hne) & _).
  pose proof (loop_own _ _ _ _ _ _ _ _ El Hne H0) as Hown.
  destruct (loop_inv _ _ _ _ _ _ _ _ El (oi_bounds _ _ H0)) as (Hev & _).
  pose proof (noext_evolves _ _ _ Hev Hne) as Hne1.
  pose proof (loop_nla _ _ _ _ _ _ _ _ El (build_nla _ _ _ Eb)) as Hnn.
  cbn [cs_ivs] in *.
  apply finish_eqvars; try assumption. eapply evolves_ivs_ok; eassumption.
Qed.

Theorem result_wf_equation_vars_31 : forall s r, analyse s = Done r -> wf_equation_vars r = true.
Proof. intros s r H. exact (proj1 (result_wf_equation_vars s r H)). Qed.

Theorem result_vars_list_back : forall s r, analyse s = Done r -> vars_list_back r.
Proof. intros s r H. exact (proj2 (result_wf_equation_vars s r H)). Qed.

(* non-vacuity: the two-component ODE model of AnalysisWitness has equations and variables *)
Definition lists_back_sample (s : system) : bool :=
  match analyse s with
  | Done r =>
      match all_avars r with
      | a :: _ =>
          match av_eqs a with
          | j :: _ =>
              match find_aeq r j with
              | Some e => mem_vref (av_var a) (ae_vars e) && valid_type (r_type r) && (2 <=? length (r_eqs r)) && wf_equation_vars r
              | None => false
              end
          | [] => false
          end
      | [] => false
      end
  | _ => false
  end.

From LC Require AnalysisWitness.
Lemma eqvars_nonvacuous : lists_back_sample AnalysisWitness.good_sys = true.
Proof. vm_compute. reflexivity. Qed.
