(** EqualsSimProofs.v — the specification relation [sim] is an equivalence (C10, part B). *)
From Coq Require Import String List Bool ZArith QArith Arith Permutation Lia.
From LC Require Import EqualsDefs EqualsSpec EqualsProofs.
Import ListNotations.
Local Close Scope Q_scope.

(** * Induction on component trees *)

Lemma component_ind' : forall P : component -> Prop,
  (forall s ks, Forall P ks -> P (Comp s ks)) -> forall c, P c.
Proof.
  intros P H. fix IH 1. intros [s ks]. apply H.
  induction ks as [|k t IHt]; constructor; [apply IH|exact IHt].
Qed.

(** * perm_rel *)

Lemma Forall2_refl_in : forall {A} (E : A -> A -> Prop) l, (forall x, In x l -> E x x) -> Forall2 E l l.
Proof.
  intros A E l H. induction l as [|x t IH]; constructor; [apply H; left; reflexivity|].
  apply IH. intros y Hy. apply H. right. exact Hy.
Qed.

Lemma Forall2_flip_in : forall {A B} (E : A -> B -> Prop) (E' : B -> A -> Prop) l1 l2,
  (forall x y, In x l1 -> E x y -> E' y x) -> Forall2 E l1 l2 -> Forall2 E' l2 l1.
Proof.
  intros A B E E' l1 l2 H HF. induction HF as [|x y t t' Hxy HF IH]; constructor.
  - apply H; [left; reflexivity|exact Hxy].
  - apply IH. intros a b Ha. apply H. right. exact Ha.
Qed.

Lemma Forall2_trans_in : forall {A B C} (E1 : A -> B -> Prop) (E2 : B -> C -> Prop) (E3 : A -> C -> Prop) l1 l2 l3,
  (forall x y z, In x l1 -> E1 x y -> E2 y z -> E3 x z) ->
  Forall2 E1 l1 l2 -> Forall2 E2 l2 l3 -> Forall2 E3 l1 l3.
Proof.
  intros A B C E1 E2 E3 l1 l2 l3 H HF. revert l3. induction HF as [|x y t t' Hxy HF IH]; intros l3 HG.
  - inversion HG. constructor.
  - inversion HG as [|y0 z t0 t'' Hyz HG']; subst. constructor.
    + eapply H; [left; reflexivity|exact Hxy|exact Hyz].
    + apply IH; [|exact HG']. intros a b c Ha. apply H. right. exact Ha.
Qed.

Lemma Forall2_mono_in : forall {A B} (E E' : A -> B -> Prop) l1 l2,
  (forall x y, In x l1 -> E x y -> E' x y) -> Forall2 E l1 l2 -> Forall2 E' l1 l2.
Proof.
  intros A B E E' l1 l2 H HF. induction HF as [|x y t t' Hxy HF IH]; constructor.
  - apply H; [left; reflexivity|exact Hxy].
  - apply IH. intros a b Ha. apply H. right. exact Ha.
Qed.

(** a permutation of the left list can be followed on the right list *)
Lemma Forall2_perm_l : forall {A B} (E : A -> B -> Prop) l l', Permutation l l' ->
  forall m, Forall2 E l m -> exists m', Permutation m m' /\ Forall2 E l' m'.
Proof.
  intros A B E l l' Hp. induction Hp as [|x l l' Hp IH|x y l|l l' l'' Hp1 IH1 Hp2 IH2]; intros m HF.
  - inversion HF. exists []. split; constructor.
  - inversion HF as [|x0 a t0 mt Ha HF']; subst.
    destruct (IH mt HF') as (m' & Hm & HF''). exists (a :: m'). split; [apply perm_skip; exact Hm|constructor; assumption].
  - inversion HF as [|x0 a t0 mt Ha HF']; subst. inversion HF' as [|x1 b t1 mt' Hb HF'']; subst.
    exists (b :: a :: mt'). split; [apply perm_swap|]. constructor; [exact Hb|]. constructor; assumption.
  - destruct (IH1 m HF) as (m1 & Hm1 & HF1). destruct (IH2 m1 HF1) as (m2 & Hm2 & HF2).
    exists m2. split; [eapply perm_trans; eassumption|exact HF2].
Qed.

Lemma perm_rel_refl : forall {A} (E : A -> A -> Prop) l, (forall x, In x l -> E x x) -> perm_rel E l l.
Proof. intros A E l H. exists l. split; [apply Permutation_refl|apply Forall2_refl_in; exact H]. Qed.

Lemma perm_rel_sym : forall {A B} (E : A -> B -> Prop) (E' : B -> A -> Prop) l1 l2,
  (forall x y, In x l1 -> E x y -> E' y x) -> perm_rel E l1 l2 -> perm_rel E' l2 l1.
Proof.
  intros A B E E' l1 l2 H (l2' & Hp & HF).
  apply (Forall2_flip_in E E') in HF; [|exact H].
  destruct (Forall2_perm_l E' l2' l2 (Permutation_sym Hp) l1 HF) as (l1' & Hp' & HF').
  exists l1'. split; assumption.
Qed.

Lemma perm_rel_trans : forall {A B C} (E1 : A -> B -> Prop) (E2 : B -> C -> Prop) (E3 : A -> C -> Prop) l1 l2 l3,
  (forall x y z, In x l1 -> E1 x y -> E2 y z -> E3 x z) ->
  perm_rel E1 l1 l2 -> perm_rel E2 l2 l3 -> perm_rel E3 l1 l3.
Proof.
  intros A B C E1 E2 E3 l1 l2 l3 H (l2' & Hp2 & HF1) (l3' & Hp3 & HF2).
  destruct (Forall2_perm_l E2 l2 l2' Hp2 l3' HF2) as (l3'' & Hp3' & HF2').
  exists l3''. split; [eapply perm_trans; eassumption|].
  eapply Forall2_trans_in; eassumption.
Qed.

Lemma perm_rel_mono : forall {A B} (E E' : A -> B -> Prop) l1 l2,
  (forall x y, In x l1 -> E x y -> E' x y) -> perm_rel E l1 l2 -> perm_rel E' l1 l2.
Proof.
  intros A B E E' l1 l2 H (l2' & Hp & HF). exists l2'. split; [exact Hp|].
  eapply Forall2_mono_in; eassumption.
Qed.

Lemma perm_rel_of_perm : forall {A} (E : A -> A -> Prop) l l', (forall x, E x x) -> Permutation l l' -> perm_rel E l l'.
Proof.
  intros A E l l' Hr Hp. exists l. split; [apply Permutation_sym; exact Hp|].
  apply Forall2_refl_in. intros; apply Hr.
Qed.

Lemma opt_rel_refl : forall {A} (E : A -> A -> Prop) o, (forall x, E x x) -> opt_rel E o o.
Proof. intros A E [x|] H; cbn; [apply H|exact I]. Qed.

Lemma opt_rel_sym : forall {A} (E : A -> A -> Prop) a b, (forall x y, E x y -> E y x) -> opt_rel E a b -> opt_rel E b a.
Proof. intros A E [x|] [y|] H; cbn; auto. Qed.

Lemma opt_rel_trans : forall {A} (E : A -> A -> Prop) a b c, (forall x y z, E x y -> E y z -> E x z) ->
  opt_rel E a b -> opt_rel E b c -> opt_rel E a c.
Proof. intros A E [x|] [y|] [z|] H; cbn; try tauto. apply H. Qed.

Lemma opt_rel_mono : forall {A} (E E' : A -> A -> Prop) a b, (forall x y, E x y -> E' x y) -> opt_rel E a b -> opt_rel E' a b.
Proof. intros A E E' [x|] [y|] H; cbn; auto. Qed.

(** * sim is an equivalence, level by level *)

Section SimEquiv.
  Variable neq : Q -> Q -> bool.
  Hypothesis L : neq_laws neq.

  Let nr := neq_refl neq L.
  Let ns := neq_sym neq L.
  Let nt := neq_trans neq L.

  Lemma sim_unitdef_refl : forall a, sim_unitdef neq a a.
  Proof. intros a. unfold sim_unitdef. repeat split; apply nr. Qed.

  Lemma sim_unitdef_sym : forall a b, sim_unitdef neq a b -> sim_unitdef neq b a.
  Proof.
    unfold sim_unitdef. intros a b (H1 & H2 & H3 & H4 & H5).
    repeat split; try congruence; apply ns; assumption.
  Qed.

  Lemma sim_unitdef_trans : forall a b c, sim_unitdef neq a b -> sim_unitdef neq b c -> sim_unitdef neq a c.
  Proof.
    unfold sim_unitdef. intros a b c (H1 & H2 & H3 & H4 & H5) (G1 & G2 & G3 & G4 & G5).
    repeat split; try congruence; eapply nt; eassumption.
  Qed.

  Lemma sim_units_refl : forall a, sim_units neq a a.
  Proof.
    intros a. unfold sim_units. repeat split. apply perm_rel_refl. intros; apply sim_unitdef_refl.
  Qed.

  Lemma sim_units_sym : forall a b, sim_units neq a b -> sim_units neq b a.
  Proof.
    unfold sim_units. intros a b (H1 & H2 & H3 & H4 & H5). repeat split; try congruence.
    eapply perm_rel_sym; [|exact H5]. intros x y _. apply sim_unitdef_sym.
  Qed.

  Lemma sim_units_trans : forall a b c, sim_units neq a b -> sim_units neq b c -> sim_units neq a c.
  Proof.
    unfold sim_units. intros a b c (H1 & H2 & H3 & H4 & H5) (G1 & G2 & G3 & G4 & G5).
    repeat split; try congruence.
    eapply perm_rel_trans; [|exact H5|exact G5]. intros x y z _. apply sim_unitdef_trans.
  Qed.

  Lemma sim_variable_refl : forall a, sim_variable neq a a.
  Proof. intros a. unfold sim_variable. repeat split. apply opt_rel_refl. apply sim_units_refl. Qed.

  Lemma sim_variable_sym : forall a b, sim_variable neq a b -> sim_variable neq b a.
  Proof.
    unfold sim_variable. intros a b (H1 & H2 & H3 & H4 & H5). repeat split; try congruence.
    apply opt_rel_sym; [apply sim_units_sym|exact H5].
  Qed.

  Lemma sim_variable_trans : forall a b c, sim_variable neq a b -> sim_variable neq b c -> sim_variable neq a c.
  Proof.
    unfold sim_variable. intros a b c (H1 & H2 & H3 & H4 & H5) (G1 & G2 & G3 & G4 & G5).
    repeat split; try congruence. eapply opt_rel_trans; [apply sim_units_trans|exact H5|exact G5].
  Qed.

  Lemma sim_reset_refl : forall a, sim_reset neq a a.
  Proof. intros a. unfold sim_reset. repeat split; apply opt_rel_refl; apply sim_variable_refl. Qed.

  Lemma sim_reset_sym : forall a b, sim_reset neq a b -> sim_reset neq b a.
  Proof.
    unfold sim_reset. intros a b (H1 & H2 & H3 & H4 & H5 & H6 & H7 & H8). repeat split; try congruence;
      (apply opt_rel_sym; [apply sim_variable_sym|assumption]).
  Qed.

  Lemma sim_reset_trans : forall a b c, sim_reset neq a b -> sim_reset neq b c -> sim_reset neq a c.
  Proof.
    unfold sim_reset. intros a b c (H1 & H2 & H3 & H4 & H5 & H6 & H7 & H8) (G1 & G2 & G3 & G4 & G5 & G6 & G7 & G8).
    repeat split; try congruence; (eapply opt_rel_trans; [apply sim_variable_trans|eassumption|eassumption]).
  Qed.

  Lemma sim_shell_refl : forall a, sim_shell neq a a.
  Proof.
    intros a. unfold sim_shell. repeat split; apply perm_rel_refl; intros.
    - apply sim_variable_refl.
    - apply sim_reset_refl.
  Qed.

  Lemma sim_shell_sym : forall a b, sim_shell neq a b -> sim_shell neq b a.
  Proof.
    unfold sim_shell. intros a b (H1 & H2 & H3 & H4 & H5 & H6 & H7 & H8). repeat split; try congruence.
    - eapply perm_rel_sym; [|exact H7]. intros x y _. apply sim_variable_sym.
    - eapply perm_rel_sym; [|exact H8]. intros x y _. apply sim_reset_sym.
  Qed.

  Lemma sim_shell_trans : forall a b c, sim_shell neq a b -> sim_shell neq b c -> sim_shell neq a c.
  Proof.
    unfold sim_shell. intros a b c (H1 & H2 & H3 & H4 & H5 & H6 & H7 & H8) (G1 & G2 & G3 & G4 & G5 & G6 & G7 & G8).
    repeat split; try congruence.
    - eapply perm_rel_trans; [|exact H7|exact G7]. intros x y z _. apply sim_variable_trans.
    - eapply perm_rel_trans; [|exact H8|exact G8]. intros x y z _. apply sim_reset_trans.
  Qed.

  Lemma sim_component_inv : forall sa ka sb kb, sim_component neq (Comp sa ka) (Comp sb kb) ->
    sim_shell neq sa sb /\ perm_rel (sim_component neq) ka kb.
  Proof.
    intros sa ka sb kb H. inversion H as [sa' sb' ka' kb0 kb' Hs Hp HF]; subst.
    split; [exact Hs|]. exists kb'. split; assumption.
  Qed.

  Lemma sim_component_intro : forall sa ka sb kb,
    sim_shell neq sa sb -> perm_rel (sim_component neq) ka kb -> sim_component neq (Comp sa ka) (Comp sb kb).
  Proof. intros sa ka sb kb Hs (kb' & Hp & HF). econstructor; eassumption. Qed.

  Lemma sim_component_refl : forall a, sim_component neq a a.
  Proof.
    induction a as [s ks IH] using component_ind'.
    apply sim_component_intro; [apply sim_shell_refl|].
    apply perm_rel_refl. intros x Hx. rewrite Forall_forall in IH. apply IH. exact Hx.
  Qed.

  Lemma sim_component_sym : forall a b, sim_component neq a b -> sim_component neq b a.
  Proof.
    induction a as [sa ka IH] using component_ind'. intros [sb kb] H.
    apply sim_component_inv in H. destruct H as (Hs & Hk).
    apply sim_component_intro; [apply sim_shell_sym; exact Hs|].
    eapply perm_rel_sym; [|exact Hk]. intros x y Hx. rewrite Forall_forall in IH. apply IH. exact Hx.
  Qed.

  Lemma sim_component_trans : forall a b c, sim_component neq a b -> sim_component neq b c -> sim_component neq a c.
  Proof.
    induction a as [sa ka IH] using component_ind'. intros [sb kb] [sc kc] H G.
    apply sim_component_inv in H. destruct H as (Hs & Hk).
    apply sim_component_inv in G. destruct G as (Gs & Gk).
    apply sim_component_intro; [eapply sim_shell_trans; eassumption|].
    eapply perm_rel_trans; [|exact Hk|exact Gk]. intros x y z Hx. rewrite Forall_forall in IH. apply IH. exact Hx.
  Qed.

  Lemma sim_model_refl : forall a, sim_model neq a a.
  Proof.
    intros a. unfold sim_model. repeat split; apply perm_rel_refl; intros.
    - apply sim_units_refl.
    - apply sim_component_refl.
  Qed.

  Lemma sim_model_sym : forall a b, sim_model neq a b -> sim_model neq b a.
  Proof.
    unfold sim_model. intros a b (H1 & H2 & H3 & H4 & H5). repeat split; try congruence.
    - eapply perm_rel_sym; [|exact H4]. intros x y _. apply sim_units_sym.
    - eapply perm_rel_sym; [|exact H5]. intros x y _. apply sim_component_sym.
  Qed.

  Lemma sim_model_trans : forall a b c, sim_model neq a b -> sim_model neq b c -> sim_model neq a c.
  Proof.
    unfold sim_model. intros a b c (H1 & H2 & H3 & H4 & H5) (G1 & G2 & G3 & G4 & G5). repeat split; try congruence.
    - eapply perm_rel_trans; [|exact H4|exact G4]. intros x y z _. apply sim_units_trans.
    - eapply perm_rel_trans; [|exact H5|exact G5]. intros x y z _. apply sim_component_trans.
  Qed.

  Lemma sim_entity_refl : forall a, sim_entity neq a a.
  Proof.
    intros [x|x|x|x|x|x]; cbn;
      [apply sim_model_refl|apply sim_component_refl|apply sim_variable_refl|apply sim_units_refl|apply sim_reset_refl|reflexivity].
  Qed.

  Lemma sim_entity_sym : forall a b, sim_entity neq a b -> sim_entity neq b a.
  Proof.
    intros [x|x|x|x|x|x] [y|y|y|y|y|y]; cbn; try tauto;
      [apply sim_model_sym|apply sim_component_sym|apply sim_variable_sym|apply sim_units_sym|apply sim_reset_sym|congruence].
  Qed.

  Lemma sim_entity_trans : forall a b c, sim_entity neq a b -> sim_entity neq b c -> sim_entity neq a c.
  Proof.
    intros [x|x|x|x|x|x] [y|y|y|y|y|y] [z|z|z|z|z|z]; cbn; try tauto;
      [apply sim_model_trans|apply sim_component_trans|apply sim_variable_trans|apply sim_units_trans|apply sim_reset_trans|congruence].
  Qed.
End SimEquiv.

(** * sim is monotone in the comparison of doubles *)

Section SimMono.
  Variables n1 n2 : Q -> Q -> bool.
  Hypothesis Hn : forall x y, n1 x y = true -> n2 x y = true.

  Lemma sim_unitdef_mono : forall a b, sim_unitdef n1 a b -> sim_unitdef n2 a b.
  Proof. unfold sim_unitdef. intros a b (H1 & H2 & H3 & H4 & H5). repeat split; auto. Qed.

  Lemma sim_units_mono : forall a b, sim_units n1 a b -> sim_units n2 a b.
  Proof.
    unfold sim_units. intros a b (H1 & H2 & H3 & H4 & H5). repeat split; auto.
    eapply perm_rel_mono; [|exact H5]. intros x y _. apply sim_unitdef_mono.
  Qed.

  Lemma sim_variable_mono : forall a b, sim_variable n1 a b -> sim_variable n2 a b.
  Proof.
    unfold sim_variable. intros a b (H1 & H2 & H3 & H4 & H5). repeat split; auto.
    eapply opt_rel_mono; [apply sim_units_mono|exact H5].
  Qed.

  Lemma sim_reset_mono : forall a b, sim_reset n1 a b -> sim_reset n2 a b.
  Proof.
    unfold sim_reset. intros a b (H1 & H2 & H3 & H4 & H5 & H6 & H7 & H8). repeat split; auto;
      (eapply opt_rel_mono; [apply sim_variable_mono|assumption]).
  Qed.

  Lemma sim_shell_mono : forall a b, sim_shell n1 a b -> sim_shell n2 a b.
  Proof.
    unfold sim_shell. intros a b (H1 & H2 & H3 & H4 & H5 & H6 & H7 & H8). repeat split; auto.
    - eapply perm_rel_mono; [|exact H7]. intros x y _. apply sim_variable_mono.
    - eapply perm_rel_mono; [|exact H8]. intros x y _. apply sim_reset_mono.
  Qed.

  Lemma sim_component_mono : forall a b, sim_component n1 a b -> sim_component n2 a b.
  Proof.
    induction a as [sa ka IH] using component_ind'. intros [sb kb] H.
    inversion H as [sa' sb' ka' kb0 kb' Hs Hp HF]; subst.
    econstructor; [apply sim_shell_mono; exact Hs|exact Hp|].
    eapply Forall2_mono_in; [|exact HF]. intros x y Hx. rewrite Forall_forall in IH. apply IH. exact Hx.
  Qed.

  Lemma sim_model_mono : forall a b, sim_model n1 a b -> sim_model n2 a b.
  Proof.
    unfold sim_model. intros a b (H1 & H2 & H3 & H4 & H5). repeat split; auto.
    - eapply perm_rel_mono; [|exact H4]. intros x y _. apply sim_units_mono.
    - eapply perm_rel_mono; [|exact H5]. intros x y _. apply sim_component_mono.
  Qed.

  Lemma sim_entity_mono : forall a b, sim_entity n1 a b -> sim_entity n2 a b.
  Proof.
    intros [x|x|x|x|x|x] [y|y|y|y|y|y]; cbn; try tauto;
      [apply sim_model_mono|apply sim_component_mono|apply sim_variable_mono|apply sim_units_mono|apply sim_reset_mono].
  Qed.
End SimMono.

Lemma q_same_eq : forall a b, q_same a b = true -> a = b.
Proof.
  intros [an ad] [bn bd]. unfold q_same. cbn. rewrite andb_true_iff, Z.eqb_eq, Pos.eqb_eq. intros [-> ->]. reflexivity.
Qed.

Lemma shuffled_sim : forall neq, neq_laws neq -> forall a a', shuffled a a' -> sim_entity neq a a'.
Proof.
  intros neq L a a' H. eapply sim_entity_mono; [|exact H].
  intros x y Hq. apply q_same_eq in Hq. subst. apply (neq_refl neq L).
Qed.
