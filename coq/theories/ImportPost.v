(** ImportPost.v — after a successful resolution, what hasUnresolvedImports() looks for is there (C07). *)
From Coq Require Import String Ascii List Bool Arith Lia.
From LC Require Import ImportDefs ImportSpec ImportProofs ImportGuard.
Import ListNotations.
Local Open Scope string_scope.
Local Open Scope list_scope.

(* ------------------------------------------------------------------------------------------ monotonicity *)

Lemma linked_grow_eq : forall st st' o sid url sm, grow st st' -> linked_model st o sid url = Some sm ->
  linked_model st' o sid url = Some sm.
Proof.
  intros st st' o sid url sm [L M] H. unfold linked_model in *. destruct (has_link st o sid) eqn:Hl; [|discriminate].
  rewrite (L _ _ Hl). apply M. exact H.
Qed.

Lemma TU_grow : forall st st' o cm u, grow st st' -> TU st o cm u -> TU st' o cm u.
Proof.
  intros st st' o cm u G H. induction H as [o cm n refs Hc IH | o cm n sid url ref sm iu Hl Hf Hi IH].
  - apply TU_local. intros r cu Hr Hs E. eapply IH; eauto.
  - eapply TU_imp; eauto. eapply linked_grow_eq; eauto.
Qed.

Lemma UsedOK_grow : forall st st' o cm c, grow st st' -> UsedOK st o cm c -> UsedOK st' o cm c.
Proof.
  intros st st' o cm c G H c' un mu Hc' Hun Hs E. destruct (H c' un mu Hc' Hun Hs E) as [L|[L T]]; [left; exact L|].
  right. split; [exact L|]. eapply TU_grow; eauto.
Qed.

Lemma TC_grow : forall st st' o cm c, grow st st' -> TC st o cm c -> TC st' o cm c.
Proof.
  intros st st' o cm c G H.
  induction H as [o cm n sid url ref used kids sm ic Hl Hf Hi IH Hkids IHkids | o cm n used kids Hu Hk IH].
  - eapply TC_imp; eauto. eapply linked_grow_eq; eauto.
  - apply TC_local; [eapply UsedOK_grow; eauto|]. intros k Hin. apply IH. exact Hin.
Qed.

Lemma TCI_grow : forall st st' o c, grow st st' -> TCI st o c -> TCI st' o c.
Proof.
  intros st st' o [n [[[sid url] ref]|] used kids] G H; [|exact I]. destruct H as (sm & ic & Hl & Hf & Ht).
  exists sm, ic. split; [eapply linked_grow_eq; eauto|]. split; [exact Hf|eapply TC_grow; eauto].
Qed.

(* a loop of fetches that all succeeded *)
Lemma all_ok_true_inv {A : Type} (P : state -> Prop) (Q : state -> A -> Prop) (step : state -> A -> res (bool * state)) :
  (forall a x x', grow x x' -> Q x a -> Q x' a) ->
  forall l,
  (forall a x x', In a l -> P x -> step x a = Ok (true, x') -> P x' /\ grow x x' /\ Q x' a) ->
  forall x x', P x -> all_ok step l x = Ok (true, x') -> P x' /\ grow x x' /\ forall a, In a l -> Q x' a.
Proof.
  intros HQ. induction l as [|a r IH]; intros Hs x x' Hx E; cbn [all_ok] in E.
  - inversion E; subst. split; [exact Hx|]. split; [apply grow_refl|intros a []].
  - destruct (step x a) as [[b x1]| |] eqn:E1; try discriminate. destruct b; [|discriminate].
    destruct (Hs a x x1 (or_introl eq_refl) Hx E1) as (H1 & G1 & Q1).
    destruct (IH (fun a' y y' Ha' => Hs a' y y' (or_intror Ha')) x1 x' H1 E) as (H2 & G2 & Q2).
    split; [exact H2|]. split; [eapply grow_trans; eauto|].
    intros a' [<-|Ha']; [eapply HQ; eauto|apply Q2; exact Ha'].
Qed.

Lemma child_comps_sub : forall m c c', In c (child_comps m) -> In c' (subcomps c) -> In c' (child_comps m).
Proof.
  intros m c c' Hc Hc'. unfold child_comps in *. apply in_flat_map in Hc. destruct Hc as (p & Hp & Hc).
  apply in_flat_map in Hc. destruct Hc as (q & Hq & Hc). apply in_flat_map. exists p. split; [exact Hp|].
  apply in_flat_map. exists q. split; [exact Hq|]. eapply subcomps_trans; eauto.
Qed.

Section Post.
  Variable fs : fsys.
  Variable strict : bool.
  Variable m0 : model.
  Hypothesis Hsh : Shallow fs.

  (* the units used below an encapsulated child of a file's model are leaves (S3) *)
  Lemma child_UsedOK : forall st key cm c, fs_model fs key = Some cm -> In c (child_comps cm) ->
    UsedOK st (Some key) cm c.
  Proof.
    intros st key cm c Hfm Hc c' un mu Hc' Hun Hs E. destruct (Hsh _ _ Hfm) as (_ & _ & S3 & _).
    destruct (S3 c' un (child_comps_sub _ _ _ Hc Hc') Hun Hs) as (su & E' & Hl & Ho).
    assert (su = mu) by congruence. subst su. left. split; assumption.
  Qed.

  Lemma noimp_TC : forall st key cm, fs_model fs key = Some cm ->
    forall c, requires_imports c = false -> In c (child_comps cm) -> TC st (Some key) cm c.
  Proof.
    intros st key cm Hfm c. induction c as [n i used kids IHk] using comp_ind'. intros Hr Hc.
    destruct i as [p|]; [cbn in Hr; discriminate|].
    apply TC_local; [eapply child_UsedOK; eauto|].
    intros kd Hkd. rewrite Forall_forall in IHk. apply IHk; auto.
    - cbn [requires_imports] in Hr. clear -Hr Hkd. induction kids as [|x r IH]; [destruct Hkd|].
      destruct (requires_imports x) eqn:Ex; [discriminate|]. destruct Hkd as [<-|Hkd]; auto.
    - eapply child_comps_kids; eauto.
  Qed.

  Definition imp_TU (st : state) (o : owner) (u : units) : Prop :=
    match u with UImp _ _ _ _ => forall cm, TU st o cm u | ULocal _ _ => True end.

  Lemma fetch_units_TU : forall fuel st o hist u st',
    cons fs st -> fetch_units fuel strict fs m0 st o hist u = Ok (true, st') ->
    cons fs st' /\ grow st st' /\ imp_TU st' o u.
  Proof.
    induction fuel as [|f IH]; intros st o hist u st' Hc E;
      destruct u as [n refs|n sid url ref]; cbn [fetch_units] in E; try discriminate;
      try (inversion E; subst; split; [exact Hc|split; [apply grow_refl|exact I]]).
    unfold fetch_units_body in E. pose proof (fis_grow strict fs st o sid url) as Hfis.
    destruct (fetch_import_source strict fs st o sid url) as [st1|st1 errs sm] eqn:Efis; [discriminate|].
    destruct Hfis as (G1 & Hl1 & Hg1).
    destruct (fis_ok_cons _ _ _ _ _ _ _ _ _ Hc Efis) as (Hc1 & _ & Hfm & _).
    destruct (existsb (related_units ref) errs); [discriminate|].
    destruct (check_cycle st1 m0 hist (fetch_epoch o url)); [discriminate|].
    destruct (find_units (m_units sm) ref) as [su|] eqn:Efu; [|discriminate].
    set (o' := Some (key_of o url)) in *. set (hist' := hist ++ [fetch_epoch o url]) in *.
    destruct (fetch_units f strict fs m0 st1 o' hist' su) as [[b2 st2]| |] eqn:E2; try discriminate.
    destruct b2; [|discriminate].
    destruct (IH _ _ _ _ _ Hc1 E2) as (Hc2 & G2 & T2).
    assert (Hall : cons fs st' /\ grow st2 st' /\
                   forall r, In r (refs_of su) -> is_std r = false ->
                             forall cu, find_units (m_units sm) r = Some cu -> ~ is_local cu -> TU st' o' sm cu).
    { replace (match su with ULocal _ refs => refs | UImp _ _ _ _ => [] end) with (refs_of su) in E
        by (destruct su; reflexivity).
      eapply (all_ok_true_inv (cons fs)
                (fun x r => is_std r = false -> forall cu, find_units (m_units sm) r = Some cu -> ~ is_local cu ->
                                                          TU x o' sm cu)); [| |exact Hc2|exact E].
      - intros r x x' G Q Hs cu Ecu Hnl. eapply TU_grow; eauto.
      - intros r x x' _ Hx Es. cbv beta in Es. destruct (is_std r) eqn:Estd.
        + inversion Es; subst. split; [exact Hx|]. split; [apply grow_refl|discriminate].
        + destruct (find_units (m_units sm) r) as [cu|] eqn:Ecu; [|discriminate].
          destruct (IH _ _ _ _ _ Hx Es) as (Hcx & Gx & Tx). split; [exact Hcx|]. split; [exact Gx|].
          intros _ cu' Ecu' Hnl. assert (cu' = cu) by congruence. subst cu'.
          destruct cu as [|nc sc uc rc]; [exfalso; apply Hnl; exact I|]. apply Tx. }
    destruct Hall as (Hc' & G3 & Tk).
    assert (G13 : grow st1 st') by (eapply grow_trans; eauto).
    split; [exact Hc'|]. split; [eapply grow_trans; eauto|].
    intros cm. eapply TU_imp with (sm := sm) (iu := su).
    - unfold linked_model. destruct G13 as [L M]. rewrite (L _ _ Hl1). apply M. exact Hg1.
    - exact Efu.
    - destruct su as [ns refs|ns ss us rs].
      + apply TU_local. intros r cu Hr Hs Ecu. destruct cu as [nc rc|nc sc uc rc].
        * destruct (Hsh _ _ Hfm) as (S1 & _). apply TU_local. intros r' cu' Hr' Hs' _.
          assert (Ho : only_std (ULocal nc rc)).
          { eapply (S1 (ULocal ns refs) r (ULocal nc rc)); eauto; try exact I. eapply find_units_In; eauto. }
          rewrite (Ho r' Hr') in Hs'. discriminate.
        * eapply Tk; eauto.
      + eapply TU_grow; [exact G3|]. apply T2.
  Qed.

  Definition comp_TC (st : state) (o : owner) (c : comp) : Prop :=
    TCI st o c /\
    (forall key cm, o = Some key -> fs_model fs key = Some cm -> In c (child_comps cm) -> TC st o cm c).

  Lemma comp_TC_grow : forall st st' o c, grow st st' -> comp_TC st o c -> comp_TC st' o c.
  Proof.
    intros st st' o c G [H1 H2]. split.
    - eapply TCI_grow; eauto.
    - intros key cm Ho Hfm Hin. eapply TC_grow; eauto.
  Qed.

  (* an import placeholder that is an encapsulated child of a file's model has no children of its own (S4) *)
  Lemma TCI_child_TC : forall st key cm c, fs_model fs key = Some cm -> In c (child_comps cm) -> cimp c <> None ->
    TCI st (Some key) c -> TC st (Some key) cm c.
  Proof.
    intros st key cm [n [[[sid url] ref]|] used kids] Hfm Hin Hi H; [|exfalso; apply Hi; reflexivity].
    destruct H as (sm & ic & Hl & Hf & Ht). destruct (Hsh _ _ Hfm) as (_ & _ & _ & S4).
    assert (Hk : kids = []) by (apply (S4 _ Hin); cbn; discriminate). subst kids.
    eapply TC_imp; eauto. intros k [].
  Qed.

  Lemma walk_TC (imp : state -> comp -> res (bool * state)) (o : owner) :
    (forall st c st', cimp c <> None -> cons fs st -> imp st c = Ok (true, st') ->
                      cons fs st' /\ grow st st' /\ TCI st' o c) ->
    forall c st st', cons fs st -> walk_comp imp c st = Ok (true, st') ->
                     cons fs st' /\ grow st st' /\ comp_TC st' o c.
  Proof.
    intros Himp c. induction c as [n i used kids IHk] using comp_ind'. intros st st' Hc E.
    cbn [walk_comp] in E.
    destruct (requires_imports (Comp n i used kids)) eqn:Hreq; cbn [negb] in E.
    2:{ inversion E; subst. split; [exact Hc|]. split; [apply grow_refl|]. split.
        - destruct i as [p|]; [cbn [requires_imports] in Hreq; discriminate Hreq|exact I].
        - intros key cm -> Hfm Hin. eapply noimp_TC; eauto. }
    destruct i as [p|].
    - assert (Hi : cimp (Comp n (Some p) used kids) <> None) by (cbn; discriminate).
      destruct (Himp _ _ _ Hi Hc E) as (Hc' & G & T). split; [exact Hc'|]. split; [exact G|].
      split; [exact T|intros key cm -> Hfm Hin; eapply TCI_child_TC; eauto].
    - assert (G : cons fs st' /\ grow st st' /\ forall k, In k kids -> comp_TC st' o k).
      { clear Hreq. revert st Hc E. induction kids as [|k r IHr]; intros st Hc E.
        - inversion E; subst. split; [exact Hc|]. split; [apply grow_refl|intros k []].
        - inversion IHk as [|k' r' Hk Hr]; subst.
          destruct (walk_comp imp k st) as [[b1 st1]| |] eqn:E1; try discriminate. destruct b1; [|discriminate].
          destruct (Hk _ _ Hc E1) as (Hc1 & G1 & T1).
          destruct (IHr Hr _ Hc1 E) as (Hc2 & G2 & T2).
          split; [exact Hc2|]. split; [eapply grow_trans; eauto|].
          intros k' [<-|Hk']; [eapply comp_TC_grow; eauto|apply T2; exact Hk']. }
      destruct G as (Hc' & G & Tk). split; [exact Hc'|]. split; [exact G|]. split; [exact I|].
      intros key cm -> Hfm Hin. apply TC_local; [eapply child_UsedOK; eauto|].
      intros k Hk. apply (proj2 (Tk k Hk) key cm eq_refl Hfm). eapply child_comps_kids; eauto.
  Qed.

  Lemma fetch_comp_TC : forall fuel st o hist c st',
    cons fs st -> fetch_comp fuel strict fs m0 st o hist c = Ok (true, st') ->
    cons fs st' /\ grow st st' /\ comp_TC st' o c.
  Proof.
    induction fuel as [|f IH]; intros st o hist c st' Hc E; cbn [fetch_comp] in E; [discriminate|].
    eapply walk_TC; [|exact Hc|exact E]. clear st c st' Hc E.
    intros st c st' Himp Hc E.
    destruct c as [name [[[sid url] ref]|] used kids]; [|exfalso; apply Himp; reflexivity]. clear Himp.
    unfold fetch_comp_body in E. pose proof (fis_grow strict fs st o sid url) as Hfis.
    destruct (fetch_import_source strict fs st o sid url) as [st1|st1 errs sm] eqn:Efis; [discriminate|].
    destruct Hfis as (G1 & Hl1 & Hg1).
    destruct (fis_ok_cons _ _ _ _ _ _ _ _ _ Hc Efis) as (Hc1 & _ & Hfm & _).
    destruct (existsb (related_comp (find_comp (m_comps sm) ref)) errs); [discriminate|].
    destruct (check_cycle st1 m0 hist (fetch_epoch o url)); [discriminate|].
    destruct (find_comp (m_comps sm) ref) as [sc|] eqn:Efc; [|discriminate].
    set (o' := Some (key_of o url)) in *. set (hist' := hist ++ [fetch_epoch o url]) in *.
    destruct (fetch_comp f strict fs m0 st1 o' hist' sc) as [[b2 st2]| |] eqn:E2; try discriminate.
    destruct b2; [|discriminate].
    destruct (IH _ _ _ _ _ Hc1 E2) as (Hc2 & G2 & T2).
    destruct (all_ok (fun st k => fetch_comp f strict fs m0 st o' hist' k) (ckids sc) st2) as [[b3 st3]| |] eqn:E3;
      try discriminate.
    destruct b3; [|discriminate].
    assert (Hsc_in : In sc (all_comps sm)) by (eapply find_comp_sub; exact Efc).
    assert (H3 : cons fs st3 /\ grow st2 st3 /\ forall k, In k (ckids sc) -> comp_TC st3 o' k).
    { eapply (all_ok_true_inv (cons fs) (fun x k => comp_TC x o' k)); [| |exact Hc2|exact E3].
      - intros k x x' G Q. eapply comp_TC_grow; eauto.
      - intros k x x' _ Hx Es. cbv beta in Es. eapply IH; eauto. }
    destruct H3 as (Hc3 & G3 & T3).
    assert (H4 : cons fs st' /\ grow st3 st' /\
                 forall un, In un (cused sc) -> is_std un = false ->
                            forall mu, find_units (m_units sm) un = Some mu -> ~ is_local mu -> TU st' o' sm mu).
    { eapply (all_ok_true_inv (cons fs)
                (fun x un => is_std un = false -> forall mu, find_units (m_units sm) un = Some mu -> ~ is_local mu ->
                                                            TU x o' sm mu)); [| |exact Hc3|exact E].
      - intros un x x' G Q Hs mu Emu Hnl. eapply TU_grow; eauto.
      - intros un x x' _ Hx Es. cbv beta in Es. destruct (is_std un) eqn:Estd.
        + inversion Es; subst. split; [exact Hx|]. split; [apply grow_refl|discriminate].
        + destruct (find_units (m_units sm) un) as [su|] eqn:Esu; [|discriminate].
          destruct (fetch_units_TU _ _ _ _ _ _ Hx Es) as (Hcx & Gx & Tx). split; [exact Hcx|]. split; [exact Gx|].
          intros _ mu Emu Hnl. assert (mu = su) by congruence. subst mu.
          destruct su as [|nc sc' uc rc]; [exfalso; apply Hnl; exact I|]. apply Tx. }
    destruct H4 as (Hc' & G4 & T4).
    assert (G1' : grow st1 st') by (eapply grow_trans; [exact G2|eapply grow_trans; eauto]).
    split; [exact Hc'|]. split; [eapply grow_trans; eauto|].
    assert (Hkids_sc : forall k, In k (ckids sc) -> TC st' o' sm k).
    { intros k Hk. destruct (kids_child_comps sm _ k Hsc_in Hk) as (Hkc & _).
      eapply TC_grow; [exact G4|]. apply (proj2 (T3 k Hk) (key_of o url) sm eq_refl Hfm Hkc). }
    cbn [TCI]. exists sm, sc. split.
    { unfold linked_model. destruct G1' as [L M]. rewrite (L _ _ Hl1). apply M. exact Hg1. }
    split; [exact Efc|].
    destruct sc as [n' [[[sid' url'] ref']|] used' kids'].
    - assert (T2' : TCI st' o' (Comp n' (Some (sid', url', ref')) used' kids')).
      { eapply TCI_grow; [eapply grow_trans; [exact G3|exact G4]|]. apply (proj1 T2). }
      cbn [TCI] in T2'. destruct T2' as (sm' & ic' & Hl' & Hf' & Ht'). eapply TC_imp; eauto.
    - apply TC_local; [|exact Hkids_sc].
      intros c' un mu Hsub Hun Hs Emu. rewrite subcomps_eq in Hsub. destruct Hsub as [<-|Hsub].
      + destruct mu as [nm rm|nm sm' um rm].
        * left. split; [exact I|]. destruct (Hsh _ _ Hfm) as (_ & S2 & _).
          eapply (S2 (Comp n' None used' kids') un (ULocal nm rm)); eauto. exact I.
        * right. split; [intros []|]. eapply T4; eauto.
      + apply in_flat_map in Hsub. destruct Hsub as (k & Hk & Hsub).
        destruct (kids_child_comps sm _ k Hsc_in Hk) as (Hkc & _).
        eapply (child_UsedOK st' (key_of o url) sm k Hfm Hkc); eauto.
  Qed.
End Post.

(* ------------------------------------------------------------------------------------------ the tests succeed *)

Lemma importee_url_cases : forall hist url,
  importee_url hist url = origin_ref \/ exists e, In e hist /\ importee_url hist url = e_dst e.
Proof.
  intros hist url. unfold importee_url.
  assert (G : forall l, importee_url_rev l url = origin_ref \/ exists e, In e l /\ importee_url_rev l url = e_dst e).
  { induction l as [|e r IH]; [left; reflexivity|]. cbn [importee_url_rev].
    destruct (String.eqb (e_dst e) url).
    - destruct IH as [IH|(e' & He' & IH)]; [left; exact IH|right; exists e'; split; [right; exact He'|exact IH]].
    - right. exists e. split; [left; reflexivity|reflexivity]. }
  destruct (G (rev hist)) as [H|(e & He & H)]; [left; exact H|]. right. exists e. split; [apply in_rev; exact He|exact H].
Qed.

Lemma all_ok_const {A X : Type} (step : X -> A -> res (bool * X)) (l : list A) (x : X) :
  (forall a, In a l -> step x a = Ok (true, x)) -> all_ok step l x = Ok (true, x).
Proof.
  induction l as [|a r IH]; intros H; cbn [all_ok]; [reflexivity|].
  rewrite (H a (or_introl eq_refl)). apply IH. intros a' Ha'. apply H. right. exact Ha'.
Qed.

Lemma list_bound {A : Type} (P : A -> nat -> Prop) (l : list A) :
  (forall a, In a l -> exists N, forall n, N <= n -> P a n) ->
  exists N, forall n, N <= n -> forall a, In a l -> P a n.
Proof.
  induction l as [|a r IH]; intros H; [exists 0; intros n _ a []|].
  destruct (H a (or_introl eq_refl)) as (Na & Ha).
  destruct (IH (fun a' Ha' => H a' (or_intror Ha'))) as (Nr & Hr).
  exists (Nat.max Na Nr). intros n Hn a' [<-|Ha']; [apply Ha; lia|apply Hr; [lia|exact Ha']].
Qed.

Lemma list_strict_bound {A : Type} (f : A -> nat) (l : list A) : exists c, forall x, In x l -> f x < c.
Proof.
  induction l as [|a r [c Hc]]; [exists 0; intros x []|]. exists (S (Nat.max (f a) c)).
  intros x [<-|Hx]; [lia|]. specialize (Hc x Hx). lia.
Qed.

Section Tests.
  Variable fs : fsys.
  Variable m0 : model.
  Variable st : state.
  Variable fx : fixes.
  Variable rank : string -> nat.      (* on library keys *)
  Variable urank : string -> nat.     (* on import URLs as written: performTestWithHistory compares those *)
  Hypothesis Hpop : fx_pop fx = true.
  Hypothesis Hcons : cons fs st.
  Hypothesis Hrank : forall k sm url, fs_model fs k = Some sm -> In url (import_urls sm) ->
                                      rank (key_of (Some k) url) < rank k.
  Hypothesis Hnt : NoTwin fs m0.
  Hypothesis Hntf : NoTwinFiles fs.
  (* no import URL is the marker ":this:" that the history uses for the origin model *)
  Hypothesis Hurl0 : forall url, In url (import_urls m0) -> url <> origin_ref.
  Hypothesis Hurl : forall k sm url, fs_model fs k = Some sm -> In url (import_urls sm) -> url <> origin_ref.

  (* the model [cm] is the one owned by [o] *)
  Definition octx (o : owner) (cm : model) : Prop :=
    match o with None => cm = m0 | Some k => fs_model fs k = Some cm end.

  (* the URLs written in a file are smaller than the URL through which the file was imported *)
  Hypothesis Hurank : forall o cm url sm url', octx o cm -> In url (import_urls cm) ->
    fs_model fs (key_of o url) = Some sm -> In url' (import_urls sm) -> urank url' < urank url.

  (* history of performTestWithHistory at an entity of the model [cm] owned by [o] *)
  Definition tinv (o : owner) (cm : model) (hist : list epoch) : Prop :=
    match o with
    | None => hist = []
    | Some k => exists c, (forall url, In url (import_urls cm) -> urank url < c) /\
                forall e, In e hist ->
                          (e_src e = origin_ref \/ c < urank (e_src e)) /\
                          c <= urank (e_dst e) /\
                          (forall k0, e_srcm e = Some k0 -> rank k <= rank k0)
    end.

  Definition test_epoch (o : owner) (hist : list epoch) (url : string) : epoch :=
    {| e_src := importee_url hist url; e_dst := url; e_srcm := o; e_dstm := Some (key_of o url) |}.

  Lemma url_lower : forall o cm url, octx o cm -> In url (import_urls cm) ->
    url <> origin_ref /\ forall k, o = Some k -> rank (key_of o url) < rank k.
  Proof.
    intros [k|] cm url Hc Hin; cbn [octx] in Hc.
    - split; [eapply Hurl; eauto|]. intros k' E. inversion E; subst. eapply Hrank; eauto.
    - subst cm. split; [apply Hurl0; exact Hin|discriminate].
  Qed.

  Lemma tinv_push : forall o cm hist url sm, tinv o cm hist -> octx o cm -> In url (import_urls cm) ->
    fs_model fs (key_of o url) = Some sm ->
    tinv (Some (key_of o url)) sm (hist ++ [test_epoch o hist url]).
  Proof.
    intros o cm hist url sm Hi Hoc Hin Hfm. destruct (url_lower _ _ _ Hoc Hin) as (_ & Hlow).
    exists (urank url). split; [intros url' Hin'; eapply Hurank; eauto|].
    intros e He. apply in_app_or in He. destruct He as [He|[<-|[]]].
    - destruct o as [k|]; [|cbn [tinv] in Hi; subst hist; destruct He].
      specialize (Hlow k eq_refl). destruct Hi as (c & Hc & Hi). specialize (Hc url Hin).
      destruct (Hi e He) as (H1 & H2 & H3). split; [|split].
      + destruct H1 as [H1|H1]; [left; exact H1|right; lia].
      + lia.
      + intros k0 E. specialize (H3 k0 E). lia.
    - cbn [test_epoch e_src e_dst e_srcm]. split; [|split].
      + destruct (importee_url_cases hist url) as [H|(e & He & H)]; [left; exact H|]. right. rewrite H.
        destruct o as [k|]; [|cbn [tinv] in Hi; subst hist; destruct He].
        destruct Hi as (c & Hc & Hi). specialize (Hc url Hin). destruct (Hi e He) as (_ & H2 & _). lia.
      + lia.
      + intros k0 ->. specialize (Hlow k0 eq_refl). lia.
  Qed.

  Lemma test_cycle_false : forall o cm hist url sm, tinv o cm hist -> octx o cm -> In url (import_urls cm) ->
    lib_get (lib st) (key_of o url) = Some sm ->
    check_cycle st m0 hist (test_epoch o hist url) = false.
  Proof.
    intros o cm hist url sm Hi Hoc Hin Hget. destruct (url_lower _ _ _ Hoc Hin) as (Hne & Hlow).
    unfold check_cycle. apply existsb_false. intros e He.
    cbn [test_epoch e_dst e_dstm]. rewrite Hget.
    destruct o as [k|]; [|cbn [tinv] in Hi; subst hist; destruct He].
    specialize (Hlow k eq_refl). destruct Hi as (c & Hc & Hi). specialize (Hc url Hin).
    destruct (Hi e He) as (H1 & H2 & H3).
    apply orb_false_iff. split.
    - apply String.eqb_neq. intros Heq. destruct H1 as [H1|H1]; [rewrite H1 in Heq; contradiction|].
      rewrite <- Heq in H1. lia.
    - destruct (String.eqb (e_src e) origin_ref); [|reflexivity]. cbn [andb].
      pose proof (Hcons _ _ Hget) as Hfm.
      destruct (e_srcm e) as [k0|] eqn:Es; cbn [content].
      + destruct (lib_get (lib st) k0) as [a|] eqn:Ea; [|reflexivity].
        apply (Hntf k0 (key_of (Some k) url) a sm (Hcons _ _ Ea) Hfm). intros ->. specialize (H3 _ eq_refl). lia.
      + apply (Hnt _ _ Hfm).
  Qed.

  Lemma linked_fs : forall o sid url sm, linked_model st o sid url = Some sm -> fs_model fs (key_of o url) = Some sm /\
                                                                             lib_get (lib st) (key_of o url) = Some sm.
  Proof.
    intros o sid url sm H. unfold linked_model in H. destruct (has_link st o sid); [|discriminate]. split; [apply Hcons|]; exact H.
  Qed.

  Lemma units_url_in : forall cm n sid url ref, In (UImp n sid url ref) (m_units cm) -> In url (import_urls cm).
  Proof.
    intros cm n sid url ref H. unfold import_urls. apply in_or_app. left. apply in_flat_map. eexists. split; [exact H|].
    cbn. left. reflexivity.
  Qed.

  (* Units::isResolved() succeeds where the links are in place *)
  Lemma units_test_ok : forall o cm u, TU st o cm u ->
    exists N, forall fuel, N <= fuel -> forall hist, tinv o cm hist -> octx o cm -> In u (m_units cm) ->
      units_test fx fuel RESOLVED st m0 o cm hist u = Ok (true, hist).
  Proof.
    intros o cm u HT. induction HT as [o cm n refs Hc IH | o cm n sid url ref sm iu Hl Hf Hi IH].
    - destruct (list_bound (fun r fuel => forall cu, is_std r = false -> find_units (m_units cm) r = Some cu ->
                                forall hist, tinv o cm hist -> octx o cm ->
                                             units_test fx fuel RESOLVED st m0 o cm hist cu = Ok (true, hist)) refs)
        as (N & HN).
      { intros r Hr. destruct (is_std r) eqn:Es; [exists 0; intros; discriminate|].
        destruct (find_units (m_units cm) r) as [cu|] eqn:Ecu; [|exists 0; intros; discriminate].
        destruct (IH r cu Hr Es Ecu) as (Nc & Hc'). exists Nc. intros fuel Hfuel cu' _ E hist Hti Hoc.
        inversion E; subst. apply Hc'; auto. eapply find_units_In; eauto. }
      exists (S N). intros fuel Hfuel hist Hti Hoc Hin. destruct fuel as [|f]; [lia|].
      cbn [units_test]. apply all_ok_const. intros r Hr. destruct (is_std r) eqn:Es; [reflexivity|].
      destruct (find_units (m_units cm) r) as [cu|] eqn:Ecu; [|reflexivity].
      eapply (HN f ltac:(lia) r Hr); eauto.
    - destruct IH as (N & HN). exists (S N). intros fuel Hfuel hist Hti Hoc Hin. destruct fuel as [|f]; [lia|].
      cbn [units_test]. rewrite Hl, Hf.
      destruct (linked_fs _ _ _ _ Hl) as (Hfm & Hget).
      pose proof (units_url_in _ _ _ _ _ Hin) as Hurlin.
      change {| e_src := importee_url hist url; e_dst := url; e_srcm := o; e_dstm := Some (key_of o url) |}
        with (test_epoch o hist url).
      rewrite (test_cycle_false _ _ _ _ _ Hti Hoc Hurlin Hget).
      rewrite (HN f ltac:(lia) _ (tinv_push _ _ _ _ _ Hti Hoc Hurlin Hfm) Hfm (find_units_In _ _ _ Hf)).
      rewrite Hpop. reflexivity.
  Qed.

  Lemma tinv_nil : forall o cm, tinv o cm [].
  Proof.
    intros [k|] cm; cbn; [|reflexivity]. destruct (list_strict_bound urank (import_urls cm)) as (c & Hc).
    exists c. split; [exact Hc|intros e []].
  Qed.

  Lemma leaf_TU : forall o cm mu, is_local mu -> only_std mu -> TU st o cm mu.
  Proof.
    intros o cm [n refs|] Hl Ho; [|destruct Hl]. apply TU_local. intros r cu Hr Hs _. rewrite (Ho r Hr) in Hs. discriminate.
  Qed.

  Definition good_uref (o : owner) (cm : model) (x : uref) : Prop :=
    match x with InModel mu => In mu (m_units cm) /\ TU st o cm mu | Standalone _ => True end.

  Lemma referenced_units_leaf : forall cyc fuel cm mu, 1 <= fuel -> (is_local mu -> only_std mu) ->
    referenced_units fx cyc fuel cm mu = Ok [].
  Proof.
    intros cyc fuel cm mu Hf Ho. destruct fuel as [|f]; [lia|]. cbn [referenced_units].
    destruct (cyc mu); [reflexivity|].
    destruct mu as [n refs|]; [|reflexivity]. specialize (Ho I). unfold only_std in Ho. cbn [refs_of] in Ho.
    match goal with |- ?F refs = _ => assert (L : forall l, (forall r, In r l -> is_std r = true) -> F l = Ok []) end.
    { induction l as [|r rest IHl]; intros H; [reflexivity|]. rewrite (H r (or_introl eq_refl)). apply IHl.
      intros r' Hr'. apply H. right. exact Hr'. }
    apply L. exact Ho.
  Qed.

  (* unitsUsed hands out the same list for every fuel >= 1, and every units in it is resolved *)
  Lemma units_used_ok : forall cyc o cm c, UsedOK st o cm c ->
    exists l, Forall (good_uref o cm) l /\ forall fuel, 1 <= fuel -> units_used fx cyc fuel cm c = Ok l.
  Proof.
    intros cyc o cm c. induction c as [n i used kids IHk] using comp_ind'. intros HU.
    assert (Hv : exists l1, Forall (good_uref o cm) l1 /\ forall fuel, 1 <= fuel ->
              ((fix vars (l : list string) : res (list uref) :=
                  match l with
                  | [] => Ok []
                  | n0 :: r =>
                    if is_std n0 then vars r
                    else match (match find_units (m_units cm) n0 with
                                | Some mu => match referenced_units fx cyc fuel cm mu with
                                             | Ok l0 => Ok (l0 ++ [InModel mu])
                                             | other => other
                                             end
                                | None => Ok [Standalone n0]
                                end) with
                         | Ok l1 => match vars r with Ok l2 => Ok (l1 ++ l2) | other => other end
                         | other => other
                         end
                  end) used) = Ok l1).
    { assert (HU' : forall un mu, In un used -> is_std un = false -> find_units (m_units cm) un = Some mu ->
                                  (is_local mu -> only_std mu) /\ In mu (m_units cm) /\ TU st o cm mu).
      { intros un mu Hun Hs E. pose proof (find_units_In _ _ _ E) as Hin.
        destruct (HU (Comp n i used kids) un mu (subcomps_self _) Hun Hs E) as [[Hl Ho]|[Hl Ht]].
        - split; [intros _; exact Ho|]. split; [exact Hin|apply leaf_TU; assumption].
        - split; [intros Hl'; contradiction|]. split; assumption. }
      clear HU IHk. induction used as [|un r IHr]; [exists []; split; [constructor|reflexivity]|].
      destruct IHr as (l2 & G2 & E2). { intros un' mu Hun'. apply HU'. right. exact Hun'. }
      destruct (is_std un) eqn:Es; [exists l2; split; [exact G2|exact E2]|].
      destruct (find_units (m_units cm) un) as [mu|] eqn:Emu.
      - destruct (HU' un mu (or_introl eq_refl) Es Emu) as (Hleaf & Hin & Ht).
        exists ([InModel mu] ++ l2). split; [constructor; [split; assumption|exact G2]|].
        intros fuel Hf. rewrite (referenced_units_leaf cyc fuel cm mu Hf Hleaf). rewrite (E2 fuel Hf). reflexivity.
      - exists ([Standalone un] ++ l2). split; [constructor; [exact I|exact G2]|].
        intros fuel Hf. rewrite (E2 fuel Hf). reflexivity. }
    destruct Hv as (l1 & G1 & E1).
    assert (Hg : exists l2, Forall (good_uref o cm) l2 /\ forall fuel, 1 <= fuel ->
              ((fix go (l : list comp) : res (list uref) :=
                  match l with
                  | [] => Ok []
                  | k :: r => match units_used fx cyc fuel cm k with
                              | Ok a => match go r with Ok b => Ok (a ++ b) | other => other end
                              | other => other
                              end
                  end) kids) = Ok l2).
    { assert (HUk : forall k, In k kids -> UsedOK st o cm k).
      { intros k Hk c' un mu Hc'. apply HU. eapply subcomps_kids; [exact Hk|exact Hc']. }
      clear HU E1 G1. induction kids as [|k r IHr]; [exists []; split; [constructor|reflexivity]|].
      inversion IHk as [|k' r' Hk Hr]; subst.
      destruct (Hk (HUk k (or_introl eq_refl))) as (a & Ga & Ea).
      destruct (IHr Hr (fun k' Hk' => HUk k' (or_intror Hk'))) as (b & Gb & Eb).
      exists (a ++ b). split; [apply Forall_app; split; assumption|].
      intros fuel Hf. rewrite (Ea fuel Hf), (Eb fuel Hf). reflexivity. }
    destruct Hg as (l2 & G2 & E2).
    exists (l1 ++ l2). split; [apply Forall_app; split; assumption|].
    intros fuel Hf. cbn [units_used]. rewrite (E1 fuel Hf), (E2 fuel Hf). reflexivity.
  Qed.

  Lemma uref_test_ok : forall o cm x, good_uref o cm x -> octx o cm -> content st m0 o = Some cm ->
    exists N, forall fuel, N <= fuel -> uref_test fx fuel RESOLVED st m0 o cm x = Ok true.
  Proof.
    intros o cm [mu|n] Hg Hoc Hct; [|exists 0; reflexivity]. destruct Hg as (Hin & Ht).
    destruct (units_test_ok _ _ _ Ht) as (N & HN). exists N. intros fuel Hf. cbn [uref_test].
    rewrite (TU_guard_silent st m0 fx o cm mu Ht Hct Hin).   (* 85ba0d4: the guard is silent on resolved units *)
    rewrite (HN fuel Hf [] (tinv_nil o cm) Hoc Hin). reflexivity.
  Qed.

  Lemma comp_url_in : forall cm n sid url ref used kids,
    In (Comp n (Some (sid, url, ref)) used kids) (all_comps cm) -> In url (import_urls cm).
  Proof.
    intros cm n sid url ref used kids H. unfold import_urls. apply in_or_app. right. apply in_flat_map. eexists.
    split; [exact H|]. cbn. left. reflexivity.
  Qed.

  (* Component::isResolved() succeeds where the links are in place *)
  Lemma comp_test_ok : forall o cm c, TC st o cm c -> octx o cm -> content st m0 o = Some cm -> In c (all_comps cm) ->
    exists N, forall fuel, N <= fuel -> forall hist, tinv o cm hist ->
      comp_test fx fuel RESOLVED st m0 o cm hist c = Ok true.
  Proof.
    intros o cm c HT.
    induction HT as [o cm n sid url ref used kids sm ic Hl Hf Hi IH Hkids IHkids | o cm n used kids HU Hk IH];
      intros Hoc Hct Hin.
    - destruct (linked_fs _ _ _ _ Hl) as (Hfm & Hget).
      destruct (IH Hfm Hget (find_comp_sub _ _ _ Hf)) as (N & HN).
      destruct (list_bound (fun k fuel => forall hist, tinv o cm hist ->
                               comp_test fx fuel RESOLVED st m0 o cm hist k = Ok true) kids) as (Nk & HNk).
      { intros k Hkin. apply IHkids; auto. eapply kids_child_comps; eauto. }
      exists (S (N + Nk)).
      intros fuel Hfuel hist Hti. destruct fuel as [|f]; [lia|].
      cbn [comp_test comp_walk]. rewrite Hl, Hf.
      pose proof (comp_url_in _ _ _ _ _ _ _ Hin) as Hurlin.
      change {| e_src := importee_url hist url; e_dst := url; e_srcm := o; e_dstm := Some (key_of o url) |}
        with (test_epoch o hist url).
      rewrite (test_cycle_false _ _ _ _ _ Hti Hoc Hurlin Hget).
      rewrite (HN f ltac:(lia) _ (tinv_push _ _ _ _ _ Hti Hoc Hurlin Hfm)).
      destruct (fx_placeholder_children fx) eqn:Epk; [|reflexivity].
      assert (Hks : forall k, In k kids -> comp_test fx (S f) RESOLVED st m0 o cm hist k = Ok true).
      { intros k Hkin. apply (HNk (S f) ltac:(lia) k Hkin hist Hti). }
      clear -Hks Epk. induction kids as [|k r IHr]; [reflexivity|].
      pose proof (Hks k (or_introl eq_refl)) as Ek. cbn [comp_test] in Ek. rewrite Epk in Ek. rewrite Ek.
      apply IHr. intros k' Hk'. apply Hks. right. exact Hk'.
    - destruct (list_bound (fun k fuel => forall hist, tinv o cm hist ->
                               comp_test fx fuel RESOLVED st m0 o cm hist k = Ok true) kids) as (Nk & HNk).
      { intros k Hkin. apply IH; auto. eapply kids_child_comps; eauto. }
      destruct (units_used_ok (guarded fx st m0 o cm) o cm _ HU) as (l & Gl & El).
      destruct (list_bound (fun x fuel => uref_test fx fuel RESOLVED st m0 o cm x = Ok true) l) as (Nl & HNl).
      { intros x Hx. rewrite Forall_forall in Gl. apply uref_test_ok; auto. }
      exists (S (Nk + Nl)). intros fuel Hfuel hist Hti. destruct fuel as [|f]; [lia|].
      cbn [comp_test comp_walk]. rewrite (El (S f) ltac:(lia)).
      rewrite (all_ok_const (unit_step (uref_test fx (S f) RESOLVED st m0 o cm)) l tt).
      2:{ intros x Hx. unfold unit_step. rewrite (HNl (S f) ltac:(lia) x Hx). reflexivity. }
      cbn [res_map fst].
      assert (Hkids : forall k, In k kids -> comp_test fx (S f) RESOLVED st m0 o cm hist k = Ok true).
      { intros k Hkin. apply (HNk (S f) ltac:(lia) k Hkin hist Hti). }
      clear -Hkids. induction kids as [|k r IHr]; [reflexivity|].
      pose proof (Hkids k (or_introl eq_refl)) as Ek. cbn [comp_test] in Ek. rewrite Ek.
      apply IHr. intros k' Hk'. apply Hkids. right. exact Hk'.
  Qed.
End Tests.

(* ------------------------------------------------------------------------------------------ assembling *)

Lemma resolve_loop_false_acc {A : Type} (fetch : state -> A -> res (bool * state)) (item : A -> iitem) :
  forall l st b st', resolve_loop fetch item l false st = Ok (b, st') -> b = false.
Proof.
  induction l as [|a r IH]; intros st b st' E; cbn [resolve_loop] in E; [inversion E; reflexivity|].
  destruct (fetch st a) as [[b1 s1]| |]; try discriminate. destruct b1; eapply IH; exact E.
Qed.

Lemma resolve_loop_true {A : Type} (P : state -> Prop) (Q : state -> A -> Prop)
      (fetch : state -> A -> res (bool * state)) (item : A -> iitem) :
  (forall a x x', grow x x' -> Q x a -> Q x' a) ->
  (forall a x x', P x -> fetch x a = Ok (true, x') -> P x' /\ grow x x' /\ Q x' a) ->
  forall l acc x x', P x -> resolve_loop fetch item l acc x = Ok (true, x') ->
                     acc = true /\ P x' /\ grow x x' /\ forall a, In a l -> Q x' a.
Proof.
  intros HQ Hf. induction l as [|a r IH]; intros acc x x' Hx E; cbn [resolve_loop] in E.
  - inversion E; subst. split; [reflexivity|]. split; [exact Hx|]. split; [apply grow_refl|intros a []].
  - destruct (fetch x a) as [[b1 x1]| |] eqn:E1; try discriminate. destruct b1.
    + destruct (Hf _ _ _ Hx E1) as (H1 & G1 & Q1). destruct (IH _ _ _ H1 E) as (Hacc & H2 & G2 & Q2).
      split; [exact Hacc|]. split; [exact H2|]. split; [eapply grow_trans; eauto|].
      intros a' [<-|Ha']; [eapply HQ; eauto|apply Q2; exact Ha'].
    + apply resolve_loop_false_acc in E. discriminate.
Qed.

Lemma imported_comps_of_conv : forall c x, In x (subcomps c) -> cimp x <> None -> In x (imported_comps_of c).
Proof.
  induction c as [n i u kids IHk] using comp_ind'. intros x Hx Hi. rewrite subcomps_eq in Hx. cbn [imported_comps_of].
  apply in_or_app. destruct Hx as [<-|Hx].
  - left. destruct i; [left; reflexivity|exfalso; apply Hi; reflexivity].
  - right. induction kids as [|k r IHr]; [destruct Hx|]. inversion IHk as [|k' r' Hk Hr]; subst. cbn [flat_map] in Hx.
    apply in_app_or in Hx. apply in_or_app. destruct Hx as [Hx|Hx]; [left; apply Hk; assumption|right; apply IHr; assumption].
Qed.

Lemma imported_comps_conv : forall m x, In x (all_comps m) -> cimp x <> None -> In x (imported_comps m).
Proof.
  intros m x Hx Hi. unfold all_comps, imported_comps in *. apply in_flat_map in Hx. destruct Hx as (c & Hc & Hx).
  apply in_flat_map. exists c. split; [exact Hc|apply imported_comps_of_conv; assumption].
Qed.

(* 85ba0d4: hasUnitsCycle answers false for every units of the origin model and of the files *)
Definition GuardSilent (fs : fsys) (fx : fixes) (st : state) (m0 : model) : Prop :=
  forall o cm u, octx fs m0 o cm -> In u (m_units cm) -> guarded fx st m0 o cm u = false.

Section PostTheorem.
  Variable fs : fsys.
  Variable strict : bool.
  Variable m0 : model.
  Variable fx : fixes.
  Variable rank : string -> nat.
  Variable urank : string -> nat.
  Hypothesis Hpop : fx_pop fx = true.
  Hypothesis Hsh : Shallow fs.
  Hypothesis Hrank : forall k sm url, fs_model fs k = Some sm -> In url (import_urls sm) ->
                                      rank (key_of (Some k) url) < rank k.
  Hypothesis Hnt : NoTwin fs m0.
  Hypothesis Hntf : NoTwinFiles fs.
  Hypothesis Hurl0 : forall url, In url (import_urls m0) -> url <> origin_ref.
  Hypothesis Hurl : forall k sm url, fs_model fs k = Some sm -> In url (import_urls sm) -> url <> origin_ref.
  Hypothesis Hurank : forall o cm url sm url', octx fs m0 o cm -> In url (import_urls cm) ->
    fs_model fs (key_of o url) = Some sm -> In url' (import_urls sm) -> urank url' < urank url.
  Hypothesis Horigin : OriginShallow m0.

  Lemma resolve_true_post : forall fuel st st',
    cons fs st -> resolve_imports fuel strict fs st m0 = Ok (true, st') ->
    exists N, forall fuel', N <= fuel' -> has_unresolved_imports fx fuel' st' m0 = Ok false.
  Proof.
    intros fuel st st' Hc E. unfold resolve_imports in E.
    destruct (resolve_loop (fun st u => fetch_units fuel strict fs m0 st None [] u) (fun u => ItUnits None (uname u))
                           (imported_units m0) true (clear_origin_links (clear_issues st)))
      as [[b1 st1]| |] eqn:E1; try discriminate.
    assert (Hb : b1 = true).
    { destruct b1; [reflexivity|]. apply resolve_loop_false_acc in E. discriminate. }
    subst b1.
    assert (HQu : forall u x x', grow x x' -> imp_TU x None u -> imp_TU x' None u).
    { intros u x x' G Q. destruct u; [exact I|]. intros cm. eapply TU_grow; eauto. }
    assert (Hc0 : cons fs (clear_origin_links (clear_issues st))) by exact Hc.
    destruct (resolve_loop_true (cons fs) (fun x u => imp_TU x None u) _ _ HQu
                (fun u x x' Hx Ex => fetch_units_TU fs strict m0 Hsh fuel x None [] u x' Hx Ex) _ _ _ _
                Hc0 E1) as (_ & Hc1 & G1 & Tu).
    assert (HQc : forall c x x', grow x x' -> comp_TC fs x None c -> comp_TC fs x' None c).
    { intros c x x' G Q. eapply comp_TC_grow; eauto. }
    destruct (resolve_loop_true (cons fs) (fun x c => comp_TC fs x None c) _ _ HQc
                (fun c x x' Hx Ex => fetch_comp_TC fs strict m0 Hsh fuel x None [] c x' Hx Ex) _ _ _ _
                Hc1 E) as (_ & Hc' & G2 & Tc).
        (* every units and every component of the origin model is resolved in st' *)
        assert (TUall : forall u, In u (m_units m0) -> TU st' None m0 u).
        { assert (TUimp : forall u, In u (m_units m0) -> ~ is_local u -> TU st' None m0 u).
          { intros u Hu Hnl. destruct u as [|n sid url ref]; [exfalso; apply Hnl; exact I|].
            eapply TU_grow; [exact G2|]. apply (Tu (UImp n sid url ref)).
            unfold imported_units. apply filter_In. split; [exact Hu|reflexivity]. }
          intros u Hu. destruct u as [n refs|n sid url ref]; [|apply TUimp; [exact Hu|intros []]].
          apply TU_local. intros r cu Hr Hs Ecu. pose proof (find_units_In _ _ _ Ecu) as Hcu.
          destruct cu as [nc rc|nc sc uc rc]; [|apply TUimp; [exact Hcu|intros []]].
          destruct Horigin as (S1 & _). apply TU_local. intros r' cu' Hr' Hs' _.
          assert (Ho : only_std (ULocal nc rc)) by (eapply (S1 (ULocal n refs) r (ULocal nc rc)); eauto; exact I).
          rewrite (Ho r' Hr') in Hs'. discriminate. }
        assert (TCall : forall c, incl (subcomps c) (all_comps m0) -> TC st' None m0 c).
        { intros c. induction c as [n i used kids IHk] using comp_ind'. intros Hsub.
          destruct i as [[[sid url] ref]|].
          - assert (Hi : cimp (Comp n (Some (sid, url, ref)) used kids) <> None) by (cbn; discriminate).
            destruct (proj1 (Tc _ (imported_comps_conv _ _ (Hsub _ (subcomps_self _)) Hi))) as (sm & ic & Hl & Hf & Ht).
            eapply TC_imp; eauto.
            intros k Hk. rewrite Forall_forall in IHk. apply IHk; [exact Hk|].
            intros x Hx. apply Hsub. eapply subcomps_kids; eauto.
          - apply TC_local.
            + intros c' un mu Hc'' Hun Hs Emu. pose proof (find_units_In _ _ _ Emu) as Hmu.
              destruct mu as [nm rm|nm sm um rm].
              * left. split; [exact I|]. destruct Horigin as (_ & S2). eapply (S2 c' un (ULocal nm rm)); eauto. exact I.
              * right. split; [intros []|]. apply TUall. exact Hmu.
            + intros k Hk. rewrite Forall_forall in IHk. apply IHk; [exact Hk|].
              intros x Hx. apply Hsub. eapply subcomps_kids; eauto. }
        (* the tests *)
        destruct (list_bound (fun u fuel' => units_test fx fuel' RESOLVED st' m0 None m0 [] u = Ok (true, [])) (m_units m0))
          as (Nu & HNu).
        { intros u Hu. destruct (units_test_ok fs m0 st' fx rank urank Hpop Hc' Hrank Hnt Hntf Hurl0 Hurl Hurank _ _ _ (TUall u Hu))
            as (N & HN). exists N. intros fuel' Hf. apply HN; [exact Hf|reflexivity|reflexivity|exact Hu]. }
        destruct (list_bound (fun c fuel' => comp_test fx fuel' RESOLVED st' m0 None m0 [] c = Ok true) (m_comps m0))
          as (Ncm & HNc).
        { intros c Hcin.
          assert (Hall : In c (all_comps m0)) by (unfold all_comps; apply in_flat_map; exists c; split; [exact Hcin|apply subcomps_self]).
          assert (Hsub : incl (subcomps c) (all_comps m0)).
          { intros x Hx. unfold all_comps. apply in_flat_map. exists c. split; assumption. }
          destruct (comp_test_ok fs m0 st' fx rank urank Hpop Hc' Hrank Hnt Hntf Hurl0 Hurl Hurank _ _ _ (TCall c Hsub) eq_refl eq_refl Hall)
            as (N & HN). exists N. intros fuel' Hf. apply HN; [exact Hf|reflexivity]. }
        exists (Nu + Ncm). intros fuel' Hf. unfold has_unresolved_imports, model_test.
        rewrite (all_ok_const (unit_step (fun u => if guarded fx st' m0 None m0 u then Ok false
                                                   else res_map fst (units_test fx fuel' RESOLVED st' m0 None m0 [] u)))
                              (m_units m0) tt).
        2:{ intros u Hu. unfold unit_step. rewrite (TU_guard_silent st' m0 fx None m0 u (TUall u Hu) eq_refl Hu).
            rewrite (HNu fuel' ltac:(lia) u Hu). reflexivity. }
        rewrite (all_ok_const (unit_step (comp_test fx fuel' RESOLVED st' m0 None m0 [])) (m_comps m0) tt).
        2:{ intros c Hcin. unfold unit_step. rewrite (HNc fuel' ltac:(lia) c Hcin). reflexivity. }
        reflexivity.
  Qed.
End PostTheorem.

(* the property's post-condition, with what it needs spelled out *)
Lemma resolve_true_post_partial : forall fs strict m0 fx (rank urank : string -> nat),
  fx_pop fx = true ->
  Shallow fs ->
  (forall k sm url, fs_model fs k = Some sm -> In url (import_urls sm) -> rank (key_of (Some k) url) < rank k) ->
  NoTwin fs m0 -> NoTwinFiles fs ->
  (forall url, In url (import_urls m0) -> url <> origin_ref) ->
  (forall k sm url, fs_model fs k = Some sm -> In url (import_urls sm) -> url <> origin_ref) ->
  (forall o cm url sm url', octx fs m0 o cm -> In url (import_urls cm) ->
     fs_model fs (key_of o url) = Some sm -> In url' (import_urls sm) -> urank url' < urank url) ->
  OriginShallow m0 ->
  forall fuel st st', cons fs st -> resolve_imports fuel strict fs st m0 = Ok (true, st') ->
  exists N, forall fuel', N <= fuel' -> has_unresolved_imports fx fuel' st' m0 = Ok false.
Proof. intros. eapply resolve_true_post; eauto. Qed.

Lemma ex_fs_key : forall k sm, fs_model ex_fs k = Some sm -> k = mk_key "f1".
Proof.
  intros k sm E. unfold fs_model, ex_fs in E. cbn [fs_get] in E.
  destruct (String.eqb (mk_key "f1") k) eqn:Ek; [apply String.eqb_eq in Ek; auto|discriminate].
Qed.

Lemma post_nonvacuous :
  exists fx (rank urank : string -> nat) st',
    fx_pop fx = true /\ Shallow ex_fs /\
    (forall k sm url, fs_model ex_fs k = Some sm -> In url (import_urls sm) -> rank (key_of (Some k) url) < rank k) /\
    NoTwin ex_fs ex_m0 /\ NoTwinFiles ex_fs /\
    (forall url, In url (import_urls ex_m0) -> url <> origin_ref) /\
    (forall k sm url, fs_model ex_fs k = Some sm -> In url (import_urls sm) -> url <> origin_ref) /\
    (forall o cm url sm url', octx ex_fs ex_m0 o cm -> In url (import_urls cm) ->
       fs_model ex_fs (key_of o url) = Some sm -> In url' (import_urls sm) -> urank url' < urank url) /\
    OriginShallow ex_m0 /\ cons ex_fs empty_state /\
    resolve_imports (fuel_bound ex_fs empty_state) true ex_fs empty_state ex_m0 = Ok (true, st') /\
    fx_cycle_guard fx = true /\ GuardSilent ex_fs fx st' ex_m0.
Proof.
  destruct nonvacuous as (_ & Hsh & _ & Hnt & _ & _).
  exists head_fixes, (fun _ => 0), (fun _ => 0), ex_st.
  split; [reflexivity|]. split; [exact Hsh|].
  split; [intros k sm url E Hin; rewrite (ex_fs_model _ _ E) in Hin; destruct Hin|].
  split; [exact Hnt|].
  split; [intros k k' sm sm' E E' Hne; rewrite (ex_fs_key _ _ E), (ex_fs_key _ _ E') in Hne; congruence|].
  split; [intros url [<-|[<-|[]]]; discriminate|].
  split; [intros k sm url E Hin; rewrite (ex_fs_model _ _ E) in Hin; destruct Hin|].
  split; [intros o cm url sm url' _ _ E Hin; rewrite (ex_fs_model _ _ E) in Hin; destruct Hin|].
  split.
  { split.
    - intros u r cu [<-|[]] [].
    - intros c un su [<-|[]] []. }
  split; [apply cons_empty_lib; reflexivity|]. split; [vm_compute; reflexivity|]. split; [reflexivity|].
  intros o cm u Hoc Hin. destruct o as [k|]; cbn [octx] in Hoc.
  - pose proof (ex_fs_key _ _ Hoc) as Ek. subst k. vm_compute in Hoc. inversion Hoc; subst cm. cbn in Hin.
    repeat (destruct Hin as [<-|Hin]; [vm_compute; reflexivity|]). destruct Hin.
  - subst cm. cbn in Hin.
    repeat (destruct Hin as [<-|Hin]; [vm_compute; reflexivity|]). destruct Hin.
Qed.
