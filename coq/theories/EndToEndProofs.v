(** EndToEndProofs.v — composition of the layers of C03 for the field fragment (variables, numbers, + - * / and
    unary minus / plus): the equation side as WRITTEN, unit-scaled by the analyser (ScaleDefs.scale_expr), printed by
    the generator (GenDefs.gen) and read by a C compiler / by Python (GramDefs), has — over the stored values — the
    value the written side has over the local values (every variable in its own units), for every interpretation.
    Chains ScaleProofs.scale_expr_value, GenProofs.gen_value_C/_Py and a bridge between the two evaluators. *)
From Coq Require Import String List Bool QArith Qcanon.
From LC Require Import AstDefs GenDefs GramDefs ReadDefs CGramDefs PyGramDefs EvalDefs EvalProofs GenProofs
  ScaleDefs ScaleProofs.
Local Open Scope string_scope.
Local Close Scope Q_scope.

Fixpoint field_frag (a : ast) : bool :=
  match a with
  | Null => false
  | Node CI _ l r => is_nil l && is_nil r
  | Node CN _ l r => is_nil l && is_nil r
  | Node PLUS _ l r => field_frag l && (is_nil r || field_frag r)
  | Node MINUS _ l r => field_frag l && (is_nil r || field_frag r)
  | Node TIMES _ l r => field_frag l && field_frag r
  | Node DIVIDE _ l r => field_frag l && field_frag r
  | _ => false
  end.

Lemma field_frag_wf a : field_frag a = true -> wf_diff a = true.
Proof.
  induction a as [|t v l IHl r IHr]; [reflexivity|]. intros H.
  destruct t; try discriminate; cbn [field_frag wf_diff] in *; try reflexivity.
  - apply andb_prop in H. destruct H as [Hl Hr]. rewrite (IHl Hl). cbn.
    destruct r as [|tr0 vr lr rr]; [reflexivity|]. cbn [is_nil orb] in Hr. exact (IHr Hr).
  - apply andb_prop in H. destruct H as [Hl Hr]. rewrite (IHl Hl). cbn.
    destruct r as [|tr0 vr lr rr]; [reflexivity|]. cbn [is_nil orb] in Hr. exact (IHr Hr).
  - apply andb_prop in H. destruct H as [Hl Hr]. rewrite (IHl Hl), (IHr Hr). reflexivity.
  - apply andb_prop in H. destruct H as [Hl Hr]. rewrite (IHl Hl), (IHr Hr). reflexivity.
  - destruct l, r; try discriminate. reflexivity.
  - destruct l, r; try discriminate. reflexivity.
Qed.

Lemma field_frag_scale S a : field_frag a = true -> field_frag (scale_expr S a) = true.
Proof.
  induction a as [|t v l IHl r IHr]; [discriminate|]. intros H.
  destruct t; try discriminate; cbn [field_frag scale_expr] in *.
  - apply andb_prop in H. destruct H as [Hl Hr]. rewrite (IHl Hl). cbn.
    destruct r as [|tr0 vr lr rr]; [reflexivity|]. cbn [is_nil orb] in Hr.
    rewrite (IHr Hr). destruct (is_nil _); reflexivity.
  - apply andb_prop in H. destruct H as [Hl Hr]. rewrite (IHl Hl). cbn.
    destruct r as [|tr0 vr lr rr]; [reflexivity|]. cbn [is_nil orb] in Hr.
    rewrite (IHr Hr). destruct (is_nil _); reflexivity.
  - apply andb_prop in H. destruct H as [Hl Hr]. rewrite (IHl Hl), (IHr Hr). reflexivity.
  - apply andb_prop in H. destruct H as [Hl Hr]. rewrite (IHl Hl), (IHr Hr). reflexivity.
  - unfold scale_ci. destruct (is_one S v); cbn; rewrite ?H; reflexivity.
  - destruct l, r; try discriminate. reflexivity.
Qed.

Section Bridge.
Variable p : profile.
Variable Et : env.          (* interpretation of trees *)
Variable Ea : aenv.         (* interpretation of ASTs *)
Hypothesis var_agree : forall v, e_var Et v = a_var Ea v.
(* the tree literal of a CN (its printed text, negation outside) denotes the number the CN text denotes *)
Hypothesis lit_agree : forall s, eval Et (lit_tree s) = a_lit Ea s.

Lemma scale_null S a : scale_expr S a = Null -> a = Null.
Proof.
  destruct a as [|t v l r]; [reflexivity|]. intros H. exfalso.
  destruct t; cbn in H; try discriminate.
  - destruct l as [|tl vl ll rl]; try discriminate. destruct tl; try discriminate.
    destruct ll as [|tll vll lll rll]; try discriminate. destruct tll; try discriminate.
    destruct r as [|tr0 vr lr rr]; try discriminate. destruct tr0; try discriminate.
    unfold scale_diff_inner in H. destruct (is_one S vr), (is_one S vll); discriminate.
  - unfold scale_ci in H. destruct (is_one S v); discriminate.
  - destruct l as [|tl vl ll rl]; try discriminate. destruct tl; discriminate.
Qed.

Theorem bridge a : field_frag a = true -> eval Et (tr p a) = aeval Ea a.
Proof.
  induction a as [|t v l IHl r IHr]; [discriminate|]. intros H.
  destruct t; try discriminate; cbn [field_frag] in H.
  - (* PLUS *) apply andb_prop in H. destruct H as [Hl Hr]. cbn [tr].
    destruct r as [|tr0 vr lr rr]; [cbn; apply IHl; exact Hl|]. cbn [is_nil orb] in Hr.
    cbn [is_nil eval eval_bin]. rewrite (IHl Hl), (IHr Hr). reflexivity.
  - (* MINUS *) apply andb_prop in H. destruct H as [Hl Hr]. cbn [tr].
    destruct r as [|tr0 vr lr rr]; [cbn; rewrite (IHl Hl); reflexivity|]. cbn [is_nil orb] in Hr.
    cbn [is_nil eval eval_bin]. rewrite (IHl Hl), (IHr Hr). reflexivity.
  - (* TIMES *) apply andb_prop in H. destruct H as [Hl Hr]. cbn [tr eval eval_bin aeval]. rewrite (IHl Hl), (IHr Hr). reflexivity.
  - (* DIVIDE *) apply andb_prop in H. destruct H as [Hl Hr]. cbn [tr eval eval_bin aeval]. rewrite (IHl Hl), (IHr Hr). reflexivity.
  - (* CI *) cbn. apply var_agree.
  - (* CN *) cbn [tr aeval]. apply lit_agree.
Qed.
End Bridge.

(** the composition *)
Section EndToEnd.
Variable S : senv.
Variable Es : aenv.         (* stored values *)
Variable Et : env.
Hypothesis pos : forall v, (0 < sf S v)%Q.
Hypothesis lit_ok : forall v, a_lit Es (sf_text S v) = Q2Qc (sf S v).
Hypothesis lit_inv_ok : forall v, a_lit Es (sf_inv_text S v) = (/ Q2Qc (sf S v))%Qc.
Hypothesis var_agree : forall v, e_var Et v = a_var Es v.
Hypothesis lit_agree : forall s, eval Et (lit_tree s) = a_lit Es s.

Theorem end_to_end_C a :
  field_frag a = true -> safeC (scale_expr S a) = true ->
  exists T, readC (gen_C (scale_expr S a)) = Some T /\ eval Et T = aeval (local_env S Es) a.
Proof.
  intros Hf Hs. destruct (gen_value_C Et _ Hs) as (T & HR & HV). exists T. split; [exact HR|].
  rewrite HV. unfold trC. rewrite (bridge profile_C Et Es var_agree lit_agree _ (field_frag_scale S a Hf)).
  apply (scale_expr_value S Es pos lit_ok lit_inv_ok). apply field_frag_wf. exact Hf.
Qed.

Theorem end_to_end_Py a :
  field_frag a = true -> safePy (scale_expr S a) = true ->
  exists T, readPy (gen_Py (scale_expr S a)) = Some T /\ eval Et T = aeval (local_env S Es) a.
Proof.
  intros Hf Hs. destruct (gen_value_Py Et _ Hs) as (T & HR & HV). exists T. split; [exact HR|].
  rewrite HV. unfold trPy. rewrite (bridge profile_Py Et Es var_agree lit_agree _ (field_frag_scale S a Hf)).
  apply (scale_expr_value S Es pos lit_ok lit_inv_ok). apply field_frag_wf. exact Hf.
Qed.
End EndToEnd.

(* non-vacuity: p + q*(-(2 - p)) with p in percent: in the fragment, and its scaled form is safe in both profiles *)
Definition e2e_a : ast :=
  bin PLUS (ci "p") (bin TIMES (ci "q") (un MINUS (bin MINUS (cn "2") (ci "p")))).
Example end_to_end_nonvacuous :
  field_frag e2e_a = true /\ safeC (scale_expr env3 e2e_a) = true /\ safePy (scale_expr env3 e2e_a) = true
  /\ gen_C (scale_expr env3 e2e_a) = "0.01*p+q*-(2.0-0.01*p)".
Proof. vm_compute. repeat split. Qed.
