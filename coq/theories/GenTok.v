(** GenTok.v — the token stream the generator's text consists of, as a function of the AST (a proof device:
    LexProofs shows  lex (gen p a) = Some (gent a)  on the safe class, ReadProofs parses [gent a]).
    Definitions only.  The parenthesisation decisions are the ones of GenDefs (paren_left / paren_right /
    paren_unary_minus), not restated. *)
From Coq Require Import String Ascii List Bool Arith ZArith.
From LC Require Import NumDefs AstDefs GenDefs GramDefs ReadDefs.
Import ListNotations.
Local Open Scope string_scope.
Local Open Scope list_scope.

Section Tok.
Variable L : lang.
Variable p : profile.

Definition wrapt (b : bool) (ts : list token) : list token := if b then TLp :: ts ++ [TRp] else ts.
Definition call1t (f : string) (a : list token) : list token := TId f :: TLp :: a ++ [TRp].
Definition call2t (f : string) (a b : list token) : list token := TId f :: TLp :: a ++ TComma :: b ++ [TRp].

(* node types printed as  f(left)  *)
Definition fun1_name (t : ty) : option string :=
  match t with
  | ABS => Some (absolute_value_string p) | EXP => Some (exponential_string p)
  | LN => Some (natural_logarithm_string p) | CEILING => Some (ceiling_string p) | FLOOR => Some (floor_string p)
  | SIN => Some (sin_string p) | COS => Some (cos_string p) | TAN => Some (tan_string p)
  | SEC => Some (sec_string p) | CSC => Some (csc_string p) | COT => Some (cot_string p)
  | SINH => Some (sinh_string p) | COSH => Some (cosh_string p) | TANH => Some (tanh_string p)
  | SECH => Some (sech_string p) | CSCH => Some (csch_string p) | COTH => Some (coth_string p)
  | ASIN => Some (asin_string p) | ACOS => Some (acos_string p) | ATAN => Some (atan_string p)
  | ASEC => Some (asec_string p) | ACSC => Some (acsc_string p) | ACOT => Some (acot_string p)
  | ASINH => Some (asinh_string p) | ACOSH => Some (acosh_string p) | ATANH => Some (atanh_string p)
  | ASECH => Some (asech_string p) | ACSCH => Some (acsch_string p) | ACOTH => Some (acoth_string p)
  | NOT => if has_not_operator p then None else Some (not_string p)
  | _ => None
  end.

(* node types printed as  f(left, right)  *)
Definition fun2_name (t : ty) : option string :=
  match t with
  | MIN => Some (min_string p) | MAX => Some (max_string p) | REM => Some (rem_string p)
  | XOR => if has_xor_operator p then None else Some (xor_string p)
  | EQ => if has_eq_operator p then None else Some (eq_string p)
  | NEQ => if has_neq_operator p then None else Some (neq_string p)
  | LT => if has_lt_operator p then None else Some (lt_string p)
  | LEQ => if has_leq_operator p then None else Some (leq_string p)
  | GT => if has_gt_operator p then None else Some (gt_string p)
  | GEQ => if has_geq_operator p then None else Some (geq_string p)
  | AND => if has_and_operator p then None else Some (and_string p)
  | OR => if has_or_operator p then None else Some (or_string p)
  | _ => None
  end.

(* node types printed infix (both children present): operator token, tree operator, level *)
Definition infix_info (t : ty) : option (token * binop * nat) :=
  match t with
  | EQ => if has_eq_operator p then Some (TEqEq, Eq, 4) else None
  | NEQ => if has_neq_operator p then Some (TNe, Ne, 4) else None
  | LT => if has_lt_operator p then Some (TLt, Lt, 5) else None
  | LEQ => if has_leq_operator p then Some (TLe, Le, 5) else None
  | GT => if has_gt_operator p then Some (TGt, Gt, 5) else None
  | GEQ => if has_geq_operator p then Some (TGe, Ge, 5) else None
  | AND => if has_and_operator p then Some (TAndAnd, And, 3) else None
  | OR => if has_or_operator p then Some (TOrOr, Or, 2) else None
  | PLUS => Some (TPlus, Add, 6)
  | MINUS => Some (TMinus, Sub, 6)
  | TIMES => Some (TStar, Mul, 7)
  | DIVIDE => Some (TSlash, Div, 7)
  | _ => None
  end.

Definition else_tok : token := if is_C L then TColon else TElse.
Definition nan_toks : list token := [TId (nan_string p)].
Definition one_ast : ast := Node CN "1.0" Null Null.

Fixpoint gent (a : ast) : list token :=
  match a with
  | Null => []
  | Node t v l r =>
      let opt (tok : token) :=
        wrapt (paren_left p t l r) (gent l) ++ tok :: wrapt (paren_right p t l r (gen p r)) (gent r) in
      let piece (vv cc : list token) :=
        if is_C L then TLp :: cc ++ TRp :: TQuest :: vv else vv ++ TIf :: cc in
      match t with
      | CI => [TId v]
      | CN => if cn_neg v then [TMinus; TNum (cn_body v)] else [TNum (cn_body v)]
      | TRUE => [TNum (true_string p)]
      | FALSE => [TNum (false_string p)]
      | E => [TNum (e_string p)]
      | PI => [TNum (pi_string p)]
      | INF => [TId (inf_string p)]
      | NAN => [TId (nan_string p)]
      | PLUS => if is_nil r then gent l else opt TPlus
      | MINUS => if is_nil r then TMinus :: wrapt (paren_unary_minus p l) (gent l) else opt TMinus
      | NOT => if has_not_operator p then TBang :: gent l else call1t (not_string p) (gent l)
      | POWER =>
          if text_is_number (gen p r) 1 2 then call1t (square_root_string p) (gent l)
          else call2t (power_string p) (gent l) (gent r)
      | ROOT =>
          if is_nil r then call1t (square_root_string p) (gent l)
          else if text_is_number (gen p l) 2 1 then call1t (square_root_string p) (gent r)
          else TId (power_string p) :: TLp :: gent r ++ TComma :: TNum "1.0" :: TSlash
                 :: wrapt (paren_right p DIVIDE one_ast (left_of l) (gen p l)) (gent l) ++ [TRp]
      | LOG =>
          if is_nil r then call1t (common_logarithm_string p) (gent l)
          else if text_is_number (gen p l) 10 1 then call1t (common_logarithm_string p) (gent r)
          else call1t (natural_logarithm_string p) (gent r) ++ TSlash :: call1t (natural_logarithm_string p) (gent l)
      | PIECEWISE =>
          match l with
          | Node PIECE _ v1 c1 =>
              piece (gent v1) (gent c1) ++ else_tok ::
                match r with
                | Null => nan_toks
                | Node PIECE _ v2 c2 => piece (gent v2) (gent c2) ++ else_tok :: nan_toks
                | _ => gent r
                end
          | _ => []
          end
      | OTHERWISE | DEGREE | LOGBASE | BVAR => gent l
      | EQUALITY | DIFF | PIECE => []
      | _ =>
          match infix_info t with
          | Some (tok, _, _) => opt tok
          | None =>
              match fun2_name t with
              | Some f => call2t f (gent l) (gent r)
              | None => match fun1_name t with Some f => call1t f (gent l) | None => [] end
              end
          end
      end
  end.

End Tok.
