(** Properties_C16.v — statements only.  Each theorem is closed by [exact <lemma of NumProofs / NumMoreProofs>]
    and followed by Print Assumptions.  C16: numeric text is recognised per the CellML grammar and
    never crashes. *)
From Coq Require Import String Ascii List Bool ZArith.
From LC Require Import NumDefs NumSpec NumProofs NumMoreProofs NumRound6Proofs.
Local Open Scope string_scope.

(** The integer recogniser accepts exactly the integer grammar. *)
Theorem C16_is_int_iff : forall s, is_int s = true <-> IntG s.
Proof. exact NumProofs.is_int_iff. Qed.
Print Assumptions C16_is_int_iff.

(** The (repaired) real recogniser accepts exactly the real grammar. *)
Theorem C16_is_real_iff : forall s, is_real s = true <-> RealG s.
Proof. exact NumProofs.is_real_iff. Qed.
Print Assumptions C16_is_real_iff.

(** The executable automata used as oracle on the implementation are the grammar. *)
Theorem C16_real_dfa_iff : forall s, real_dfa s = true <-> RealG s.
Proof. exact NumProofs.real_dfa_iff. Qed.
Print Assumptions C16_real_dfa_iff.

Theorem C16_int_dfa_iff : forall s, int_dfa s = true <-> IntG s.
Proof. exact NumProofs.int_dfa_iff. Qed.
Print Assumptions C16_int_dfa_iff.

(** Conversion never throws: whatever the recognisers accept, strtod / strtol convert. *)
Theorem C16_convert_double_total : forall s, convert_to_double s <> DThrowsInvalidArgument.
Proof. exact NumProofs.convert_double_total. Qed.
Print Assumptions C16_convert_double_total.

Theorem C16_convert_int_total : forall s, convert_to_int_flow s <> IThrowsInvalidArgument.
Proof. exact NumProofs.convert_int_total. Qed.
Print Assumptions C16_convert_int_total.

(** Accepted integers convert to their decimal value or are reported out of range; never anything else. *)
Theorem C16_to_int_range : forall s z, to_int s = Value z ->
  IntG s /\ z = int_value s /\ (-2147483648 <= z <= 2147483647)%Z.
Proof. exact NumProofs.to_int_range. Qed.
Print Assumptions C16_to_int_range.

Theorem C16_to_int_rejects : forall s, to_int s = Rejected <-> ~ IntG s.
Proof. exact NumProofs.to_int_rejects. Qed.
Print Assumptions C16_to_int_rejects.

(** What the printer writes for a finite double (%.15g shapes) is inside the real grammar, so it is read back. *)
Theorem C16_printed_is_real : forall t, g15_shape t = true -> is_real t = true.
Proof. exact NumProofs.g15_is_real. Qed.
Print Assumptions C16_printed_is_real.

(** The code before the "fix:" commit violated the property: witness "-". *)
Theorem C16_unfixed_refuted :
  exists s, is_real_gen false s = true /\ ~ RealG s /\ convert_to_double_gen false s = DThrowsInvalidArgument.
Proof. exact NumProofs.unfixed_refuted. Qed.
Print Assumptions C16_unfixed_refuted.

(** Non-vacuity. *)
Example C16_nonvacuous : RealG "-1.5e+07" /\ IntG "+12" /\ is_real "-1.5e+07" = true /\ to_int "+12" = Value 12%Z.
Proof. exact NumProofs.nonvacuous. Qed.
Print Assumptions C16_nonvacuous.

(** ---- Second wave (NumMoreProofs.v): every statement below is over ALL strings. ---- *)

(** 1. Recognisers against their grammars, both directions.  The code and the oracle automata agree as
    booleans, i.e. also on every rejected string. *)
Theorem C16_is_real_eq_dfa : forall s, is_real s = real_dfa s.
Proof. exact NumMoreProofs.is_real_dfa_eq. Qed.
Print Assumptions C16_is_real_eq_dfa.

Theorem C16_is_int_eq_dfa : forall s, is_int s = int_dfa s.
Proof. exact NumMoreProofs.is_int_dfa_eq. Qed.
Print Assumptions C16_is_int_eq_dfa.

(** isNonNegativeCellMLInteger accepts exactly one or more digits. *)
Theorem C16_nonneg_int_iff : forall s, is_nonneg_int s = true <-> Digits1 s.
Proof. exact NumMoreProofs.nonneg_int_iff_digits1. Qed.
Print Assumptions C16_nonneg_int_iff.

(** isCellMLBasicReal accepts exactly: optional '-', mantissa with at least one digit and at most one point. *)
Theorem C16_basic_real_iff : forall s, is_basic_real s = true <-> BasicRealG s.
Proof. exact NumMoreProofs.basic_real_iffG. Qed.
Print Assumptions C16_basic_real_iff.

(** ... which is: a real without exponent letter. *)
Theorem C16_basic_real_iff_real_noexp : forall s,
  is_basic_real s = true <-> is_real s = true /\ count_char "e" s = 0 /\ count_char "E" s = 0.
Proof. exact NumMoreProofs.basic_real_iff_real_noexp. Qed.
Print Assumptions C16_basic_real_iff_real_noexp.

(** isEuropeanNumericCharacter accepts exactly the ten ASCII digits. *)
Theorem C16_is_digit_iff : forall c, is_digit c = true <-> In c ten_digits.
Proof. exact NumMoreProofs.is_digit_iff. Qed.
Print Assumptions C16_is_digit_iff.

(** 2. Inclusions: non-negative integer < integer, non-negative integer < basic real < real; an integer is a
    (basic) real exactly when it does not start with '+'; all inclusions are strict. *)
Theorem C16_nonneg_sub_int : forall s, is_nonneg_int s = true -> is_int s = true.
Proof. exact NumMoreProofs.nonneg_sub_int. Qed.
Print Assumptions C16_nonneg_sub_int.

Theorem C16_nonneg_sub_basic_real : forall s, is_nonneg_int s = true -> is_basic_real s = true.
Proof. exact NumMoreProofs.nonneg_sub_basic_real. Qed.
Print Assumptions C16_nonneg_sub_basic_real.

Theorem C16_basic_real_sub_real : forall s, is_basic_real s = true -> is_real s = true.
Proof. exact NumMoreProofs.basic_real_sub_real. Qed.
Print Assumptions C16_basic_real_sub_real.

Theorem C16_int_sub_basic_real : forall s, is_int s = true -> first_plus s = false -> is_basic_real s = true.
Proof. exact NumMoreProofs.int_sub_basic_real. Qed.
Print Assumptions C16_int_sub_basic_real.

Theorem C16_int_real_iff_noplus : forall s, is_int s = true -> (is_real s = true <-> first_plus s = false).
Proof. exact NumMoreProofs.int_real_iff_noplus. Qed.
Print Assumptions C16_int_real_iff_noplus.

Theorem C16_plus_not_real : forall r, is_real (String "+" r) = false.
Proof. exact NumMoreProofs.plus_not_real. Qed.
Print Assumptions C16_plus_not_real.

Theorem C16_strictness_witnesses : (is_int "-1" = true /\ is_nonneg_int "-1" = false) /\
  (is_basic_real "1.5" = true /\ is_int "1.5" = false) /\
  (is_real "1e5" = true /\ is_basic_real "1e5" = false) /\
  (is_int "+1" = true /\ is_real "+1" = false).
Proof. exact NumMoreProofs.strictness_witnesses. Qed.
Print Assumptions C16_strictness_witnesses.

(** 3. Conversion safety.  [strtod_rest] / [strtol_rest] model the C prefix grammars: None = no conversion
    (std::stod / std::stoi throw), Some rest = the characters left unconsumed (silently dropped by the
    conversion).  Accepted text converts and is consumed entirely. *)
Theorem C16_real_strtod_whole : forall s, is_real s = true -> strtod_rest s = Some "".
Proof. exact NumMoreProofs.real_strtod_whole. Qed.
Print Assumptions C16_real_strtod_whole.

Theorem C16_basic_real_strtod_whole : forall s, is_basic_real s = true -> strtod_rest s = Some "".
Proof. exact NumMoreProofs.basic_real_strtod_whole. Qed.
Print Assumptions C16_basic_real_strtod_whole.

Theorem C16_int_strtol_whole : forall s, is_int s = true -> strtol_rest s = Some "".
Proof. exact NumMoreProofs.int_strtol_whole. Qed.
Print Assumptions C16_int_strtol_whole.

Theorem C16_nonneg_strtol_whole : forall s, is_nonneg_int s = true -> strtol_rest s = Some "".
Proof. exact NumMoreProofs.nonneg_strtol_whole. Qed.
Print Assumptions C16_nonneg_strtol_whole.

(** the prefix models refine the conversion predicates of NumDefs (used by the extracted model) *)
Theorem C16_strtod_rest_converts : forall s, strtod_converts s = is_some (strtod_rest s).
Proof. exact NumMoreProofs.strtod_rest_converts. Qed.
Print Assumptions C16_strtod_rest_converts.

Theorem C16_strtol_rest_converts : forall s, strtol_converts s = is_some (strtol_rest s).
Proof. exact NumMoreProofs.strtol_rest_converts. Qed.
Print Assumptions C16_strtol_rest_converts.

(** the prefix grammars themselves do drop tails; the recognisers reject exactly those strings *)
Theorem C16_prefix_models_drop_tails : strtod_rest "1.5x" = Some "x" /\ strtod_rest " -1e" = Some "e" /\ strtod_rest "1e+" = Some "e+" /\
  strtod_rest "1.2.3" = Some ".3" /\ strtod_rest "-." = None /\
  strtol_rest " +12abc" = Some "abc" /\ strtol_rest "1.5" = Some ".5" /\ strtol_rest "+" = None /\
  is_real "1.5x" = false /\ is_real " -1e" = false /\ is_real "1e+" = false /\ is_real "1.2.3" = false /\
  is_int " +12abc" = false /\ is_int "1.5" = false.
Proof. exact NumMoreProofs.prefix_models_drop_tails. Qed.
Print Assumptions C16_prefix_models_drop_tails.

(** At least one digit, and in the significand (the text before the first e/E): what the fix
    "digit-less reals" repaired. *)
Theorem C16_real_mantissa_digit : forall s, is_real s = true -> has_digit (before_e s) = true.
Proof. exact NumMoreProofs.real_mantissa_digit. Qed.
Print Assumptions C16_real_mantissa_digit.

Theorem C16_real_has_digit : forall s, is_real s = true -> has_digit s = true.
Proof. exact NumMoreProofs.real_has_digit. Qed.
Print Assumptions C16_real_has_digit.

Theorem C16_basic_real_has_digit : forall s, is_basic_real s = true -> has_digit s = true.
Proof. exact NumMoreProofs.basic_real_has_digit. Qed.
Print Assumptions C16_basic_real_has_digit.

Theorem C16_int_has_digit : forall s, is_int s = true -> has_digit s = true.
Proof. exact NumMoreProofs.int_has_digit. Qed.
Print Assumptions C16_int_has_digit.

Theorem C16_unfixed_digitless : (is_real_gen false "-" = true /\ has_digit "-" = false /\ strtod_rest "-" = None) /\
  (is_real_gen false "." = true /\ has_digit "." = false /\ strtod_rest "." = None) /\
  (is_real_gen false ".e5" = true /\ has_digit (before_e ".e5") = false /\ strtod_rest ".e5" = None) /\
  (is_real_gen false "-.E-1" = true /\ has_digit (before_e "-.E-1") = false /\ strtod_rest "-.E-1" = None).
Proof. exact NumMoreProofs.unfixed_digitless. Qed.
Print Assumptions C16_unfixed_digitless.

(** 4. Closure facts.  A character outside the alphabet rejects wherever it stands ... *)
Theorem C16_real_char_anywhere : forall a c b, real_alpha c = false -> is_real (a ++ String c b) = false.
Proof. exact NumMoreProofs.real_char_anywhere. Qed.
Print Assumptions C16_real_char_anywhere.

Theorem C16_basic_real_char_anywhere : forall a c b, real_alpha c = false -> is_basic_real (a ++ String c b) = false.
Proof. exact NumMoreProofs.basic_real_char_anywhere. Qed.
Print Assumptions C16_basic_real_char_anywhere.

Theorem C16_int_char_anywhere : forall a c b, int_alpha c = false -> is_int (a ++ String c b) = false.
Proof. exact NumMoreProofs.int_char_anywhere. Qed.
Print Assumptions C16_int_char_anywhere.

Theorem C16_nonneg_char_anywhere : forall a c b, is_digit c = false -> is_nonneg_int (a ++ String c b) = false.
Proof. exact NumMoreProofs.nonneg_char_anywhere. Qed.
Print Assumptions C16_nonneg_char_anywhere.

(** ... in particular white space (anywhere, hence leading and trailing) and non-ASCII bytes. *)
Theorem C16_space_rejected : forall a c b, is_space c = true ->
  is_real (a ++ String c b) = false /\ is_basic_real (a ++ String c b) = false /\
  is_int (a ++ String c b) = false /\ is_nonneg_int (a ++ String c b) = false.
Proof. exact NumMoreProofs.space_rejected. Qed.
Print Assumptions C16_space_rejected.

Theorem C16_leading_space_rejected : forall c b, is_space c = true ->
  is_real (String c b) = false /\ is_basic_real (String c b) = false /\
  is_int (String c b) = false /\ is_nonneg_int (String c b) = false.
Proof. exact NumMoreProofs.leading_space_rejected. Qed.
Print Assumptions C16_leading_space_rejected.

Theorem C16_trailing_space_rejected : forall a c, is_space c = true ->
  is_real (a ++ String c "") = false /\ is_basic_real (a ++ String c "") = false /\
  is_int (a ++ String c "") = false /\ is_nonneg_int (a ++ String c "") = false.
Proof. exact NumMoreProofs.trailing_space_rejected. Qed.
Print Assumptions C16_trailing_space_rejected.

Theorem C16_non_ascii_rejected : forall a c b, (128 <= nat_of_ascii c)%nat ->
  is_real (a ++ String c b) = false /\ is_basic_real (a ++ String c b) = false /\
  is_int (a ++ String c b) = false /\ is_nonneg_int (a ++ String c b) = false.
Proof. exact NumMoreProofs.non_ascii_rejected. Qed.
Print Assumptions C16_non_ascii_rejected.

(** Signs: in a real a sign stands in front (and then it is '-') or right after the e/E; an integer has no
    sign after its first character; a basic real has no '+' and '-' only in front; at most two signs,
    one e/E and one point in all. *)
Theorem C16_sign_position : forall a c b, is_sign c = true -> is_real (a ++ String c b) = true ->
  (a = "" /\ c = "-"%char) \/ last_is_e a = true.
Proof. exact NumMoreProofs.sign_position. Qed.
Print Assumptions C16_sign_position.

Theorem C16_int_sign_front : forall c r, is_int (String c r) = true ->
  count_char "-" r = 0 /\ count_char "+" r = 0.
Proof. exact NumMoreProofs.int_sign_front. Qed.
Print Assumptions C16_int_sign_front.

Theorem C16_basic_real_sign_front : forall c r, is_basic_real (String c r) = true ->
  count_char "-" r = 0 /\ count_char "+" (String c r) = 0.
Proof. exact NumMoreProofs.basic_real_sign_front. Qed.
Print Assumptions C16_basic_real_sign_front.

Theorem C16_real_sign_count : forall s, is_real s = true -> count_char "-" s + count_char "+" s <= 2.
Proof. exact NumMoreProofs.real_sign_count. Qed.
Print Assumptions C16_real_sign_count.

Theorem C16_real_one_e : forall s, is_real s = true -> count_char "e" s + count_char "E" s <= 1.
Proof. exact NumMoreProofs.real_one_e. Qed.
Print Assumptions C16_real_one_e.

Theorem C16_real_one_dot : forall s, is_real s = true -> count_char "." s <= 1.
Proof. exact NumMoreProofs.real_one_dot. Qed.
Print Assumptions C16_real_one_dot.

(** Exponent forms: a string with an e/E at some position is a real exactly when the text before is a basic
    real and the text after an integer (equality of booleans: also for every rejected split); the
    exponent needs a digit. *)
Theorem C16_real_exp_split : forall x ec y, (ec = "e"%char \/ ec = "E"%char) ->
  is_real (x ++ String ec y) = is_basic_real x && is_int y.
Proof. exact NumMoreProofs.real_exp_split. Qed.
Print Assumptions C16_real_exp_split.

Theorem C16_exp_forms : forall x ec y, (ec = "e"%char \/ ec = "E"%char) ->
  (is_real (x ++ String ec y) = true <-> BasicRealG x /\ IntG y).
Proof. exact NumMoreProofs.exp_forms. Qed.
Print Assumptions C16_exp_forms.

Theorem C16_exp_needs_digit : forall x ec sg, (ec = "e"%char \/ ec = "E"%char) -> (sg = "" \/ sg = "+" \/ sg = "-") ->
  is_real (x ++ String ec sg) = false.
Proof. exact NumMoreProofs.exp_needs_digit. Qed.
Print Assumptions C16_exp_needs_digit.

(** Non-vacuity of the second wave: accepted strings of every kind exist and are consumed entirely; the
    hypotheses of the closure statements are satisfiable. *)
Example C16_more_nonvacuous :
  is_real "-1.5e+07" = true /\ strtod_rest "-1.5e+07" = Some "" /\ has_digit (before_e "-1.5e+07") = true /\
  is_real ".5E3" = true /\ strtod_rest ".5E3" = Some "" /\ is_real "5." = true /\ strtod_rest "5." = Some "" /\
  is_int "-12" = true /\ strtol_rest "-12" = Some "" /\
  BasicRealG "-0.5" /\ is_basic_real "-0.5" = true /\ is_nonneg_int "007" = true /\ Digits1 "007".
Proof. exact NumMoreProofs.more_nonvacuous. Qed.
Print Assumptions C16_more_nonvacuous.

Example C16_hyps_nonvacuous :
  (is_space " " = true /\ is_space "009" = true /\ is_space "010" = true) /\
  (128 <= nat_of_ascii "200")%nat /\
  (real_alpha "x" = false /\ int_alpha "." = false /\ real_alpha "." = true) /\
  (is_sign "-" = true /\ is_real ("1e" ++ String "-" "5") = true /\ last_is_e "1e" = true) /\
  (is_sign "-" = true /\ is_real ("" ++ String "-" "5") = true) /\
  (is_int "-1" = true /\ first_plus "-1" = false /\ is_basic_real "-1" = true) /\
  (is_real ("-1.5" ++ String "E" "+07") = true /\ is_basic_real "-1.5" = true /\ is_int "+07" = true) /\
  (is_basic_real "-1.5" = true /\ count_char "e" "-1.5" = 0 /\ count_char "E" "-1.5" = 0).
Proof. exact NumMoreProofs.hyps_nonvacuous. Qed.
Print Assumptions C16_hyps_nonvacuous.

(** ---- Round 6 (NumRound6Proofs.v): concatenation laws of the integer recognisers, over ALL strings. ---- *)

(** isNonNegativeCellMLInteger over a concatenation, as booleans (also for every rejected split). *)
Theorem C16_nonneg_app_split : forall a b,
  is_nonneg_int (a ++ b) = all_digits a && all_digits b && negb (str_is_empty a && str_is_empty b).
Proof. exact NumRound6Proofs.nonneg_app_split. Qed.
Print Assumptions C16_nonneg_app_split.

(** Converse of C16_nonneg_sub_int: an accepted integer is non-negative exactly when it has no leading sign. *)
Theorem C16_int_nonneg_iff_nosign : forall c r, is_int (String c r) = true ->
  is_nonneg_int (String c r) = negb (is_sign c).
Proof. exact NumRound6Proofs.int_nonneg_iff_nosign. Qed.
Print Assumptions C16_int_nonneg_iff_nosign.

(** After an accepted integer, exactly digit strings may follow. *)
Theorem C16_int_app_digits : forall s d, is_int s = true -> is_int (s ++ d) = all_digits d.
Proof. exact NumRound6Proofs.int_app_digits. Qed.
Print Assumptions C16_int_app_digits.
