(** Properties_C16.v — statements only.  Each theorem is closed by [exact <lemma of NumProofs>]
    and followed by Print Assumptions.  C16: numeric text is recognised per the CellML grammar and
    never crashes. *)
From Coq Require Import String Ascii List Bool ZArith.
From LC Require Import NumDefs NumSpec NumProofs.
Local Open Scope string_scope.

(** The integer recogniser accepts exactly the integer grammar. *)
Theorem C16_is_int_iff : forall s, is_int s = true <-> IntG s.
Proof. exact NumProofs.is_int_iff. Qed.
Print Assumptions C16_is_int_iff.

(** The (repaired) real recogniser accepts exactly the real grammar. *)
Theorem C16_is_real_iff : forall s, is_real s = true <-> RealG s.
Proof. exact NumProofs.is_real_iff. Qed.
Print Assumptions C16_is_real_iff.

(** The executable automata used as oracle on the implementation are the grammar. *)
Theorem C16_real_dfa_iff : forall s, real_dfa s = true <-> RealG s.
Proof. exact NumProofs.real_dfa_iff. Qed.
Print Assumptions C16_real_dfa_iff.

Theorem C16_int_dfa_iff : forall s, int_dfa s = true <-> IntG s.
Proof. exact NumProofs.int_dfa_iff. Qed.
Print Assumptions C16_int_dfa_iff.

(** Conversion never throws: whatever the recognisers accept, strtod / strtol convert. *)
Theorem C16_convert_double_total : forall s, convert_to_double s <> DThrowsInvalidArgument.
Proof. exact NumProofs.convert_double_total. Qed.
Print Assumptions C16_convert_double_total.

Theorem C16_convert_int_total : forall s, convert_to_int_flow s <> IThrowsInvalidArgument.
Proof. exact NumProofs.convert_int_total. Qed.
Print Assumptions C16_convert_int_total.

(** Accepted integers convert to their decimal value or are reported out of range; never anything else. *)
Theorem C16_to_int_range : forall s z, to_int s = Value z ->
  IntG s /\ z = int_value s /\ (-2147483648 <= z <= 2147483647)%Z.
Proof. exact NumProofs.to_int_range. Qed.
Print Assumptions C16_to_int_range.

Theorem C16_to_int_rejects : forall s, to_int s = Rejected <-> ~ IntG s.
Proof. exact NumProofs.to_int_rejects. Qed.
Print Assumptions C16_to_int_rejects.

(** What the printer writes for a finite double (%.15g shapes) is inside the real grammar, so it is read back. *)
Theorem C16_printed_is_real : forall t, g15_shape t = true -> is_real t = true.
Proof. exact NumProofs.g15_is_real. Qed.
Print Assumptions C16_printed_is_real.

(** The code before the "fix:" commit violated the property: witness "-". *)
Theorem C16_unfixed_refuted :
  exists s, is_real_gen false s = true /\ ~ RealG s /\ convert_to_double_gen false s = DThrowsInvalidArgument.
Proof. exact NumProofs.unfixed_refuted. Qed.
Print Assumptions C16_unfixed_refuted.

(** Non-vacuity. *)
Example C16_nonvacuous : RealG "-1.5e+07" /\ IntG "+12" /\ is_real "-1.5e+07" = true /\ to_int "+12" = Value 12%Z.
Proof. exact NumProofs.nonvacuous. Qed.
Print Assumptions C16_nonvacuous.
