(* FlattenTermPos2.v -- C06: two more fuelled recursions of flatten_model end within the same bound as the transfer recursion.
   Model::hasImports (the condition of 'while (flatModel->hasImports())': has_imports / has_units_imports_go = model.cpp
   hasUnitsImports) and utilities.cpp referencedUnits (referenced_units, what unitsUsed calls for every units a component uses)
   walk the reference graph of ONE units list and change nothing.  When that list passes the boolean check ranked_b
   (FlattenTermPos.v) neither answers FFuel with fuel max rank + 2 -- with or without the cycle guard of 85ba0d4. *)
From Coq Require Import List String Ascii ZArith QArith Bool Arith Lia.
From LC Require Import Common NumDefs UnitsDefs FlattenDefs FlattenProofs FlattenTermPos.
Import ListNotations.
Local Open Scope string_scope.
Local Open Scope nat_scope.
Local Open Scope list_scope.

Lemma fold_not_fuel : forall (A B : Type) (g : B -> A -> fres B) (l : list A),
  (forall d, In d l -> forall b, g b d <> FFuel) ->
  forall acc, acc <> FFuel -> fold_left (fun acc d => fbind acc (fun b => g b d)) l acc <> FFuel.
Proof.
  intros A B g l. induction l as [|x r IH]; intros Hg acc Ha; cbn [fold_left]; [exact Ha|].
  apply IH; [intros d Hd; apply Hg; right; exact Hd|].
  destruct acc; cbn [fbind]; try discriminate; [|congruence]. apply Hg. left. reflexivity.
Qed.

(* the references of u to units of U have rank < n *)
Definition below (U : list units) (rl : list (string * nat)) (n : nat) (u : units) : Prop :=
  forall d, In d (u_defs u) -> has_units (uc_ref d) U = true -> rk_of rl (uc_ref d) < n.

Lemma below_found : forall U rl n r, ranked_b U rl = true -> find_units n U = Some r -> below U rl (rk_of rl n) r.
Proof. intros U rl n r Hr Hf d Hd Hh. exact (ranked_find _ _ _ _ _ Hr Hf Hd Hh). Qed.

Lemma below_max : forall U rl u, below U rl (max_rank rl + 1) u.
Proof. intros U rl u d _ _. pose proof (rk_of_le_max rl (uc_ref d)). lia. Qed.

Lemma find_has : forall n U r, find_units n U = Some r -> has_units n U = true.
Proof. intros n U r H. unfold has_units. rewrite H. reflexivity. Qed.

(* ---- model.cpp hasUnitsImports *)
Lemma hui_go_terminates : forall U rl, ranked_b U rl = true ->
  forall fuel n u, below U rl n u -> n < fuel -> has_units_imports_go fuel U u <> FFuel.
Proof.
  intros U rl Hr. induction fuel as [|f IH]; intros n u Hb Hn; [lia|]. cbn [has_units_imports_go].
  destruct (u_imp u); [discriminate|].
  apply (fold_not_fuel _ _ (fun (b : bool) d => if b then FOk true
                                                else if negb (str_is_empty (uc_ref d)) && negb (is_std_name (uc_ref d))
                                                     then match find_units (uc_ref d) U with
                                                          | Some r => has_units_imports_go f U r
                                                          | None => FOk false
                                                          end
                                                     else FOk false)); [|discriminate].
  intros d Hd b. destruct b; [discriminate|].
  destruct (negb (str_is_empty (uc_ref d)) && negb (is_std_name (uc_ref d))); [|discriminate].
  destruct (find_units (uc_ref d) U) as [r|] eqn:Ef; [|discriminate].
  apply (IH (rk_of rl (uc_ref d))); [exact (below_found _ _ _ _ Hr Ef)|].
  pose proof (Hb d Hd (find_has _ _ _ Ef)). lia.
Qed.

Lemma has_units_imports_terminates : forall U rl fx libs u, ranked_b U rl = true ->
  has_units_imports fx libs (transfer_fuel_bound rl) U u <> FFuel.
Proof.
  intros U rl fx libs u Hr. unfold has_units_imports.
  destruct (fx_cycle_guard fx && has_units_cycle libs U (u_name u)); [discriminate|].
  apply (hui_go_terminates U rl Hr _ (max_rank rl + 1)); [apply below_max | unfold transfer_fuel_bound; lia].
Qed.

(* Model::hasImports, the condition of the while loop of flattenModel *)
Theorem has_imports_terminates : forall rl fx libs fs, ranked_b (f_units fs) rl = true ->
  has_imports fx libs (transfer_fuel_bound rl) fs <> FFuel.
Proof.
  intros rl fx libs fs Hr. unfold has_imports.
  pose proof (fold_not_fuel _ _ (fun (b : bool) u => if b then FOk true else has_units_imports fx libs (transfer_fuel_bound rl) (f_units fs) u)
                            (f_units fs)) as H.
  cbv beta in H.
  match goal with |- fbind ?X _ <> _ => assert (HX : X <> FFuel) end.
  { apply H; [|discriminate]. intros u _ b. destruct b; [discriminate|]. apply has_units_imports_terminates. exact Hr. }
  match goal with |- fbind ?X _ <> _ => destruct X as [b| | |] end; cbn [fbind]; try discriminate; [|congruence].
  destruct b; discriminate.
Qed.

(* ---- utilities.cpp referencedUnits *)
Lemma referenced_units_terminates_n : forall U rl, ranked_b U rl = true ->
  forall fuel n u, below U rl n u -> n < fuel -> referenced_units fuel U u <> FFuel.
Proof.
  intros U rl Hr. induction fuel as [|f IH]; intros n u Hb Hn; [lia|]. cbn [referenced_units].
  apply (fold_not_fuel _ _ (fun (l : list string) d => if is_std_name (uc_ref d) then FOk l
                                                       else match find_units (uc_ref d) U with
                                                            | Some r => fbind (referenced_units f U r) (fun l' => FOk (l ++ l' ++ [uc_ref d]))
                                                            | None => FOk l
                                                            end)); [|discriminate].
  intros d Hd l. destruct (is_std_name (uc_ref d)); [discriminate|].
  destruct (find_units (uc_ref d) U) as [r|] eqn:Ef; [|discriminate].
  assert (H : referenced_units f U r <> FFuel).
  { apply (IH (rk_of rl (uc_ref d))); [exact (below_found _ _ _ _ Hr Ef)|]. pose proof (Hb d Hd (find_has _ _ _ Ef)). lia. }
  destruct (referenced_units f U r); cbn [fbind]; try discriminate. congruence.
Qed.

Theorem referenced_units_terminates : forall rl U u, ranked_b U rl = true ->
  referenced_units (transfer_fuel_bound rl) U u <> FFuel.
Proof.
  intros rl U u Hr. apply (referenced_units_terminates_n U rl Hr _ (max_rank rl + 1)); [apply below_max | unfold transfer_fuel_bound; lia].
Qed.

(* ---- not vacuous: the units of hand case same_name_different_units next to an imported units that mm3 uses; and the bound is
   needed: the captured list q = [q] (not ranked) makes hasUnitsImports of the code before 85ba0d4 run out of every fuel *)
Definition tp2_far : units :=
  {| u_own := OFresh 1; u_name := "far"; u_imp := Some {| i_url := "f1.cellml"; i_lib := 0; i_ref := "far" |}; u_defs := [] |}.
Definition tp2_mm3 : units := {| u_own := OFresh 1; u_name := "mm3"; u_imp := None; u_defs := [tp_uc "mm2" "" 1; tp_uc "far" "" 1] |}.
Definition tp2_fs (with_far : bool) : fstate :=
  {| f_own := OFresh 1; f_name := "m"; f_units := us_S tp_state ++ [tp2_mm3] ++ (if with_far then [tp2_far] else []);
     f_comps := []; f_eqs := []; f_st := {| nx := 10; wlog := [] |} |}.
Definition tp2_ranks : list (string * nat) := [("mm", 0); ("mm2", 1); ("far", 0); ("mm3", 2)].

Example has_imports_terminates_nonvacuous :
  ranked_b (f_units (tp2_fs true)) tp2_ranks = true /\ ranked_b (f_units (tp2_fs false)) tp2_ranks = true /\
  transfer_fuel_bound tp2_ranks = 4 /\
  has_imports flat_current_fixes [] (transfer_fuel_bound tp2_ranks) (tp2_fs true) = FOk true /\
  has_imports flat_current_fixes [] (transfer_fuel_bound tp2_ranks) (tp2_fs false) = FOk false /\
  referenced_units (transfer_fuel_bound tp2_ranks) (f_units (tp2_fs true)) tp2_mm3 = FOk ["mm"; "mm2"; "far"] /\
  (* fuel matters on this list: 2 is not enough for referencedUnits of mm3 *)
  referenced_units 2 (f_units (tp2_fs true)) tp2_mm3 = FFuel.
Proof. vm_compute. repeat split; reflexivity. Qed.

(* the hypothesis is needed: on the captured list q = [q] (capture_is_not_ranked) both recursions run out of every fuel *)
Definition tp2_q : units := {| u_own := OFresh 1; u_name := "q"; u_imp := None; u_defs := [tp_uc "q" "" 1] |}.
Example unranked_diverges : forall fuel, has_units_imports_go fuel [tp2_q] tp2_q = FFuel /\ referenced_units fuel [tp2_q] tp2_q = FFuel.
Proof.
  induction fuel as [|f [IH1 IH2]]; [split; reflexivity|]. split.
  - cbn [has_units_imports_go tp2_q u_imp u_defs fold_left fbind]. change (find_units (uc_ref (tp_uc "q" "" 1)) [tp2_q]) with (Some tp2_q).
    change (negb (str_is_empty (uc_ref (tp_uc "q" "" 1))) && negb (is_std_name (uc_ref (tp_uc "q" "" 1)))) with true. cbv iota. exact IH1.
  - cbn [referenced_units tp2_q u_defs fold_left fbind]. change (find_units (uc_ref (tp_uc "q" "" 1)) [tp2_q]) with (Some tp2_q).
    change (is_std_name (uc_ref (tp_uc "q" "" 1))) with false. cbv iota. fold tp2_q. rewrite IH2. reflexivity.
Qed.
