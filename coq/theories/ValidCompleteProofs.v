(** ValidCompleteProofs.v — C04 proofs: "ACCEPTS VALID MODELS" from the rule-by-rule predicate.  If every rule holds
    ([Rules] of ValidSoundProofs, i.e. the conclusion of the all-worlds soundness theorem) and the units reference graph is
    acyclic, the validator is silent — for worlds whose units imports of model 0 are unresolved ([units_stay_local]) and whose
    component imports point forward ([imports_forward]).  [units_stay_local] is NEEDED ([units_target_needed]: same model 0,
    same rules, a faulty target of a resolved units import: reported); [imports_forward] is the fuel bound of the model's
    component recursion (the library has no such bound). *)
From Coq Require Import String Ascii List Bool Arith ZArith QArith Lia.
From LC Require Import Common NumDefs MathDefs ValidDefs ValidSpec ValidLeaf ValidCompProofs ValidUnitsProofs ValidProofs
  ValidImportProofs ValidSoundProofs ValidWitness.
Import ListNotations.
Local Open Scope string_scope.
Local Open Scope list_scope.
Local Open Scope nat_scope.

Theorem validate_complete_rules : forall fx ueq W, Repr (model_at W 0) -> units_stay_local (model_at W 0) -> imports_forward W ->
  Rules fx ueq W -> UnitsAcyclic (model_at W 0) -> validate fx ueq false W = [].
Proof.
  intros fx ueq W HR HU HF [R1 R2 R3 R4 R5 R6 R7 R8 R9 R10 R11] HA.
  assert (Hlen : 0 < length W).
  { destruct W as [|m W']; [|cbn; lia]. exfalso. destruct R1 as [c [r [H _]]]. cbn in H. discriminate H. }
  apply (validate_nil_iff_resolved fx ueq W HR HU HF Hlen). split; [|split; assumption].
  split; [constructor; assumption | exact R4].
Qed.

(** together with C04_validate_sound_all_worlds: on those worlds the validator is silent EXACTLY when the rules hold *)
Corollary validate_iff_rules : forall fx ueq W, Repr (model_at W 0) -> units_stay_local (model_at W 0) -> imports_forward W ->
  (validate fx ueq false W = [] <-> Rules fx ueq W /\ UnitsAcyclic (model_at W 0)).
Proof.
  intros fx ueq W HR HU HF. split.
  - intro H. split; [apply (validate_sound_general fx ueq W HR H)|].
    destruct W as [|m0 W']; [exfalso; apply (validate_sound_general fx ueq [] HR) in H; destruct H as [[c [r [H _]]] _]; cbn in H; discriminate H|].
    apply (validate_nil_iff_resolved fx ueq (m0 :: W') HR HU HF) in H; [|cbn; lia]. destruct H as [[H _] _]. destruct H. assumption.
  - intros [H1 H2]. apply validate_complete_rules; assumption.
Qed.

(* ------------------------------------------------------------------ units_stay_local is needed *)

(** model 0 imports units 'lu' (resolved); in [w_units_target_bad] the target's unit child references units that do not exist *)
Definition m0_units_import : model :=
  mkM "m" "" "" [mkU "u" "" (Some (mkIS 5 "" "lib.cellml" true (Some 1), "lu")) []] [mk_comp 2 "d" [] [] [] []].
Definition w_units_target_ok : world :=
  [m0_units_import; mkM "lib" "" "" [mkU "lu" "" None [mkUI "metre" "" (1 # 1) (0 # 1) ""]] []].
Definition w_units_target_bad : world :=
  [m0_units_import; mkM "lib" "" "" [mkU "lu" "" None [mkUI "no_such_units" "" (1 # 1) (0 # 1) ""]] []].

Lemma units_target_needed :
  Repr (model_at w_units_target_bad 0) /\ imports_forward w_units_target_bad
  /\ Rules current_fixes ueq_c08 w_units_target_bad /\ UnitsAcyclic (model_at w_units_target_bad 0)
  /\ validate current_fixes ueq_c08 false w_units_target_bad = [(Error, V_UNIT_UNITS_REFERENCE)]
  /\ ~ units_stay_local (model_at w_units_target_bad 0).
Proof.
  assert (HR : Repr (model_at w_units_target_ok 0)) by (split; cbn; repeat constructor; cbn; intuition discriminate).
  assert (Hok : validate current_fixes ueq_c08 false w_units_target_ok = []) by (vm_compute; reflexivity).
  pose proof (validate_sound_general current_fixes ueq_c08 w_units_target_ok HR Hok) as [R1 R2 R3 R4 R5 R6 R7 R8 R9 R10 R11].
  split; [exact HR|]. split; [|split; [|split; [|split]]].
  - intros mi c s cref mj Hc Hi Hm. destruct mi as [|[|mi]].
    + cbn in Hc. destruct Hc as [Hc|[]]. subst c. cbn in Hi. discriminate Hi.
    + cbn in Hc. destruct Hc.
    + exfalso. unfold model_at in Hc. cbn in Hc. destruct mi; cbn in Hc; destruct Hc.
  - constructor; try assumption.
    + repeat constructor. intros s cref mj E. cbn in E. discriminate E.
    + intros me Hme. cbn in Hme. destruct Hme.
  - intros n Hc. destruct (clos_trans_first _ _ _ Hc) as [r [[u [it [Hf [Hit _]]]] _]].
    apply find_units_some in Hf. destruct Hf as [Hf _]. cbn in Hf. destruct Hf as [Hf|[]]. subst u. destruct Hit.
  - vm_compute. reflexivity.
  - intro H. specialize (H (mkU "u" "" (Some (mkIS 5 "" "lib.cellml" true (Some 1), "lu")) []) (or_introl eq_refl)).
    cbn in H. destruct H as [H _]. discriminate H.
Qed.

(** non-vacuity: the world with a resolved component import satisfies the hypotheses, is accepted, hence has the rules *)
Lemma iff_rules_nonvacuous : Rules current_fixes ueq_c08 w_import_child /\ UnitsAcyclic (model_at w_import_child 0).
Proof.
  apply (validate_iff_rules current_fixes ueq_c08 w_import_child w_import_child_repr).
  - intros u [].
  - exact w_import_child_forward.
  - exact (proj1 w_import_child_facts).
Qed.
