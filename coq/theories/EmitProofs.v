(** EmitProofs.v — lemmas about EmitDefs (C17).  Statements are re-exported by Properties_C17.v. *)
From Coq Require Import String Ascii List Bool Arith Lia DecimalString DecimalNat Decimal DecimalFacts.
From LC Require Import Common AstDefs GenDefs EmitDefs.
From LCGen Require Import AstTypes ProfileStrings.
Import ListNotations.
Local Open Scope string_scope.
Local Open Scope bool_scope.

(** * strings *)

Lemma append_nil_r : forall s : string, s ++ "" = s.
Proof. induction s as [|c s IH]; simpl; [reflexivity | now rewrite IH]. Qed.

Lemma append_assoc : forall a b c : string, (a ++ b) ++ c = a ++ (b ++ c).
Proof. induction a as [|x a IH]; intros; simpl; [reflexivity | now rewrite IH]. Qed.

Lemma length_append : forall a b : string, String.length (a ++ b) = String.length a + String.length b.
Proof. induction a as [|x a IH]; intros; simpl; [reflexivity | now rewrite IH]. Qed.

Lemma prefix_drop_sound : forall pre s r, prefix_drop pre s = Some r -> s = pre ++ r.
Proof.
  induction pre as [|a pre IH]; intros s r H; simpl in *.
  - now inversion H.
  - destruct s as [|b s]; [discriminate|]. destruct (Ascii.eqb a b) eqn:E; [|discriminate].
    apply Ascii.eqb_eq in E. subst. simpl. f_equal. now apply IH.
Qed.

Lemma prefix_drop_app : forall pre r, prefix_drop pre (pre ++ r) = Some r.
Proof. induction pre as [|a pre IH]; intros; simpl; [reflexivity|]. now rewrite Ascii.eqb_refl. Qed.

(* replace = splice at the first occurrence *)
Lemma replace_first_split : forall s from to a b,
  split_first s from = Some (a, b) -> replace_first s from to = a ++ to ++ b.
Proof.
  induction s as [|c s IH]; intros from to a b H; simpl in *.
  - destruct (prefix_drop from "") eqn:E; [|discriminate]. inversion H; subst. reflexivity.
  - destruct (prefix_drop from (String c s)) eqn:E.
    + inversion H; subst. reflexivity.
    + destruct (split_first s from) as [[a' b']|] eqn:E2; [|discriminate].
      inversion H; subst. simpl. f_equal. now apply IH.
Qed.

Lemma replace_first_absent : forall s from to, split_first s from = None -> replace_first s from to = s.
Proof.
  induction s as [|c s IH]; intros from to H; simpl in *.
  - destruct (prefix_drop from ""); [discriminate | reflexivity].
  - destruct (prefix_drop from (String c s)); [discriminate|].
    destruct (split_first s from) as [[a' b']|] eqn:E2; [discriminate|]. f_equal. now apply IH.
Qed.

Lemma split_first_sound : forall s from a b, split_first s from = Some (a, b) -> s = a ++ from ++ b.
Proof.
  induction s as [|c s IH]; intros from a b H; simpl in *.
  - destruct (prefix_drop from "") eqn:E; [|discriminate]. inversion H; subst. now apply prefix_drop_sound in E.
  - destruct (prefix_drop from (String c s)) eqn:E.
    + inversion H; subst. now apply prefix_drop_sound in E.
    + destruct (split_first s from) as [[a' b']|] eqn:E2; [|discriminate].
      inversion H; subst. simpl. f_equal. now apply IH.
Qed.

(* a character that does not occur in a string *)
Fixpoint no_char (c : ascii) (s : string) : bool :=
  match s with EmptyString => true | String d r => negb (Ascii.eqb c d) && no_char c r end.

Lemma no_char_app : forall c a b, no_char c (a ++ b) = no_char c a && no_char c b.
Proof. induction a as [|x a IH]; intros; simpl; [reflexivity|]. rewrite IH. now rewrite andb_assoc. Qed.

(* the searched text starts with a character that the prefix does not contain: the search skips the prefix *)
Lemma split_first_skip : forall a c from s, no_char c a = true ->
  split_first (a ++ s) (String c from) =
  match split_first s (String c from) with Some (x, y) => Some (a ++ x, y) | None => None end.
Proof.
  induction a as [|d a IH]; intros c from s H; simpl in *.
  - destruct (split_first s (String c from)) as [[x y]|]; reflexivity.
  - apply andb_true_iff in H as [H1 H2]. apply negb_true_iff in H1. rewrite H1.
    rewrite (IH c from s H2). destruct (split_first s (String c from)) as [[x y]|]; reflexivity.
Qed.

Lemma replace_first_skip : forall a c from to s, no_char c a = true ->
  replace_first (a ++ s) (String c from) to = a ++ replace_first s (String c from) to.
Proof.
  induction a as [|d a IH]; intros c from to s H; simpl in *; [reflexivity|].
  apply andb_true_iff in H as [H1 H2]. apply negb_true_iff in H1. rewrite H1. f_equal. now apply IH.
Qed.

Lemma prefix_drop_none_app : forall from u s,
  prefix_drop from u = None -> String.length from <= String.length u -> prefix_drop from (u ++ s) = None.
Proof.
  induction from as [|f from IH]; intros u s H L; simpl in *; [discriminate|].
  destruct u as [|e u]; simpl in *; [lia|].
  destruct (Ascii.eqb f e); [|reflexivity]. apply IH; [assumption | lia].
Qed.

(* the occurrence is found inside a known prefix *)
Lemma split_first_in_prefix : forall a from s x y,
  split_first a from = Some (x, y) -> split_first (a ++ s) from = Some (x, y ++ s).
Proof.
  induction a as [|d a IH]; intros from s x y H; simpl in H.
  - destruct (prefix_drop from "") eqn:E; [|discriminate]. inversion H; subst.
    apply prefix_drop_sound in E. destruct from as [|f from]; [|simpl in E; discriminate]. simpl in E. subst. simpl.
    destruct s; reflexivity.
  - destruct (prefix_drop from (String d a)) as [r0|] eqn:E.
    + inversion H; subst. apply prefix_drop_sound in E. rewrite E. rewrite append_assoc.
      destruct from as [|f from].
      * simpl. destruct (y ++ s); reflexivity.
      * simpl. rewrite Ascii.eqb_refl. rewrite prefix_drop_app. reflexivity.
    + destruct (split_first a from) as [[x' y']|] eqn:E2; [|discriminate]. injection H as Hx Hy. subst x y.
      assert (E3 : prefix_drop from (String d a ++ s) = None).
      { apply prefix_drop_none_app; [assumption|]. apply split_first_sound in E2. rewrite E2. simpl.
        rewrite !length_append. lia. }
      simpl in E3. simpl. rewrite E3. rewrite (IH from s x' y' E2). reflexivity.
Qed.

Lemma replace_first_in_prefix : forall a from to s x y,
  split_first a from = Some (x, y) -> replace_first (a ++ s) from to = x ++ to ++ y ++ s.
Proof. intros. apply replace_first_split. now apply split_first_in_prefix. Qed.

Lemma is_empty_true : forall s, is_empty s = true <-> s = "".
Proof. destruct s; simpl; split; intros; try reflexivity; discriminate. Qed.

(* decimal text of a natural number is injective *)
Lemma nat_to_string_inj : forall a b, nat_to_string a = nat_to_string b -> a = b.
Proof.
  intros a b H. unfold nat_to_string in H.
  assert (N : forall n, Nat.to_uint n <> Nil).
  { intro n. pose proof (Unsigned.to_of (Nat.to_uint n)) as T. rewrite Unsigned.of_to in T. rewrite T. apply unorm_nonnil. }
  pose proof (NilZero.usu _ (N a)) as Ua. pose proof (NilZero.usu _ (N b)) as Ub.
  rewrite H in Ua. rewrite Ua in Ub. inversion Ub. now apply Unsigned.to_uint_inj.
Qed.

(** * counts *)

(* what a reader of the generated code sees: "const size_t STATE_COUNT = 3;" / "STATE_COUNT = 3" *)
Definition count_line (k : pkind) (name : string) (n : nat) : string :=
  match k with
  | PC => "const size_t " ++ name ++ " = " ++ nat_to_string n ++ ";" ++ nl
  | PPy => name ++ " = " ++ nat_to_string n ++ nl
  end.
Definition count_decl (k : pkind) (name : string) : string :=
  match k with PC => "extern const size_t " ++ name ++ ";" ++ nl | PPy => "" end.

Ltac splice :=
  repeat (erewrite replace_first_split by (vm_compute; reflexivity)).

Lemma counts_match : forall k m,
  state_and_variable_count_code (prof k) m false =
    (if has_odes m then count_line k "STATE_COUNT" (length (am_states m)) else "")
    ++ count_line k "VARIABLE_COUNT" (length (am_variables m))
  /\ state_and_variable_count_code (prof k) m true =
    (if has_odes m then count_decl k "STATE_COUNT" else "") ++ count_decl k "VARIABLE_COUNT".
Proof.
  intros k m. unfold state_and_variable_count_code, count_line, count_decl.
  destruct k; destruct (has_odes m); cbn [prof andb orb negb is_empty
    interface_state_count_string implementation_state_count_string interface_variable_count_string
    implementation_variable_count_string profile_C profile_Py]; splice; split; reflexivity.
Qed.

Lemma count_line_inj : forall k name n n', count_line k name n = count_line k name n' -> n = n'.
Proof.
  intros k name n n' H. apply nat_to_string_inj.
  assert (A : forall a x y : string, a ++ x = a ++ y -> x = y).
  { induction a; simpl; intros x y E; [assumption|]. inversion E. auto. }
  assert (B : forall (x y z : string), x ++ z = y ++ z -> x = y).
  { intros x y z E.
    assert (L : String.length x = String.length y).
    { apply (f_equal String.length) in E. rewrite !length_append in E. lia. }
    revert y E L. induction x as [|c x IH]; destruct y as [|d y]; simpl; intros E L; try discriminate; [reflexivity|].
    inversion E. f_equal. apply IH; [assumption | lia]. }
  destruct k; unfold count_line in H.
  - apply A in H. apply A in H. apply A in H. eapply B; eassumption.
  - apply A in H. apply A in H. eapply B; eassumption.
Qed.

(** * validity guards *)

Lemma invalid_empty : forall k p ver m,
  (m = None \/ p = None \/ exists m', m = Some m' /\ is_valid m' = false) ->
  interface_code k p ver m = "" /\ implementation_code k p ver m = [].
Proof.
  intros k p ver m [H | [H | [m' [H V]]]]; subst; unfold interface_code, implementation_code.
  - split; reflexivity.
  - destruct m; split; reflexivity.
  - destruct p; rewrite ?V; split; reflexivity.
Qed.

Lemma invalid_types : forall m, is_valid m = false <->
  In (am_type m) [MUnknown; MInvalid; MUnderconstrained; MOverconstrained; MUnsuitablyConstrained].
Proof.
  intros m. unfold is_valid. destruct (am_type m); simpl; split; intros H; try reflexivity; try discriminate; auto 10.
  all: repeat (destruct H as [H | H]; try discriminate); try contradiction.
Qed.

Lemma python_has_no_interface : forall ver m, interface_code PPy (Some profile_Py) ver m = "".
Proof. intros. unfold interface_code. destruct m; [|reflexivity]. rewrite andb_false_r. reflexivity. Qed.

(** * helpers *)

Lemma all_helpers_complete : forall h, In h all_helpers.
Proof. destruct h; simpl; auto 30. Qed.

Lemma function_string_nonempty : forall k h, has_operator (prof k) h = false -> is_empty (function_string (prof k) h) = false.
Proof. destruct k; destruct h; intros H; try reflexivity; vm_compute in H; discriminate. Qed.

Lemma helper_iff : forall k m h, is_valid m = true ->
  (In h (helpers_emitted (prof k) m) <-> get_flag h (am_flags m) = true /\ has_operator (prof k) h = false).
Proof.
  intros k m h V. unfold helpers_emitted. rewrite filter_In. unfold helper_emitted, need. rewrite V. simpl andb.
  split.
  - intros [_ H]. apply andb_true_iff in H as [H H3]. apply andb_true_iff in H as [H1 H2].
    apply negb_true_iff in H2. auto.
  - intros [H1 H2]. split; [apply all_helpers_complete|].
    rewrite H1, H2, (function_string_nonempty k h H2). reflexivity.
Qed.

(* which helpers have a native operator: the C profile has one for everything but xor, min, max and the
   trigonometric helpers; the Python profile has none *)
Lemma profile_lacks_C : forall h, has_operator profile_C h = false <->
  In h [HXor; HMin; HMax; HSec; HCsc; HCot; HSech; HCsch; HCoth; HAsec; HAcsc; HAcot; HAsech; HAcsch; HAcoth].
Proof.
  destruct h; vm_compute; split; intros H; try reflexivity; try discriminate; auto 20;
    repeat (destruct H as [H | H]; try discriminate); contradiction.
Qed.

Lemma profile_lacks_Py : forall h, has_operator profile_Py h = false.
Proof. destruct h; reflexivity. Qed.

(* the helper's definition defines the very name that the generator prints for the operator *)
Lemma helper_defines_called_name : forall k h, has_operator (prof k) h = false ->
  sig_name (def_sig (function_string (prof k) h)) = call_string (prof k) h.
Proof. destruct k; destruct h; intros H; try (vm_compute in H; discriminate); vm_compute; reflexivity. Qed.

(* no helper is emitted for an invalid model or without its flag: nothing is emitted "just in case" *)
Lemma helper_emitted_flag : forall p m h, helper_emitted p m h = true -> is_valid m = true /\ get_flag h (am_flags m) = true.
Proof.
  intros p m h H. unfold helper_emitted, need in H.
  destruct (is_valid m); [|discriminate]. destruct (get_flag h (am_flags m)); [auto | discriminate].
Qed.

Lemma helpers_emitted_eq : forall p m, helpers_emitted p m = filter (helper_emitted p m) all_helpers.
Proof. reflexivity. Qed.

Lemma helper_needs_flag : forall p m h, In h (helpers_emitted p m) -> is_valid m = true /\ get_flag h (am_flags m) = true.
Proof.
  intros p m h H. apply (helper_emitted_flag p). rewrite helpers_emitted_eq in H. apply filter_In in H. exact (proj2 H).
Qed.

(** * info tables *)

Lemma nth_error_of_index : forall (A : Type) (f : A -> nat) (l : list A) (v : A),
  map f l = seq 0 (length l) -> In v l -> nth_error l (f v) = Some v.
Proof.
  intros A f l v H Hin. apply In_nth_error in Hin as [i Hi].
  assert (Li : i < length l) by (apply nth_error_Some; congruence).
  assert (E : nth_error (map f l) i = Some (f v)) by (rewrite nth_error_map, Hi; reflexivity).
  rewrite H in E. rewrite nth_error_nth' with (d := 0) in E by (rewrite seq_length; assumption).
  rewrite seq_nth in E by assumption. simpl in E. inversion E; subst. assumption.
Qed.

Lemma index_unique : forall (A : Type) (f : A -> nat) (l : list A) (v w : A),
  map f l = seq 0 (length l) -> In v l -> In w l -> f v = f w -> v = w.
Proof.
  intros A f l v w H Hv Hw E. pose proof (nth_error_of_index A f l v H Hv) as A1.
  pose proof (nth_error_of_index A f l w H Hw) as A2. rewrite E in A1. congruence.
Qed.

Lemma variable_info_entry_i : forall p m v, wf_indices m -> In v (am_variables m) ->
  nth_error (variable_info_table p m) (av_index v) = Some (variable_info p v).
Proof.
  intros p m v [_ W] Hin. unfold variable_info_table. rewrite nth_error_map.
  rewrite (nth_error_of_index _ av_index _ v W Hin). reflexivity.
Qed.

Lemma state_info_entry_i : forall p m v, wf_indices m -> In v (am_states m) ->
  nth_error (state_info_table p m) (av_index v) = Some (state_info p v).
Proof.
  intros p m v [W _] Hin. unfold state_info_table. rewrite nth_error_map.
  rewrite (nth_error_of_index _ av_index _ v W Hin). reflexivity.
Qed.

Lemma info_table_lengths : forall p m,
  length (state_info_table p m) = length (am_states m) /\ length (variable_info_table p m) = length (am_variables m).
Proof. intros. unfold state_info_table, variable_info_table. now rewrite !map_length. Qed.

(* conversely: row i describes a variable whose index is i *)
Lemma variable_info_row : forall p m i r, wf_indices m -> nth_error (variable_info_table p m) i = Some r ->
  exists v, In v (am_variables m) /\ av_index v = i /\ r = variable_info p v.
Proof.
  intros p m i r [_ W] H. unfold variable_info_table in H. rewrite nth_error_map in H.
  destruct (nth_error (am_variables m) i) as [v|] eqn:E; [|discriminate]. inversion H; subst.
  exists v. split; [eapply nth_error_In; eassumption|]. split; [|reflexivity].
  assert (Li : i < length (am_variables m)) by (apply nth_error_Some; congruence).
  assert (E2 : nth_error (map av_index (am_variables m)) i = Some (av_index v)) by (rewrite nth_error_map, E; reflexivity).
  rewrite W in E2. rewrite nth_error_nth' with (d := 0) in E2 by (rewrite seq_length; assumption).
  rewrite seq_nth in E2 by assumption. simpl in E2. now inversion E2.
Qed.

Lemma wf_indices_b_sound : forall m, wf_indices_b m = true <-> wf_indices m.
Proof.
  assert (A : forall a b, nat_list_eqb a b = true <-> a = b).
  { induction a as [|x a IH]; destruct b as [|y b]; simpl; split; intros H; try reflexivity; try discriminate.
    - apply andb_true_iff in H as [H1 H2]. apply Nat.eqb_eq in H1. apply IH in H2. congruence.
    - inversion H; subst. rewrite Nat.eqb_refl. simpl. now apply IH. }
  intros m. unfold wf_indices_b, wf_indices. rewrite andb_true_iff, !A. reflexivity.
Qed.

(* the emitted rows, as text: the loop of addImplementation{State,Variable}InfoCode is a join *)
Lemma info_elements_code_join : forall p rows, is_empty (indent_string p) = false ->
  info_elements_code p rows =
  str_concat (array_element_separator_string p ++ nl) (map (fun i => indent_string p ++ info_entry_code p i) rows).
Proof.
  intros p rows Hind. unfold info_elements_code.
  set (sep := array_element_separator_string p ++ nl).
  set (f := fun i => indent_string p ++ info_entry_code p i).
  assert (G : forall rows acc, is_empty acc = false ->
    fold_left (fun code i => (if is_empty code then code else code ++ array_element_separator_string p ++ nl)
                             ++ indent_string p ++ info_entry_code p i) rows acc
    = acc ++ match rows with [] => "" | _ => sep ++ str_concat sep (map f rows) end).
  { induction rows0 as [|r rs IH]; intros acc Hacc; simpl.
    - now rewrite append_nil_r.
    - rewrite Hacc. rewrite IH.
      + destruct rs as [|r2 rs]; simpl; unfold sep, f; rewrite ?append_nil_r, ?append_assoc; reflexivity.
      + destruct acc; [discriminate | reflexivity]. }
  destruct rows as [|r rs]; [reflexivity|]. simpl fold_left. simpl is_empty. cbv iota.
  rewrite G.
  - destruct rs; simpl; unfold f; rewrite ?append_nil_r; reflexivity.
  - simpl. destruct (indent_string p); [discriminate | reflexivity].
Qed.

(* one row as a reader sees it *)
Definition entry_text (k : pkind) (i : info) : string :=
  match k with
  | PC => "{""" ++ i_name i ++ """, """ ++ i_units i ++ """, """ ++ i_component i ++ """, " ++ i_type i ++ "}"
  | PPy => "{""name"": """ ++ i_name i ++ """, ""units"": """ ++ i_units i ++ """, ""component"": """ ++ i_component i
           ++ """, ""type"": " ++ i_type i ++ "}"
  end.

(* CellML identifiers (names of variables, units, components) contain no '[': the markers of the entry template
   cannot be forged by a name *)
Definition ident_ok (s : string) : bool := no_char "["%char s.

Lemma info_entry_text : forall k i, ident_ok (i_name i) = true -> ident_ok (i_units i) = true -> ident_ok (i_component i) = true ->
  info_entry_code (prof k) i = entry_text k i.
Proof.
  intros k [n u c t] Hn Hu Hc. unfold info_entry_code, entry_text, ident_ok in *. simpl i_name in *. simpl i_units in *.
  simpl i_component in *. simpl i_type in *.
  destruct k; cbn [prof variable_info_entry_string profile_C profile_Py].
  - erewrite replace_first_split by (vm_compute; reflexivity).
    rewrite (replace_first_skip "{""" "["%char) by reflexivity.
    rewrite (replace_first_skip n "["%char) by assumption.
    erewrite replace_first_split by (vm_compute; reflexivity).
    rewrite (replace_first_skip "{""" "["%char) by reflexivity.
    rewrite (replace_first_skip n "["%char) by assumption.
    rewrite (replace_first_skip """, """ "["%char) by reflexivity.
    rewrite (replace_first_skip u "["%char) by assumption.
    erewrite replace_first_split by (vm_compute; reflexivity).
    rewrite (replace_first_skip "{""" "["%char) by reflexivity.
    rewrite (replace_first_skip n "["%char) by assumption.
    rewrite (replace_first_skip """, """ "["%char) by reflexivity.
    rewrite (replace_first_skip u "["%char) by assumption.
    rewrite (replace_first_skip """, """ "["%char) by reflexivity.
    rewrite (replace_first_skip c "["%char) by assumption.
    erewrite replace_first_split by (vm_compute; reflexivity).
    reflexivity.
  - erewrite replace_first_split by (vm_compute; reflexivity).
    rewrite (replace_first_skip "{""name"": """ "["%char) by reflexivity.
    rewrite (replace_first_skip n "["%char) by assumption.
    erewrite replace_first_split by (vm_compute; reflexivity).
    rewrite (replace_first_skip "{""name"": """ "["%char) by reflexivity.
    rewrite (replace_first_skip n "["%char) by assumption.
    rewrite (replace_first_skip """, ""units"": """ "["%char) by reflexivity.
    rewrite (replace_first_skip u "["%char) by assumption.
    erewrite replace_first_split by (vm_compute; reflexivity).
    rewrite (replace_first_skip "{""name"": """ "["%char) by reflexivity.
    rewrite (replace_first_skip n "["%char) by assumption.
    rewrite (replace_first_skip """, ""units"": """ "["%char) by reflexivity.
    rewrite (replace_first_skip u "["%char) by assumption.
    rewrite (replace_first_skip """, ""component"": """ "["%char) by reflexivity.
    rewrite (replace_first_skip c "["%char) by assumption.
    erewrite replace_first_split by (vm_compute; reflexivity).
    reflexivity.
Qed.
