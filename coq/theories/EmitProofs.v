(** EmitProofs.v — lemmas about EmitDefs (C17).  Statements are re-exported by Properties_C17.v. *)
From Coq Require Import String Ascii List Bool Arith Lia DecimalString DecimalNat Decimal DecimalFacts.
From LC Require Import Common NumDefs AstDefs GenDefs EmitDefs.
From LCGen Require Import AstTypes ProfileStrings ProfileMembers.
Import ListNotations.
Local Open Scope string_scope.
Local Open Scope bool_scope.

(** * strings *)

Lemma append_nil_r : forall s : string, s ++ "" = s.
Proof. induction s as [|c s IH]; simpl; [reflexivity | now rewrite IH]. Qed.

Lemma append_assoc : forall a b c : string, (a ++ b) ++ c = a ++ (b ++ c).
Proof. induction a as [|x a IH]; intros; simpl; [reflexivity | now rewrite IH]. Qed.

Lemma length_append : forall a b : string, String.length (a ++ b) = String.length a + String.length b.
Proof. induction a as [|x a IH]; intros; simpl; [reflexivity | now rewrite IH]. Qed.

Lemma prefix_drop_sound : forall pre s r, prefix_drop pre s = Some r -> s = pre ++ r.
Proof.
  induction pre as [|a pre IH]; intros s r H; simpl in *.
  - now inversion H.
  - destruct s as [|b s]; [discriminate|]. destruct (Ascii.eqb a b) eqn:E; [|discriminate].
    apply Ascii.eqb_eq in E. subst. simpl. f_equal. now apply IH.
Qed.

Lemma prefix_drop_app : forall pre r, prefix_drop pre (pre ++ r) = Some r.
Proof. induction pre as [|a pre IH]; intros; simpl; [reflexivity|]. now rewrite Ascii.eqb_refl. Qed.

(* replace = splice at the first occurrence *)
Lemma replace_first_split : forall s from to a b,
  split_first s from = Some (a, b) -> replace_first s from to = a ++ to ++ b.
Proof.
  induction s as [|c s IH]; intros from to a b H; simpl in *.
  - destruct (prefix_drop from "") eqn:E; [|discriminate]. inversion H; subst. reflexivity.
  - destruct (prefix_drop from (String c s)) eqn:E.
    + inversion H; subst. reflexivity.
    + destruct (split_first s from) as [[a' b']|] eqn:E2; [|discriminate].
      inversion H; subst. simpl. f_equal. now apply IH.
Qed.

Lemma replace_first_absent : forall s from to, split_first s from = None -> replace_first s from to = s.
Proof.
  induction s as [|c s IH]; intros from to H; simpl in *.
  - destruct (prefix_drop from ""); [discriminate | reflexivity].
  - destruct (prefix_drop from (String c s)); [discriminate|].
    destruct (split_first s from) as [[a' b']|] eqn:E2; [discriminate|]. f_equal. now apply IH.
Qed.

Lemma split_first_sound : forall s from a b, split_first s from = Some (a, b) -> s = a ++ from ++ b.
Proof.
  induction s as [|c s IH]; intros from a b H; simpl in *.
  - destruct (prefix_drop from "") eqn:E; [|discriminate]. inversion H; subst. now apply prefix_drop_sound in E.
  - destruct (prefix_drop from (String c s)) eqn:E.
    + inversion H; subst. now apply prefix_drop_sound in E.
    + destruct (split_first s from) as [[a' b']|] eqn:E2; [|discriminate].
      inversion H; subst. simpl. f_equal. now apply IH.
Qed.

(* a character that does not occur in a string *)
Fixpoint no_char (c : ascii) (s : string) : bool :=
  match s with EmptyString => true | String d r => negb (Ascii.eqb c d) && no_char c r end.

Lemma no_char_app : forall c a b, no_char c (a ++ b) = no_char c a && no_char c b.
Proof. induction a as [|x a IH]; intros; simpl; [reflexivity|]. rewrite IH. now rewrite andb_assoc. Qed.

(* the searched text starts with a character that the prefix does not contain: the search skips the prefix *)
Lemma split_first_skip : forall a c from s, no_char c a = true ->
  split_first (a ++ s) (String c from) =
  match split_first s (String c from) with Some (x, y) => Some (a ++ x, y) | None => None end.
Proof.
  induction a as [|d a IH]; intros c from s H; simpl in *.
  - destruct (split_first s (String c from)) as [[x y]|]; reflexivity.
  - apply andb_true_iff in H as [H1 H2]. apply negb_true_iff in H1. rewrite H1.
    rewrite (IH c from s H2). destruct (split_first s (String c from)) as [[x y]|]; reflexivity.
Qed.

Lemma replace_first_skip : forall a c from to s, no_char c a = true ->
  replace_first (a ++ s) (String c from) to = a ++ replace_first s (String c from) to.
Proof.
  induction a as [|d a IH]; intros c from to s H; simpl in *; [reflexivity|].
  apply andb_true_iff in H as [H1 H2]. apply negb_true_iff in H1. rewrite H1. f_equal. now apply IH.
Qed.

Lemma prefix_drop_none_app : forall from u s,
  prefix_drop from u = None -> String.length from <= String.length u -> prefix_drop from (u ++ s) = None.
Proof.
  induction from as [|f from IH]; intros u s H L; simpl in *; [discriminate|].
  destruct u as [|e u]; simpl in *; [lia|].
  destruct (Ascii.eqb f e); [|reflexivity]. apply IH; [assumption | lia].
Qed.

(* the occurrence is found inside a known prefix *)
Lemma split_first_in_prefix : forall a from s x y,
  split_first a from = Some (x, y) -> split_first (a ++ s) from = Some (x, y ++ s).
Proof.
  induction a as [|d a IH]; intros from s x y H; simpl in H.
  - destruct (prefix_drop from "") eqn:E; [|discriminate]. inversion H; subst.
    apply prefix_drop_sound in E. destruct from as [|f from]; [|simpl in E; discriminate]. simpl in E. subst. simpl.
    destruct s; reflexivity.
  - destruct (prefix_drop from (String d a)) as [r0|] eqn:E.
    + inversion H; subst. apply prefix_drop_sound in E. rewrite E. rewrite append_assoc.
      destruct from as [|f from].
      * simpl. destruct (y ++ s); reflexivity.
      * simpl. rewrite Ascii.eqb_refl. rewrite prefix_drop_app. reflexivity.
    + destruct (split_first a from) as [[x' y']|] eqn:E2; [|discriminate]. injection H as Hx Hy. subst x y.
      assert (E3 : prefix_drop from (String d a ++ s) = None).
      { apply prefix_drop_none_app; [assumption|]. apply split_first_sound in E2. rewrite E2. simpl.
        rewrite !length_append. lia. }
      simpl in E3. simpl. rewrite E3. rewrite (IH from s x' y' E2). reflexivity.
Qed.

Lemma replace_first_in_prefix : forall a from to s x y,
  split_first a from = Some (x, y) -> replace_first (a ++ s) from to = x ++ to ++ y ++ s.
Proof. intros. apply replace_first_split. now apply split_first_in_prefix. Qed.

Lemma is_empty_true : forall s, is_empty s = true <-> s = "".
Proof. destruct s; simpl; split; intros; try reflexivity; discriminate. Qed.

(* decimal text of a natural number is injective *)
Lemma nat_to_string_inj : forall a b, nat_to_string a = nat_to_string b -> a = b.
Proof.
  intros a b H. unfold nat_to_string in H.
  assert (N : forall n, Nat.to_uint n <> Nil).
  { intro n. pose proof (Unsigned.to_of (Nat.to_uint n)) as T. rewrite Unsigned.of_to in T. rewrite T. apply unorm_nonnil. }
  pose proof (NilZero.usu _ (N a)) as Ua. pose proof (NilZero.usu _ (N b)) as Ub.
  rewrite H in Ua. rewrite Ua in Ub. inversion Ub. now apply Unsigned.to_uint_inj.
Qed.

(** * counts *)

(* what a reader of the generated code sees: "const size_t STATE_COUNT = 3;" / "STATE_COUNT = 3" *)
Definition count_line (k : pkind) (name : string) (n : nat) : string :=
  match k with
  | PC => "const size_t " ++ name ++ " = " ++ nat_to_string n ++ ";" ++ nl
  | PPy => name ++ " = " ++ nat_to_string n ++ nl
  end.
Definition count_decl (k : pkind) (name : string) : string :=
  match k with PC => "extern const size_t " ++ name ++ ";" ++ nl | PPy => "" end.

Ltac splice :=
  repeat (erewrite replace_first_split by (vm_compute; reflexivity)).

Lemma counts_match : forall k m,
  state_and_variable_count_code (prof k) m false =
    (if has_odes m then count_line k "STATE_COUNT" (length (am_states m)) else "")
    ++ count_line k "VARIABLE_COUNT" (length (am_variables m))
  /\ state_and_variable_count_code (prof k) m true =
    (if has_odes m then count_decl k "STATE_COUNT" else "") ++ count_decl k "VARIABLE_COUNT".
Proof.
  intros k m. unfold state_and_variable_count_code, count_line, count_decl.
  destruct k; destruct (has_odes m); cbn [prof andb orb negb is_empty
    interface_state_count_string implementation_state_count_string interface_variable_count_string
    implementation_variable_count_string profile_C profile_Py]; splice; split; reflexivity.
Qed.

Lemma count_line_inj : forall k name n n', count_line k name n = count_line k name n' -> n = n'.
Proof.
  intros k name n n' H. apply nat_to_string_inj.
  assert (A : forall a x y : string, a ++ x = a ++ y -> x = y).
  { induction a; simpl; intros x y E; [assumption|]. inversion E. auto. }
  assert (B : forall (x y z : string), x ++ z = y ++ z -> x = y).
  { intros x y z E.
    assert (L : String.length x = String.length y).
    { apply (f_equal String.length) in E. rewrite !length_append in E. lia. }
    revert y E L. induction x as [|c x IH]; destruct y as [|d y]; simpl; intros E L; try discriminate; [reflexivity|].
    inversion E. f_equal. apply IH; [assumption | lia]. }
  destruct k; unfold count_line in H.
  - apply A in H. apply A in H. apply A in H. eapply B; eassumption.
  - apply A in H. apply A in H. eapply B; eassumption.
Qed.

(** * validity guards *)

Lemma invalid_empty : forall k p ver m,
  (m = None \/ p = None \/ exists m', m = Some m' /\ is_valid m' = false) ->
  interface_code k p ver m = "" /\ implementation_code k p ver m = [].
Proof.
  intros k p ver m [H | [H | [m' [H V]]]]; subst; unfold interface_code, implementation_code.
  - split; reflexivity.
  - destruct m; split; reflexivity.
  - destruct p; rewrite ?V; split; reflexivity.
Qed.

Lemma invalid_types : forall m, is_valid m = false <->
  In (am_type m) [MUnknown; MInvalid; MUnderconstrained; MOverconstrained; MUnsuitablyConstrained].
Proof.
  intros m. unfold is_valid. destruct (am_type m); simpl; split; intros H; try reflexivity; try discriminate; auto 10.
  all: repeat (destruct H as [H | H]; try discriminate); try contradiction.
Qed.

Lemma python_has_no_interface : forall ver m, interface_code PPy (Some profile_Py) ver m = "".
Proof. intros. unfold interface_code. destruct m; [|reflexivity]. rewrite andb_false_r. reflexivity. Qed.

(** * helpers *)

Lemma all_helpers_complete : forall h, In h all_helpers.
Proof. destruct h; simpl; auto 30. Qed.

Lemma function_string_nonempty : forall k h, has_operator (prof k) h = false -> is_empty (function_string (prof k) h) = false.
Proof. destruct k; destruct h; intros H; try reflexivity; vm_compute in H; discriminate. Qed.

Lemma helper_iff : forall k m h, is_valid m = true ->
  (In h (helpers_emitted (prof k) m) <-> get_flag h (am_flags m) = true /\ has_operator (prof k) h = false).
Proof.
  intros k m h V. unfold helpers_emitted. rewrite filter_In. unfold helper_emitted, need. rewrite V. simpl andb.
  split.
  - intros [_ H]. apply andb_true_iff in H as [H H3]. apply andb_true_iff in H as [H1 H2].
    apply negb_true_iff in H2. auto.
  - intros [H1 H2]. split; [apply all_helpers_complete|].
    rewrite H1, H2, (function_string_nonempty k h H2). reflexivity.
Qed.

(* which helpers have a native operator: the C profile has one for everything but xor, min, max and the
   trigonometric helpers; the Python profile has none *)
Lemma profile_lacks_C : forall h, has_operator profile_C h = false <->
  In h [HXor; HMin; HMax; HSec; HCsc; HCot; HSech; HCsch; HCoth; HAsec; HAcsc; HAcot; HAsech; HAcsch; HAcoth].
Proof.
  destruct h; vm_compute; split; intros H; try reflexivity; try discriminate; auto 20;
    repeat (destruct H as [H | H]; try discriminate); contradiction.
Qed.

Lemma profile_lacks_Py : forall h, has_operator profile_Py h = false.
Proof. destruct h; reflexivity. Qed.

(* the helper's definition defines the very name that the generator prints for the operator *)
Lemma helper_defines_called_name : forall k h, has_operator (prof k) h = false ->
  sig_name (def_sig (function_string (prof k) h)) = call_string (prof k) h.
Proof. destruct k; destruct h; intros H; try (vm_compute in H; discriminate); vm_compute; reflexivity. Qed.

(* no helper is emitted for an invalid model or without its flag: nothing is emitted "just in case" *)
Lemma helper_emitted_flag : forall p m h, helper_emitted p m h = true -> is_valid m = true /\ get_flag h (am_flags m) = true.
Proof.
  intros p m h H. unfold helper_emitted, need in H.
  destruct (is_valid m); [|discriminate]. destruct (get_flag h (am_flags m)); [auto | discriminate].
Qed.

Lemma helpers_emitted_eq : forall p m, helpers_emitted p m = filter (helper_emitted p m) all_helpers.
Proof. reflexivity. Qed.

Lemma helper_needs_flag : forall p m h, In h (helpers_emitted p m) -> is_valid m = true /\ get_flag h (am_flags m) = true.
Proof.
  intros p m h H. apply (helper_emitted_flag p). rewrite helpers_emitted_eq in H. apply filter_In in H. exact (proj2 H).
Qed.

(** * info tables *)

Lemma nth_error_of_index : forall (A : Type) (f : A -> nat) (l : list A) (v : A),
  map f l = seq 0 (length l) -> In v l -> nth_error l (f v) = Some v.
Proof.
  intros A f l v H Hin. apply In_nth_error in Hin as [i Hi].
  assert (Li : i < length l) by (apply nth_error_Some; congruence).
  assert (E : nth_error (map f l) i = Some (f v)) by (rewrite nth_error_map, Hi; reflexivity).
  rewrite H in E. rewrite nth_error_nth' with (d := 0) in E by (rewrite seq_length; assumption).
  rewrite seq_nth in E by assumption. simpl in E. inversion E; subst. assumption.
Qed.

Lemma index_unique : forall (A : Type) (f : A -> nat) (l : list A) (v w : A),
  map f l = seq 0 (length l) -> In v l -> In w l -> f v = f w -> v = w.
Proof.
  intros A f l v w H Hv Hw E. pose proof (nth_error_of_index A f l v H Hv) as A1.
  pose proof (nth_error_of_index A f l w H Hw) as A2. rewrite E in A1. congruence.
Qed.

Lemma variable_info_entry_i : forall p m v, wf_indices m -> In v (am_variables m) ->
  nth_error (variable_info_table p m) (av_index v) = Some (variable_info p v).
Proof.
  intros p m v [_ W] Hin. unfold variable_info_table. rewrite nth_error_map.
  rewrite (nth_error_of_index _ av_index _ v W Hin). reflexivity.
Qed.

Lemma state_info_entry_i : forall p m v, wf_indices m -> In v (am_states m) ->
  nth_error (state_info_table p m) (av_index v) = Some (state_info p v).
Proof.
  intros p m v [W _] Hin. unfold state_info_table. rewrite nth_error_map.
  rewrite (nth_error_of_index _ av_index _ v W Hin). reflexivity.
Qed.

Lemma info_table_lengths : forall p m,
  length (state_info_table p m) = length (am_states m) /\ length (variable_info_table p m) = length (am_variables m).
Proof. intros. unfold state_info_table, variable_info_table. now rewrite !map_length. Qed.

(* conversely: row i describes a variable whose index is i *)
Lemma variable_info_row : forall p m i r, wf_indices m -> nth_error (variable_info_table p m) i = Some r ->
  exists v, In v (am_variables m) /\ av_index v = i /\ r = variable_info p v.
Proof.
  intros p m i r [_ W] H. unfold variable_info_table in H. rewrite nth_error_map in H.
  destruct (nth_error (am_variables m) i) as [v|] eqn:E; [|discriminate]. inversion H; subst.
  exists v. split; [eapply nth_error_In; eassumption|]. split; [|reflexivity].
  assert (Li : i < length (am_variables m)) by (apply nth_error_Some; congruence).
  assert (E2 : nth_error (map av_index (am_variables m)) i = Some (av_index v)) by (rewrite nth_error_map, E; reflexivity).
  rewrite W in E2. rewrite nth_error_nth' with (d := 0) in E2 by (rewrite seq_length; assumption).
  rewrite seq_nth in E2 by assumption. simpl in E2. now inversion E2.
Qed.

Lemma wf_indices_b_sound : forall m, wf_indices_b m = true <-> wf_indices m.
Proof.
  assert (A : forall a b, nat_list_eqb a b = true <-> a = b).
  { induction a as [|x a IH]; destruct b as [|y b]; simpl; split; intros H; try reflexivity; try discriminate.
    - apply andb_true_iff in H as [H1 H2]. apply Nat.eqb_eq in H1. apply IH in H2. congruence.
    - inversion H; subst. rewrite Nat.eqb_refl. simpl. now apply IH. }
  intros m. unfold wf_indices_b, wf_indices. rewrite andb_true_iff, !A. reflexivity.
Qed.

(* the emitted rows, as text: the loop of addImplementation{State,Variable}InfoCode is a join *)
Lemma info_elements_code_join : forall p rows, is_empty (indent_string p) = false ->
  info_elements_code p rows =
  str_concat (array_element_separator_string p ++ nl) (map (fun i => indent_string p ++ info_entry_code p i) rows).
Proof.
  intros p rows Hind. unfold info_elements_code.
  set (sep := array_element_separator_string p ++ nl).
  set (f := fun i => indent_string p ++ info_entry_code p i).
  assert (G : forall rows acc, is_empty acc = false ->
    fold_left (fun code i => (if is_empty code then code else code ++ array_element_separator_string p ++ nl)
                             ++ indent_string p ++ info_entry_code p i) rows acc
    = acc ++ match rows with [] => "" | _ => sep ++ str_concat sep (map f rows) end).
  { induction rows0 as [|r rs IH]; intros acc Hacc; simpl.
    - now rewrite append_nil_r.
    - rewrite Hacc. rewrite IH.
      + destruct rs as [|r2 rs]; simpl; unfold sep, f; rewrite ?append_nil_r, ?append_assoc; reflexivity.
      + destruct acc; [discriminate | reflexivity]. }
  destruct rows as [|r rs]; [reflexivity|]. simpl fold_left. simpl is_empty. cbv iota.
  rewrite G.
  - destruct rs; simpl; unfold f; rewrite ?append_nil_r; reflexivity.
  - simpl. destruct (indent_string p); [discriminate | reflexivity].
Qed.

(* one row as a reader sees it *)
Definition entry_text (k : pkind) (i : info) : string :=
  match k with
  | PC => "{""" ++ i_name i ++ """, """ ++ i_units i ++ """, """ ++ i_component i ++ """, " ++ i_type i ++ "}"
  | PPy => "{""name"": """ ++ i_name i ++ """, ""units"": """ ++ i_units i ++ """, ""component"": """ ++ i_component i
           ++ """, ""type"": " ++ i_type i ++ "}"
  end.

(* CellML identifiers (names of variables, units, components) contain no '[': the markers of the entry template
   cannot be forged by a name *)
Definition ident_ok (s : string) : bool := no_char "["%char s.

(* splice the occurrence of the marker [from] in the (closed) template it is searched in *)
Ltac splice_at from :=
  match goal with
  | |- context [replace_first ?s from ?to] =>
      let r := eval vm_compute in (split_first s from) in
      match r with
      | Some (?a, ?b) => rewrite (replace_first_split s from to a b) by (vm_compute; reflexivity)
      end
  end.
Ltac skip_lit a := rewrite (replace_first_skip a "["%char) by reflexivity.
Ltac skip_var a := rewrite (replace_first_skip a "["%char) by assumption.

Lemma info_entry_text : forall k i, ident_ok (i_name i) = true -> ident_ok (i_units i) = true -> ident_ok (i_component i) = true ->
  info_entry_code (prof k) i = entry_text k i.
Proof.
  intros k [n u c t] Hn Hu Hc. unfold info_entry_code, entry_text, ident_ok in *. simpl i_name in *. simpl i_units in *.
  simpl i_component in *. simpl i_type in *.
  destruct k; cbn [prof variable_info_entry_string profile_C profile_Py].
  - splice_at "[NAME]".
    skip_lit "{""". skip_var n. splice_at "[UNITS]".
    skip_lit "{""". skip_var n. skip_lit """, """. skip_var u. splice_at "[COMPONENT]".
    skip_lit "{""". skip_var n. skip_lit """, """. skip_var u. skip_lit """, """. skip_var c. splice_at "[TYPE]".
    reflexivity.
  - splice_at "[NAME]".
    skip_lit "{""name"": """. skip_var n. splice_at "[UNITS]".
    skip_lit "{""name"": """. skip_var n. skip_lit """, ""units"": """. skip_var u. splice_at "[COMPONENT]".
    skip_lit "{""name"": """. skip_var n. skip_lit """, ""units"": """. skip_var u. skip_lit """, ""component"": """. skip_var c.
    splice_at "[TYPE]".
    reflexivity.
Qed.

(** * buffer sizes *)

(* the variables whose strings go into VariableInfo records *)
Definition info_vars (m : amodel) : list avar :=
  ((if has_odes m then (match am_voi m with Some v => [v] | None => [] end) ++ am_states m else []) ++ am_variables m)%list.

Definition sizes_le (a b : sizes) : Prop :=
  sz_component a <= sz_component b /\ sz_name a <= sz_name b /\ sz_units a <= sz_units b.

Definition fits (v : avar) (s : sizes) : Prop :=
  String.length (av_comp v) < sz_component s /\ String.length (av_name v) < sz_name s /\ String.length (av_units v) < sz_units s.

Lemma update_sizes_spec : forall s v,
  sz_component (update_sizes s v) = Nat.max (sz_component s) (String.length (av_comp v) + 1)
  /\ sz_name (update_sizes s v) = Nat.max (sz_name s) (String.length (av_name v) + 1)
  /\ sz_units (update_sizes s v) = Nat.max (sz_units s) (String.length (av_units v) + 1).
Proof.
  intros s v. unfold update_sizes. cbn [sz_component sz_name sz_units].
  repeat split; match goal with |- context [Nat.ltb ?a ?b] => destruct (Nat.ltb_spec a b); lia end.
Qed.

Lemma fold_sizes_mono : forall l s, sizes_le s (fold_left update_sizes l s).
Proof.
  induction l as [|v l IH]; intros s; simpl; [unfold sizes_le; lia|].
  specialize (IH (update_sizes s v)). destruct (update_sizes_spec s v) as (A & B & C).
  unfold sizes_le in *. lia.
Qed.

Lemma fold_sizes_fits : forall l s v, In v l -> fits v (fold_left update_sizes l s).
Proof.
  induction l as [|w l IH]; intros s v H; simpl in *; [contradiction|]. destruct H as [<- | H].
  - pose proof (fold_sizes_mono l (update_sizes s w)) as M. destruct (update_sizes_spec s w) as (A & B & C).
    unfold fits, sizes_le in *. lia.
  - now apply IH.
Qed.

Lemma info_sizes_fold : forall m, info_sizes m = fold_left update_sizes (info_vars m) (mkSizes 0 0 0).
Proof.
  intros m. unfold info_sizes, info_vars. destruct (has_odes m); [|reflexivity].
  rewrite fold_left_app. destruct (am_voi m); simpl; rewrite ?fold_left_app; reflexivity.
Qed.

Lemma buffers_fit : forall m v, In v (info_vars m) -> fits v (info_sizes m).
Proof. intros m v H. rewrite info_sizes_fold. now apply fold_sizes_fits. Qed.

(* the sizes are tight: each is 1 + the longest string of its kind (0 when there is no record at all) *)
Lemma fold_sizes_max : forall (f : avar -> string) (g : sizes -> nat),
  (forall s v, g (update_sizes s v) = Nat.max (g s) (String.length (f v) + 1)) ->
  forall l s, g (fold_left update_sizes l s) = fold_left (fun a v => Nat.max a (String.length (f v) + 1)) l (g s).
Proof. intros f g H. induction l as [|v l IH]; intros s; simpl; [reflexivity|]. now rewrite IH, H. Qed.

Lemma fold_max_attained : forall (h : avar -> nat) l a,
  let r := fold_left (fun a v => Nat.max a (h v)) l a in r = a \/ exists v, In v l /\ r = h v.
Proof.
  induction l as [|w l IH]; intros a; simpl; [now left|].
  destruct (IH (Nat.max a (h w))) as [E | [v [Hin E]]].
  - destruct (Nat.max_spec a (h w)) as [[_ M] | [_ M]]; rewrite M in E.
    + right. exists w. rewrite M. auto.
    + left. rewrite M. assumption.
  - right. exists v. auto.
Qed.

Lemma sizes_tight : forall m, info_vars m <> [] ->
  (exists v, In v (info_vars m) /\ sz_component (info_sizes m) = String.length (av_comp v) + 1)
  /\ (exists v, In v (info_vars m) /\ sz_name (info_sizes m) = String.length (av_name v) + 1)
  /\ (exists v, In v (info_vars m) /\ sz_units (info_sizes m) = String.length (av_units v) + 1).
Proof.
  intros m NE. rewrite info_sizes_fold.
  assert (G : forall (f : avar -> string) (g : sizes -> nat),
            (forall s v, g (update_sizes s v) = Nat.max (g s) (String.length (f v) + 1)) -> g (mkSizes 0 0 0) = 0 ->
            exists v, In v (info_vars m) /\ g (fold_left update_sizes (info_vars m) (mkSizes 0 0 0)) = String.length (f v) + 1).
  { intros f g H Z. rewrite (fold_sizes_max f g H). rewrite Z.
    destruct (fold_max_attained (fun v => String.length (f v) + 1) (info_vars m) 0) as [E | [v [Hin E]]].
    - destruct (info_vars m) as [|w l] eqn:EV; [contradiction|]. exfalso.
      simpl in E.
      assert (M : forall l a, a <= fold_left (fun a v => Nat.max a (String.length (f v) + 1)) l a).
      { induction l0 as [|x l0 IHl]; intros a; simpl; [lia|]. specialize (IHl (Nat.max a (String.length (f x) + 1))). lia. }
      specialize (M l (String.length (f w) + 1)). lia.
    - exists v. auto. }
  repeat split.
  - apply (G av_comp sz_component); [intros; apply update_sizes_spec | reflexivity].
  - apply (G av_name sz_name); [intros; apply update_sizes_spec | reflexivity].
  - apply (G av_units sz_units); [intros; apply update_sizes_spec | reflexivity].
Qed.

Lemma sizes_empty : forall m, info_vars m = [] -> info_sizes m = mkSizes 0 0 0.
Proof. intros m H. rewrite info_sizes_fold, H. reflexivity. Qed.


(** decimal numbers are non-empty digit strings, so a marker is not forged by a number either *)
Lemma uint_digits : forall d, all_digits (NilEmpty.string_of_uint d) = true.
Proof. induction d; simpl; try reflexivity; assumption. Qed.

Lemma nat_to_string_digits : forall n, all_digits (nat_to_string n) = true.
Proof.
  intros n. unfold nat_to_string, NilZero.string_of_uint. destruct (Nat.to_uint n) eqn:E; try reflexivity;
    apply (uint_digits _).
Qed.

Lemma nat_to_string_head : forall n, exists c r, nat_to_string n = String c r /\ is_digit c = true.
Proof.
  intros n. unfold nat_to_string, NilZero.string_of_uint in *.
  destruct (Nat.to_uint n); simpl in *; eexists; eexists; (split; [reflexivity|]); try reflexivity.
Qed.

Lemma digits_no_char : forall c s, all_digits s = true -> is_digit c = false -> no_char c s = true.
Proof.
  induction s as [|d s IH]; simpl; intros H Hc; [reflexivity|]. apply andb_true_iff in H as [H1 H2].
  rewrite IH by assumption. destruct (Ascii.eqb c d) eqn:E; [|reflexivity].
  apply Ascii.eqb_eq in E. subst. congruence.
Qed.

(* a concrete prefix [a] followed by a text that starts with a digit: every attempt to match [from] that starts
   inside [a] fails inside [a], or reaches the end of [a] where [from] wants a non-digit *)
Fixpoint attempt_fails (from u : string) : bool :=
  match from with
  | EmptyString => false
  | String f from' =>
      match u with
      | EmptyString => negb (is_digit f)
      | String e u' => if Ascii.eqb f e then attempt_fails from' u' else true
      end
  end.
Fixpoint skip_ok (from a : string) : bool :=
  match a with
  | EmptyString => true
  | String _ a' => attempt_fails from a && skip_ok from a'
  end.

Lemma attempt_fails_sound : forall from u d t, attempt_fails from u = true -> is_digit d = true ->
  prefix_drop from (u ++ String d t) = None.
Proof.
  induction from as [|f from IH]; intros u d t H Hd; simpl in *; [discriminate|].
  destruct u as [|e u]; simpl.
  - destruct (Ascii.eqb f d) eqn:E; [|reflexivity]. apply Ascii.eqb_eq in E. subst.
    rewrite Hd in H. discriminate.
  - destruct (Ascii.eqb f e); [|reflexivity]. now apply IH.
Qed.

Lemma replace_first_cons_none : forall c s from to,
  prefix_drop from (String c s) = None -> replace_first (String c s) from to = String c (replace_first s from to).
Proof. intros c s from to H. simpl replace_first at 1. simpl in H. rewrite H. reflexivity. Qed.

Lemma replace_first_skip_num : forall a from to d t, skip_ok from a = true -> is_digit d = true ->
  replace_first (a ++ String d t) from to = a ++ replace_first (String d t) from to.
Proof.
  induction a as [|c a IH]; intros from to d t H Hd; [reflexivity|].
  simpl in H. apply andb_true_iff in H as [H1 H2].
  pose proof (attempt_fails_sound from (String c a) d t H1 Hd) as E.
  change ((String c a ++ String d t)) with (String c (a ++ String d t)) in *.
  rewrite (replace_first_cons_none _ _ _ _ E). change (String c a ++ replace_first (String d t) from to)
    with (String c (a ++ replace_first (String d t) from to)). f_equal. now apply IH.
Qed.

(* the struct as a reader of the C interface sees it *)
Lemma variable_info_object_text : forall m,
  variable_info_object_code m (variable_info_object_string profile_C) =
  "typedef struct {" ++ nl ++ "    char name[" ++ nat_to_string (sz_name (info_sizes m)) ++ "];" ++ nl
  ++ "    char units[" ++ nat_to_string (sz_units (info_sizes m)) ++ "];" ++ nl
  ++ "    char component[" ++ nat_to_string (sz_component (info_sizes m)) ++ "];" ++ nl
  ++ "    VariableType type;" ++ nl ++ "} VariableInfo;" ++ nl.
Proof.
  intros m. unfold variable_info_object_code. cbn [variable_info_object_string profile_C].
  set (N := nat_to_string (sz_name (info_sizes m))).
  set (U := nat_to_string (sz_units (info_sizes m))).
  set (C := nat_to_string (sz_component (info_sizes m))).
  splice_at "[COMPONENT_SIZE]".
  match goal with |- context [replace_first (?a ++ ?s) "[NAME_SIZE]" ?to] =>
    let r := eval vm_compute in (split_first a "[NAME_SIZE]") in
    match r with Some (?x, ?y) => rewrite (replace_first_in_prefix a "[NAME_SIZE]" to s x y) by (vm_compute; reflexivity) end end.
  destruct (nat_to_string_head (sz_name (info_sizes m))) as [d [t [EN Hd]]]. fold N in EN.
  assert (DN : all_digits N = true) by apply nat_to_string_digits.
  match goal with |- replace_first (?a ++ N ++ ?rest) _ _ = _ =>
    rewrite EN; change (String d t ++ rest) with (String d (t ++ rest));
    rewrite (replace_first_skip_num a) by (try assumption; vm_compute; reflexivity);
    change (String d (t ++ rest)) with (String d t ++ rest); rewrite <- EN
  end.
  rewrite (replace_first_skip N "["%char) by (apply digits_no_char; [assumption | reflexivity]).
  splice_at "[UNITS_SIZE]".
  reflexivity.
Qed.

(** * need-flags and the AST *)

Inductive occurs (t : ty) : ast -> Prop :=
| occ_here : forall v l r, occurs t (Node t v l r)
| occ_left : forall u v l r, occurs t l -> occurs t (Node u v l r)
| occ_right : forall u v l r, occurs t r -> occurs t (Node u v l r).

Fixpoint occurs_b (t : ty) (a : ast) : bool :=
  match a with
  | Null => false
  | Node u _ l r => ty_beq u t || occurs_b t l || occurs_b t r
  end.

Lemma ty_beq_eq : forall a b, ty_beq a b = true <-> a = b.
Proof. intros a b. split; [apply internal_ty_dec_bl | apply internal_ty_dec_lb]. Qed.

Lemma occurs_b_iff : forall t a, occurs_b t a = true <-> occurs t a.
Proof.
  intros t a. split.
  - induction a as [|u v l IHl r IHr]; simpl; intros H; [discriminate|].
    apply orb_true_iff in H as [H | H]; [apply orb_true_iff in H as [H | H]|].
    + apply ty_beq_eq in H. subst. constructor.
    + apply occ_left. auto.
    + apply occ_right. auto.
  - induction 1; simpl.
    + assert (E : ty_beq t t = true) by now apply ty_beq_eq. now rewrite E.
    + rewrite IHoccurs. now rewrite orb_true_r.
    + rewrite IHoccurs. now rewrite !orb_true_r.
Qed.

Lemma helper_beq_eq : forall a b, helper_beq a b = true <-> a = b.
Proof. intros a b. split; [apply internal_helper_dec_bl | apply internal_helper_dec_lb]. Qed.

Lemma get_flag_in : forall h fl, get_flag h fl = true <-> In h fl.
Proof.
  intros h fl. unfold get_flag. rewrite existsb_exists. split.
  - intros [x [Hin E]]. apply helper_beq_eq in E. now subst.
  - intros H. exists h. split; [assumption | now apply helper_beq_eq].
Qed.

Lemma get_set_flag : forall h g fl, get_flag h (set_flag g fl) = get_flag h fl || helper_beq h g.
Proof.
  intros h g fl. unfold set_flag. destruct (get_flag g fl) eqn:E.
  - destruct (helper_beq h g) eqn:E2; [|now rewrite orb_false_r].
    apply helper_beq_eq in E2. subst. now rewrite E.
  - cbn [get_flag existsb]. fold (get_flag h fl). apply orb_comm.
Qed.

(* analyseNode sets the flag of helper h exactly at the nodes of type ty_of_helper h *)
Lemma helper_of_ty_spec : forall t h, helper_of_ty t = Some h <-> t = ty_of_helper h.
Proof. intros t h. split; [destruct t; simpl; intros H; try discriminate; inversion H; reflexivity | intros ->; destruct h; reflexivity]. Qed.

Lemma get_set_ty_flag : forall h t fl, get_flag h (set_ty_flag t fl) = get_flag h fl || ty_beq t (ty_of_helper h).
Proof.
  intros h t fl. unfold set_ty_flag. destruct (helper_of_ty t) as [g|] eqn:E.
  - rewrite get_set_flag. f_equal. apply helper_of_ty_spec in E. subst t.
    destruct (helper_beq h g) eqn:E2.
    + apply helper_beq_eq in E2. subst. symmetry. now apply ty_beq_eq.
    + symmetry. destruct (ty_beq (ty_of_helper g) (ty_of_helper h)) eqn:E3; [|reflexivity].
      apply ty_beq_eq in E3. assert (g = h) by (destruct g; destruct h; simpl in E3; try discriminate; reflexivity).
      subst. assert (helper_beq h h = true) by now apply helper_beq_eq. congruence.
  - destruct (ty_beq t (ty_of_helper h)) eqn:E3; [|now rewrite orb_false_r].
    apply ty_beq_eq in E3. subst. rewrite (proj2 (helper_of_ty_spec _ h) eq_refl) in E. discriminate.
Qed.

Lemma need_flags_acc_spec : forall a h fl,
  get_flag h (need_flags_acc a fl) = get_flag h fl || occurs_b (ty_of_helper h) a.
Proof.
  induction a as [|t v l IHl r IHr]; intros h fl; simpl.
  - now rewrite orb_false_r.
  - rewrite IHr, IHl, get_set_ty_flag. now rewrite !orb_assoc.
Qed.

Lemma flag_iff_occurs : forall h a, get_flag h (need_flags a) = true <-> occurs (ty_of_helper h) a.
Proof. intros h a. unfold need_flags. rewrite need_flags_acc_spec. simpl. apply occurs_b_iff. Qed.

Lemma need_flags_list_spec : forall l h,
  get_flag h (need_flags_list l) = true <-> exists a, In a l /\ occurs (ty_of_helper h) a.
Proof.
  intros l h. unfold need_flags_list.
  assert (G : forall l fl, get_flag h (fold_left (fun fl a => need_flags_acc a fl) l fl)
                           = get_flag h fl || existsb (occurs_b (ty_of_helper h)) l).
  { induction l0 as [|a l0 IH]; intros fl; simpl; [now rewrite orb_false_r|].
    rewrite IH, need_flags_acc_spec. now rewrite orb_assoc. }
  rewrite G. simpl. rewrite existsb_exists. split; intros [a [Hin H]]; exists a; (split; [assumption|]); now apply occurs_b_iff.
Qed.

(* a helper type that no node carries leaves its flag unset: nothing is flagged "just in case"; in particular the
   qualifiers and the piecewise skeleton (DEGREE, LOGBASE, BVAR, PIECEWISE, PIECE, OTHERWISE) flag nothing themselves
   and are transparent: an operator below them is found (occ_left / occ_right) *)
Lemma qualifier_transparent : forall h q v a, In q [DEGREE; LOGBASE; BVAR; PIECE; OTHERWISE; PIECEWISE] ->
  get_flag h (need_flags (Node q v a Null)) = get_flag h (need_flags a).
Proof.
  intros h q v a Hq. unfold need_flags. rewrite !need_flags_acc_spec. simpl.
  assert (E : ty_beq q (ty_of_helper h) = false).
  { destruct (ty_beq q (ty_of_helper h)) eqn:E; [|reflexivity]. apply ty_beq_eq in E. subst.
    simpl in Hq. destruct h; simpl in Hq; repeat (destruct Hq as [Hq | Hq]; try discriminate); contradiction. }
  rewrite E. now rewrite orb_false_r.
Qed.

(** * need-flags and the MathML: analyseNode *)

Section MmlInd.
  Variable P : mml -> Prop.
  Hypothesis HEl : forall name kids, Forall P kids -> P (El name kids).
  Hypothesis HCi : forall v, P (MCi v).
  Hypothesis HCn : forall v, P (MCn v).
  Hypothesis HCnE : forall a b, P (MCnE a b).
  Fixpoint mml_ind' (n : mml) : P n :=
    match n with
    | El name kids =>
        HEl name kids ((fix go (l : list mml) : Forall P l :=
                          match l with
                          | [] => Forall_nil P
                          | x :: r => Forall_cons x (mml_ind' x) (go r)
                          end) kids)
    | MCi v => HCi v
    | MCn v => HCn v
    | MCnE a b => HCnE a b
    end.
End MmlInd.

(* the flags an analysis step adds are exactly the helper types of the AST it returns *)
Definition flags_ok (an : flags -> ast * flags) : Prop :=
  forall fl h, get_flag h (snd (an fl)) = get_flag h fl || occurs_b (ty_of_helper h) (fst (an fl)).
Definition leaf_res (an : flags -> ast * flags) : Prop :=
  forall fl, exists t v, fst (an fl) = Node t v Null Null.

Lemma analyse_no_kids_leaf : forall op pm gp, no_kids op = true -> leaf_res (analyse pm gp op).
Proof.
  intros op pm gp H fl. destruct op as [name kids| v | v | a b]; try (simpl; eexists; eexists; reflexivity).
  destruct kids as [|k kids]; [|discriminate]. cbn [analyse].
  repeat match goal with |- context [if ?c then _ else _] => destruct c end; simpl; eexists; eexists; reflexivity.
Qed.

Ltac use_ok H fl h E := let T := fresh "T" in pose proof (H fl h) as T; rewrite E in T; cbn [fst snd] in T.

Lemma apply_chain_ok : forall an anop, flags_ok anop -> leaf_res anop ->
  forall rs, Forall (fun y => flags_ok (an y)) rs -> flags_ok (apply_chain an anop rs).
Proof.
  intros an anop Hop Hleaf. induction rs as [|y ys IH]; intros HF fl h.
  - simpl. now rewrite orb_false_r.
  - inversion HF as [|y' ys' Hy Hys]; subst. destruct ys as [|z zs].
    + simpl. apply Hy.
    + change (apply_chain an anop (y :: z :: zs) fl)
        with (let '(h', fla) := anop fl in let '(ly, flb) := an y fla in
              let '(ry, flc) := apply_chain an anop (z :: zs) flb in (Node (ast_ty h') (ast_val h') ly ry, flc)).
      destruct (anop fl) as [h' fla] eqn:E1. destruct (an y fla) as [ly flb] eqn:E2.
      destruct (apply_chain an anop (z :: zs) flb) as [ry flc] eqn:E3.
      use_ok Hop fl h E1. use_ok Hy fla h E2. pose proof (IH Hys flb h) as T1. rewrite E3 in T1. cbn [fst snd] in T1.
      destruct (Hleaf fl) as [t [v Et]]. rewrite E1 in Et. cbn [fst] in Et. subst h'.
      cbn [fst snd ast_ty ast_val occurs_b] in *. rewrite T1, T0, T. now rewrite ?orb_false_r, !orb_assoc.
Qed.

Lemma piecewise_chain_ok : forall an rs, Forall (fun y => flags_ok (an y)) rs -> flags_ok (piecewise_chain an rs).
Proof.
  intros an. induction rs as [|y ys IH]; intros HF fl h.
  - simpl. now rewrite orb_false_r.
  - inversion HF as [|y' ys' Hy Hys]; subst. destruct ys as [|z zs].
    + simpl. apply Hy.
    + change (piecewise_chain an (y :: z :: zs) fl)
        with (let '(ly, fla) := an y fl in let '(ry, flb) := piecewise_chain an (z :: zs) fla in (Node PIECEWISE "" ly ry, flb)).
      destruct (an y fl) as [ly fla] eqn:E2. destruct (piecewise_chain an (z :: zs) fla) as [ry flb] eqn:E3.
      use_ok Hy fl h E2. pose proof (IH Hys fla h) as T1. rewrite E3 in T1. cbn [fst snd] in T1.
      cbn [fst snd occurs_b]. rewrite T1, T.
      assert (E : ty_beq PIECEWISE (ty_of_helper h) = false) by (destruct h; reflexivity).
      rewrite E. now rewrite ?orb_false_l, !orb_assoc.
Qed.

Lemma not_helper_ty : forall t h, helper_of_ty t = None -> ty_beq t (ty_of_helper h) = false.
Proof.
  intros t h H. destruct (ty_beq t (ty_of_helper h)) eqn:E; [|reflexivity]. apply ty_beq_eq in E. subst.
  rewrite (proj2 (helper_of_ty_spec _ h) eq_refl) in H. discriminate.
Qed.

(* the first child of every apply is an element without children *)
Fixpoint heads_leaf (n : mml) : bool :=
  match n with
  | El name kids =>
      (if name =? "apply" then match kids with op :: _ => no_kids op | [] => true end else true)
      && forallb heads_leaf kids
  | _ => true
  end.

Lemma analyse_flags_ok : forall n, heads_leaf n = true -> forall pm gp, flags_ok (analyse pm gp n).
Proof.
  induction n as [name kids IHk| v | v | a b] using mml_ind'; intros W pm gp fl h;
    try (simpl; now rewrite ?orb_false_r; destruct h).
  2,3,4: cbn [analyse fst snd occurs_b]; assert (E : forall t, In t [CI; CN] -> ty_beq t (ty_of_helper h) = false)
      by (intros t [<-|[<-|[]]]; destruct h; reflexivity);
    rewrite ?(E CI), ?(E CN) by (simpl; auto); now rewrite !orb_false_r.
  cbn [heads_leaf] in W. apply andb_true_iff in W as [Whead Wk]. rewrite forallb_forall in Wk.
  assert (K : forall y, In y kids -> forall pm gp, flags_ok (analyse pm gp y)).
  { intros y Hy. rewrite Forall_forall in IHk. apply IHk; auto. }
  assert (KF : forall l pm' gp', incl l kids -> Forall (fun y => flags_ok (analyse pm' gp' y)) l).
  { intros l pm' gp' Hl. apply Forall_forall. intros y Hy. apply K. now apply Hl. }
  cbn [analyse].
  destruct (name =? "apply") eqn:Eap.
  { destruct kids as [|op args]; [cbn [fst snd occurs_b]; destruct h; now rewrite orb_false_r|].
    destruct (analyse false pm op fl) as [hd fl1] eqn:E1.
    pose proof (analyse_no_kids_leaf op false pm Whead) as Hleaf.
    destruct (Hleaf fl) as [t [v Et]]. rewrite E1 in Et. cbn [fst] in Et. subst hd.
    use_ok (K op (or_introl eq_refl) false pm) fl h E1. cbn [occurs_b] in T.
    destruct args as [|x rest].
    - cbn [fst snd ast_ty ast_val occurs_b]. exact T.
    - destruct (analyse false pm x fl1) as [l fl2] eqn:E2.
      destruct (apply_chain (analyse false pm) (analyse false pm op) rest fl2) as [r fl3] eqn:E3.
      use_ok (K x (or_intror (or_introl eq_refl)) false pm) fl1 h E2.
      pose proof (apply_chain_ok (analyse false pm) (analyse false pm op) (K op (or_introl eq_refl) false pm) Hleaf rest
                    (KF rest false pm (fun y Hy => or_intror (or_intror Hy))) fl2 h) as T1.
      rewrite E3 in T1. cbn [fst snd] in T1.
      cbn [fst snd ast_ty ast_val occurs_b]. rewrite T1, T0, T. now rewrite ?orb_false_r, !orb_assoc. }
  destruct (name =? "eq") eqn:Eeq.
  { destruct gp; cbn [fst snd occurs_b].
    - destruct h; now rewrite !orb_false_r.
    - rewrite get_set_flag. assert (E : ty_beq EQ (ty_of_helper h) = helper_beq h HEq) by (destruct h; reflexivity).
      rewrite E. now rewrite !orb_false_r. }
  destruct (name =? "piecewise") eqn:Epw.
  { destruct kids as [|k0 rest]; [cbn [fst snd occurs_b]; destruct h; now rewrite orb_false_r|].
    destruct (analyse false pm k0 fl) as [l fl1] eqn:E1.
    destruct (piecewise_chain (analyse false pm) rest fl1) as [r fl2] eqn:E3.
    use_ok (K k0 (or_introl eq_refl) false pm) fl h E1.
    pose proof (piecewise_chain_ok (analyse false pm) rest (KF rest false pm (fun y Hy => or_intror Hy)) fl1 h) as T1.
    rewrite E3 in T1. cbn [fst snd] in T1. cbn [fst snd occurs_b]. rewrite T1, T.
    assert (E : ty_beq PIECEWISE (ty_of_helper h) = false) by (destruct h; reflexivity). rewrite E.
    now rewrite ?orb_false_l, !orb_assoc. }
  destruct (name =? "piece") eqn:Epc.
  { assert (E : ty_beq PIECE (ty_of_helper h) = false) by (destruct h; reflexivity).
    destruct kids as [|k0 [|k1 rest]].
    - cbn [fst snd occurs_b]. rewrite E. now rewrite !orb_false_r.
    - destruct (analyse false pm k0 fl) as [l fl1] eqn:E1. use_ok (K k0 (or_introl eq_refl) false pm) fl h E1.
      cbn [fst snd occurs_b]. rewrite E, T. now rewrite ?orb_false_l, ?orb_false_r.
    - destruct (analyse false pm k0 fl) as [l fl1] eqn:E1. destruct (analyse false pm k1 fl1) as [r fl2] eqn:E2.
      use_ok (K k0 (or_introl eq_refl) false pm) fl h E1. use_ok (K k1 (or_intror (or_introl eq_refl)) false pm) fl1 h E2.
      cbn [fst snd occurs_b]. rewrite E, T0, T. now rewrite ?orb_false_l, !orb_assoc. }
  destruct ((name =? "otherwise") || (name =? "degree") || (name =? "logbase")) eqn:Eq.
  { set (t := if name =? "otherwise" then OTHERWISE else if name =? "degree" then DEGREE else LOGBASE).
    assert (E : ty_beq t (ty_of_helper h) = false)
      by (unfold t; destruct (name =? "otherwise"); [|destruct (name =? "degree")]; destruct h; reflexivity).
    destruct kids as [|k0 rest].
    - cbn [fst snd occurs_b]. rewrite E. now rewrite !orb_false_r.
    - destruct (analyse false pm k0 fl) as [l fl1] eqn:E1. use_ok (K k0 (or_introl eq_refl) false pm) fl h E1.
      cbn [fst snd occurs_b]. rewrite E, T. now rewrite ?orb_false_l, ?orb_false_r. }
  destruct (name =? "bvar") eqn:Ebv.
  { assert (E : ty_beq BVAR (ty_of_helper h) = false) by (destruct h; reflexivity).
    destruct kids as [|k0 [|k1 rest]].
    - cbn [fst snd occurs_b]. rewrite E. now rewrite !orb_false_r.
    - destruct (analyse false pm k0 fl) as [l fl1] eqn:E1. use_ok (K k0 (or_introl eq_refl) false pm) fl h E1.
      cbn [fst snd occurs_b]. rewrite E, T. now rewrite ?orb_false_l, ?orb_false_r.
    - destruct (analyse false pm k0 fl) as [l fl1] eqn:E1. destruct (analyse false pm k1 fl1) as [r fl2] eqn:E2.
      use_ok (K k0 (or_introl eq_refl) false pm) fl h E1. use_ok (K k1 (or_intror (or_introl eq_refl)) false pm) fl1 h E2.
      cbn [fst snd occurs_b]. rewrite E, T0, T. now rewrite ?orb_false_l, !orb_assoc. }
  cbn [fst snd occurs_b]. rewrite get_set_ty_flag. now rewrite !orb_false_r.
Qed.

(** the flags after analysing a well-formed MathML tree = the flags before + the helper elements that occur in it,
    at any depth and in any position (operand, qualifier, piece value, piece condition, otherwise) *)
Lemma ty_beq_opt_helper : forall t h, ty_beq t (ty_of_helper h) = opt_helper_is (helper_of_ty t) h.
Proof.
  intros t h. unfold opt_helper_is. destruct (helper_of_ty t) as [g|] eqn:E.
  - apply helper_of_ty_spec in E. subst t. destruct (helper_beq g h) eqn:E2.
    + apply helper_beq_eq in E2. subst. now apply ty_beq_eq.
    + destruct (ty_beq (ty_of_helper g) (ty_of_helper h)) eqn:E3; [|reflexivity].
      apply ty_beq_eq in E3. assert (g = h) by (destruct g; destruct h; simpl in E3; try discriminate; reflexivity).
      subst. assert (helper_beq h h = true) by now apply helper_beq_eq. congruence.
  - now apply not_helper_ty.
Qed.

Definition flags_use (an : flags -> ast * flags) (u : helper -> bool) : Prop :=
  forall fl h, get_flag h (snd (an fl)) = get_flag h fl || u h.

Lemma apply_chain_uses : forall an anop uop (uy : mml -> helper -> bool), flags_use anop uop ->
  forall rs, (forall y, In y rs -> flags_use (an y) (uy y)) ->
  flags_use (apply_chain an anop rs)
            (fun h => existsb (fun y => uy y h) rs || match rs with _ :: _ :: _ => uop h | _ => false end).
Proof.
  intros an anop uop uy Hop. induction rs as [|y ys IH]; intros HF fl h.
  - simpl. now rewrite orb_false_r.
  - destruct ys as [|z zs].
    + cbn [apply_chain existsb]. rewrite (HF y (or_introl eq_refl) fl h). now rewrite !orb_false_r.
    + change (apply_chain an anop (y :: z :: zs) fl)
        with (let '(h', fla) := anop fl in let '(ly, flb) := an y fla in
              let '(ry, flc) := apply_chain an anop (z :: zs) flb in (Node (ast_ty h') (ast_val h') ly ry, flc)).
      destruct (anop fl) as [h' fla] eqn:E1. destruct (an y fla) as [ly flb] eqn:E2.
      destruct (apply_chain an anop (z :: zs) flb) as [ry flc] eqn:E3.
      pose proof (Hop fl h) as T. rewrite E1 in T. cbn [snd] in T.
      pose proof (HF y (or_introl eq_refl) fla h) as T0. rewrite E2 in T0. cbn [snd] in T0.
      pose proof (IH (fun w Hw => HF w (or_intror Hw)) flb h) as T1. rewrite E3 in T1. cbn [snd] in T1.
      cbn [snd]. rewrite T1, T0, T. cbn [existsb].
      destruct (get_flag h fl), (uop h), (uy y h), (uy z h), (existsb (fun y0 => uy y0 h) zs), zs; reflexivity.
Qed.

Lemma piecewise_chain_uses : forall an (uy : mml -> helper -> bool) rs, (forall y, In y rs -> flags_use (an y) (uy y)) ->
  flags_use (piecewise_chain an rs) (fun h => existsb (fun y => uy y h) rs).
Proof.
  intros an uy. induction rs as [|y ys IH]; intros HF fl h.
  - simpl. now rewrite orb_false_r.
  - destruct ys as [|z zs].
    + cbn [piecewise_chain existsb]. rewrite (HF y (or_introl eq_refl) fl h). now rewrite !orb_false_r.
    + change (piecewise_chain an (y :: z :: zs) fl)
        with (let '(ly, fla) := an y fl in let '(ry, flb) := piecewise_chain an (z :: zs) fla in (Node PIECEWISE "" ly ry, flb)).
      destruct (an y fl) as [ly fla] eqn:E2. destruct (piecewise_chain an (z :: zs) fla) as [ry flb] eqn:E3.
      pose proof (HF y (or_introl eq_refl) fl h) as T0. rewrite E2 in T0. cbn [snd] in T0.
      pose proof (IH (fun w Hw => HF w (or_intror Hw)) fla h) as T1. rewrite E3 in T1. cbn [snd] in T1.
      cbn [snd]. rewrite T1, T0. cbn [existsb]. now rewrite !orb_assoc.
Qed.

Lemma analyse_uses : forall n, wf_mml n = true -> forall pm gp, flags_use (analyse pm gp n) (fun h => uses pm gp h n).
Proof.
  induction n as [name kids IHk| v | v | a b] using mml_ind'; intros W pm gp fl h;
    try (simpl; now rewrite ?orb_false_r).
  cbn [wf_mml] in W. apply andb_true_iff in W as [War Wk]. rewrite forallb_forall in Wk.
  assert (K : forall y, In y kids -> forall pm gp, flags_use (analyse pm gp y) (fun h => uses pm gp h y)).
  { intros y Hy. rewrite Forall_forall in IHk. apply IHk; auto. }
  cbn [analyse uses]. unfold elem_flag, structural.
  destruct (name =? "apply") eqn:Eap; rewrite ?Eap in War.
  { assert (Eeq : (name =? "eq") = false) by (apply String.eqb_eq in Eap; subst; reflexivity). rewrite Eeq. cbn [orb opt_helper_is].
    destruct kids as [|op [|x rest]]; try discriminate.
    destruct (analyse false pm op fl) as [hd fl1] eqn:E1. destruct (analyse false pm x fl1) as [l fl2] eqn:E2.
    destruct (apply_chain (analyse false pm) (analyse false pm op) rest fl2) as [r fl3] eqn:E3.
    pose proof (K op (or_introl eq_refl) false pm fl h) as T. rewrite E1 in T. cbn [snd] in T.
    pose proof (K x (or_intror (or_introl eq_refl)) false pm fl1 h) as T0. rewrite E2 in T0. cbn [snd] in T0.
    pose proof (apply_chain_uses (analyse false pm) (analyse false pm op) (fun h => uses false pm h op) (fun y h => uses false pm h y)
                  (K op (or_introl eq_refl) false pm) rest
                  (fun y Hy => K y (or_intror (or_intror Hy)) false pm) fl2 h) as T1.
    rewrite E3 in T1. cbn [snd] in T1. cbn [snd existsb]. rewrite T1, T0, T.
    destruct (get_flag h fl), (uses false pm h op), (uses false pm h x), (existsb (fun y => uses false pm h y) rest), rest as [|? [|? ?]]; reflexivity. }
  destruct (name =? "eq") eqn:Eeq; rewrite ?Eeq in War.
  { apply String.eqb_eq in Eeq. subst name. cbn in War. destruct kids; [|discriminate]. destruct gp; cbn [snd existsb opt_helper_is].
    - now rewrite !orb_false_r.
    - rewrite get_set_flag. f_equal. rewrite orb_false_r. destruct h; reflexivity. }
  destruct (name =? "piecewise") eqn:Epw; rewrite ?Epw in War.
  { cbn [orb opt_helper_is]. destruct kids as [|k0 rest]; [discriminate|].
    destruct (analyse false pm k0 fl) as [l fl1] eqn:E1.
    destruct (piecewise_chain (analyse false pm) rest fl1) as [r fl2] eqn:E3.
    pose proof (K k0 (or_introl eq_refl) false pm fl h) as T. rewrite E1 in T. cbn [snd] in T.
    pose proof (piecewise_chain_uses (analyse false pm) (fun y h => uses false pm h y) rest
                  (fun y Hy => K y (or_intror Hy) false pm) fl1 h) as T1.
    rewrite E3 in T1. cbn [snd] in T1. cbn [snd existsb]. rewrite T1, T. now rewrite !orb_assoc. }
  destruct (name =? "piece") eqn:Epc; rewrite ?Epc in War.
  { cbn [orb opt_helper_is]. destruct kids as [|k0 [|k1 [|k2 rest]]]; try discriminate.
    destruct (analyse false pm k0 fl) as [l fl1] eqn:E1. destruct (analyse false pm k1 fl1) as [r fl2] eqn:E2.
    pose proof (K k0 (or_introl eq_refl) false pm fl h) as T. rewrite E1 in T. cbn [snd] in T.
    pose proof (K k1 (or_intror (or_introl eq_refl)) false pm fl1 h) as T0. rewrite E2 in T0. cbn [snd] in T0.
    cbn [snd existsb]. rewrite T0, T. now rewrite ?orb_false_r, !orb_assoc. }
  assert (One : forall t, Nat.eqb (length kids) 1 = true ->
            get_flag h (snd (match kids with
                             | k0 :: _ => let '(l, fl1) := analyse false pm k0 fl in (Node t "" l Null, fl1)
                             | [] => (Node t "" Null Null, fl) end))
            = get_flag h fl || (false || existsb (uses false pm h) kids)).
  { intros t L. destruct kids as [|k0 [|k1 rest]]; try discriminate.
    destruct (analyse false pm k0 fl) as [l fl1] eqn:E1.
    pose proof (K k0 (or_introl eq_refl) false pm fl h) as T. rewrite E1 in T. cbn [snd] in T.
    cbn [snd existsb]. rewrite T. now rewrite ?orb_false_r. }
  destruct (name =? "otherwise") eqn:Eo; rewrite ?Eo in War; [cbn [orb opt_helper_is]; now apply One|].
  destruct (name =? "degree") eqn:Ed; rewrite ?Ed in War; [cbn [orb opt_helper_is]; now apply One|].
  destruct (name =? "logbase") eqn:El; rewrite ?El in War; [cbn [orb opt_helper_is]; now apply One|].
  cbn [orb] in *.
  destruct (name =? "bvar") eqn:Ebv; rewrite ?Ebv in War.
  { cbn [opt_helper_is]. destruct kids as [|k0 [|k1 [|k2 rest]]]; try discriminate.
    - destruct (analyse false pm k0 fl) as [l fl1] eqn:E1.
      pose proof (K k0 (or_introl eq_refl) false pm fl h) as T. rewrite E1 in T. cbn [snd] in T.
      cbn [snd existsb orb]. rewrite T. now rewrite ?orb_false_r.
    - destruct (analyse false pm k0 fl) as [l fl1] eqn:E1. destruct (analyse false pm k1 fl1) as [r fl2] eqn:E2.
      pose proof (K k0 (or_introl eq_refl) false pm fl h) as T. rewrite E1 in T. cbn [snd] in T.
      pose proof (K k1 (or_intror (or_introl eq_refl)) false pm fl1 h) as T0. rewrite E2 in T0. cbn [snd] in T0.
      cbn [snd existsb orb]. rewrite T0, T. now rewrite ?orb_false_r, !orb_assoc. }
  destruct kids; [|discriminate]. cbn [snd existsb]. rewrite get_set_ty_flag, ty_beq_opt_helper. now rewrite orb_false_r.
Qed.

(* the flags of a whole model: analyse_math folds analyse over the top-level children of every <math> *)
Lemma analyse_math_uses : forall eqs, forallb wf_mml eqs = true ->
  forall h, get_flag h (snd (analyse_math eqs)) = existsb (uses true false h) eqs.
Proof.
  intros eqs W h. unfold analyse_math.
  assert (G : forall eqs acc, forallb wf_mml eqs = true ->
     get_flag h (snd (fold_left (fun '(asts, fl) n => let '(a, fl') := analyse_equation n fl in ((asts ++ [a])%list, fl')) eqs acc))
     = get_flag h (snd acc) || existsb (uses true false h) eqs).
  { induction eqs0 as [|n eqs0 IH]; intros [asts fl] W0; cbn [fold_left existsb]; [now rewrite orb_false_r|].
    cbn [forallb] in W0. apply andb_true_iff in W0 as [W1 W2].
    unfold analyse_equation at 2. destruct (analyse true false n fl) as [a fl'] eqn:E.
    rewrite (IH _ W2). cbn [snd]. pose proof (analyse_uses n W1 true false fl h) as T. rewrite E in T. cbn [snd] in T.
    rewrite T. now rewrite orb_assoc. }
  rewrite (G eqs ([], []) W). reflexivity.
Qed.

(** [uses] in plain words: the element occurs somewhere in the tree *)
Inductive has_element (nm : string) : mml -> Prop :=
| he_here : forall kids, has_element nm (El nm kids)
| he_kid : forall name kids k, In k kids -> has_element nm k -> has_element nm (El name kids).

Lemma leaf_ty_helper : forall name h, leaf_ty name = ty_of_helper h -> h <> HEq -> name = element_name h.
Proof.
  intros name h H Hne. unfold leaf_ty in H.
  repeat match type of H with
         | (if ?n =? ?lit then _ else _) = _ =>
             destruct (String.eqb_spec n lit) as [->|_];
             [destruct h; try discriminate H; try reflexivity; contradiction|]
         end.
  destruct h; discriminate H.
Qed.

Lemma elem_flag_name : forall gp name h, h <> HEq ->
  (opt_helper_is (elem_flag gp name) h = true <-> name = element_name h).
Proof.
  intros gp name h Hne. split.
  - unfold elem_flag. destruct (String.eqb_spec name "eq") as [->|Hn].
    + destruct gp; simpl; intros H; [discriminate|]. destruct h; try discriminate H. contradiction.
    + destruct (structural name); [simpl; discriminate|]. unfold opt_helper_is.
      destruct (helper_of_ty (leaf_ty name)) as [g|] eqn:E; [|discriminate]. intros H. apply helper_beq_eq in H. subst g.
      apply helper_of_ty_spec in E. now apply leaf_ty_helper.
  - intros ->. destruct h; try contradiction; destruct gp; reflexivity.
Qed.

Lemma uses_iff_element : forall h, h <> HEq -> forall n pm gp, uses pm gp h n = true <-> has_element (element_name h) n.
Proof.
  intros h Hne. induction n as [name kids IHk| v | v | a b] using mml_ind'; intros pm gp;
    try (simpl; split; [discriminate | inversion 1]).
  rewrite Forall_forall in IHk. cbn [uses]. rewrite orb_true_iff, existsb_exists. split.
  - intros [H | [k [Hin H]]].
    + apply (elem_flag_name gp name h Hne) in H. subst. constructor.
    + eapply he_kid; [eassumption|]. eapply IHk; eassumption.
  - inversion 1 as [kids' | name' kids' k Hin Hk]; subst.
    + left. now apply (elem_flag_name gp _ h Hne).
    + right. exists k. split; [assumption|]. now apply IHk.
Qed.

(* `eq`: the equality of an equation (first child of an apply that is a child of <math>) is not an operator;
   every other `eq` element is *)
Lemma uses_eq_below : forall n, uses false false HEq n = true <-> has_element "eq" n.
Proof.
  induction n as [name kids IHk| v | v | a b] using mml_ind'; try (simpl; split; [discriminate | inversion 1]).
  rewrite Forall_forall in IHk. cbn [uses]. rewrite orb_true_iff, existsb_exists. split.
  - intros [H | [k [Hin H]]].
    + unfold elem_flag in H. destruct (String.eqb_spec name "eq") as [->|Hn]; [constructor|].
      destruct (structural name); [discriminate|]. unfold opt_helper_is in H.
      destruct (helper_of_ty (leaf_ty name)) as [g|] eqn:E; [|discriminate]. apply helper_beq_eq in H. subst g.
      apply helper_of_ty_spec in E. exfalso. unfold leaf_ty in E.
      repeat match type of E with
             | (if ?n =? ?lit then _ else _) = _ => destruct (String.eqb_spec n lit) as [->|_]; [discriminate E|]
             end. discriminate E.
    + eapply he_kid; [eassumption|]. now apply IHk.
  - inversion 1 as [kids' | name' kids' k Hin Hk]; subst.
    + left. reflexivity.
    + right. exists k. split; [assumption|]. now apply IHk.
Qed.

Lemma uses_eq_equation : forall args,
  uses true false HEq (El "apply" (El "eq" [] :: args)) = existsb (uses false true HEq) args.
Proof. intros. reflexivity. Qed.

Lemma uses_eq_operand : forall name kids, name <> "eq" ->
  (uses false true HEq (El name kids) = true <-> has_element "eq" (El name kids)).
Proof.
  intros name kids Hn. cbn [uses]. rewrite orb_true_iff, existsb_exists. split.
  - intros [H | [k [Hin H]]].
    + exfalso. unfold elem_flag in H. destruct (String.eqb_spec name "eq"); [contradiction|].
      destruct (structural name); [discriminate|]. unfold opt_helper_is in H.
      destruct (helper_of_ty (leaf_ty name)) as [g|] eqn:E; [|discriminate]. apply helper_beq_eq in H. subst g.
      apply helper_of_ty_spec in E. unfold leaf_ty in E.
      repeat match type of E with
             | (if ?n =? ?lit then _ else _) = _ => destruct (String.eqb_spec n lit) as [->|_]; [discriminate E|]
             end. discriminate E.
    + eapply he_kid; [eassumption|]. now apply uses_eq_below.
  - inversion 1 as [kids' | name' kids' k Hin Hk]; subst; [contradiction|].
    right. exists k. split; [assumption|]. now apply uses_eq_below.
Qed.

(** * declared = defined *)

Definition nlc : ascii := ascii_of_nat 10.

Lemma app_differs : forall a r s, starts_with a s = false -> a ++ r <> s.
Proof.
  intros a r s H E. subst s. unfold starts_with in H. now rewrite prefix_drop_app in H.
Qed.

(* the signature line of a template starts with the template's own first characters, as long as those contain no
   line break *)
Lemma def_sig_starts : forall c a r, Ascii.eqb nlc c = false -> no_char nlc (String c a) = true ->
  exists r', def_sig (String c a ++ r) = String c a ++ r'.
Proof.
  intros c a r Hc Hn. unfold def_sig, drop_leading_nl, nl. fold nlc.
  assert (E : prefix_drop (String nlc "") (String c a ++ r) = None)
    by (change (String c a ++ r) with (String c (a ++ r)); cbn [prefix_drop]; rewrite Hc; reflexivity).
  rewrite E. unfold before. rewrite (split_first_skip (String c a) nlc "" r Hn).
  destruct (split_first r (String nlc "")) as [[x y]|]; eexists; reflexivity.
Qed.

Lemma count_occ_map_none : forall (A : Type) (f : A -> string) (l : list A) (s : string),
  (forall x, In x l -> f x <> s) -> count_occ string_dec (map f l) s = 0.
Proof.
  intros A f l s H. apply count_occ_not_In. intros Hin. apply in_map_iff in Hin as [x [E Hx]]. exact (H x Hx E).
Qed.

(* the declarations of the C interface, by (model has ODEs, model has external variables) *)
Definition declared_C (ode ext : bool) : list string :=
  ((if ode then ["double * createStatesArray()"] else [])
   ++ ["double * createVariablesArray()"; "void deleteArray(double *array)"]
   ++ [if ode
       then (if ext then "void initialiseVariables(double voi, double *states, double *rates, double *variables, ExternalVariable externalVariable)"
             else "void initialiseVariables(double *states, double *rates, double *variables)")
       else (if ext then "void initialiseVariables(double *variables, ExternalVariable externalVariable)"
             else "void initialiseVariables(double *variables)")]
   ++ ["void computeComputedConstants(double *variables)"]
   ++ (if ode
       then [if ext then "void computeRates(double voi, double *states, double *rates, double *variables, ExternalVariable externalVariable)"
             else "void computeRates(double voi, double *states, double *rates, double *variables)"]
       else [])
   ++ [if ode
       then (if ext then "void computeVariables(double voi, double *states, double *rates, double *variables, ExternalVariable externalVariable)"
             else "void computeVariables(double voi, double *states, double *rates, double *variables)")
       else (if ext then "void computeVariables(double *variables, ExternalVariable externalVariable)"
             else "void computeVariables(double *variables)")])%list.

Lemma declared_sigs_table : forall m, declared_sigs profile_C m = declared_C (has_odes m) (am_has_ext m).
Proof.
  intros m. unfold declared_sigs, interface_create_delete_array_methods, interface_compute_model_methods, fdm, wev.
  destruct (has_odes m); destruct (am_has_ext m); vm_compute; reflexivity.
Qed.

(* Python has no interface: nothing is declared *)
Lemma declared_sigs_python : forall m, interface_code PPy (Some profile_Py) "" (Some m) = "".
Proof. intros. apply python_has_no_interface. Qed.

(* the fixed definitions of the C implementation, by (ODEs, externals) *)
Lemma fixed_defined_C : forall m,
  map def_sig
    ((if has_odes m && negb (is_empty (implementation_create_states_array_method_string profile_C))
      then [implementation_create_states_array_method_string profile_C] else [])
     ++ (if negb (is_empty (implementation_create_variables_array_method_string profile_C))
         then [implementation_create_variables_array_method_string profile_C] else [])
     ++ (if negb (is_empty (implementation_delete_array_method_string profile_C))
         then [implementation_delete_array_method_string profile_C] else []))%list
  = ((if has_odes m then ["double * createStatesArray()"] else [])
     ++ ["double * createVariablesArray()"; "void deleteArray(double *array)"])%list.
Proof. intros m. destruct (has_odes m); vm_compute; reflexivity. Qed.

Lemma nla_sigs_differ : forall m idx size s, In s (declared_C (has_odes m) (am_has_ext m)) ->
  def_sig (objective_function_template profile_C m idx) <> s /\ def_sig (find_root_template profile_C m idx size) <> s.
Proof.
  intros m idx size s Hs. unfold objective_function_template, find_root_template, objective_function_method_string,
    find_root_method_string, fdm.
  destruct (has_odes m); destruct (am_has_ext m); cbn [profile_C objective_function_method_fam_string
    objective_function_method_fdm_string find_root_method_fam_string find_root_method_fdm_string];
    (split;
     [ splice_at "[INDEX]";
       match goal with |- def_sig (String ?c ?a ++ ?r) <> _ =>
         destruct (def_sig_starts c a r eq_refl eq_refl) as [r' ->] end
     | splice_at "[INDEX]";
       match goal with |- def_sig (replace_first (?a ++ ?r) (String "["%char ?f) ?to) <> _ =>
         rewrite (replace_first_skip a "["%char f to r eq_refl) end;
       match goal with |- def_sig (String ?c ?a ++ ?r) <> _ =>
         destruct (def_sig_starts c a r eq_refl eq_refl) as [r' ->] end ]);
    apply app_differs; vm_compute in Hs;
    repeat (destruct Hs as [<- | Hs]; [reflexivity|]); contradiction.
Qed.

Lemma helper_sigs_differ : forall ode ext s h, In s (declared_C ode ext) -> def_sig (function_string profile_C h) <> s.
Proof.
  intros ode ext s h Hs. destruct ode; destruct ext; vm_compute in Hs;
    repeat (destruct Hs as [<- | Hs]; [destruct h; vm_compute; discriminate|]); contradiction.
Qed.

Definition nla_templates (p : profile) (m : amodel) : list string :=
  if nla_enabled p m
  then flat_map (fun '(idx, size) => [objective_function_template p m idx; find_root_template p m idx size]) (nla_systems m)
  else [].

Definition model_method_templates (p : profile) (m : amodel) : list string :=
  ((let s := implementation_initialise_variables_method_string p (fdm m) (wev m) in if negb (is_empty s) then [s] else [])
   ++ (if negb (is_empty (implementation_compute_computed_constants_method_string p))
       then [implementation_compute_computed_constants_method_string p] else [])
   ++ (let s := implementation_compute_rates_method_string p (wev m) in if has_odes m && negb (is_empty s) then [s] else [])
   ++ (let s := implementation_compute_variables_method_string p (fdm m) (wev m) in if negb (is_empty s) then [s] else []))%list.

Lemma method_templates_split : forall p m,
  implementation_method_templates p m = (nla_templates p m ++ model_method_templates p m)%list.
Proof. reflexivity. Qed.

Lemma nla_count0 : forall m s, In s (declared_C (has_odes m) (am_has_ext m)) ->
  count_occ string_dec (map def_sig (nla_templates profile_C m)) s = 0.
Proof.
  intros m s Hs. unfold nla_templates. destruct (nla_enabled profile_C m); [|reflexivity].
  apply count_occ_not_In. intros Hin. apply in_map_iff in Hin as [t [E Ht]].
  apply in_flat_map in Ht as [[idx size] [_ Ht]].
  destruct (nla_sigs_differ m idx size s Hs) as [A B].
  destruct Ht as [<- | [<- | []]]; contradiction.
Qed.

Lemma model_methods_sigs_C : forall m,
  map def_sig (model_method_templates profile_C m) =
  skipn (if has_odes m then 3 else 2) (declared_C (has_odes m) (am_has_ext m)).
Proof.
  intros m. unfold model_method_templates, fdm, wev. destruct (has_odes m); destruct (am_has_ext m); vm_compute; reflexivity.
Qed.

Lemma declared_defined_once : forall m s, In s (declared_sigs profile_C m) ->
  count_occ string_dec (defined_sigs profile_C m) s = 1.
Proof.
  intros m s Hs. rewrite declared_sigs_table in Hs.
  unfold defined_sigs, defined_templates. rewrite method_templates_split.
  rewrite !map_app, !count_occ_app. rewrite (nla_count0 m s Hs).
  rewrite map_map. rewrite (count_occ_map_none _ (fun h => def_sig (function_string profile_C h)) _ s)
    by (intros h _; eapply helper_sigs_differ; eassumption).
  rewrite model_methods_sigs_C.
  destruct (has_odes m); destruct (am_has_ext m); vm_compute in Hs;
    repeat (destruct Hs as [<- | Hs]; [vm_compute; reflexivity|]); contradiction.
Qed.


(** * what is emitted, by (model has ODEs, model has external variables) *)

Lemma interface_info_declarations : forall m code,
  add_interface_voi_state_and_variable_info profile_C m code =
  code ++ nl ++ (if has_odes m then "extern const VariableInfo VOI_INFO;" ++ nl ++ "extern const VariableInfo STATE_INFO[];" ++ nl else "")
  ++ "extern const VariableInfo VARIABLE_INFO[];" ++ nl.
Proof. intros m code. unfold add_interface_voi_state_and_variable_info. destruct (has_odes m); reflexivity. Qed.

Lemma external_typedef_iff : forall m code,
  add_external_variable_method_type_definition profile_C m code =
  if am_has_ext m
  then code ++ nl ++ (if has_odes m
                      then ("typedef double (" ++ "* ExternalVariable)(double voi, double *states, double *rates, double *variables, size_t index);")
                      else ("typedef double (" ++ "* ExternalVariable)(double *variables, size_t index);")) ++ nl
  else code.
Proof.
  intros m code. unfold add_external_variable_method_type_definition, fdm. destruct (am_has_ext m); [|reflexivity].
  destruct (has_odes m); reflexivity.
Qed.

(* the VariableType enumeration lists VARIABLE_OF_INTEGRATION and STATE exactly for models with ODEs and EXTERNAL
   exactly for models with external variables *)
Lemma variable_type_object_C : forall fdm wev,
  variable_type_object_string profile_C fdm wev =
  "typedef enum {" ++ nl
  ++ (if fdm then "    VARIABLE_OF_INTEGRATION," ++ nl ++ "    STATE," ++ nl else "")
  ++ "    CONSTANT," ++ nl ++ "    COMPUTED_CONSTANT," ++ nl ++ "    ALGEBRAIC"
  ++ (if wev then "," ++ nl ++ "    EXTERNAL" else "") ++ nl ++ "} VariableType;" ++ nl.
Proof. destruct fdm; destruct wev; reflexivity. Qed.

Definition type_text (k : pkind) (t : vtype) : string :=
  (match k with PC => "" | PPy => "VariableType." end)
  ++ match t with
     | VConstant => "CONSTANT" | VComputedConstant => "COMPUTED_CONSTANT" | VAlgebraic => "ALGEBRAIC" | _ => "EXTERNAL"
     end.

Lemma variable_type_text : forall k t, variable_type_string (prof k) t = type_text k t.
Proof. destruct k; destruct t; reflexivity. Qed.

Definition voi_line (k : pkind) (e : string) : string :=
  match k with PC => "const VariableInfo VOI_INFO = " ++ e ++ ";" ++ nl | PPy => "VOI_INFO = " ++ e ++ nl end.
Definition table_text (k : pkind) (name rows : string) : string :=
  match k with
  | PC => "const VariableInfo " ++ name ++ "[] = {" ++ nl ++ rows ++ "};" ++ nl
  | PPy => name ++ " = [" ++ nl ++ rows ++ "]" ++ nl
  end.

Lemma implementation_voi_info_text : forall k m code v, am_voi m = Some v ->
  add_implementation_voi_info (prof k) m code =
  if has_odes m then code ++ nlin code ++ voi_line k (info_entry_code (prof k) (voi_info (prof k) v)) else code.
Proof.
  intros k m code v Hv. unfold add_implementation_voi_info. rewrite Hv. destruct (has_odes m); [|reflexivity].
  destruct k; cbn [prof andb negb is_empty implementation_voi_info_string variable_info_entry_string
                   variable_of_integration_variable_type_string profile_C profile_Py]; splice_at "[CODE]"; reflexivity.
Qed.

Lemma implementation_state_info_text : forall k m code,
  add_implementation_state_info (prof k) m code =
  if has_odes m then code ++ nlin code ++ table_text k "STATE_INFO" (info_elements_code (prof k) (state_info_table (prof k) m) ++ nl)
  else code.
Proof.
  intros k m code. unfold add_implementation_state_info. destruct (has_odes m); [|reflexivity].
  destruct k; cbn [prof andb negb is_empty implementation_state_info_string variable_info_entry_string
                   state_variable_type_string array_element_separator_string profile_C profile_Py]; splice_at "[CODE]"; reflexivity.
Qed.

Lemma implementation_variable_info_text : forall k m code,
  add_implementation_variable_info (prof k) m code =
  code ++ nlin code ++ table_text k "VARIABLE_INFO"
    (let e := info_elements_code (prof k) (variable_info_table (prof k) m) in if is_empty e then e else e ++ nl).
Proof.
  intros k m code. unfold add_implementation_variable_info.
  destruct k; cbn [prof andb negb is_empty implementation_variable_info_string variable_info_entry_string
                   state_variable_type_string array_element_separator_string variable_of_integration_variable_type_string
                   constant_variable_type_string computed_constant_variable_type_string algebraic_variable_type_string
                   external_variable_type_string profile_C profile_Py]; splice_at "[CODE]"; reflexivity.
Qed.

(* createStatesArray and computeRates are declared exactly for models with ODEs; the other five always *)
Lemma declared_names : forall m,
  map sig_name (declared_sigs profile_C m) =
  ((if has_odes m then ["createStatesArray"] else [])
   ++ ["createVariablesArray"; "deleteArray"; "initialiseVariables"; "computeComputedConstants"]
   ++ (if has_odes m then ["computeRates"] else []) ++ ["computeVariables"])%list.
Proof. intros m. rewrite declared_sigs_table. destruct (has_odes m); destruct (am_has_ext m); vm_compute; reflexivity. Qed.

(** * non-vacuity: a concrete analysed model and a concrete equation *)

Definition ex_model : amodel :=
  mkAmodel MDae (Some (mkAvar 0 VVoi "t" "second" "main"))
    [mkAvar 0 VState "x" "mV" "membrane"]
    [mkAvar 0 VConstant "g" "mS" "membrane"; mkAvar 1 VAlgebraic "i_long_name" "uA_per_cm2" "membrane";
     mkAvar 2 VExternal "e" "dimensionless" "env"]
    true
    [mkAeq EOde 0 [] [(VState, 0)] Null; mkAeq ENla 0 [] [(VAlgebraic, 1)] Null; mkAeq EExternal 0 [] [(VExternal, 2)] Null]
    [HXor].

(* y = log_{piecewise(a if xor(a, b), otherwise b)}(c): xor only inside a piecewise condition inside a logbase *)
Definition ex_equation : mml :=
  El "apply" [El "eq" []; MCi "y";
              El "apply" [El "log" [];
                          El "logbase" [El "piecewise" [El "piece" [MCi "a"; El "apply" [El "xor" []; MCi "a"; MCi "b"]];
                                                        El "otherwise" [MCi "b"]]];
                          MCi "c"]].

Lemma nonvacuous :
  is_valid ex_model = true /\ wf_indices ex_model
  /\ nth_error (variable_info_table profile_C ex_model) 1 = Some (mkInfo "i_long_name" "uA_per_cm2" "membrane" "ALGEBRAIC")
  /\ nth_error (variable_info_table profile_Py ex_model) 2 = Some (mkInfo "e" "dimensionless" "env" "VariableType.EXTERNAL")
  /\ info_sizes ex_model = mkSizes 9 12 14
  /\ helpers_emitted profile_C ex_model = [HXor] /\ helpers_emitted profile_Py ex_model = [HXor]
  /\ nla_systems ex_model = [(0, 1)]
  /\ interface_code PC (Some profile_C) "0.6.1" (Some ex_model) <> ""
  /\ implementation_code PPy (Some profile_Py) "0.6.1" (Some ex_model) <> []
  /\ length (declared_sigs profile_C ex_model) = 7
  /\ wf_mml ex_equation = true
  /\ snd (analyse_math [ex_equation]) = [HXor]
  /\ map ast_ty (fst (analyse_math [ex_equation])) = [EQUALITY].
Proof.
  repeat split; try (vm_compute; reflexivity); vm_compute; discriminate.
Qed.

(* the profile tables as they are now: which helper the C profile needs a definition for, and its text *)
Lemma helper_table_C :
  map (fun h => (helper_name h, sig_name (def_sig (function_string profile_C h)))) (filter (fun h => negb (has_operator profile_C h)) all_helpers)
  = [("xor", "xor"); ("min", "min"); ("max", "max"); ("sec", "sec"); ("csc", "csc"); ("cot", "cot"); ("sech", "sech");
     ("csch", "csch"); ("coth", "coth"); ("asec", "asec"); ("acsc", "acsc"); ("acot", "acot"); ("asech", "asech");
     ("acsch", "acsch"); ("acoth", "acoth")].
Proof. vm_compute. reflexivity. Qed.

Lemma helper_table_Py :
  map (fun h => sig_name (def_sig (function_string profile_Py h))) all_helpers
  = ["eq_func"; "neq_func"; "lt_func"; "leq_func"; "gt_func"; "geq_func"; "and_func"; "or_func"; "xor_func"; "not_func";
     "min"; "max"; "sec"; "csc"; "cot"; "sech"; "csch"; "coth"; "asec"; "acsc"; "acot"; "asech"; "acsch"; "acoth"].
Proof. vm_compute. reflexivity. Qed.

(** * statements as exported by Properties_C17.v *)
Lemma info_entry_i : forall k m v, wf_indices m -> In v (am_variables m) ->
  nth_error (variable_info_table (prof k) m) (av_index v) = Some (variable_info (prof k) v).
Proof. intros k. exact (variable_info_entry_i (prof k)). Qed.

Lemma state_entry_i : forall k m v, wf_indices m -> In v (am_states m) ->
  nth_error (state_info_table (prof k) m) (av_index v) = Some (state_info (prof k) v).
Proof. intros k. exact (state_info_entry_i (prof k)). Qed.

Lemma info_row_i : forall k m i r, wf_indices m -> nth_error (variable_info_table (prof k) m) i = Some r ->
  exists v, In v (am_variables m) /\ av_index v = i /\ r = variable_info (prof k) v.
Proof. intros k. exact (variable_info_row (prof k)). Qed.

Lemma info_lengths : forall k m,
  length (state_info_table (prof k) m) = length (am_states m)
  /\ length (variable_info_table (prof k) m) = length (am_variables m).
Proof. intros k. exact (info_table_lengths (prof k)). Qed.

Lemma info_rows_in_order : forall k rows,
  info_elements_code (prof k) rows =
  str_concat (array_element_separator_string (prof k) ++ nl)
             (map (fun i => indent_string (prof k) ++ info_entry_code (prof k) i) rows).
Proof. intros k rows. apply info_elements_code_join. destruct k; reflexivity. Qed.

(** * "helpers are emitted exactly when the equations use them": refuted for externalised equations *)

(* the equations the generated code computes are AnalyserModel::equations(); an EXTERNAL equation has no AST *)
Definition equations_use (m : amodel) (h : helper) : Prop :=
  exists e, In e (am_equations m) /\ occurs (ty_of_helper h) (ae_ast e).

(* the flags are those of the ASTs the model kept (true when no equation was replaced by an external variable or
   dropped; the check compares the two on every model) *)
Definition flags_from_equations (m : amodel) : Prop :=
  forall h, get_flag h (am_flags m) = get_flag h (need_flags_list (map ae_ast (am_equations m))).

Lemma helper_iff_used_partial : forall k m h, is_valid m = true -> flags_from_equations m ->
  (In h (helpers_emitted (prof k) m) <-> equations_use m h /\ has_operator (prof k) h = false).
Proof.
  intros k m h V F. rewrite (helper_iff k m h V). rewrite (F h).
  split; intros [A B]; (split; [|exact B]).
  - apply need_flags_list_spec in A as [a [Hin Ho]]. apply in_map_iff in Hin as [e [<- He]]. exists e. auto.
  - destruct A as [e [He Ho]]. apply need_flags_list_spec. exists (ae_ast e). split; [now apply in_map|assumption].
Qed.

(* y = sec(a) with y handed to Analyser::addExternalVariable: the analyser keeps the flag that analyseNode set while
   reading the MathML, drops the equation (its AnalyserEquation is of type EXTERNAL and has no AST), and the generator
   emits a definition of sec that nothing calls *)
Definition ext_equation : mml := El "apply" [El "eq" []; MCi "y"; El "apply" [El "sec" []; MCi "a"]].
Definition ext_model : amodel :=
  mkAmodel MAlgebraic None []
    [mkAvar 0 VConstant "a" "dimensionless" "main"; mkAvar 1 VExternal "y" "dimensionless" "main"]
    true
    [mkAeq EExternal 0 [] [(VExternal, 1)] Null]
    (snd (analyse_math [ext_equation])).

Lemma helper_iff_used_refuted :
  is_valid ext_model = true /\ wf_mml ext_equation = true
  /\ In HSec (helpers_emitted profile_C ext_model) /\ In HSec (helpers_emitted profile_Py ext_model)
  /\ ~ equations_use ext_model HSec.
Proof.
  repeat split; try (vm_compute; auto; fail).
  intros [e [He Ho]]. simpl in He. destruct He as [<- | []]. simpl in Ho. inversion Ho.
Qed.

(* the flags analyseNode sets are those of the ASTs it builds, summed over the equations of the model *)
Lemma analyse_math_flags_ast : forall eqs, forallb heads_leaf eqs = true ->
  forall h, get_flag h (snd (analyse_math eqs)) = get_flag h (need_flags_list (fst (analyse_math eqs))).
Proof.
  intros eqs W h. unfold analyse_math, need_flags_list.
  set (step := fun '(asts, fl) n => let '(a, fl') := analyse_equation n fl in ((asts ++ [a])%list, fl')).
  assert (G : forall eqs acc, forallb heads_leaf eqs = true ->
     get_flag h (snd acc) = get_flag h (fold_left (fun fl a => need_flags_acc a fl) (fst acc) []) ->
     get_flag h (snd (fold_left step eqs acc))
     = get_flag h (fold_left (fun fl a => need_flags_acc a fl) (fst (fold_left step eqs acc)) [])).
  { induction eqs0 as [|n eqs0 IH]; intros [asts fl] W0 Hacc; cbn [fold_left]; [exact Hacc|].
    cbn [forallb] in W0. apply andb_true_iff in W0 as [W1 W2]. apply (IH _ W2).
    unfold step, analyse_equation. destruct (analyse true false n fl) as [a fl'] eqn:E.
    cbn [fst snd] in *. rewrite fold_left_app. cbn [fold_left]. rewrite need_flags_acc_spec.
    pose proof (analyse_flags_ok n W1 true false fl h) as T. rewrite E in T. cbn [fst snd] in T.
    rewrite T, Hacc. reflexivity. }
  apply (G eqs ([], []) W). reflexivity.
Qed.

(** * NLA method frames: exactly for models with NLA systems, two per system, in system order *)
Lemma nla_methods_iff : forall k m,
  nla_templates (prof k) m =
  if has_nlas m
  then flat_map (fun '(idx, size) => [objective_function_template (prof k) m idx; find_root_template (prof k) m idx size]) (nla_systems m)
  else [].
Proof.
  intros k m. unfold nla_templates, nla_enabled, objective_function_method_string, find_root_method_string, nla_solve_call_string, fdm.
  destruct (has_nlas m); [|reflexivity]. destruct k; destruct (has_odes m); reflexivity.
Qed.

(* every NLA equation belongs to exactly one emitted system: the systems listed are the distinct nlaSystemIndex values
   in first-occurrence order when siblings are recorded consistently; here only: a model without NLA equations has none *)
Lemma nla_systems_none : forall m, forallb (fun e => negb (is_nla (ae_type e))) (am_equations m) = true -> nla_systems m = [].
Proof.
  intros m. unfold nla_systems. generalize 0, (@nil nat). induction (am_equations m) as [|e l IH]; intros pos handled H; [reflexivity|].
  cbn [forallb] in H. apply andb_true_iff in H as [H1 H2]. apply negb_true_iff in H1. cbn [nla_systems_from]. rewrite H1. cbn [andb].
  now apply IH.
Qed.

(** * the NLA functions are named after AnalyserEquation::nlaSystemIndex() — the number the call sites use *)
Lemma nla_systems_from_sound : forall eqs pos handled idx n, In (idx, n) (nla_systems_from pos eqs handled) ->
  exists e, In e eqs /\ is_nla (ae_type e) = true /\ ae_nla_index e = idx /\ length (ae_vars e) = n.
Proof.
  induction eqs as [|e eqs IH]; intros pos handled idx n H; cbn [nla_systems_from] in H; [contradiction|].
  destruct (is_nla (ae_type e) && negb (existsb (Nat.eqb pos) handled)) eqn:E.
  - destruct H as [H | H].
    + inversion H; subst. apply andb_true_iff in E as [E _]. exists e. repeat split; auto. now left.
    + destruct (IH _ _ _ _ H) as [e' [Hin R]]. exists e'. split; [now right | exact R].
  - destruct (IH _ _ _ _ H) as [e' [Hin R]]. exists e'. split; [now right | exact R].
Qed.

Lemma nla_systems_sound : forall m idx n, In (idx, n) (nla_systems m) ->
  exists e, In e (am_equations m) /\ is_nla (ae_type e) = true /\ ae_nla_index e = idx /\ length (ae_vars e) = n.
Proof. intros m idx n. apply nla_systems_from_sound. Qed.

(* nlaSiblings() of an NLA equation are equations of the same NLA system *)
Definition sibs_consistent (eqs : list aeq) : Prop :=
  forall e s, In e eqs -> is_nla (ae_type e) = true -> In s (ae_sibs e) ->
  exists e', nth_error eqs s = Some e' /\ ae_nla_index e' = ae_nla_index e.

Lemma nla_systems_from_complete : forall all, sibs_consistent all ->
  forall rest pos handled emitted, rest = skipn pos all ->
  (forall p, In p handled -> exists e', nth_error all p = Some e' /\ In (ae_nla_index e') emitted) ->
  forall e p, nth_error all p = Some e -> pos <= p -> is_nla (ae_type e) = true ->
  In (ae_nla_index e) (emitted ++ map fst (nla_systems_from pos rest handled))%list.
Proof.
  intros all SC. induction rest as [|e0 rest IH]; intros pos handled emitted Hr Hh e p Hp Hle Hn.
  - exfalso. assert (L : length (skipn pos all) = 0) by now rewrite <- Hr. rewrite skipn_length in L.
    assert (p < length all) by (apply nth_error_Some; congruence). lia.
  - assert (H0 : nth_error all pos = Some e0).
    { rewrite <- (firstn_skipn pos all) at 1. rewrite <- Hr.
      assert (Lf : length (firstn pos all) = pos).
      { apply firstn_length_le. assert (length (skipn pos all) > 0) by (rewrite <- Hr; simpl; lia). rewrite skipn_length in H. lia. }
      rewrite nth_error_app2 by lia. rewrite Lf, Nat.sub_diag. reflexivity. }
    assert (Hr' : rest = skipn (S pos) all).
    { clear -Hr. revert pos Hr. induction all as [|a all IHa]; intros pos Hr; destruct pos; simpl in *; try discriminate.
      - now inversion Hr.
      - now apply IHa. }
    cbn [nla_systems_from].
    destruct (is_nla (ae_type e0) && negb (existsb (Nat.eqb pos) handled)) eqn:E.
    + apply andb_true_iff in E as [En0 _]. cbn [map fst].
      assert (Hh' : forall q, In q (handled ++ pos :: ae_sibs e0)%list ->
                exists e', nth_error all q = Some e' /\ In (ae_nla_index e') (emitted ++ [ae_nla_index e0])%list).
      { intros q Hq. apply in_app_iff in Hq as [Hq | [<- | Hq]].
        - destruct (Hh q Hq) as [e' [A B]]. exists e'. split; [assumption|]. apply in_app_iff. now left.
        - exists e0. split; [assumption|]. apply in_app_iff. right. now left.
        - destruct (SC e0 q (nth_error_In _ _ H0) En0 Hq) as [e' [A B]]. exists e'. split; [assumption|].
          apply in_app_iff. right. left. now symmetry. }
      destruct (Nat.eq_dec p pos) as [-> | Hne].
      * rewrite H0 in Hp. inversion Hp; subst. apply in_app_iff. right. now left.
      * specialize (IH (S pos) (handled ++ pos :: ae_sibs e0)%list (emitted ++ [ae_nla_index e0])%list Hr' Hh' e p Hp ltac:(lia) Hn).
        rewrite <- app_assoc in IH. exact IH.
    + destruct (Nat.eq_dec p pos) as [-> | Hne].
      * rewrite H0 in Hp. inversion Hp; subst. rewrite Hn in E. cbn [andb] in E. apply negb_false_iff in E.
        apply existsb_exists in E as [q [Hq Eq]]. apply Nat.eqb_eq in Eq. subst q.
        destruct (Hh pos Hq) as [e' [A B]]. rewrite H0 in A. inversion A; subst. apply in_app_iff. now left.
      * apply (IH (S pos) handled emitted Hr' Hh e p Hp ltac:(lia) Hn).
Qed.

Lemma nla_systems_complete : forall m e, sibs_consistent (am_equations m) -> In e (am_equations m) -> is_nla (ae_type e) = true ->
  exists n, In (ae_nla_index e, n) (nla_systems m).
Proof.
  intros m e SC Hin Hn. apply In_nth_error in Hin as [p Hp].
  pose proof (nla_systems_from_complete (am_equations m) SC (am_equations m) 0 [] [] eq_refl
                ltac:(intros q []) e p Hp ltac:(lia) Hn) as H.
  cbn [app] in H. apply in_map_iff in H as [[idx n] [E Hin]]. simpl in E. subst idx. exists n. exact Hin.
Qed.

(** * degenerate models: ODE type without states (every state handed to addExternalVariable)
    The selectors of the generator test the model's TYPE (modelHasOdes(): generator.cpp addInterfaceCreateDeleteArrayMethodsCode,
    addImplementationCreateStatesArrayMethodCode, addInterfaceComputeModelMethodsCode, addImplementationComputeRatesMethodCode,
    addStateAndVariableCountCode, addImplementationVoiInfoCode, addImplementationStateInfoCode), never stateCount():
    EmitDefs uses [has_odes m] in all those places and nothing below depends on [am_states m] being non-empty. *)
Lemma declared_are_defined : forall m s, In s (declared_sigs profile_C m) -> In s (defined_sigs profile_C m).
Proof.
  intros m s H. apply (count_occ_In string_dec). rewrite (declared_defined_once m s H). lia.
Qed.

Lemma ode_frames_by_type : forall m, has_odes m = true ->
  In "double * createStatesArray()" (declared_sigs profile_C m)
  /\ In "double * createStatesArray()" (defined_sigs profile_C m)
  /\ (exists s, In s (declared_sigs profile_C m) /\ In s (defined_sigs profile_C m) /\ sig_name s = "computeRates")
  /\ In "def create_states_array():" (defined_sigs profile_Py m)
  /\ In (if am_has_ext m then "def compute_rates(voi, states, rates, variables, external_variable):"
         else "def compute_rates(voi, states, rates, variables):") (defined_sigs profile_Py m).
Proof.
  intros m H.
  assert (D1 : In "double * createStatesArray()" (declared_sigs profile_C m))
    by (rewrite declared_sigs_table, H; left; reflexivity).
  split; [exact D1|]. split; [now apply declared_are_defined|]. split.
  - rewrite declared_sigs_table, H. destruct (am_has_ext m) eqn:E.
    + eexists. split; [do 5 right; left; reflexivity|]. split; [|reflexivity].
      apply declared_are_defined. rewrite declared_sigs_table, H, E. do 5 right. left. reflexivity.
    + eexists. split; [do 5 right; left; reflexivity|]. split; [|reflexivity].
      apply declared_are_defined. rewrite declared_sigs_table, H, E. do 5 right. left. reflexivity.
  - unfold defined_sigs, defined_templates. rewrite method_templates_split. rewrite !map_app, !in_app_iff.
    split.
    + right. left. rewrite H. left. reflexivity.
    + do 5 right. unfold model_method_templates, fdm, wev. rewrite H. destruct (am_has_ext m); vm_compute; tauto.
Qed.

(* an empty method body: C keeps it empty, Python gets "    pass" — a Python frame is never left without a body *)
Lemma method_body_python_nonempty : forall body, method_body_code profile_Py body <> "".
Proof. intros body. unfold method_body_code. destruct body; [vm_compute; discriminate | simpl; discriminate]. Qed.

Lemma method_body_empty : method_body_code profile_C "" = "" /\ method_body_code profile_Py "" = "    pass" ++ nl.
Proof. split; reflexivity. Qed.

(* an ODE-typed model all of whose states are external: STATE_COUNT = 0, empty STATE_INFO, and still every ODE frame *)
Definition ex_zero_states : amodel :=
  mkAmodel MOde (Some (mkAvar 0 VVoi "t" "second" "main")) []
    [mkAvar 0 VConstant "k" "dimensionless" "main"; mkAvar 1 VExternal "x" "dimensionless" "main"]
    true [mkAeq EExternal 0 [] [(VExternal, 1)] Null] [].

Lemma zero_states_example :
  is_valid ex_zero_states = true /\ has_odes ex_zero_states = true /\ am_states ex_zero_states = []
  /\ state_and_variable_count_code profile_C ex_zero_states false
     = "const size_t STATE_COUNT = 0;" ++ nl ++ "const size_t VARIABLE_COUNT = 2;" ++ nl
  /\ length (declared_sigs profile_C ex_zero_states) = 7
  /\ map sig_name (defined_sigs profile_Py ex_zero_states)
     = ["create_states_array"; "create_variables_array"; "initialise_variables"; "compute_computed_constants"; "compute_rates"; "compute_variables"]
  /\ add_implementation_state_info profile_C ex_zero_states "" = "const VariableInfo STATE_INFO[] = {" ++ nl ++ nl ++ "};" ++ nl.
Proof. repeat split; vm_compute; reflexivity. Qed.

(** * the profile object: setProfile() erases the history of every member that loadProfile assigns *)
Section ProfileObjectProofs.
  Variable value : Type.
  Variable builtin : pkind -> string -> value.

  Lemma set_profile_resets_assigned : forall k h h' st st' n, In n assigned_members ->
    set_profile value builtin k (apply_history value h st) n = set_profile value builtin k (apply_history value h' st') n.
  Proof.
    intros k h h' st st' n Hn. unfold set_profile, load_profile.
    assert (E : existsb (String.eqb n) assigned_members = true).
    { apply existsb_exists. exists n. split; [assumption | apply String.eqb_refl]. }
    rewrite E. reflexivity.
  Qed.

  Lemma set_profile_is_builtin : forall k st n, In n assigned_members -> set_profile value builtin k st n = builtin k n.
  Proof.
    intros k st n Hn. unfold set_profile, load_profile.
    assert (E : existsb (String.eqb n) assigned_members = true).
    { apply existsb_exists. exists n. split; [assumption | apply String.eqb_refl]. }
    now rewrite E.
  Qed.

  (* every data member of the struct is assigned by loadProfile, or is one of the (at most two) known exceptions *)
  Lemma struct_members_covered : forall n, In n struct_members -> In n assigned_members \/ In n unassigned_members.
  Proof.
    assert (E : forallb (fun n => existsb (String.eqb n) assigned_members || existsb (String.eqb n) unassigned_members) struct_members = true)
      by (vm_compute; reflexivity).
    intros n Hn. rewrite forallb_forall in E. specialize (E n Hn). apply orb_true_iff in E as [E | E];
      apply existsb_exists in E as [x [Hx Ex]]; apply String.eqb_eq in Ex; subst; auto.
  Qed.

  Lemma unassigned_members_known : incl unassigned_members known_unassigned_members.
  Proof.
    assert (E : forallb (fun n => existsb (String.eqb n) known_unassigned_members) unassigned_members = true) by (vm_compute; reflexivity).
    intros n Hn. rewrite forallb_forall in E. specialize (E n Hn). apply existsb_exists in E as [x [Hx Ex]].
    apply String.eqb_eq in Ex. now subst.
  Qed.

  (* the claim at full strength holds as soon as loadProfile leaves no member out (the state after
     fixes/C17-setprofile-piecewise-strings.diff) *)
  Lemma set_profile_resets_all_members_partial : unassigned_members = [] ->
    forall k h h' st st' n, In n struct_members ->
    set_profile value builtin k (apply_history value h st) n = set_profile value builtin k (apply_history value h' st') n.
  Proof.
    intros U k h h' st st' n Hn. destruct (struct_members_covered n Hn) as [A | A].
    - now apply set_profile_resets_assigned.
    - rewrite U in A. contradiction.
  Qed.

  (* and it is refuted for every member that loadProfile leaves out: the history shows through setProfile *)
  Lemma set_profile_refuted_when_unassigned : forall n, In n unassigned_members -> forall (v w : value), v <> w ->
    forall k st, In n struct_members /\
      set_profile value builtin k (apply_history value [(n, v)] st) n <> set_profile value builtin k (apply_history value [(n, w)] st) n.
  Proof.
    intros n Hn v w Hvw k st.
    assert (S : forallb (fun n => existsb (String.eqb n) struct_members && negb (existsb (String.eqb n) assigned_members)) unassigned_members = true)
      by (vm_compute; reflexivity).
    rewrite forallb_forall in S. specialize (S n Hn). apply andb_true_iff in S as [S1 S2]. apply negb_true_iff in S2.
    split.
    - apply existsb_exists in S1 as [x [Hx Ex]]. apply String.eqb_eq in Ex. now subst.
    - unfold set_profile, load_profile, apply_history, set_member. cbn [fold_left fst snd]. rewrite S2, String.eqb_refl. exact Hvw.
  Qed.
End ProfileObjectProofs.
