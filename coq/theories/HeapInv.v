(** HeapInv.v — C09: the inductive invariant of the object graph and its preservation by the primitives
    (detach a child, attach a child, clear a list, equivalence edits, link edits, destruction). *)
From Coq Require Import List String Bool Arith PeanoNat Lia Relations.
From LC Require Import HeapDefs HeapBase.
Import ListNotations.

(* ------------------------------------------------------------------------------------------------ ancestry *)

Definition par (s : state) (x p : nat) : Prop := parent_of s x = Some p.
Definition anc (s : state) : nat -> nat -> Prop := clos_trans_1n nat (par s).

Lemma anc_mono : forall s s', (forall x p, par s' x p -> par s x p) -> forall x a, anc s' x a -> anc s x a.
Proof.
  intros s s' H x a Ha. induction Ha as [x y Hxy|x y z Hxy _ IH].
  - apply t1n_step. auto.
  - eapply Relation_Operators.t1n_trans; eauto.
Qed.

Lemma anc_trans : forall s x y z, anc s x y -> anc s y z -> anc s x z.
Proof.
  intros s x y z H1 H2. induction H1 as [x y Hxy|x y w Hxy H1' IH].
  - exact (Relation_Operators.t1n_trans _ _ _ _ _ Hxy H2).
  - exact (Relation_Operators.t1n_trans _ _ _ _ _ Hxy (IH H2)).
Qed.

Lemma anc_last : forall s x a, anc s x a -> exists y, par s y a.
Proof.
  intros s x a H. induction H as [x y Hxy|x y z _ _ IH]; eauto.
Qed.

Lemma anc_first : forall s x a, anc s x a -> exists p, par s x p.
Proof. intros s x a H. destruct H; eauto. Qed.

(** adding the single edge x -> k, where x had no parent *)
Lemma anc_add_edge : forall s s' x k,
  (forall y p, par s' y p -> par s y p \/ (y = x /\ p = k)) ->
  forall a b, anc s' a b -> anc s a b \/ ((a = x \/ anc s a x) /\ (b = k \/ anc s k b)).
Proof.
  intros s s' x k H a b Hab. induction Hab as [a b Hab|a m b Ham _ IH].
  - destruct (H _ _ Hab) as [Hp|[-> ->]].
    + left. apply t1n_step. assumption.
    + right. split; left; reflexivity.
  - destruct (H _ _ Ham) as [Hp|[-> ->]].
    + destruct IH as [IH|[[->|Hmx] Hkb]].
      * left. eapply Relation_Operators.t1n_trans; eauto.
      * right. split; [right; apply t1n_step; assumption|assumption].
      * right. split; [right; eapply Relation_Operators.t1n_trans; eauto|assumption].
    + destruct IH as [IH|[_ Hkb]].
      * right. split; [left; reflexivity|right; assumption].
      * right. split; [left; reflexivity|assumption].
Qed.

(* ------------------------------------------------------------------------------------------------ the invariant *)

Record Inv (s : state) : Prop := mkInv {
  inv_cp : forall K k x, In x (children s K k) -> parent_of s x = Some k;          (* a listed child names the lister *)
  inv_nd : forall K k, NoDup (children s K k);                                    (* never listed twice *)
  inv_ac : forall x, ~ anc s x x;                                                 (* no cycle of parents *)
  inv_eq : forall a b, In b (eqs_of s a) -> In a (eqs_of s b);                    (* equivalence symmetric *)
  inv_ln : forall x p, parent_of s x = Some p -> exists K, In x (children s K p); (* a parent link is backed by a listing *)
  inv_ty : forall K k x, In x (children s K k) -> kindd s x = child_kind K /\ lists (kindd s k) K = true;
  inv_en : forall a, NoDup (eqs_of s a)                                           (* no equivalence recorded twice *)
}.

Lemma child_kind_inj : forall K K', child_kind K = child_kind K' -> K = K'.
Proof. intros K K' H. destruct K, K'; cbn in H; try reflexivity; discriminate. Qed.

Lemma parent_inr : forall s x p, parent_of s x = Some p -> inr s x.
Proof.
  intros s x p H. destruct (Nat.lt_ge_cases x (List.length (objs s))) as [L|G]; [exact L|].
  unfold parent_of in H. rewrite getd_oob in H; [discriminate|]. unfold inr. lia.
Qed.

Lemma ltb_inr : forall s x, inr s x -> Nat.ltb x (List.length (objs s)) = true.
Proof. intros s x H. apply Nat.ltb_lt. exact H. Qed.

(** one lister, one list *)
Lemma inv_unique : forall s, Inv s -> forall K K' k k' x,
  In x (children s K k) -> In x (children s K' k') -> K = K' /\ k = k'.
Proof.
  intros s I K K' k k' x H1 H2. split.
  - apply child_kind_inj. destruct (inv_ty s I _ _ _ H1) as [E1 _]. destruct (inv_ty s I _ _ _ H2) as [E2 _]. congruence.
  - pose proof (inv_cp s I _ _ _ H1). pose proof (inv_cp s I _ _ _ H2). congruence.
Qed.

(** only containers are parents *)
Lemma inv_parent_container : forall s, Inv s -> forall x p, parent_of s x = Some p -> exists K, lists (kindd s p) K = true.
Proof.
  intros s I x p H. destruct (inv_ln s I _ _ H) as [K HK]. exists K. apply (inv_ty s I _ _ _ HK).
Qed.

Lemma lists_not_child : forall k K K', lists k K = true -> k <> child_kind K' \/ K' = CComps.
Proof. intros k K K' H. destruct k, K, K'; cbn in *; try discriminate; auto; left; discriminate. Qed.

(** an object that is not a component (or model) is nobody's ancestor *)
Lemma inv_leaf_no_desc : forall s, Inv s -> forall x a,
  (forall K, lists (kindd s a) K = false) -> ~ anc s x a.
Proof.
  intros s I x a Hk H. destruct (anc_last _ _ _ H) as [y Hy].
  destruct (inv_parent_container s I _ _ Hy) as [K HK]. rewrite Hk in HK. discriminate.
Qed.

(** a model has no parent *)
Lemma inv_model_root : forall s, Inv s -> forall m, kindd s m = KModel -> parent_of s m = None.
Proof.
  intros s I m Hm. destruct (parent_of s m) as [p|] eqn:E; [|reflexivity].
  destruct (inv_ln s I _ _ E) as [K HK]. destruct (inv_ty s I _ _ _ HK) as [E1 _].
  rewrite Hm in E1. destruct K; discriminate.
Qed.

(* ------------------------------------------------------------------------------------------------ same kinds *)

Definition same_shape (s s' : state) : Prop :=
  List.length (objs s') = List.length (objs s) /\ forall y, kindd s' y = kindd s y.

Lemma same_shape_refl : forall s, same_shape s s.
Proof. intros s. split; auto. Qed.

Lemma same_shape_trans : forall a b c, same_shape a b -> same_shape b c -> same_shape a c.
Proof. intros a b c [L1 K1] [L2 K2]. split; [congruence|]. intros y. rewrite K2. apply K1. Qed.

Lemma same_shape_set_parent_of : forall s x p, same_shape s (set_parent_of s x p).
Proof. intros. split; [apply length_upd|]. intros y. unfold kindd. apply kind_set_parent_of. Qed.

Lemma same_shape_set_children : forall s K k l, same_shape s (set_children s K k l).
Proof. intros. split; [apply length_upd|]. intros y. unfold kindd. apply kind_set_children. Qed.

Lemma same_shape_set_eqs_of : forall s x l, same_shape s (set_eqs_of s x l).
Proof. intros. split; [apply length_upd|]. intros y. unfold kindd. apply kind_set_eqs_of. Qed.

Lemma same_shape_inr : forall s s' x, same_shape s s' -> (inr s' x <-> inr s x).
Proof. intros s s' x [L _]. unfold inr. rewrite L. tauto. Qed.

Lemma inv_transport : forall s s',
  Inv s ->
  (forall K k, children s' K k = children s K k) ->
  (forall y, parent_of s' y = parent_of s y) ->
  (forall y, kindd s' y = kindd s y) ->
  (forall a b, In b (eqs_of s' a) -> In a (eqs_of s' b)) ->
  (forall a, NoDup (eqs_of s' a)) ->
  Inv s'.
Proof.
  intros s s' I C P Kd E N. constructor.
  - intros K k x H. rewrite C in H. rewrite P. eapply inv_cp; eauto.
  - intros K k. rewrite C. apply (inv_nd s I).
  - intros x Hx. apply (inv_ac s I x). eapply anc_mono; [|exact Hx]. intros a p Hp. unfold par in *. rewrite P in Hp. exact Hp.
  - exact E.
  - intros x p H. rewrite P in H. destruct (inv_ln s I _ _ H) as [K HK]. exists K. rewrite C. exact HK.
  - intros K k x H. rewrite C in H. rewrite !Kd. apply (inv_ty s I); assumption.
  - exact N.
Qed.

(* ------------------------------------------------------------------------------------------------ detach *)

(** erase position i of list K of k and clear the parent of the erased child (remove / take, one level) *)
Definition detached (s : state) (K : ck) (k i x : nat) : state := set_parent_of (erase_child s K k i) x None.

Lemma detached_children : forall s K k i x K' k', inr s k ->
  children (detached s K k i x) K' k' =
  if Nat.eqb k k' && ck_eqb K K' then remove_nth i (children s K k) else children s K' k'.
Proof.
  intros s K k i x K' k' Hk. unfold detached, erase_child. rewrite children_set_parent_of, children_set_children.
  rewrite (ltb_inr _ _ Hk), andb_true_r. reflexivity.
Qed.

Lemma detached_parent : forall s K k i x y, inr s x ->
  parent_of (detached s K k i x) y = if Nat.eqb x y then None else parent_of s y.
Proof.
  intros s K k i x y Hx. unfold detached, erase_child. rewrite parent_set_parent_of, length_set_children.
  rewrite (ltb_inr _ _ Hx), andb_true_r. rewrite parent_set_children. reflexivity.
Qed.

Lemma detached_eqs : forall s K k i x y, eqs_of (detached s K k i x) y = eqs_of s y.
Proof. intros. unfold detached, erase_child. rewrite eqs_set_parent_of, eqs_set_children. reflexivity. Qed.

Lemma detached_shape : forall s K k i x, same_shape s (detached s K k i x).
Proof.
  intros. unfold detached, erase_child. eapply same_shape_trans; [apply same_shape_set_children|apply same_shape_set_parent_of].
Qed.

Lemma detached_inv : forall s K k i x, Inv s -> nth_error (children s K k) i = Some x -> Inv (detached s K k i x).
Proof.
  intros s K k i x I Hn.
  assert (Hin : In x (children s K k)) by (eapply nth_error_In; eauto).
  assert (Hk : inr s k) by (eapply children_inr; eauto).
  assert (Hpx : parent_of s x = Some k) by (eapply inv_cp; eauto).
  assert (Hx : inr s x) by (eapply parent_inr; eauto).
  pose proof (inv_nd s I K k) as Hnd.
  constructor.
  - intros K' k' y Hy. rewrite detached_children in Hy by assumption. rewrite detached_parent by assumption.
    destruct (Nat.eqb_spec k k') as [<-|Hkk]; cbn in Hy.
    + destruct (ck_eqb K K') eqn:EK.
      * apply ck_eqb_eq in EK. subst K'.
        assert (y <> x) by (intros ->; eapply remove_nth_notin; eauto).
        destruct (Nat.eqb_spec x y); [congruence|]. apply remove_nth_in in Hy. eapply inv_cp; eauto.
      * destruct (Nat.eqb_spec x y) as [<-|Hxy]; [|eapply inv_cp; eauto].
        destruct (inv_unique s I _ _ _ _ _ Hin Hy) as [E _]. subst. rewrite ck_eqb_refl in EK. discriminate.
    + destruct (Nat.eqb_spec x y) as [<-|Hxy]; [|eapply inv_cp; eauto].
      destruct (inv_unique s I _ _ _ _ _ Hin Hy) as [_ E]. contradiction.
  - intros K' k'. rewrite detached_children by assumption.
    destruct (Nat.eqb k k' && ck_eqb K K'); [apply remove_nth_nodup; assumption|apply (inv_nd s I)].
  - intros y Hy. apply (inv_ac s I y). eapply anc_mono; [|exact Hy].
    intros a p Hp. unfold par in *. rewrite detached_parent in Hp by assumption.
    destruct (Nat.eqb x a); [discriminate|assumption].
  - intros a b. rewrite !detached_eqs. apply (inv_eq s I).
  - intros y p Hp. rewrite detached_parent in Hp by assumption.
    destruct (Nat.eqb_spec x y) as [->|Hxy]; [discriminate|].
    destruct (inv_ln s I _ _ Hp) as [K' HK']. exists K'. rewrite detached_children by assumption.
    destruct (Nat.eqb_spec k p) as [<-|Hkp]; cbn; [|assumption].
    destruct (ck_eqb K K') eqn:EK; [|assumption]. apply ck_eqb_eq in EK. subst K'.
    eapply remove_nth_keeps; eauto.
  - intros K' k' y Hy. rewrite detached_children in Hy by assumption.
    destruct (detached_shape s K k i x) as [_ SK]. rewrite !SK.
    destruct (Nat.eqb_spec k k') as [<-|Hkk]; cbn in Hy.
    + destruct (ck_eqb K K') eqn:EK.
      * apply ck_eqb_eq in EK. subst K'. apply remove_nth_in in Hy. apply (inv_ty s I); assumption.
      * apply (inv_ty s I); assumption.
    + apply (inv_ty s I); assumption.
  - intros a. rewrite detached_eqs. apply (inv_en s I).
Qed.

(* ------------------------------------------------------------------------------------------------ attach *)

(** list K of k becomes l' (= the old list plus x somewhere) and x names k as parent *)
Definition attached (s : state) (K : ck) (k x : nat) (l' : list nat) : state :=
  set_children (set_parent_of s x (Some k)) K k l'.

Lemma attached_children : forall s K k x l' K' k', inr s k ->
  children (attached s K k x l') K' k' = if Nat.eqb k k' && ck_eqb K K' then l' else children s K' k'.
Proof.
  intros s K k x l' K' k' Hk. unfold attached. rewrite children_set_children, length_set_parent_of, children_set_parent_of.
  rewrite (ltb_inr _ _ Hk), andb_true_r. reflexivity.
Qed.

Lemma attached_parent : forall s K k x l' y, inr s x ->
  parent_of (attached s K k x l') y = if Nat.eqb x y then Some k else parent_of s y.
Proof.
  intros s K k x l' y Hx. unfold attached. rewrite parent_set_children, parent_set_parent_of.
  rewrite (ltb_inr _ _ Hx), andb_true_r. reflexivity.
Qed.

Lemma attached_eqs : forall s K k x l' y, eqs_of (attached s K k x l') y = eqs_of s y.
Proof. intros. unfold attached. rewrite eqs_set_children, eqs_set_parent_of. reflexivity. Qed.

Lemma attached_shape : forall s K k x l', same_shape s (attached s K k x l').
Proof.
  intros. unfold attached. eapply same_shape_trans; [apply same_shape_set_parent_of|apply same_shape_set_children].
Qed.

Lemma attached_inv : forall s K k x l',
  Inv s -> inr s k -> inr s x ->
  parent_of s x = None ->
  kindd s x = child_kind K -> lists (kindd s k) K = true ->
  NoDup l' -> (forall y, In y l' <-> y = x \/ In y (children s K k)) ->
  x <> k -> ~ anc s k x ->
  Inv (attached s K k x l').
Proof.
  intros s K k x l' I Hk Hx Hpx Hkx Hkk Hnd Hl Hne Hanc.
  assert (Hfree : forall K' k', ~ In x (children s K' k')).
  { intros K' k' H. apply (inv_cp s I) in H. congruence. }
  constructor.
  - intros K' k' y Hy. rewrite attached_children in Hy by assumption. rewrite attached_parent by assumption.
    destruct (Nat.eqb_spec k k') as [<-|Hkk']; cbn in Hy.
    + destruct (ck_eqb K K') eqn:EK.
      * apply Hl in Hy. destruct Hy as [->|Hy]; [rewrite Nat.eqb_refl; reflexivity|].
        destruct (Nat.eqb_spec x y) as [<-|Hxy]; [reflexivity|]. eapply inv_cp; eauto.
      * destruct (Nat.eqb_spec x y) as [<-|Hxy]; [reflexivity|]. eapply inv_cp; eauto.
    + destruct (Nat.eqb_spec x y) as [<-|Hxy]; [exfalso; eapply Hfree; eauto|]. eapply inv_cp; eauto.
  - intros K' k'. rewrite attached_children by assumption.
    destruct (Nat.eqb k k' && ck_eqb K K'); [assumption|apply (inv_nd s I)].
  - intros y Hy.
    assert (E : forall a p, par (attached s K k x l') a p -> par s a p \/ (a = x /\ p = k)).
    { intros a p Hp. unfold par in *. rewrite attached_parent in Hp by assumption.
      destruct (Nat.eqb_spec x a) as [<-|Hxa]; [right; split; congruence|left; assumption]. }
    destruct (anc_add_edge s _ x k E _ _ Hy) as [H|[[->|H1] [->|H2]]].
    + eapply inv_ac; eauto.
    + apply Hne. reflexivity.
    + apply Hanc. assumption.
    + apply Hanc. assumption.
    + apply Hanc. eapply anc_trans; eauto.
  - intros a b. rewrite !attached_eqs. apply (inv_eq s I).
  - intros y p Hp. rewrite attached_parent in Hp by assumption.
    destruct (Nat.eqb_spec x y) as [<-|Hxy].
    + inversion Hp; subst p. exists K. rewrite attached_children by assumption.
      rewrite Nat.eqb_refl, ck_eqb_refl. cbn. apply Hl. left. reflexivity.
    + destruct (inv_ln s I _ _ Hp) as [K' HK']. exists K'. rewrite attached_children by assumption.
      destruct (Nat.eqb_spec k p) as [<-|Hkp]; cbn; [|assumption].
      destruct (ck_eqb K K') eqn:EK; [|assumption]. apply ck_eqb_eq in EK. subst K'. apply Hl. right. assumption.
  - intros K' k' y Hy. rewrite attached_children in Hy by assumption.
    destruct (attached_shape s K k x l') as [_ SK]. rewrite !SK.
    destruct (Nat.eqb_spec k k') as [<-|Hkk']; cbn in Hy.
    + destruct (ck_eqb K K') eqn:EK.
      * apply ck_eqb_eq in EK. subst K'. apply Hl in Hy. destruct Hy as [->|Hy]; [split; assumption|].
        apply (inv_ty s I); assumption.
      * apply (inv_ty s I); assumption.
    + apply (inv_ty s I); assumption.
  - intros a. rewrite attached_eqs. apply (inv_en s I).
Qed.

(* ------------------------------------------------------------------------------------------------ clear a list *)

Lemma fold_clear_parent : forall l s y,
  parent_of (fold_left (fun s' x => set_parent_of s' x None) l s) y =
  if existsb (fun x => Nat.eqb x y && Nat.ltb x (List.length (objs s))) l then None else parent_of s y.
Proof.
  induction l as [|a t IH]; intros s y; [reflexivity|].
  change (fold_left (fun s' x => set_parent_of s' x None) (a :: t) s)
    with (fold_left (fun s' x => set_parent_of s' x None) t (set_parent_of s a None)).
  rewrite IH, length_set_parent_of, parent_set_parent_of.
  change (existsb (fun x => Nat.eqb x y && Nat.ltb x (List.length (objs s))) (a :: t))
    with ((Nat.eqb a y && Nat.ltb a (List.length (objs s))) || existsb (fun x => Nat.eqb x y && Nat.ltb x (List.length (objs s))) t).
  destruct (Nat.eqb a y && Nat.ltb a (List.length (objs s))); cbn [orb];
    destruct (existsb (fun x => Nat.eqb x y && Nat.ltb x (List.length (objs s))) t); reflexivity.
Qed.

Lemma fold_clear_children : forall l s K k,
  children (fold_left (fun s' x => set_parent_of s' x None) l s) K k = children s K k.
Proof.
  induction l as [|a t IH]; intros s K k; cbn; [reflexivity|]. rewrite IH. apply children_set_parent_of.
Qed.

Lemma fold_clear_eqs : forall l s y,
  eqs_of (fold_left (fun s' x => set_parent_of s' x None) l s) y = eqs_of s y.
Proof.
  induction l as [|a t IH]; intros s y; cbn; [reflexivity|]. rewrite IH. apply eqs_set_parent_of.
Qed.

Lemma fold_clear_shape : forall l s, same_shape s (fold_left (fun s' x => set_parent_of s' x None) l s).
Proof.
  induction l as [|a t IH]; intros s; cbn; [apply same_shape_refl|].
  eapply same_shape_trans; [apply same_shape_set_parent_of|apply IH].
Qed.

Lemma remove_all_children_inv : forall s K k, Inv s -> Inv (remove_all_children s K k).
Proof.
  intros s K k I. unfold remove_all_children.
  set (l := children s K k). set (s1 := fold_left (fun s' x => set_parent_of s' x None) l s).
  destruct (Nat.lt_ge_cases k (List.length (objs s))) as [Hk|Hk].
  2:{ (* receiver out of range: nothing happens *)
    assert (El : l = []) by (apply children_oob; unfold inr; lia). subst s1. rewrite El. cbn [fold_left].
    assert (E : forall y, getd (set_children s K k []) y = getd s y).
    { intros y. unfold set_children. apply upd_oob. unfold inr. lia. }
    apply inv_transport with (s := s); auto.
    - intros K' k'. unfold children. rewrite E. reflexivity.
    - intros y. unfold parent_of. rewrite E. reflexivity.
    - intros y. unfold kindd. rewrite E. reflexivity.
    - intros a b. unfold eqs_of. rewrite !E. apply (inv_eq s I).
    - intros a. unfold eqs_of. rewrite E. apply (inv_en s I). }
  assert (S1 : same_shape s s1) by apply fold_clear_shape.
  assert (Hk1 : Nat.ltb k (List.length (objs s1)) = true) by (destruct S1 as [L _]; rewrite L; apply Nat.ltb_lt; exact Hk).
  assert (PC : forall y, parent_of (set_children s1 K k []) y = if memb y l then None else parent_of s y).
  { intros y. rewrite parent_set_children. subst s1. rewrite fold_clear_parent.
    destruct (memb y l) eqn:M.
    - apply memb_true in M. replace (existsb _ l) with true; [reflexivity|]. symmetry. apply existsb_exists.
      exists y. split; [assumption|]. rewrite Nat.eqb_refl. cbn. apply Nat.ltb_lt.
      apply (inv_cp s I) in M. apply parent_inr in M. exact M.
    - apply memb_false in M. replace (existsb _ l) with false; [reflexivity|]. symmetry.
      apply not_true_is_false. intros E. apply existsb_exists in E. destruct E as [z [Hz Ez]].
      apply andb_true_iff in Ez. destruct Ez as [Ez _]. apply Nat.eqb_eq in Ez. subst. contradiction. }
  assert (CC : forall K' k', children (set_children s1 K k []) K' k' =
                            if Nat.eqb k k' && ck_eqb K K' then [] else children s K' k').
  { intros K' k'. rewrite children_set_children. rewrite Hk1, andb_true_r. subst s1. rewrite fold_clear_children. reflexivity. }
  constructor.
  - intros K' k' y Hy. rewrite CC in Hy. rewrite PC.
    destruct (Nat.eqb_spec k k') as [<-|Hkk]; cbn in Hy.
    + destruct (ck_eqb K K') eqn:EK; [destruct Hy|].
      destruct (memb y l) eqn:M; [|eapply inv_cp; eauto]. apply memb_true in M.
      destruct (inv_unique s I _ _ _ _ _ M Hy) as [E _]. subst. rewrite ck_eqb_refl in EK. discriminate.
    + destruct (memb y l) eqn:M; [|eapply inv_cp; eauto]. apply memb_true in M.
      destruct (inv_unique s I _ _ _ _ _ M Hy) as [_ E]. contradiction.
  - intros K' k'. rewrite CC. destruct (Nat.eqb k k' && ck_eqb K K'); [constructor|apply (inv_nd s I)].
  - intros y Hy. apply (inv_ac s I y). eapply anc_mono; [|exact Hy].
    intros a p Hp. unfold par in *. rewrite PC in Hp. destruct (memb a l); [discriminate|assumption].
  - intros a b. rewrite !eqs_set_children. subst s1. rewrite !fold_clear_eqs. apply (inv_eq s I).
  - intros y p Hp. rewrite PC in Hp. destruct (memb y l) eqn:M; [discriminate|]. apply memb_false in M.
    destruct (inv_ln s I _ _ Hp) as [K' HK']. exists K'. rewrite CC.
    destruct (Nat.eqb_spec k p) as [<-|Hkp]; cbn; [|assumption].
    destruct (ck_eqb K K') eqn:EK; [|assumption]. apply ck_eqb_eq in EK. subst K'. contradiction.
  - intros K' k' y Hy. rewrite CC in Hy.
    assert (SK : forall z, kindd (set_children s1 K k []) z = kindd s z).
    { intros z. destruct (same_shape_set_children s1 K k []) as [_ A]. rewrite A. destruct S1 as [_ B]. apply B. }
    rewrite !SK.
    destruct (Nat.eqb k k' && ck_eqb K K'); [destruct Hy|]. apply (inv_ty s I); assumption.
  - intros a. rewrite eqs_set_children. subst s1. rewrite fold_clear_eqs. apply (inv_en s I).
Qed.

(* ------------------------------------------------------------------------------------------------ edits that touch neither parents nor lists *)

Lemma upd_link_inv : forall s x f,
  Inv s ->
  (forall o K, clist K (f o) = clist K o) -> (forall o, o_parent (f o) = o_parent o) ->
  (forall o, o_kind (f o) = o_kind o) -> (forall o, o_eqs (f o) = o_eqs o) ->
  Inv (upd s x f).
Proof.
  intros s x f I HC HP HK HE.
  assert (G : forall y, getd (upd s x f) y = getd s y \/ getd (upd s x f) y = f (getd s y)).
  { intros y. rewrite getd_upd. destruct (Nat.eqb x y && Nat.ltb x (List.length (objs s))); auto. }
  apply inv_transport with (s := s); auto.
  - intros K k. unfold children. destruct (G k) as [->| ->]; auto.
  - intros y. unfold parent_of. destruct (G y) as [->| ->]; auto.
  - intros y. unfold kindd. destruct (G y) as [->| ->]; auto.
  - intros a b. unfold eqs_of. destruct (G a) as [->| ->]; destruct (G b) as [->| ->]; rewrite ?HE; apply (inv_eq s I).
  - intros a. unfold eqs_of. destruct (G a) as [->| ->]; rewrite ?HE; apply (inv_en s I).
Qed.

(* ------------------------------------------------------------------------------------------------ destruction *)

Lemma gc_obj_blank : forall live b, gc_obj live b blank = blank.
Proof. intros live b. destruct b; reflexivity. Qed.

Lemma getd_gc_with : forall live s x, getd (gc_with live s) x = gc_obj live (live x) (getd s x).
Proof.
  intros live s x. unfold getd, gc_with. cbn.
  destruct (Nat.lt_ge_cases x (List.length (objs s))) as [L|G].
  - rewrite mapi_from_nth with (d := blank) by assumption. reflexivity.
  - rewrite !nth_overflow; [|lia|rewrite mapi_from_length; lia]. symmetry. apply gc_obj_blank.
Qed.

Lemma gc_children : forall live s K k, children (gc_with live s) K k = if live k then children s K k else [].
Proof.
  intros. unfold children. rewrite getd_gc_with. unfold gc_obj. destruct (live k); destruct K; reflexivity.
Qed.

Lemma gc_parent : forall live s y, parent_of (gc_with live s) y = ofilter live (parent_of s y).
Proof.
  intros. unfold parent_of. rewrite getd_gc_with. unfold gc_obj. destruct (live y); reflexivity.
Qed.

Lemma gc_eqs : forall live s y, eqs_of (gc_with live s) y = if live y then filter live (eqs_of s y) else [].
Proof.
  intros. unfold eqs_of. rewrite getd_gc_with. unfold gc_obj. destruct (live y); reflexivity.
Qed.

Lemma gc_shape : forall live s, same_shape s (gc_with live s).
Proof.
  intros. split; [unfold gc_with; cbn; apply mapi_from_length|].
  intros y. unfold kindd. rewrite getd_gc_with. unfold gc_obj. destruct (live y); reflexivity.
Qed.

Lemma ofilter_some : forall live o p, ofilter live o = Some p -> o = Some p /\ live p = true.
Proof.
  intros live o p H. destruct o as [a|]; cbn in H; [|discriminate].
  destruct (live a) eqn:E; [|discriminate]. inversion H; subst. split; auto.
Qed.

(** holds for ANY liveness predicate: the proof never needs to know what reachability is *)
Lemma gc_with_inv : forall live s, Inv s -> Inv (gc_with live s).
Proof.
  intros live s I. constructor.
  - intros K k x H. rewrite gc_children in H. destruct (live k) eqn:Lk; [|destruct H].
    rewrite gc_parent. rewrite (inv_cp s I _ _ _ H). cbn. rewrite Lk. reflexivity.
  - intros K k. rewrite gc_children. destruct (live k); [apply (inv_nd s I)|constructor].
  - intros x Hx. apply (inv_ac s I x). eapply anc_mono; [|exact Hx].
    intros a p Hp. unfold par in *. rewrite gc_parent in Hp. apply ofilter_some in Hp. tauto.
  - intros a b H. rewrite gc_eqs in *. destruct (live a) eqn:La; [|destruct H].
    apply filter_In in H. destruct H as [H Lb]. rewrite Lb. apply filter_In. split; [|assumption].
    apply (inv_eq s I); assumption.
  - intros x p H. rewrite gc_parent in H. apply ofilter_some in H. destruct H as [H Lp].
    destruct (inv_ln s I _ _ H) as [K HK]. exists K. rewrite gc_children, Lp. exact HK.
  - intros K k x H. rewrite gc_children in H. destruct (live k) eqn:Lk; [|destruct H].
    destruct (gc_shape live s) as [_ SK]. rewrite !SK. apply (inv_ty s I); assumption.
  - intros a. rewrite gc_eqs. destruct (live a); [apply NoDup_filter; apply (inv_en s I)|constructor].
Qed.

Lemma gc_inv : forall s, Inv s -> Inv (gc s).
Proof. intros s I. unfold gc. apply gc_with_inv. exact I. Qed.

Lemma gc_shape' : forall s, same_shape s (gc s).
Proof. intros s. unfold gc. apply gc_shape. Qed.

Lemma handles_gc : forall s, handles (gc s) = handles s.
Proof. reflexivity. Qed.

(** handles play no role in the invariant *)
Lemma inv_handles : forall s h, Inv s -> Inv (mkState (objs s) h).
Proof.
  intros s h I. apply inv_transport with (s := s); auto.
  - intros a b. apply (inv_eq s I).
  - apply (inv_en s I).
Qed.
