(** RoundtripStableConnProofs.v — the second round for models WITH connections (C02; no imports, any hierarchy).
    The model m' the strict parser builds from the first document is known exactly (RoundtripConnFinalProofs).  Here:
    every conjunct of [printable] except [eqv_ok] holds of m' for EVERY printable m, and m' has no imports; hence ONE
    decidable premise - [eqv_ok true m' = true], about the resolved equivalences only - gives the whole second round:
    m' is printable, prints to the intended tree, parses strictly without issue to a model with the content of canon m'. *)
From Coq Require Import String Ascii List Bool ZArith Arith Lia Permutation.
From LC Require Import Common NumDefs XmlDefs EntTreeDefs PrintDefs LoadDefs RoundtripSpec XmlTextProofs
     RoundtripReadProofs RoundtripLoadProofs RoundtripFlatProofs RoundtripEncProofs RoundtripStableProofs
     RoundtripConnProofs RoundtripConnTopProofs RoundtripConnFinalProofs RoundtripStableEncProofs RoundtripWitness.
Import ListNotations.
Local Open Scope string_scope.
Local Open Scope bool_scope.
Local Open Scope list_scope.

Opaque str_ok num_ok order_ok math_ok isrc_ok.

Definition drop_eqv (m : model) : model :=
  {| m_name := m_name m; m_id := m_id m; m_encid := m_encid m; m_units := m_units m; m_comps := m_comps m; m_eqv := [] |}.

Lemma printable_drop_eqv : forall E m, printable E true m -> no_imports m = true ->
  printable E true (drop_eqv m) /\ no_imports (drop_eqv m) = true.
Proof.
  intros E m H Hni. split; [|exact Hni]. unfold printable, printableb in *.
  apply andb_true_iff in H. destruct H as [H _]. apply andb_true_iff. split; [exact H|].
  unfold eqv_ok. cbn [drop_eqv m_eqv forallb edges_distinct one_cid_per_pair andb orb]. rewrite andb_true_r.
  unfold placeholders_connected. cbn [drop_eqv m_comps m_eqv]. unfold no_imports in Hni. apply andb_true_iff in Hni. destruct Hni as [_ Bc].
  apply forallb_forall. intros pc Hpc. rewrite (proj1 (forallb_forall _ _) Bc pc Hpc). reflexivity.
Qed.

Section StableConn.
Variable E : env.
Hypothesis num_stable : forall x, num_ok E x = true -> num_ok E (round15 E x) = true /\ round15 E (round15 E x) = round15 E x.
Hypothesis math_stable : forall s, math_ok E s = true ->
  math_ok E (canon_math E s) = true /\ canon_math E (canon_math E s) = canon_math E s
  /\ has_math E (canon_math E s) = has_math E s.

(** a model with the units and components of the re-parsed model and ANY equivalences *)
Definition with_eqv (m : model) (es : list eqv) : model :=
  {| m_name := m_name m; m_id := m_id m; m_encid := m_encid m; m_units := map (canon_units E) (m_units m);
     m_comps := map (canon_comp E) (enc_order (m_comps m)); m_eqv := es |}.

Lemma with_eqv_printable : forall m es, printable E true m -> no_imports m = true ->
  no_imports (with_eqv m es) = true /\ (eqv_ok true (with_eqv m es) = true -> printable E true (with_eqv m es)).
Proof.
  intros m es H Hni. destruct (printable_drop_eqv E m H Hni) as [Hd Hdi].
  assert (Hdc : no_connections (drop_eqv m) = true) by reflexivity.
  destruct (printable_reordered E (drop_eqv m) Hd Hdi Hdc) as (Hp0 & Hni0 & Hnc0).
  pose proof (printable_canon_nc E num_stable math_stable _ Hp0 Hni0 Hnc0) as Hp1.
  pose proof (no_imports_canon E _ Hni0) as Hni1.
  split; [exact Hni1|]. intros Heq. unfold printable, printableb in *. rewrite Heq, andb_true_r.
  apply andb_true_iff in Hp1. destruct Hp1 as [Hp1 _]. exact Hp1.
Qed.

Theorem second_round_conn : forall m, printable E true m -> no_imports m = true ->
  exists m', print_model E true m = Some (print_tree E m) /\ load E true true (print_tree E m) = (m', [])
    /\ content_eq m' (canon E m) /\ no_imports m' = true
    /\ (eqv_ok true m' = true ->
        printable E true m'
        /\ exists m'', print_model E true m' = Some (print_tree E m') /\ load E true true (print_tree E m') = (m'', [])
                       /\ content_eq m'' (canon E m')).
Proof.
  intros m H Hni. destruct (roundtrip_conn_final E m H Hni) as (m' & H1 & H2 & H3 & H4).
  exists m'. split; [exact H1|]. split; [exact H2|]. split; [exact H3|].
  match type of H4 with _ = {| m_name := _; m_id := _; m_encid := _; m_units := _; m_comps := _; m_eqv := ?es |} =>
    assert (Hw : m' = with_eqv m es) by exact H4 end.
  rewrite Hw. match goal with |- context [with_eqv m ?es] => destruct (with_eqv_printable m es H Hni) as [Hi Hp] end. split; [exact Hi|].
  intros Heq. specialize (Hp Heq). split; [exact Hp|].
  destruct (roundtrip_conn_final E _ Hp Hi) as (m'' & K1 & K2 & K3 & _). exists m''. auto.
Qed.

End StableConn.

(** non-vacuity: the premise holds of the re-parsed model of a printable model with crossed connections *)
Lemma second_round_conn_nonvacuous :
  printableb E_stable true w_crossed_names = true /\ no_imports w_crossed_names = true
  /\ negb (no_connections w_crossed_names) = true
  /\ eqv_ok true (fst (load E_stable true true (print_tree E_stable w_crossed_names))) = true.
Proof. vm_compute. repeat split; reflexivity. Qed.
