(** GramDefs.v — tokens, expression trees, lexer and precedence-climbing parser for the expression
    sub-languages of C and Python that libcellml's generator can emit (C03).  No proofs.

    This file is the *specification of how a C compiler / the Python interpreter read a generated
    expression* (assumption A-cc; checked at run time by compiling / executing generated code).

    C (ISO C11 6.5), tightest first:
       primary      ident | number | ( expression ) | ident ( args )          level 9
       unary        - unary | ! unary                                         level 8
       multiplicative  * /   left                                             level 7
       additive        + -   left                                             level 6
       relational      < <= > >=  left                                        level 5
       equality        == !=  left                                            level 4
       logical and     &&  left                                               level 3
       logical or      ||  left                                               level 2
       conditional     lor ? expression : conditional   (right)               level 1
    "++" and "--" are tokens (maximal munch), so "--3.0" is a decrement, which no rule here accepts.

    Python 3 (reference 6.x), for what the generator emits (relational and logical operators are function
    calls in the Python profile):
       atom / call                                                            level 9
       u_expr       - u_expr                                                  level 8
       m_expr       * /   left                                                level 7
       a_expr       + -   left                                                level 6
       conditional  or_test [ if or_test else expression ]                    level 1 (operands at level 2)
    "--x" is two unary minus signs.

    An argument of a call is parsed at level 1 (C: assignment-expression, Python: expression); the comma
    operator and assignment are not part of the emitted language. *)
From Coq Require Import String Ascii List Bool Arith.
From LC Require Import NumDefs.
Import ListNotations.
Local Open Scope string_scope.
Local Open Scope bool_scope.

Inductive lang : Set := LC | LPy.

Definition is_C (L : lang) : bool := match L with LC => true | LPy => false end.

Inductive token : Set :=
| TId (s : string) | TNum (s : string)
| TLp | TRp | TComma | TPlus | TMinus | TStar | TSlash
| TPlusPlus | TMinusMinus | TBang
| TLt | TLe | TGt | TGe | TEqEq | TNe | TAndAnd | TOrOr
| TQuest | TColon | TAssign | TIf | TElse.

Inductive binop : Set := Add | Sub | Mul | Div | Lt | Le | Gt | Ge | Eq | Ne | And | Or.

Inductive tree : Set :=
| TVar (s : string)
| TLit (s : string)
| TNeg (a : tree)
| TNot (a : tree)
| TBin (op : binop) (a b : tree)
| TCond (c a b : tree)               (* if c then a else b *)
| TCall1 (f : string) (a : tree)
| TCall2 (f : string) (a b : tree).

(** ** lexer *)

Definition in_range (lo hi : nat) (c : ascii) : bool :=
  let n := nat_of_ascii c in (lo <=? n)%nat && (n <=? hi)%nat.
Definition is_alpha (c : ascii) : bool := in_range 97 122 c || in_range 65 90 c || Ascii.eqb c "_".
Definition is_blank (c : ascii) : bool := Ascii.eqb c " ".
(* inside an identifier; '[' and ']' let "variables[3]" be one primary expression *)
Definition ident_char (c : ascii) : bool := is_alpha c || is_digit c || Ascii.eqb c "[" || Ascii.eqb c "]".
Definition is_e (c : ascii) : bool := Ascii.eqb c "e" || Ascii.eqb c "E".

Inductive lstate : Set :=
| LIdle
| LIdent (acc : string)
| LNum (acc : string) (after_e : bool).

Definition snoc (s : string) (c : ascii) : string := s ++ String c EmptyString.

(* does [c] extend the token being accumulated? *)
Definition continues (st : lstate) (c : ascii) : bool :=
  match st with
  | LIdle => false
  | LIdent _ => ident_char c
  | LNum _ ae => is_digit c || Ascii.eqb c "." || is_alpha c || (ae && (Ascii.eqb c "+" || Ascii.eqb c "-"))
  end.

Definition extend (st : lstate) (c : ascii) : lstate :=
  match st with
  | LIdle => LIdle
  | LIdent acc => LIdent (snoc acc c)
  | LNum acc _ => LNum (snoc acc c) (is_e c)
  end.

Definition ident_token (s : string) : token :=
  if String.eqb s "if" then TIf else if String.eqb s "else" then TElse else TId s.

(* the pending token; a numeric text must be a well-formed decimal floating literal (letters glued to a
   number, as in "1E5.0" or "2.0x", make it ill-formed) *)
Definition flush (st : lstate) : option (list token) :=
  match st with
  | LIdle => Some []
  | LIdent acc => Some [ident_token acc]
  | LNum acc _ => if real_dfa acc then Some [TNum acc] else None
  end.

Definition ocons (t : token) (o : option (list token)) : option (list token) :=
  match o with Some l => Some (t :: l) | None => None end.
Definition oapp (pre : option (list token)) (o : option (list token)) : option (list token) :=
  match pre, o with Some a, Some b => Some (List.app a b) | _, _ => None end.

Section Lex.
Variable L : lang.

Fixpoint lex_go (st : lstate) (s : string) : option (list token) :=
  match s with
  | EmptyString => flush st
  | String c s' =>
      if continues st c then lex_go (extend st c) s'
      else
        oapp (flush st)
          (if is_blank c then lex_go LIdle s'
           else if is_alpha c then lex_go (LIdent (String c EmptyString)) s'
           else if is_digit c || Ascii.eqb c "." then lex_go (LNum (String c EmptyString) false) s'
           else if Ascii.eqb c "(" then ocons TLp (lex_go LIdle s')
           else if Ascii.eqb c ")" then ocons TRp (lex_go LIdle s')
           else if Ascii.eqb c "," then ocons TComma (lex_go LIdle s')
           else if Ascii.eqb c "*" then ocons TStar (lex_go LIdle s')
           else if Ascii.eqb c "/" then ocons TSlash (lex_go LIdle s')
           else if Ascii.eqb c ":" then ocons TColon (lex_go LIdle s')
           else if Ascii.eqb c "?" then (if is_C L then ocons TQuest (lex_go LIdle s') else None)
           else if Ascii.eqb c "+" then
                  match s' with
                  | String d s'' => if is_C L && Ascii.eqb d "+" then ocons TPlusPlus (lex_go LIdle s'')
                                    else ocons TPlus (lex_go LIdle s')
                  | EmptyString => ocons TPlus (lex_go LIdle s')
                  end
           else if Ascii.eqb c "-" then
                  match s' with
                  | String d s'' => if is_C L && Ascii.eqb d "-" then ocons TMinusMinus (lex_go LIdle s'')
                                    else ocons TMinus (lex_go LIdle s')
                  | EmptyString => ocons TMinus (lex_go LIdle s')
                  end
           else if Ascii.eqb c "<" then
                  match s' with
                  | String d s'' => if Ascii.eqb d "=" then ocons TLe (lex_go LIdle s'')
                                    else ocons TLt (lex_go LIdle s')
                  | EmptyString => ocons TLt (lex_go LIdle s')
                  end
           else if Ascii.eqb c ">" then
                  match s' with
                  | String d s'' => if Ascii.eqb d "=" then ocons TGe (lex_go LIdle s'')
                                    else ocons TGt (lex_go LIdle s')
                  | EmptyString => ocons TGt (lex_go LIdle s')
                  end
           else if Ascii.eqb c "=" then
                  match s' with
                  | String d s'' => if Ascii.eqb d "=" then ocons TEqEq (lex_go LIdle s'')
                                    else ocons TAssign (lex_go LIdle s')
                  | EmptyString => ocons TAssign (lex_go LIdle s')
                  end
           else if Ascii.eqb c "!" then
                  match s' with
                  | String d s'' => if Ascii.eqb d "=" then ocons TNe (lex_go LIdle s'')
                                    else if is_C L then ocons TBang (lex_go LIdle s') else None
                  | EmptyString => if is_C L then ocons TBang (lex_go LIdle s') else None
                  end
           else if Ascii.eqb c "&" then
                  match s' with
                  | String d s'' => if is_C L && Ascii.eqb d "&" then ocons TAndAnd (lex_go LIdle s'') else None
                  | EmptyString => None
                  end
           else if Ascii.eqb c "|" then
                  match s' with
                  | String d s'' => if is_C L && Ascii.eqb d "|" then ocons TOrOr (lex_go LIdle s'') else None
                  | EmptyString => None
                  end
           else None)
  end.

Definition lex (s : string) : option (list token) := lex_go LIdle s.

(** ** parser: precedence climbing.  [pe m ts] parses an expression whose binary operators all have level >= m. *)

Definition binop_info (t : token) : option (binop * nat) :=
  match t with
  | TStar => Some (Mul, 7)
  | TSlash => Some (Div, 7)
  | TPlus => Some (Add, 6)
  | TMinus => Some (Sub, 6)
  | TLt => if is_C L then Some (Lt, 5) else None
  | TLe => if is_C L then Some (Le, 5) else None
  | TGt => if is_C L then Some (Gt, 5) else None
  | TGe => if is_C L then Some (Ge, 5) else None
  | TEqEq => if is_C L then Some (Eq, 4) else None
  | TNe => if is_C L then Some (Ne, 4) else None
  | TAndAnd => if is_C L then Some (And, 3) else None
  | TOrOr => if is_C L then Some (Or, 2) else None
  | _ => None
  end.

Definition result : Set := option (tree * list token).

Section Inner.
Variable pe : nat -> list token -> result.

Definition pprefix (ts : list token) : result :=
  match ts with
  | TNum s :: r => Some (TLit s, r)
  | TId f :: TLp :: r =>
      match pe 1 r with
      | Some (a, TRp :: r') => Some (TCall1 f a, r')
      | Some (a, TComma :: r') =>
          match pe 1 r' with
          | Some (b, TRp :: r'') => Some (TCall2 f a b, r'')
          | _ => None
          end
      | _ => None
      end
  | TId s :: r => Some (TVar s, r)
  | TLp :: r =>
      match pe 1 r with
      | Some (a, TRp :: r') => Some (a, r')
      | _ => None
      end
  | TMinus :: r =>
      match pe 8 r with
      | Some (a, r') => Some (TNeg a, r')
      | None => None
      end
  | TBang :: r =>
      if is_C L then
        match pe 8 r with
        | Some (a, r') => Some (TNot a, r')
        | None => None
        end
      else None
  | _ => None
  end.

(* [g] bounds the number of iterations *)
Fixpoint ploop (g : nat) (m : nat) (lhs : tree) (ts : list token) : result :=
  match ts with
  | [] => Some (lhs, [])
  | TQuest :: r =>
      if is_C L && (m <=? 1)%nat then
        match g with
        | 0 => None
        | S g' =>
            match pe 1 r with
            | Some (a, TColon :: r') =>
                match pe 1 r' with
                | Some (b, r'') => ploop g' m (TCond lhs a b) r''
                | None => None
                end
            | _ => None
            end
        end
      else Some (lhs, ts)
  | TIf :: r =>
      if negb (is_C L) && (m <=? 1)%nat then
        match g with
        | 0 => None
        | S g' =>
            match pe 2 r with
            | Some (c, TElse :: r') =>
                match pe 1 r' with
                | Some (b, r'') => ploop g' m (TCond c lhs b) r''
                | None => None
                end
            | _ => None
            end
        end
      else Some (lhs, ts)
  | t :: r =>
      match binop_info t with
      | Some (op, q) =>
          if (m <=? q)%nat then
            match g with
            | 0 => None
            | S g' =>
                match pe (S q) r with
                | Some (rhs, r') => ploop g' m (TBin op lhs rhs) r'
                | None => None
                end
            end
          else Some (lhs, ts)
      | None => Some (lhs, ts)
      end
  end.
End Inner.

Fixpoint pexpr (f : nat) (m : nat) (ts : list token) : result :=
  match f with
  | 0 => None
  | S f' =>
      match pprefix (pexpr f') ts with
      | Some (lhs, ts') => ploop (pexpr f') f' m lhs ts'
      | None => None
      end
  end.

(* the whole token list must be one expression *)
Definition parse (ts : list token) : option tree :=
  match pexpr (S (length ts)) 1 ts with
  | Some (t, []) => Some t
  | _ => None
  end.

Definition read (s : string) : option tree :=
  match lex s with
  | Some ts => parse ts
  | None => None
  end.

End Lex.
