(** IfaceProofs.v — lemmas behind Properties_C19.v. *)
From Coq Require Import String Ascii List Bool Arith Lia.
From LC Require Import IfaceDefs IfaceSpec.
From LCGen Require Import IfaceTable UnitTables.
Import ListNotations.
Local Open Scope string_scope.

(* ------------------------------------------------------------------------------------------------ *)
(** * Generalities *)

(** Induction over the component tree (nested through [list]). *)
Lemma comp_ind' (P : comp -> Prop) :
  (forall t i vs ks, Forall P ks -> P (Comp t i vs ks)) -> forall c, P c.
Proof.
  intros H. fix IH 1. intros [t i vs ks]. apply H.
  induction ks as [|k ks IHks]; constructor; [apply IH | exact IHks].
Qed.

Lemma flat_map_map {A B C} (f : A -> B) (g : B -> list C) l :
  flat_map g (map f l) = flat_map (fun x => g (f x)) l.
Proof. induction l as [|a l IHl]; cbn; [reflexivity | now rewrite IHl]. Qed.

Lemma map_flat_map {A B C} (f : B -> C) (g : A -> list B) l :
  map f (flat_map g l) = flat_map (fun x => map f (g x)) l.
Proof. induction l as [|a l IHl]; cbn; [reflexivity | now rewrite map_app, IHl]. Qed.

Lemma flat_map_ext_Forall {A B} (f g : A -> list B) l :
  Forall (fun x => f x = g x) l -> flat_map f l = flat_map g l.
Proof. induction 1 as [|a l Ha _ IHl]; cbn; [reflexivity | now rewrite Ha, IHl]. Qed.

Lemma map_ext_Forall {A B} (f g : A -> B) l :
  Forall (fun x => f x = g x) l -> map f l = map g l.
Proof. induction 1 as [|a l Ha _ IHl]; cbn; [reflexivity | now rewrite Ha, IHl]. Qed.

Lemma filter_flat_map {A B} (p : B -> bool) (g : A -> list B) l :
  filter p (flat_map g l) = flat_map (fun x => filter p (g x)) l.
Proof. induction l as [|a l IHl]; cbn; [reflexivity | now rewrite filter_app, IHl]. Qed.

Lemma filter_map_comm {A B} (p : B -> bool) (f : A -> B) l :
  filter p (map f l) = map f (filter (fun x => p (f x)) l).
Proof. induction l as [|a l IHl]; cbn; [reflexivity | destruct (p (f a)); cbn; now rewrite IHl]. Qed.

Lemma forallb_flat_map {A B} (p : B -> bool) (g : A -> list B) l :
  forallb p (flat_map g l) = forallb (fun x => forallb p (g x)) l.
Proof. induction l as [|a l IHl]; cbn; [reflexivity | now rewrite forallb_app, IHl]. Qed.

Lemma existsb_flat_map {A B} (p : B -> bool) (g : A -> list B) l :
  existsb p (flat_map g l) = existsb (fun x => existsb p (g x)) l.
Proof. induction l as [|a l IHl]; cbn; [reflexivity | now rewrite existsb_app, IHl]. Qed.

Lemma forallb_map {A B} (p : B -> bool) (f : A -> B) l : forallb p (map f l) = forallb (fun x => p (f x)) l.
Proof. induction l as [|a l IHl]; cbn; [reflexivity | now rewrite IHl]. Qed.

Lemma existsb_map {A B} (p : B -> bool) (f : A -> B) l : existsb p (map f l) = existsb (fun x => p (f x)) l.
Proof. induction l as [|a l IHl]; cbn; [reflexivity | now rewrite IHl]. Qed.

Lemma forallb_ext_Forall {A} (p q : A -> bool) l :
  Forall (fun x => p x = q x) l -> forallb p l = forallb q l.
Proof. induction 1 as [|a l Ha _ IHl]; cbn; [reflexivity | now rewrite Ha, IHl]. Qed.

Lemma existsb_ext_Forall {A} (p q : A -> bool) l :
  Forall (fun x => p x = q x) l -> existsb p l = existsb q l.
Proof. induction 1 as [|a l Ha _ IHl]; cbn; [reflexivity | now rewrite Ha, IHl]. Qed.

Lemma opt_nat_eqb_eq a b : opt_nat_eqb a b = true <-> a = b.
Proof.
  destruct a as [x|], b as [y|]; cbn; try (split; congruence).
  rewrite Nat.eqb_eq. split; congruence.
Qed.

(* ------------------------------------------------------------------------------------------------ *)
(** * The regenerated table *)

Lemma table_facts :
  interface_type_enumerators = ["NONE"; "PRIVATE"; "PUBLIC"; "PUBLIC_AND_PRIVATE"] /\
  itype_string INone = "none" /\ itype_string IPrivate = "private" /\ itype_string IPublic = "public" /\
  itype_string IBoth = "public_and_private" /\
  permits_literal_none = "none" /\ permits_literal_both = "public_and_private".
Proof. repeat split; reflexivity. Qed.

Lemma str_private : itype_string IPrivate = "private". Proof. reflexivity. Qed.
Lemma str_public : itype_string IPublic = "public". Proof. reflexivity. Qed.
Lemma str_both : itype_string IBoth = "public_and_private". Proof. reflexivity. Qed.

(** permitsInterfaceType, spelled out *)
Lemma permits_spec s t :
  permits s t = true <->
  t = INone \/ s = "public_and_private" \/ s = itype_string t.
Proof.
  unfold permits.
  destruct (String.eqb (itype_string t) permits_literal_none) eqn:E1.
  - split; [|reflexivity]. intros _. left.
    apply String.eqb_eq in E1. destruct t; [reflexivity | discriminate E1 ..].
  - destruct (String.eqb s permits_literal_both) eqn:E2.
    + split; [|reflexivity]. intros _. right; left. apply String.eqb_eq in E2. exact E2.
    + rewrite String.eqb_eq. split.
      * intros H. right; right. symmetry; exact H.
      * intros [H|[H|H]].
        -- subst t. discriminate E1.
        -- subst s. discriminate E2.
        -- symmetry; exact H.
Qed.

Lemma compatible_self t : t <> INone -> iface_compatible t (itype_string t) = true.
Proof. destruct t; [congruence | reflexivity ..]. Qed.

Lemma compatible_both t : t <> INone -> iface_compatible t "public_and_private" = true.
Proof. destruct t; [congruence | reflexivity ..]. Qed.

(* ------------------------------------------------------------------------------------------------ *)
(** * classify = the declarative relations *)

Definition is_bad (k : eclass) : bool := match k with EBad => true | _ => false end.
Definition is_pub (k : eclass) : bool := match k with EPublic => true | _ => false end.
Definition is_priv (k : eclass) : bool := match k with EPrivate => true | _ => false end.

Lemma classify_public L o e :
  classify L (o_c o) (Some (o_p o)) e = EPublic <-> NeedsPublic L o e.
Proof.
  unfold classify, NeedsPublic, siblings. destruct (lookup_loc L e) as [[ce pe]|].
  - cbn [child_of].
    destruct (opt_nat_eqb (Some (o_p o)) pe || Nat.eqb (o_p o) ce) eqn:E.
    + split; [|reflexivity]. intros _. exists (ce, pe). split; [reflexivity|]. cbn.
      apply orb_true_iff in E. destruct E as [E|E].
      * left. apply opt_nat_eqb_eq in E. congruence.
      * right. apply Nat.eqb_eq in E. congruence.
    + split.
      * destruct (child_of pe (o_c o)); discriminate.
      * intros [l [Hl H]]. injection Hl as <-. cbn in H. exfalso.
        apply orb_false_iff in E. destruct E as [E1 E2]. destruct H as [H|H].
        -- assert (opt_nat_eqb (Some (o_p o)) pe = true) by (apply opt_nat_eqb_eq; congruence). congruence.
        -- apply Nat.eqb_neq in E2. congruence.
  - split; [discriminate|]. intros [l [Hl _]]. discriminate.
Qed.

Lemma classify_private L o e :
  classify L (o_c o) (Some (o_p o)) e = EPrivate <-> NeedsPrivate L o e.
Proof.
  unfold classify, NeedsPrivate, siblings. destruct (lookup_loc L e) as [[ce pe]|].
  - cbn [child_of].
    destruct (opt_nat_eqb (Some (o_p o)) pe || Nat.eqb (o_p o) ce) eqn:E.
    + split; [discriminate|]. intros [l [Hl [Hn _]]]. injection Hl as <-. cbn in Hn. exfalso. apply Hn.
      apply orb_true_iff in E. destruct E as [E|E].
      * left. apply opt_nat_eqb_eq in E. congruence.
      * right. apply Nat.eqb_eq in E. congruence.
    + assert (Hn : ~ (pe = Some (o_p o) \/ ce = o_p o)).
      { apply orb_false_iff in E. destruct E as [E1 E2]. intros [H|H].
        - assert (opt_nat_eqb (Some (o_p o)) pe = true) by (apply opt_nat_eqb_eq; congruence). congruence.
        - apply Nat.eqb_neq in E2. congruence. }
      destruct pe as [x|]; cbn.
      * destruct (Nat.eqb x (o_c o)) eqn:E3.
        -- split; [|reflexivity]. intros _. exists (ce, Some x). cbn. apply Nat.eqb_eq in E3. subst x. auto.
        -- split; [discriminate|]. intros [l [Hl [_ H]]]. injection Hl as <-. cbn in H.
           apply Nat.eqb_neq in E3. congruence.
      * split; [discriminate|]. intros [l [Hl [_ H]]]. injection Hl as <-. discriminate.
  - split; [discriminate|]. intros [l [Hl _]]. discriminate.
Qed.

Lemma classify_bad L o e :
  classify L (o_c o) (Some (o_p o)) e = EBad <-> Impossible L o e.
Proof.
  unfold Impossible. rewrite <- classify_public, <- classify_private.
  destruct (classify L (o_c o) (Some (o_p o)) e); split; try congruence; try tauto;
    try (intros _; split; discriminate); try (intros [H1 H2]; congruence).
Qed.

(** An impossible equivalence, spelled out on the positions. *)
Lemma impossible_iff L o e :
  Impossible L o e <->
  lookup_loc L e = None \/
  exists ce pe, lookup_loc L e = Some (ce, pe) /\ pe <> Some (o_p o) /\ ce <> o_p o /\ pe <> Some (o_c o).
Proof.
  unfold Impossible, NeedsPublic, NeedsPrivate. destruct (lookup_loc L e) as [[ce pe]|].
  - split.
    + intros [H1 H2]. right. exists ce, pe. split; [reflexivity|].
      assert (A : pe <> Some (o_p o)) by (intros E; apply H1; exists (ce, pe); cbn; auto).
      assert (B : ce <> o_p o) by (intros E; apply H1; exists (ce, pe); cbn; auto).
      repeat split; try assumption.
      intros E. apply H2. exists (ce, pe). cbn. repeat split; [|assumption]. intros [X|X]; contradiction.
    + intros [H|[ce' [pe' [H [A [B C]]]]]]; [discriminate|]. injection H as <- <-. split.
      * intros [l [Hl [X|X]]]; injection Hl as <-; cbn in X; contradiction.
      * intros [l [Hl [_ X]]]; injection Hl as <-; cbn in X; contradiction.
  - split; [auto|]. intros _. split; intros [l [Hl _]]; discriminate.
Qed.

(* ------------------------------------------------------------------------------------------------ *)
(** * The loop of publicAndOrPrivateInterfaceTypeRequired *)

Section Loop.
  Variables (L : list (nat * loc)) (c : nat) (p : option nat).
  Let cls e := classify L c p e.

  (** the repaired loop looks at everything *)
  Lemma required_fixed_spec es a b :
    required_loop true L c p es (a, b) =
    if existsb (fun e => is_bad (cls e)) es then (false, false)
    else (a || existsb (fun e => is_pub (cls e)) es, b || existsb (fun e => is_priv (cls e)) es).
  Proof.
    revert a b. induction es as [|e es IH]; intros a b; cbn [required_loop existsb].
    - now rewrite !orb_false_r.
    - cbn [negb andb fst snd]. unfold cls at 1 3 5. destruct (classify L c p e) eqn:E; cbn [is_bad is_pub is_priv orb].
      + rewrite IH. destruct (existsb _ es); [reflexivity|]. now rewrite orb_true_r.
      + rewrite IH. destruct (existsb _ es); [reflexivity|]. now rewrite orb_true_r.
      + reflexivity.
  Qed.

  (** what the early exit of the pinned loop hides: an impossible equivalence behind a prefix of possible ones
      that already asks for both interfaces *)
  Fixpoint hides (es : list nat) (a b : bool) : bool :=
    match es with
    | [] => false
    | e :: es' =>
        if a && b then existsb (fun e => is_bad (cls e)) es
        else match cls e with
             | EPublic => hides es' true b
             | EPrivate => hides es' a true
             | EBad => false
             end
    end.

  Lemma required_unfixed_same es a b :
    hides es a b = false -> required_loop false L c p es (a, b) = required_loop true L c p es (a, b).
  Proof.
    revert a b. induction es as [|e es IH]; intros a b H; [reflexivity|].
    cbn [required_loop negb andb fst snd]. cbn [hides] in H.
    destruct (a && b) eqn:Eab.
    - apply andb_true_iff in Eab. destruct Eab as [-> ->].
      change (classify L c p e) with (cls e).
      pose proof (required_fixed_spec (e :: es) true true) as R. cbn [required_loop negb andb fst snd] in R.
      change (classify L c p e) with (cls e) in R. rewrite R, H. reflexivity.
    - change (classify L c p e) with (cls e). destruct (cls e); [apply IH; exact H | apply IH; exact H | reflexivity].
  Qed.

  Lemma required_unfixed_hidden es a b :
    hides es a b = true ->
    required_loop false L c p es (a, b) = (true, true) /\ required_loop true L c p es (a, b) = (false, false).
  Proof.
    revert a b. induction es as [|e es IH]; intros a b H; [discriminate|].
    cbn [hides] in H. destruct (a && b) eqn:Eab.
    - apply andb_true_iff in Eab. destruct Eab as [-> ->]. split.
      + reflexivity.
      + rewrite required_fixed_spec, H. reflexivity.
    - cbn [required_loop negb andb fst snd]. rewrite Eab. cbn [andb].
      change (classify L c p e) with (cls e). destruct (cls e); [apply IH; exact H | apply IH; exact H | discriminate].
  Qed.

  (** [hides], declaratively *)
  Lemma hides_iff es a b :
    hides es a b = true <->
    exists l1 e l2, es = (l1 ++ e :: l2)%list /\ forallb (fun x => negb (is_bad (cls x))) l1 = true /\
      (a || existsb (fun x => is_pub (cls x)) l1) = true /\ (b || existsb (fun x => is_priv (cls x)) l1) = true /\
      is_bad (cls e) = true.
  Proof.
    revert a b. induction es as [|e es IH]; intros a b.
    - split; [discriminate|]. intros [l1 [e [l2 [H _]]]]. destruct l1; discriminate.
    - cbn [hides]. destruct (a && b) eqn:Eab.
      + apply andb_true_iff in Eab. destruct Eab as [-> ->]. split.
        * intros H. revert H. generalize (e :: es). intros l H.
          induction l as [|x l IHl]; [discriminate|]. cbn [existsb] in H.
          destruct (is_bad (cls x)) eqn:Ex.
          -- exists [], x, l. cbn. auto.
          -- cbn in H. destruct (IHl H) as [l1 [y [l2 [-> [A [_ [_ B]]]]]]].
             exists (x :: l1), y, l2. cbn. rewrite Ex. cbn. auto.
        * intros [l1 [y [l2 [-> [_ [_ [_ B]]]]]]]. rewrite existsb_app. cbn. rewrite B. now rewrite orb_true_r.
      + destruct (cls e) eqn:Ee.
        * rewrite IH. split.
          -- intros [l1 [y [l2 [-> [A [B [C D]]]]]]]. exists (e :: l1), y, l2. cbn. rewrite Ee. cbn.
             repeat split; try assumption; try reflexivity; try (now rewrite ?orb_true_r).
          -- intros [l1 [y [l2 [H [A [B [C D]]]]]]]. destruct l1 as [|x l1].
             ++ cbn in H. injection H as -> ->. cbn in B, C. rewrite !orb_false_r in B, C. subst a b. discriminate.
             ++ cbn in H. injection H as -> ->. exists l1, y, l2. cbn in A, B, C. rewrite Ee in A, B, C. cbn in A, B, C.
                repeat split; try assumption; try (rewrite ?orb_false_l in *; assumption).
        * rewrite IH. split.
          -- intros [l1 [y [l2 [-> [A [B [C D]]]]]]]. exists (e :: l1), y, l2. cbn. rewrite Ee. cbn.
             repeat split; try assumption; try reflexivity; try (now rewrite ?orb_true_r).
          -- intros [l1 [y [l2 [H [A [B [C D]]]]]]]. destruct l1 as [|x l1].
             ++ cbn in H. injection H as -> ->. cbn in B, C. rewrite !orb_false_r in B, C. subst a b. discriminate.
             ++ cbn in H. injection H as -> ->. exists l1, y, l2. cbn in A, B, C. rewrite Ee in A, B, C. cbn in A, B, C.
                repeat split; try assumption; try (rewrite ?orb_false_l in *; assumption).
        * split; [discriminate|]. intros [l1 [y [l2 [H [A [B [C D]]]]]]]. destruct l1 as [|x l1].
          -- cbn in H. injection H as -> ->. cbn in B, C. rewrite !orb_false_r in B, C. subst a b. discriminate.
          -- cbn in H. injection H as -> ->. cbn in A. rewrite Ee in A. discriminate.
  Qed.
End Loop.

(* ------------------------------------------------------------------------------------------------ *)
(** * Occurrences of the tree after fixVariableInterfaces *)

Lemma fix_var_tag f L p c imp v : v_tag (fix_var f L p c imp v) = v_tag v.
Proof. unfold fix_var. destruct (has_eqs v); reflexivity. Qed.
Lemma fix_var_eqs f L p c imp v : v_eqs (fix_var f L p c imp v) = v_eqs v.
Proof. unfold fix_var. destruct (has_eqs v); reflexivity. Qed.
Lemma fix_var_units f L p c imp v : v_units (fix_var f L p c imp v) = v_units v.
Proof. unfold fix_var. destruct (has_eqs v); reflexivity. Qed.

Lemma comp_occs_fix f L c : forall p, comp_occs p (fix_comp f L p c) = map (fix_occ f L) (comp_occs p c).
Proof.
  induction c as [t i vs ks IH] using comp_ind'. intros p. cbn [fix_comp comp_occs].
  rewrite map_app, !map_map, flat_map_map, map_flat_map. f_equal.
  apply flat_map_ext_Forall. eapply Forall_impl; [|exact IH]. intros k Hk. apply Hk.
Qed.

Lemma model_occs_fix f m :
  model_occs (fst (fix_model f m)) = map (fix_occ f (model_locs m)) (model_occs m).
Proof.
  unfold model_occs, fix_model. cbn [fst m_comps m_tag]. rewrite flat_map_map, map_flat_map.
  apply flat_map_ext_Forall. apply Forall_forall. intros c _. apply comp_occs_fix.
Qed.

Lemma model_locs_fix f m : model_locs (fst (fix_model f m)) = model_locs m.
Proof.
  unfold model_locs. rewrite model_occs_fix, map_map. f_equal.
  apply map_ext. intros o. unfold fix_occ. cbn. now rewrite fix_var_tag.
Qed.

Lemma with_eqs_filter c : forall p, find_all_with_eqs p c = filter (fun o => has_eqs (o_v o)) (comp_occs p c).
Proof.
  induction c as [t i vs ks IH] using comp_ind'. intros p. cbn [find_all_with_eqs comp_occs].
  rewrite filter_app, filter_map_comm, filter_flat_map. f_equal.
  apply flat_map_ext_Forall. eapply Forall_impl; [|exact IH]. intros k Hk. apply Hk.
Qed.

Lemma model_with_eqs_filter m : model_with_eqs m = filter (fun o => has_eqs (o_v o)) (model_occs m).
Proof.
  unfold model_with_eqs, model_occs. rewrite filter_flat_map.
  apply flat_map_ext_Forall. apply Forall_forall. intros c _. apply with_eqs_filter.
Qed.

Lemma in_with_eqs m o : In o (model_with_eqs m) <-> In o (model_occs m) /\ has_eqs (o_v o) = true.
Proof. rewrite model_with_eqs_filter, filter_In. reflexivity. Qed.

(* ------------------------------------------------------------------------------------------------ *)
(** * determineInterfaceType against the declarative relations *)

Lemma existsb_bad_iff L o :
  existsb (fun e => is_bad (classify L (o_c o) (Some (o_p o)) e)) (v_eqs (o_v o)) = true <->
  exists e, In e (v_eqs (o_v o)) /\ Impossible L o e.
Proof.
  rewrite existsb_exists. split; intros [e [H1 H2]]; exists e; split; try assumption.
  - apply classify_bad. destruct (classify L (o_c o) (Some (o_p o)) e); try discriminate; reflexivity.
  - apply classify_bad in H2. now rewrite H2.
Qed.

Lemma existsb_pub_iff L o :
  existsb (fun e => is_pub (classify L (o_c o) (Some (o_p o)) e)) (v_eqs (o_v o)) = true <->
  exists e, In e (v_eqs (o_v o)) /\ NeedsPublic L o e.
Proof.
  rewrite existsb_exists. split; intros [e [H1 H2]]; exists e; split; try assumption.
  - apply classify_public. destruct (classify L (o_c o) (Some (o_p o)) e); try discriminate; reflexivity.
  - apply classify_public in H2. now rewrite H2.
Qed.

Lemma existsb_priv_iff L o :
  existsb (fun e => is_priv (classify L (o_c o) (Some (o_p o)) e)) (v_eqs (o_v o)) = true <->
  exists e, In e (v_eqs (o_v o)) /\ NeedsPrivate L o e.
Proof.
  rewrite existsb_exists. split; intros [e [H1 H2]]; exists e; split; try assumption.
  - apply classify_private. destruct (classify L (o_c o) (Some (o_p o)) e); try discriminate; reflexivity.
  - apply classify_private in H2. now rewrite H2.
Qed.

Lemma all_possible_no_bad L o :
  AllPossible L o <-> existsb (fun e => is_bad (classify L (o_c o) (Some (o_p o)) e)) (v_eqs (o_v o)) = false.
Proof.
  split.
  - intros H. apply not_true_is_false. intros E. apply existsb_bad_iff in E. destruct E as [e [H1 H2]].
    exact (H e H1 H2).
  - intros H e He Hi. assert (E : existsb (fun e => is_bad (classify L (o_c o) (Some (o_p o)) e)) (v_eqs (o_v o)) = true)
      by (apply existsb_bad_iff; eauto). congruence.
Qed.

(** the repaired function: NONE exactly when there is nothing to connect or something impossible *)
Lemma required_fixed L o :
  required true L o =
  if existsb (fun e => is_bad (classify L (o_c o) (Some (o_p o)) e)) (v_eqs (o_v o)) then (false, false)
  else (existsb (fun e => is_pub (classify L (o_c o) (Some (o_p o)) e)) (v_eqs (o_v o)),
        existsb (fun e => is_priv (classify L (o_c o) (Some (o_p o)) e)) (v_eqs (o_v o))).
Proof. unfold required. now rewrite required_fixed_spec. Qed.

Lemma pub_or_priv_nonempty L o :
  has_eqs (o_v o) = true ->
  existsb (fun e => is_bad (classify L (o_c o) (Some (o_p o)) e)) (v_eqs (o_v o)) = false ->
  existsb (fun e => is_pub (classify L (o_c o) (Some (o_p o)) e)) (v_eqs (o_v o)) = true \/
  existsb (fun e => is_priv (classify L (o_c o) (Some (o_p o)) e)) (v_eqs (o_v o)) = true.
Proof.
  unfold has_eqs. destruct (v_eqs (o_v o)) as [|e es]; [discriminate|]. intros _. cbn [existsb].
  destruct (classify L (o_c o) (Some (o_p o)) e); cbn; auto. discriminate.
Qed.

Lemma determine_fixed_none L o :
  has_eqs (o_v o) = true ->
  (determine true L o = INone <-> exists e, In e (v_eqs (o_v o)) /\ Impossible L o e).
Proof.
  intros Hne. unfold determine. rewrite required_fixed, <- existsb_bad_iff.
  destruct (existsb (fun e => is_bad _) _) eqn:Eb.
  - split; reflexivity.
  - split; [|discriminate]. destruct (pub_or_priv_nonempty L o Hne Eb) as [H|H]; rewrite H; unfold itype_for; cbn.
    + destruct (existsb (fun e => is_priv _) _); discriminate.
    + destruct (existsb (fun e => is_pub _) _); discriminate.
Qed.

Lemma itype_for_pub pair : fst pair = true -> itype_for pair = IPublic \/ itype_for pair = IBoth.
Proof. destruct pair as [[] []]; cbn; auto; discriminate. Qed.
Lemma itype_for_priv pair : snd pair = true -> itype_for pair = IPrivate \/ itype_for pair = IBoth.
Proof. destruct pair as [[] []]; cbn; auto; discriminate. Qed.
Lemma itype_for_only_pub pair : itype_for pair = IPublic -> snd pair = false.
Proof. destruct pair as [[] []]; cbn; congruence. Qed.
Lemma itype_for_only_priv pair : itype_for pair = IPrivate -> fst pair = false.
Proof. destruct pair as [[] []]; cbn; congruence. Qed.

Lemma itype_eqb_eq a b : itype_eqb a b = true <-> a = b.
Proof. destruct a, b; cbn; split; congruence. Qed.

(** the early exit changes nothing when every equivalence is possible *)
Lemma required_unfixed_all_possible L o : AllPossible L o -> required false L o = required true L o.
Proof.
  intros H. unfold required. apply required_unfixed_same.
  apply not_true_is_false. intros E. apply hides_iff in E.
  destruct E as [l1 [e [l2 [Hes [_ [_ [_ Hb]]]]]]].
  apply (H e).
  - rewrite Hes. apply in_or_app. right. left. reflexivity.
  - apply classify_bad. destruct (classify L (o_c o) (Some (o_p o)) e); try discriminate; reflexivity.
Qed.

(** what the new attribute string is when every equivalence is possible *)
Lemma fix_iface_sufficient f L o :
  has_eqs (o_v o) = true -> AllPossible L o -> Sufficient (fix_iface f L o) L o.
Proof.
  intros Hne Hall.
  assert (Hf : fix_iface f L o = fix_iface true L o).
  { destruct f; [reflexivity|]. unfold fix_iface, determine. now rewrite (required_unfixed_all_possible L o Hall). }
  rewrite Hf. clear Hf f.
  pose proof (proj1 (all_possible_no_bad L o) Hall) as Eb.
  intros e He. split; [apply Hall; exact He|].
  unfold fix_iface, determine. rewrite required_fixed, Eb.
  set (P := existsb (fun e => is_pub _) _). set (Q := existsb (fun e => is_priv _) _).
  assert (HP : NeedsPublic L o e -> P = true) by (intros H; apply existsb_pub_iff; eauto).
  assert (HQ : NeedsPrivate L o e -> Q = true) by (intros H; apply existsb_priv_iff; eauto).
  destruct (pub_or_priv_nonempty L o Hne Eb) as [H0|H0]; fold P in H0 || fold Q in H0.
  all: destruct (itype_eqb (itype_for (P, Q)) INone) eqn:En;
    [apply itype_eqb_eq in En; destruct P, Q; cbn in En; discriminate|].
  all: destruct (permits (v_iface (o_v o)) (itype_for (P, Q))) eqn:Ep.
  all: try (apply permits_spec in Ep; destruct Ep as [Ep|[Ep|Ep]];
            [apply itype_eqb_eq in Ep; congruence| |]).
  all: split; intros Hn; [specialize (HP Hn) | specialize (HQ Hn)].
  all: try rewrite Ep.
  all: try (destruct (itype_for_pub (P, Q) HP) as [X|X]; rewrite X; cbn; auto; fail).
  all: try (destruct (itype_for_priv (P, Q) HQ) as [X|X]; rewrite X; cbn; auto; fail).
  all: auto.
Qed.

(* ------------------------------------------------------------------------------------------------ *)
(** * Pointwise facts about [fix_occ] *)

Lemma occ_eta o : mkO (o_p o) (o_c o) (o_imp o) (o_v o) = o.
Proof. destruct o; reflexivity. Qed.
Lemma set_iface_same v : set_iface v (v_iface v) = v.
Proof. destruct v; reflexivity. Qed.

Lemma fix_occ_no_eqs f L o : has_eqs (o_v o) = false -> fix_occ f L o = o.
Proof. intros H. unfold fix_occ, fix_var. rewrite H. apply occ_eta. Qed.

Lemma fix_occ_iface f L o :
  has_eqs (o_v o) = true -> v_iface (o_v (fix_occ f L o)) = fix_iface f L o.
Proof. intros H. unfold fix_occ, fix_var. cbn [o_v]. rewrite H, occ_eta. reflexivity. Qed.

Lemma fix_occ_pos f L o :
  o_p (fix_occ f L o) = o_p o /\ o_c (fix_occ f L o) = o_c o /\ o_imp (fix_occ f L o) = o_imp o /\
  v_tag (o_v (fix_occ f L o)) = v_tag (o_v o) /\ v_eqs (o_v (fix_occ f L o)) = v_eqs (o_v o) /\
  v_units (o_v (fix_occ f L o)) = v_units (o_v o).
Proof. unfold fix_occ. cbn [o_p o_c o_imp o_v]. rewrite fix_var_tag, fix_var_eqs, fix_var_units. repeat split. Qed.

(** the relations only look at the position and at the equivalence list *)
Lemma sufficient_fix_occ s f L o : Sufficient s L (fix_occ f L o) <-> Sufficient s L o.
Proof.
  destruct (fix_occ_pos f L o) as [Hp [Hc [_ [_ [He _]]]]].
  unfold Sufficient, Impossible, Covers, NeedsPublic, NeedsPrivate. rewrite Hp, Hc, He. reflexivity.
Qed.

Lemma required_fix_occ g f L o : required g L (fix_occ f L o) = required g L o.
Proof.
  destruct (fix_occ_pos f L o) as [Hp [Hc [_ [_ [He _]]]]]. unfold required. now rewrite Hp, Hc, He.
Qed.

Lemma has_eqs_fix_occ f L o : has_eqs (o_v (fix_occ f L o)) = has_eqs (o_v o).
Proof. destruct (fix_occ_pos f L o) as [_ [_ [_ [_ [He _]]]]]. unfold has_eqs. now rewrite He. Qed.

Lemma sufficient_all_possible s L o : Sufficient s L o -> AllPossible L o.
Proof. intros H e He. apply (H e He). Qed.

(** variables whose interface already sufficed keep their attribute string (both variants of the loop) *)
Lemma fix_occ_unchanged_sufficient f L o : Sufficient (v_iface (o_v o)) L o -> fix_occ f L o = o.
Proof.
  intros HS. destruct (has_eqs (o_v o)) eqn:Hne; [|now apply fix_occ_no_eqs].
  pose proof (sufficient_all_possible _ _ _ HS) as Hall.
  unfold fix_occ, fix_var. rewrite Hne, occ_eta.
  assert (E : fix_iface f L o = v_iface (o_v o)).
  { unfold fix_iface, determine.
    replace (required f L o) with (required true L o)
      by (destruct f; [reflexivity | symmetry; now apply required_unfixed_all_possible]).
    pose proof (proj1 (all_possible_no_bad L o) Hall) as Eb. rewrite required_fixed, Eb.
    set (P := existsb (fun e => is_pub _) _). set (Q := existsb (fun e => is_priv _) _).
    destruct (itype_eqb (itype_for (P, Q)) INone); [reflexivity|].
    assert (Hp : permits (v_iface (o_v o)) (itype_for (P, Q)) = true).
    { apply permits_spec.
      assert (HP : P = true -> v_iface (o_v o) = "public" \/ v_iface (o_v o) = "public_and_private").
      { intros X. apply existsb_pub_iff in X. destruct X as [e [He Hn]]. exact (proj1 (proj2 (HS e He)) Hn). }
      assert (HQ : Q = true -> v_iface (o_v o) = "private" \/ v_iface (o_v o) = "public_and_private").
      { intros X. apply existsb_priv_iff in X. destruct X as [e [He Hn]]. exact (proj2 (proj2 (HS e He)) Hn). }
      destruct P, Q; cbn.
      - right; left. destruct (HP eq_refl) as [A|A]; [|exact A]. destruct (HQ eq_refl) as [B|B]; [congruence | exact B].
      - right. destruct (HP eq_refl) as [A|A]; [right; exact A | left; exact A].
      - right. destruct (HQ eq_refl) as [A|A]; [right; exact A | left; exact A].
      - left; reflexivity. }
    now rewrite Hp. }
  rewrite E, set_iface_same. apply occ_eta.
Qed.

(** with the repaired loop a variable that has an impossible equivalence is left alone *)
Lemma fix_occ_unchanged_impossible L o :
  (exists e, In e (v_eqs (o_v o)) /\ Impossible L o e) -> fix_occ true L o = o.
Proof.
  intros H. assert (Hne : has_eqs (o_v o) = true).
  { destruct H as [e [He _]]. unfold has_eqs. destruct (v_eqs (o_v o)); [contradiction | reflexivity]. }
  unfold fix_occ, fix_var. rewrite Hne, occ_eta. unfold fix_iface.
  rewrite (proj2 (determine_fixed_none L o Hne) H). cbn. rewrite set_iface_same. apply occ_eta.
Qed.

(** the string written, exactly *)
Lemma fix_occ_result f L o :
  has_eqs (o_v o) = true -> AllPossible L o ->
  determine true L o <> INone /\
  v_iface (o_v (fix_occ f L o)) =
    (if permits (v_iface (o_v o)) (determine true L o) then v_iface (o_v o) else itype_string (determine true L o)).
Proof.
  intros Hne Hall. rewrite (fix_occ_iface f L o Hne).
  assert (Hd : determine true L o <> INone).
  { intros E. apply (determine_fixed_none L o Hne) in E. destruct E as [e [He Hi]]. exact (Hall e He Hi). }
  split; [exact Hd|]. unfold fix_iface.
  replace (determine f L o) with (determine true L o)
    by (destruct f; [reflexivity | unfold determine; now rewrite required_unfixed_all_possible]).
  destruct (itype_eqb (determine true L o) INone) eqn:E; [apply itype_eqb_eq in E; contradiction | reflexivity].
Qed.

Lemma fix_occ_valid f L o :
  has_eqs (o_v o) = true -> AllPossible L o ->
  let s := v_iface (o_v (fix_occ f L o)) in s = "public" \/ s = "private" \/ s = "public_and_private".
Proof.
  intros Hne Hall. destruct (fix_occ_result f L o Hne Hall) as [Hd E]. cbn zeta. rewrite E.
  destruct (permits (v_iface (o_v o)) (determine true L o)) eqn:Ep.
  - apply permits_spec in Ep. destruct Ep as [Ep|[Ep|Ep]]; [contradiction | auto |].
    rewrite Ep. destruct (determine true L o); [contradiction | cbn; auto ..].
  - destruct (determine true L o); [contradiction | cbn; auto ..].
Qed.

(** an attribute that is not one of the four valid values is overwritten with the minimal type *)
Lemma fix_occ_invalid_string f L o :
  has_eqs (o_v o) = true -> AllPossible L o -> ~ valid_iface (v_iface (o_v o)) ->
  v_iface (o_v (fix_occ f L o)) = itype_string (determine true L o).
Proof.
  intros Hne Hall Hinv. destruct (fix_occ_result f L o Hne Hall) as [Hd E]. rewrite E.
  destruct (permits (v_iface (o_v o)) (determine true L o)) eqn:Ep; [|reflexivity].
  exfalso. apply Hinv. apply permits_spec in Ep. unfold valid_iface.
  destruct Ep as [Ep|[Ep|Ep]]; [contradiction | auto |].
  rewrite Ep. destruct (determine true L o); [contradiction | cbn; auto ..].
Qed.

(* ------------------------------------------------------------------------------------------------ *)
(** * fixVariableInterfaces on models *)

Lemma fix_ok_false_iff f L os :
  fix_ok f L os = false <-> exists o, In o os /\ determine f L o = INone.
Proof.
  unfold fix_ok. induction os as [|o os IH]; cbn.
  - split; [discriminate|]. intros [o [[] _]].
  - rewrite andb_false_iff, IH. split.
    + intros [H|[o' [H1 H2]]].
      * exists o. split; [now left|]. apply negb_false_iff in H. now apply itype_eqb_eq.
      * exists o'. split; [now right | exact H2].
    + intros [o' [[<-|H1] H2]].
      * left. apply negb_false_iff. now apply itype_eqb_eq.
      * right. eauto.
Qed.

(** false exactly when some equivalence is impossible (repaired loop) *)
Lemma fix_false_iff m :
  snd (fix_model true m) = false <->
  exists o e, In o (model_occs m) /\ In e (v_eqs (o_v o)) /\ Impossible (model_locs m) o e.
Proof.
  unfold fix_model. cbn [snd]. rewrite fix_ok_false_iff. split.
  - intros [o [Ho Hd]]. apply in_with_eqs in Ho. destruct Ho as [Ho Hne].
    apply (determine_fixed_none _ _ Hne) in Hd. destruct Hd as [e [He Hi]]. exists o, e. auto.
  - intros [o [e [Ho [He Hi]]]].
    assert (Hne : has_eqs (o_v o) = true) by (unfold has_eqs; destruct (v_eqs (o_v o)); [contradiction | reflexivity]).
    exists o. split; [apply in_with_eqs; auto|]. apply (determine_fixed_none _ _ Hne). eauto.
Qed.

(** the direction that also holds for the pinned loop *)
Lemma fix_false_only_if f m :
  snd (fix_model f m) = false ->
  exists o e, In o (model_occs m) /\ In e (v_eqs (o_v o)) /\ Impossible (model_locs m) o e.
Proof.
  destruct f; [apply fix_false_iff|].
  unfold fix_model. cbn [snd]. rewrite fix_ok_false_iff. intros [o [Ho Hd]].
  apply in_with_eqs in Ho. destruct Ho as [Ho Hne].
  destruct (existsb (fun e => is_bad (classify (model_locs m) (o_c o) (Some (o_p o)) e)) (v_eqs (o_v o))) eqn:Eb.
  - apply existsb_bad_iff in Eb. destruct Eb as [e [He Hi]]. exists o, e. auto.
  - exfalso. apply all_possible_no_bad in Eb. unfold determine in Hd.
    rewrite (required_unfixed_all_possible _ _ Eb) in Hd. fold (determine true (model_locs m) o) in Hd.
    apply (determine_fixed_none _ _ Hne) in Hd. destruct Hd as [e [He Hi]]. exact (Eb e He Hi).
Qed.

(** true => every variable with equivalences carries a sufficient interface (repaired loop) *)
Lemma fix_true_sufficient m :
  snd (fix_model true m) = true ->
  forall o', In o' (model_occs (fst (fix_model true m))) -> has_eqs (o_v o') = true ->
  Sufficient (v_iface (o_v o')) (model_locs (fst (fix_model true m))) o'.
Proof.
  intros Hok o' Ho' Hne'. rewrite model_locs_fix. rewrite model_occs_fix in Ho'.
  apply in_map_iff in Ho'. destruct Ho' as [o [<- Ho]]. rewrite has_eqs_fix_occ in Hne'.
  apply sufficient_fix_occ. rewrite (fix_occ_iface _ _ _ Hne').
  apply fix_iface_sufficient; [exact Hne'|].
  intros e He Hi. assert (X : snd (fix_model true m) = false) by (apply fix_false_iff; exists o, e; auto). congruence.
Qed.

(** whatever is returned, every variable all of whose equivalences are possible is fixed (both variants) *)
Lemma fix_others_still_fixed f m o :
  In o (model_occs m) -> has_eqs (o_v o) = true -> AllPossible (model_locs m) o ->
  Sufficient (v_iface (o_v (fix_occ f (model_locs m) o))) (model_locs m) o.
Proof. intros _ Hne Hall. rewrite (fix_occ_iface _ _ _ Hne). now apply fix_iface_sufficient. Qed.

(** nothing but interface attributes changes *)
Lemma strip_fix_var f L p c imp v : strip_var (fix_var f L p c imp v) = strip_var v.
Proof. unfold fix_var. destruct (has_eqs v); reflexivity. Qed.

Lemma strip_fix_comp f L c : forall p, strip_comp (fix_comp f L p c) = strip_comp c.
Proof.
  induction c as [t i vs ks IH] using comp_ind'. intros p. cbn [fix_comp strip_comp]. rewrite !map_map. f_equal.
  - apply map_ext. intros v. apply strip_fix_var.
  - apply map_ext_Forall. eapply Forall_impl; [|exact IH]. intros k Hk. apply Hk.
Qed.

Lemma fix_frame f m :
  let m' := fst (fix_model f m) in
  m_tag m' = m_tag m /\ m_heap m' = m_heap m /\ m_units m' = m_units m /\ m_ext m' = m_ext m /\
  map strip_comp (m_comps m') = map strip_comp (m_comps m).
Proof.
  cbn. repeat split. rewrite map_map. apply map_ext. intros c. apply strip_fix_comp.
Qed.

(* ---- the pinned loop *)

Lemma hidden_bad_hides L o :
  hidden_bad L o = hides L (o_c o) (Some (o_p o)) (v_eqs (o_v o)) false false.
Proof.
  unfold hidden_bad, required.
  destruct (hides L (o_c o) (Some (o_p o)) (v_eqs (o_v o)) false false) eqn:E.
  - destruct (required_unfixed_hidden _ _ _ _ _ _ E) as [-> ->]. reflexivity.
  - rewrite (required_unfixed_same _ _ _ _ _ _ E).
    destruct (required_loop true L (o_c o) (Some (o_p o)) (v_eqs (o_v o)) (false, false)) as [[] []]; reflexivity.
Qed.

Lemma hidden_bad_iff L o : hidden_bad L o = true <-> HiddenImpossible L o.
Proof.
  rewrite hidden_bad_hides, hides_iff. unfold HiddenImpossible.
  split; intros [l1 [e [l2 [Hes [A [B [C D]]]]]]]; exists l1, e, l2; (split; [exact Hes|]).
  - cbn [orb] in B, C. split; [|split; [|split]].
    + intros x Hx Hi. rewrite forallb_forall in A. specialize (A x Hx). apply classify_bad in Hi. rewrite Hi in A. discriminate.
    + apply existsb_exists in B. destruct B as [x [Hx Hb]]. exists x. split; [exact Hx|].
      apply classify_public. destruct (classify L (o_c o) (Some (o_p o)) x); try discriminate; reflexivity.
    + apply existsb_exists in C. destruct C as [x [Hx Hb]]. exists x. split; [exact Hx|].
      apply classify_private. destruct (classify L (o_c o) (Some (o_p o)) x); try discriminate; reflexivity.
    + apply classify_bad. destruct (classify L (o_c o) (Some (o_p o)) e); try discriminate; reflexivity.
  - cbn [orb]. destruct B as [xb [Hxb Hb]]. destruct C as [xc [Hxc Hc]]. split; [|split; [|split]].
    + apply forallb_forall. intros x Hx. specialize (A x Hx).
      destruct (classify L (o_c o) (Some (o_p o)) x) eqn:E; try reflexivity. exfalso. apply A. now apply classify_bad.
    + apply existsb_exists. exists xb. split; [exact Hxb|]. apply classify_public in Hb. now rewrite Hb.
    + apply existsb_exists. exists xc. split; [exact Hxc|]. apply classify_private in Hc. now rewrite Hc.
    + apply classify_bad in D. now rewrite D.
Qed.

Lemma required_unfixed_no_hidden L o : hidden_bad L o = false -> required false L o = required true L o.
Proof. rewrite hidden_bad_hides. apply required_unfixed_same. Qed.

Lemma fix_comp_unfixed_eq L c :
  forall p, (forall o, In o (comp_occs p c) -> hidden_bad L o = false) -> fix_comp false L p c = fix_comp true L p c.
Proof.
  induction c as [t i vs ks IH] using comp_ind'. intros p H. cbn [fix_comp]. f_equal.
  - apply map_ext_in. intros v Hv. unfold fix_var. destruct (has_eqs v); [|reflexivity]. f_equal.
    unfold fix_iface, determine. rewrite required_unfixed_no_hidden; [reflexivity|].
    apply H. cbn [comp_occs]. apply in_or_app. left. apply in_map. exact Hv.
  - apply map_ext_Forall. rewrite Forall_forall in IH |- *. intros k Hk. apply (IH k Hk).
    intros o Ho. apply H. cbn [comp_occs]. apply in_or_app. right. apply in_flat_map. exists k. auto.
Qed.

(** without a hidden impossible equivalence the pinned loop and the repaired loop are the same function *)
Lemma fix_model_unfixed_eq m :
  (forall o, In o (model_occs m) -> hidden_bad (model_locs m) o = false) -> fix_model false m = fix_model true m.
Proof.
  intros H. unfold fix_model. f_equal.
  - f_equal. apply map_ext_in. intros c Hc. apply fix_comp_unfixed_eq.
    intros o Ho. apply H. unfold model_occs. apply in_flat_map. exists c. auto.
  - unfold fix_ok. apply forallb_ext_Forall. apply Forall_forall. intros o Ho.
    apply in_with_eqs in Ho. unfold determine. rewrite required_unfixed_no_hidden; [reflexivity|]. apply H. apply Ho.
Qed.

(* ------------------------------------------------------------------------------------------------ *)
(** * The validator's view *)

Lemma flat_map_nil {A B} (f : A -> list B) l : (forall x, In x l -> f x = []) -> flat_map f l = [].
Proof.
  induction l as [|a l IH]; intros H; [reflexivity|]. cbn. rewrite (H a (or_introl eq_refl)), IH; [reflexivity|].
  intros x Hx. apply H. now right.
Qed.

Lemma validate_structure_nil L o : AllPossible L o -> validate_structure L o = [].
Proof.
  intros H. unfold validate_structure. apply flat_map_nil. intros e He.
  destruct (lookup_loc L e) eqn:E; [reflexivity|]. exfalso. apply (H e He). apply impossible_iff. now left.
Qed.

Lemma validate_structure_nil_inv L o :
  validate_structure L o = [] -> forall e, In e (v_eqs (o_v o)) -> lookup_loc L e <> None.
Proof.
  unfold validate_structure. induction (v_eqs (o_v o)) as [|x l IH]; intros H e He; [contradiction|].
  cbn in H. apply app_eq_nil in H. destruct H as [H1 H2]. destruct He as [<-|He].
  - destruct (lookup_loc L x); [discriminate | discriminate].
  - now apply IH.
Qed.

Lemma validate_loop_nil f L os : forall al,
  (forall o, In o os -> o_imp o = true \/
     (determine f L o <> INone /\ iface_compatible (determine f L o) (v_iface (o_v o)) = true /\
      validate_structure L o = [])) ->
  validate_loop f L os al = [].
Proof.
  induction os as [|o os IH]; intros al H; [reflexivity|]. cbn [validate_loop].
  destruct (H o (or_introl eq_refl)) as [Hi|[Hd [Hc Hs]]].
  - rewrite Hi. apply IH. intros o' Ho'. apply H. now right.
  - destruct (o_imp o); [apply IH; intros o' Ho'; apply H; now right|].
    unfold validate_interface.
    destruct (itype_eqb (determine f L o) INone) eqn:E; [apply itype_eqb_eq in E; contradiction|].
    rewrite Hc, Hs. cbn. apply IH. intros o' Ho'. apply H. now right.
Qed.

Lemma all_possible_fix_occ f L o : AllPossible L (fix_occ f L o) <-> AllPossible L o.
Proof.
  destruct (fix_occ_pos f L o) as [Hp [Hc [_ [_ [He _]]]]].
  unfold AllPossible, Impossible, NeedsPublic, NeedsPrivate. rewrite Hp, Hc, He. reflexivity.
Qed.

(** true => the validator's interface and equivalence-structure checks are silent on the result *)
Lemma validator_silent_after_fix m :
  snd (fix_model true m) = true -> validate_connections true (fst (fix_model true m)) = [].
Proof.
  intros Hok. unfold validate_connections. rewrite model_locs_fix. apply validate_loop_nil.
  intros o' Ho'. right. apply in_with_eqs in Ho'. destruct Ho' as [Ho' Hne'].
  rewrite model_occs_fix in Ho'. apply in_map_iff in Ho'. destruct Ho' as [o [<- Ho]].
  rewrite has_eqs_fix_occ in Hne'.
  assert (Hall : AllPossible (model_locs m) o).
  { intros e He Hi. assert (X : snd (fix_model true m) = false) by (apply fix_false_iff; exists o, e; auto). congruence. }
  destruct (fix_occ_result true _ _ Hne' Hall) as [Hd E].
  unfold determine. rewrite required_fix_occ. fold (determine true (model_locs m) o).
  split; [exact Hd|]. split.
  - rewrite E. destruct (permits (v_iface (o_v o)) (determine true (model_locs m) o)) eqn:Ep.
    + apply permits_spec in Ep. destruct Ep as [Ep|[Ep|Ep]]; [contradiction | |].
      * rewrite Ep. now apply compatible_both.
      * rewrite Ep. now apply compatible_self.
    + now apply compatible_self.
  - apply validate_structure_nil. now apply all_possible_fix_occ.
Qed.

Lemma unreach_issues_nil L o es : forall al,
  fst (unreach_issues L o es al) = [] ->
  snd (unreach_issues L o es al) = al /\
  forall e, In e es -> forall ce pe, lookup_loc L e = Some (ce, pe) ->
    reachable (o_c o) (Some (o_p o)) ce pe = true \/ pair_in e (v_tag (o_v o)) al = true.
Proof.
  induction es as [|x es IH]; intros al H; cbn [unreach_issues] in *.
  - split; [reflexivity | intros e []].
  - destruct (lookup_loc L x) as [[cx px]|] eqn:Ex.
    + destruct (negb (reachable (o_c o) (Some (o_p o)) cx px) && negb (pair_in x (v_tag (o_v o)) al)) eqn:Et.
      * cbn in H. discriminate.
      * destruct (IH al H) as [A B]. split; [exact A|]. intros e [<-|He] ce pe Hl.
        -- rewrite Ex in Hl. injection Hl as <- <-. apply andb_false_iff in Et.
           destruct Et as [Et|Et]; apply negb_false_iff in Et; auto.
        -- now apply (B e He).
    + destruct (IH al H) as [A B]. split; [exact A|]. intros e [<-|He] ce pe Hl; [congruence|]. now apply (B e He).
Qed.

Lemma reachable_possible L o e ce pe :
  lookup_loc L e = Some (ce, pe) -> reachable (o_c o) (Some (o_p o)) ce pe = true -> ~ Impossible L o e.
Proof.
  intros Hl Hr Hi. apply impossible_iff in Hi. destruct Hi as [Hi|[ce' [pe' [Hl' [A [B C]]]]]]; [congruence|].
  rewrite Hl in Hl'. injection Hl' as <- <-. unfold reachable, siblings in Hr. cbn [child_of] in Hr.
  apply orb_true_iff in Hr. destruct Hr as [Hr|Hr]; [apply orb_true_iff in Hr; destruct Hr as [Hr|Hr]|].
  - apply Nat.eqb_eq in Hr. congruence.
  - destruct pe as [x|]; [|discriminate]. cbn in Hr. apply Nat.eqb_eq in Hr. congruence.
  - apply opt_nat_eqb_eq in Hr. congruence.
Qed.

Lemma validate_loop_complete L os :
  validate_loop true L os [] = [] ->
  forall o, In o os -> o_imp o = false -> has_eqs (o_v o) = true -> AllPossible L o.
Proof.
  induction os as [|o os IH]; intros H o' Ho' Himp Hne; [contradiction|]. cbn [validate_loop] in H.
  destruct (o_imp o) eqn:Ei.
  - destruct Ho' as [<-|Ho']; [congruence|]. now apply IH.
  - apply app_eq_nil in H. destruct H as [H1 H2]. apply app_eq_nil in H2. destruct H2 as [H2 H3].
    assert (Hal : snd (validate_interface true L o []) = []).
    { unfold validate_interface in *. destruct (itype_eqb (determine true L o) INone).
      - now apply unreach_issues_nil.
      - destruct (iface_compatible _ _); reflexivity. }
    rewrite Hal in H3. destruct Ho' as [<-|Ho']; [|now apply IH].
    intros e He Hi.
    pose proof (validate_structure_nil_inv L o H2 e He) as Hsome.
    destruct (lookup_loc L e) as [[ce pe]|] eqn:El; [|congruence].
    assert (Hd : determine true L o = INone) by (apply (determine_fixed_none L o Hne); eauto).
    unfold validate_interface in H1. rewrite Hd in H1. cbn [itype_eqb] in H1.
    destruct (unreach_issues_nil L o _ [] H1) as [_ B].
    destruct (B e He ce pe El) as [R|R]; [|discriminate].
    exact (reachable_possible L o e ce pe El R Hi).
Qed.

(** the repaired validator is complete for impossible equivalences: silence means there is none *)
Lemma validator_complete m :
  validate_connections true m = [] ->
  forall o, In o (model_occs m) -> o_imp o = false -> AllPossible (model_locs m) o.
Proof.
  intros H o Ho Himp. destruct (has_eqs (o_v o)) eqn:Hne.
  - apply (validate_loop_complete _ _ H o); auto. apply in_with_eqs. auto.
  - intros e He. unfold has_eqs in Hne. destruct (v_eqs (o_v o)); [contradiction | discriminate].
Qed.

(* ------------------------------------------------------------------------------------------------ *)
(** * Idempotence *)

Lemma fix_iface_idem f L p c imp v :
  fix_iface f L (mkO p c imp (set_iface v (fix_iface f L (mkO p c imp v)))) = fix_iface f L (mkO p c imp v).
Proof.
  assert (D : forall s, determine f L (mkO p c imp (set_iface v s)) = determine f L (mkO p c imp v)) by reflexivity.
  unfold fix_iface at 1. rewrite D. cbn [o_v set_iface v_iface].
  unfold fix_iface. set (t := determine f L (mkO p c imp v)). cbn [o_v].
  destruct (itype_eqb t INone) eqn:En; [reflexivity|].
  destruct (permits (v_iface v) t) eqn:Ep; [now rewrite Ep|].
  assert (Y : permits (itype_string t) t = true) by (apply permits_spec; auto). now rewrite Y.
Qed.

Lemma fix_var_idem f L p c imp v :
  fix_var f L p c imp (fix_var f L p c imp v) = fix_var f L p c imp v.
Proof.
  unfold fix_var at 2. destruct (has_eqs v) eqn:Hne; [|unfold fix_var; now rewrite Hne].
  unfold fix_var. assert (X : has_eqs (set_iface v (fix_iface f L (mkO p c imp v))) = true) by exact Hne.
  rewrite X, fix_iface_idem, Hne. reflexivity.
Qed.

Lemma fix_comp_idem f L c : forall p, fix_comp f L p (fix_comp f L p c) = fix_comp f L p c.
Proof.
  induction c as [t i vs ks IH] using comp_ind'. intros p. cbn [fix_comp]. rewrite !map_map. f_equal.
  - apply map_ext. intros v. apply fix_var_idem.
  - apply map_ext_Forall. eapply Forall_impl; [|exact IH]. intros k Hk. apply Hk.
Qed.

Lemma fix_idempotent f m :
  fix_model f (fst (fix_model f m)) = (fst (fix_model f m), snd (fix_model f m)).
Proof.
  pose proof (model_locs_fix f m) as HL.
  unfold fix_model at 1. rewrite HL. f_equal.
  - unfold fix_model. cbn [fst m_tag m_heap m_units m_comps m_ext]. f_equal. rewrite map_map.
    apply map_ext. intros c. apply fix_comp_idem.
  - rewrite model_with_eqs_filter, model_occs_fix, filter_map_comm. unfold fix_ok. rewrite forallb_map.
    unfold fix_model. cbn [snd]. rewrite model_with_eqs_filter. unfold fix_ok.
    rewrite (filter_ext _ (fun o => has_eqs (o_v o))) by (intros o; apply has_eqs_fix_occ).
    apply forallb_ext_Forall. apply Forall_forall. intros o _. unfold determine. now rewrite required_fix_occ.
Qed.

(* ------------------------------------------------------------------------------------------------ *)
(** * Witnesses: the pinned loop breaks the property *)

Definition ci0 (n : string) : cinfo := mkCI n "" "" 0 false.

(** DESIGN row 28: A > B > C, a in A, b in B, c in C, p parent-less; b ~ a, b ~ c, b ~ p in that order. *)
Definition m28 : model :=
  mkM 0 [] []
      [Comp 1 (ci0 "A") [mkV 4 "" [5] None]
         [Comp 2 (ci0 "B") [mkV 5 "" [4; 6; 7] None]
            [Comp 3 (ci0 "C") [mkV 6 "" [5] None] []]]]
      [mkX 7 None].

(** the same with the third variable owned by a component that is outside the model *)
Definition m28x : model :=
  mkM 0 [] []
      [Comp 1 (ci0 "A") [mkV 4 "" [5] None]
         [Comp 2 (ci0 "B") [mkV 5 "" [4; 6; 7] None]
            [Comp 3 (ci0 "C") [mkV 6 "" [5] None] []]]]
      [mkX 7 (Some (8, None))].

Definition occ_b : occ := mkO 1 2 false (mkV 5 "" [4; 6; 7] None).

Lemma unfixed_true_sufficient_refuted :
  exists m, snd (fix_model false m) = true /\
    (exists o e, In o (model_occs m) /\ In e (v_eqs (o_v o)) /\ Impossible (model_locs m) o e) /\
    validate_connections false (fst (fix_model false m)) <> [].
Proof.
  exists m28. split; [reflexivity|]. split.
  - exists occ_b, 7. split; [cbn; auto|]. split; [cbn; auto|]. apply impossible_iff. left. reflexivity.
  - vm_compute. discriminate.
Qed.

Lemma unfixed_validator_blind_refuted :
  exists m, snd (fix_model false m) = true /\ validate_connections false (fst (fix_model false m)) = [] /\
    validate_connections false m = [IssIface 4; IssIface 5; IssIface 6] /\
    exists o e, In o (model_occs m) /\ o_imp o = false /\ In e (v_eqs (o_v o)) /\ Impossible (model_locs m) o e.
Proof.
  exists m28x. split; [reflexivity|]. split; [reflexivity|]. split; [reflexivity|].
  exists occ_b, 7. split; [cbn; auto|]. split; [reflexivity|]. split; [cbn; auto|].
  apply impossible_iff. right. exists 8, None. cbn. repeat split; discriminate.
Qed.

Lemma unfixed_changes_impossible_refuted :
  exists m o, In o (model_occs m) /\ (exists e, In e (v_eqs (o_v o)) /\ Impossible (model_locs m) o e) /\
    fix_occ false (model_locs m) o <> o.
Proof.
  exists m28, occ_b. split; [cbn; auto|]. split.
  - exists 7. split; [cbn; auto|]. apply impossible_iff. left. reflexivity.
  - vm_compute. discriminate.
Qed.

(** the repaired loop on the same inputs *)
Lemma fixed_on_witnesses :
  snd (fix_model true m28) = false /\ fst (fix_model true m28) = mkM 0 [] []
      [Comp 1 (ci0 "A") [mkV 4 "private" [5] None]
         [Comp 2 (ci0 "B") [mkV 5 "" [4; 6; 7] None]
            [Comp 3 (ci0 "C") [mkV 6 "public" [5] None] []]]]
      [mkX 7 None] /\
  validate_connections true (fst (fix_model true m28)) = [IssNoParent 5 7] /\
  snd (fix_model true m28x) = false /\
  validate_connections true (fst (fix_model true m28x)) = [IssUnreach 5 7].
Proof. repeat split; reflexivity. Qed.

Lemma hidden_on_witness : hidden_bad (model_locs m28) occ_b = true /\ HiddenImpossible (model_locs m28) occ_b.
Proof. split; [reflexivity | apply hidden_bad_iff; reflexivity]. Qed.

(** non-vacuity of the implications: a model on which the repaired function returns true after rewriting *)
Definition m_ok : model :=
  mkM 0 [] []
      [Comp 1 (ci0 "A") [mkV 4 "bogus" [5] None]
         [Comp 2 (ci0 "B") [mkV 5 "public" [4; 6] None]
            [Comp 3 (ci0 "C") [mkV 6 "public_and_private" [5] None] []]]]
      [].

Lemma fix_nonvacuous :
  fix_model true m_ok =
    (mkM 0 [] []
      [Comp 1 (ci0 "A") [mkV 4 "private" [5] None]
         [Comp 2 (ci0 "B") [mkV 5 "public_and_private" [4; 6] None]
            [Comp 3 (ci0 "C") [mkV 6 "public_and_private" [5] None] []]]]
      [], true) /\
  validate_connections true m_ok = [IssIface 4; IssIface 5] /\
  validate_connections true (fst (fix_model true m_ok)) = [].
Proof. repeat split; reflexivity. Qed.

(* ------------------------------------------------------------------------------------------------ *)
(** * Unit linking *)

Lemma find_units_some m n t :
  find_units (m_heap m) (m_units m) n = Some t -> FirstNamed m n t.
Proof.
  unfold FirstNamed. generalize (m_units m). intros us. induction us as [|x us IH]; [discriminate|].
  cbn [find_units]. destruct (uget (m_heap m) x) as [ux|] eqn:Ex.
  - destruct (String.eqb (u_name ux) n) eqn:En.
    + intros H. injection H as <-. apply String.eqb_eq in En. exists [], us, ux.
      split; [reflexivity|]. split; [exact Ex|]. split; [exact En|]. intros t' u' [].
    + intros H. destruct (IH H) as [l1 [l2 [u [-> [A [B C]]]]]]. exists (x :: l1), l2, u.
      split; [reflexivity|]. split; [exact A|]. split; [exact B|].
      intros t' u' [<-|Hin] Hu.
      * rewrite Ex in Hu. injection Hu as <-. now apply String.eqb_neq.
      * now apply (C t' u' Hin).
  - intros H. destruct (IH H) as [l1 [l2 [u [-> [A [B C]]]]]]. exists (x :: l1), l2, u.
    split; [reflexivity|]. split; [exact A|]. split; [exact B|].
    intros t' u' [<-|Hin] Hu; [congruence | now apply (C t' u' Hin)].
Qed.

Lemma find_units_none m n : find_units (m_heap m) (m_units m) n = None -> NoneNamed m n.
Proof.
  unfold NoneNamed. generalize (m_units m). intros us. induction us as [|x us IH]; intros H t u Hin Hu; [contradiction|].
  cbn [find_units] in H. destruct (uget (m_heap m) x) as [ux|] eqn:Ex.
  - destruct (String.eqb (u_name ux) n) eqn:En; [discriminate|]. destruct Hin as [<-|Hin].
    + rewrite Ex in Hu. injection Hu as <-. now apply String.eqb_neq.
    + now apply (IH H t u).
  - destruct Hin as [<-|Hin]; [congruence | now apply (IH H t u)].
Qed.

Lemma first_named_in m n t : FirstNamed m n t -> In t (m_units m).
Proof. intros [l1 [l2 [u [-> _]]]]. apply in_or_app. right. now left. Qed.

(** linkUnits on one variable, case by case *)
Lemma link_var_case m v : LinkCase m v (fst (link_var m v)) (snd (link_var m v)).
Proof.
  unfold link_var. destruct (v_units v) as [t|] eqn:Ev; [|now apply LC_none].
  destruct (uget (m_heap m) t) as [u|] eqn:Eu; [|now apply (LC_dangling m v t)].
  destruct (opt_nat_eqb (u_owner u) (Some (m_tag m))) eqn:Eo.
  - apply opt_nat_eqb_eq in Eo. now apply (LC_linked m v t u).
  - destruct (u_owner u) as [w|] eqn:Ew.
    + cbn. apply (LC_foreign m v t u w); auto. intros ->. cbn in Eo. now rewrite Nat.eqb_refl in Eo.
    + destruct (is_standard_unit u) eqn:Es; cbn [negb].
      * now apply (LC_standard m v t u).
      * destruct (find_units (m_heap m) (m_units m) (u_name u)) as [t'|] eqn:Ef; cbn [fst snd].
        -- apply (LC_byname m v t u t'); auto. now apply find_units_some.
        -- apply (LC_missing m v t u); auto. now apply find_units_none.
Qed.

Lemma link_var_fields m v :
  v_tag (fst (link_var m v)) = v_tag v /\ v_iface (fst (link_var m v)) = v_iface v /\
  v_eqs (fst (link_var m v)) = v_eqs v.
Proof. destruct (link_var_case m v); repeat split; reflexivity. Qed.

Lemma comp_occs_link m c : forall p, comp_occs p (link_comp m c) = map (link_occ m) (comp_occs p c).
Proof.
  induction c as [t i vs ks IH] using comp_ind'. intros p. cbn [link_comp comp_occs].
  rewrite map_app, !map_map, flat_map_map, map_flat_map. f_equal.
  apply flat_map_ext_Forall. eapply Forall_impl; [|exact IH]. intros k Hk. apply Hk.
Qed.

Lemma model_occs_link m : model_occs (fst (link_model m)) = map (link_occ m) (model_occs m).
Proof.
  unfold model_occs, link_model. cbn [fst m_comps m_tag]. rewrite flat_map_map, map_flat_map.
  apply flat_map_ext_Forall. apply Forall_forall. intros c _. apply comp_occs_link.
Qed.

Lemma link_status_occs m c : forall p,
  link_status m c = forallb (fun o => snd (link_var m (o_v o))) (comp_occs p c).
Proof.
  induction c as [t i vs ks IH] using comp_ind'. intros p. cbn [link_status comp_occs].
  rewrite forallb_app, forallb_map, forallb_flat_map. f_equal.
  apply forallb_ext_Forall. eapply Forall_impl; [|exact IH]. intros k Hk. apply Hk.
Qed.

Lemma link_ok_occs m : snd (link_model m) = forallb (fun o => snd (link_var m (o_v o))) (model_occs m).
Proof.
  unfold link_model, model_occs. cbn [snd]. rewrite forallb_flat_map.
  apply forallb_ext_Forall. apply Forall_forall. intros c _. apply link_status_occs.
Qed.

Lemma comp_unlinked_occs m c : forall p,
  comp_unlinked m c = existsb (fun o => var_unlinked m (o_v o)) (comp_occs p c).
Proof.
  induction c as [t i vs ks IH] using comp_ind'. intros p. cbn [comp_unlinked comp_occs].
  rewrite existsb_app, existsb_map, existsb_flat_map. f_equal.
  apply existsb_ext_Forall. eapply Forall_impl; [|exact IH]. intros k Hk. apply Hk.
Qed.

Lemma has_unlinked_occs m : has_unlinked m = existsb (fun o => var_unlinked m (o_v o)) (model_occs m).
Proof.
  unfold has_unlinked, model_occs. rewrite existsb_flat_map.
  apply existsb_ext_Forall. apply Forall_forall. intros c _. apply comp_unlinked_occs.
Qed.

(** hasUnlinkedUnits, declaratively *)
Lemma has_unlinked_iff m :
  has_unlinked m = true <->
  exists o t u, In o (model_occs m) /\ v_units (o_v o) = Some t /\ uget (m_heap m) t = Some u /\
    is_standard_unit u = false /\ u_owner u <> Some (m_tag m).
Proof.
  rewrite has_unlinked_occs, existsb_exists. split.
  - intros [o [Ho H]]. unfold var_unlinked in H.
    destruct (v_units (o_v o)) as [t|] eqn:Ev; [|discriminate].
    destruct (uget (m_heap m) t) as [u|] eqn:Eu; [|discriminate].
    destruct (is_standard_unit u) eqn:Es; [discriminate|]. cbn [negb] in H.
    exists o, t, u. repeat split; auto. destruct (u_owner u) as [w|]; [|discriminate].
    intros E. injection E as ->. now rewrite Nat.eqb_refl in H.
  - intros [o [t [u [Ho [Ev [Eu [Es Ew]]]]]]]. exists o. split; [exact Ho|].
    unfold var_unlinked. rewrite Ev, Eu, Es. cbn [negb]. destruct (u_owner u) as [w|]; [|reflexivity].
    apply negb_true_iff. apply Nat.eqb_neq. congruence.
Qed.

Lemma var_unlinked_ext m m' v :
  m_heap m' = m_heap m -> m_tag m' = m_tag m -> var_unlinked m' v = var_unlinked m v.
Proof. intros H1 H2. unfold var_unlinked. now rewrite H1, H2. Qed.

Lemma link_var_ext m m' v :
  m_heap m' = m_heap m -> m_tag m' = m_tag m -> m_units m' = m_units m -> link_var m' v = link_var m v.
Proof. intros H1 H2 H3. unfold link_var. now rewrite H1, H2, H3. Qed.

(** a variable that was handled successfully is not unlinked afterwards *)
Lemma link_var_then_linked m v :
  units_owned m -> snd (link_var m v) = true -> var_unlinked m (fst (link_var m v)) = false.
Proof.
  intros Hown Hok. destruct (link_var_case m v) as [Ev|t Ev Eu|t u Ev Eu Eo|t u Ev Eu Eo Es|t u t' Ev Eu Eo Es Hf|t u Ev Eu Eo Es Hn|t u w Ev Eu Eo Hw];
    try discriminate; unfold var_unlinked.
  - now rewrite Ev.
  - now rewrite Ev, Eu.
  - rewrite Ev, Eu, Eo. rewrite Nat.eqb_refl. now destruct (is_standard_unit u).
  - now rewrite Ev, Eu, Es.
  - cbn [set_units v_units]. destruct (Hown t' (first_named_in _ _ _ Hf)) as [u' [Eu' Eo']].
    rewrite Eu', Eo', Nat.eqb_refl. now destruct (is_standard_unit u').
Qed.

(** linkUnits = true => nothing is unlinked, and every variable naming non-standard units holds the model's
    own units object of that name *)
Lemma link_true_post m :
  units_owned m -> snd (link_model m) = true ->
  has_unlinked (fst (link_model m)) = false /\
  forall o t u, In o (model_occs m) -> v_units (o_v o) = Some t -> uget (m_heap m) t = Some u ->
    is_standard_unit u = false ->
    exists t' u', v_units (o_v (link_occ m o)) = Some t' /\ uget (m_heap m) t' = Some u' /\
      u_owner u' = Some (m_tag m) /\ u_name u' = u_name u /\ (t' = t \/ FirstNamed m (u_name u) t').
Proof.
  intros Hown Hok. rewrite link_ok_occs in Hok. rewrite forallb_forall in Hok. split.
  - rewrite has_unlinked_occs, model_occs_link, existsb_map.
    apply not_true_is_false. intros E. apply existsb_exists in E. destruct E as [o [Ho E]].
    unfold link_occ in E. cbn [o_v] in E.
    rewrite (var_unlinked_ext m (fst (link_model m))) in E by reflexivity.
    rewrite (link_var_then_linked m (o_v o) Hown (Hok o Ho)) in E. discriminate.
  - intros o t u Ho Ev Eu Es. specialize (Hok o Ho). unfold link_occ. cbn [o_v].
    destruct (link_var_case m (o_v o)) as [Ev'|t0 Ev' Eu'|t0 u0 Ev' Eu' Eo|t0 u0 Ev' Eu' Eo Es'|t0 u0 t' Ev' Eu' Eo Es' Hf|t0 u0 Ev' Eu' Eo Es' Hn|t0 u0 w Ev' Eu' Eo Hw];
      try discriminate; try congruence.
    + assert (t0 = t) by congruence. subst t0. assert (u0 = u) by congruence. subst u0.
      exists t, u. repeat split; auto.
    + assert (t0 = t) by congruence. subst t0. assert (u0 = u) by congruence. subst u0.
      destruct (Hown t' (first_named_in _ _ _ Hf)) as [u' [Eu'' Eo']].
      exists t', u'. cbn [set_units v_units]. repeat split; auto.
      destruct Hf as [l1 [l2 [u2 [_ [A [B _]]]]]]. congruence.
Qed.

(** false exactly when some variable holds units that cannot be linked *)
Lemma link_false_iff m :
  snd (link_model m) = false <->
  exists o t u, In o (model_occs m) /\ v_units (o_v o) = Some t /\ uget (m_heap m) t = Some u /\
    ((u_owner u = None /\ is_standard_unit u = false /\ NoneNamed m (u_name u)) \/
     (exists w, u_owner u = Some w /\ w <> m_tag m)).
Proof.
  rewrite link_ok_occs. split.
  - intros H. apply not_true_iff_false in H. rewrite forallb_forall in H.
    assert (X : exists o, In o (model_occs m) /\ snd (link_var m (o_v o)) = false).
    { clear -H. induction (model_occs m) as [|o os IH].
      - exfalso. apply H. intros x [].
      - destruct (snd (link_var m (o_v o))) eqn:E.
        + destruct IH as [o' [Ho' E']].
          * intros A. apply H. intros x [<-|Hx]; [exact E | now apply A].
          * exists o'. split; [now right | exact E'].
        + exists o. split; [now left | exact E]. }
    destruct X as [o [Ho E]].
    destruct (link_var_case m (o_v o)) as [Ev|t Ev Eu|t u Ev Eu Eo|t u Ev Eu Eo Es|t u t' Ev Eu Eo Es Hf|t u Ev Eu Eo Es Hn|t u w Ev Eu Eo Hw];
      try discriminate.
    + exists o, t, u. repeat split; auto.
    + exists o, t, u. repeat split; auto. right. exists w. auto.
  - intros [o [t [u [Ho [Ev [Eu H]]]]]]. apply not_true_iff_false. intros A. rewrite forallb_forall in A.
    specialize (A o Ho).
    destruct (link_var_case m (o_v o)) as [Ev'|t0 Ev' Eu'|t0 u0 Ev' Eu' Eo|t0 u0 Ev' Eu' Eo Es'|t0 u0 t' Ev' Eu' Eo Es' Hf|t0 u0 Ev' Eu' Eo Es' Hn|t0 u0 w Ev' Eu' Eo Hw];
      try discriminate; try congruence.
    all: assert (t0 = t) by congruence; subst t0; assert (u0 = u) by congruence; subst u0.
    + destruct H as [[Ho' _]|[w [Hw Hne]]]; congruence.
    + destruct H as [[_ [Hs _]]|[w [Hw _]]]; congruence.
    + destruct H as [[_ [_ Hn]]|[w [Hw _]]]; [|congruence].
      destruct Hf as [l1 [l2 [u2 [Hl [A' [B _]]]]]]. apply (Hn t' u2); auto.
      rewrite Hl. apply in_or_app. right. now left.
Qed.

(** nothing but the units held by variables changes *)
Lemma nounits_link_var m v : nounits_var (fst (link_var m v)) = nounits_var v.
Proof. destruct (link_var_case m v); reflexivity. Qed.

Lemma nounits_link_comp m c : nounits_comp (link_comp m c) = nounits_comp c.
Proof.
  induction c as [t i vs ks IH] using comp_ind'. cbn [link_comp nounits_comp]. rewrite !map_map. f_equal.
  - apply map_ext. intros v. apply nounits_link_var.
  - now apply map_ext_Forall.
Qed.

Lemma link_frame m :
  let m' := fst (link_model m) in
  m_tag m' = m_tag m /\ m_heap m' = m_heap m /\ m_units m' = m_units m /\ m_ext m' = m_ext m /\
  map nounits_comp (m_comps m') = map nounits_comp (m_comps m).
Proof. cbn. repeat split. rewrite map_map. apply map_ext. intros c. apply nounits_link_comp. Qed.

(** a second call changes nothing and answers the same *)
Lemma link_var_idem m v :
  units_owned m -> link_var m (fst (link_var m v)) = (fst (link_var m v), snd (link_var m v)).
Proof.
  intros Hown. pose proof (link_var_case m v) as H.
  destruct (link_var m v) as [v' b] eqn:E. cbn [fst snd] in *.
  inversion H as [Ev|t Ev Eu|t u Ev Eu Eo|t u Ev Eu Eo Es|t u t' Ev Eu Eo Es Hf|t u Ev Eu Eo Es Hn|t u w Ev Eu Eo Hw];
    subst; try exact E.
  destruct (Hown t' (first_named_in _ _ _ Hf)) as [u' [Eu' Eo']].
  unfold link_var. cbn [set_units v_units]. rewrite Eu', Eo'. cbn [opt_nat_eqb]. now rewrite Nat.eqb_refl.
Qed.

Lemma link_comp_idem m c : units_owned m -> link_comp m (link_comp m c) = link_comp m c.
Proof.
  intros Hown. induction c as [t i vs ks IH] using comp_ind'. cbn [link_comp]. rewrite !map_map. f_equal.
  - apply map_ext. intros v. now rewrite link_var_idem.
  - now apply map_ext_Forall.
Qed.

Lemma link_idempotent m :
  units_owned m -> link_model (fst (link_model m)) = (fst (link_model m), snd (link_model m)).
Proof.
  intros Hown. set (m' := fst (link_model m)).
  assert (E : forall v, link_var m' v = link_var m v) by (intros v; now apply link_var_ext).
  unfold link_model at 1. f_equal.
  - unfold m', link_model. cbn [fst m_tag m_heap m_units m_comps m_ext]. f_equal. rewrite map_map.
    apply map_ext. intros c.
    assert (X : forall c0, link_comp (fst (link_model m)) c0 = link_comp m c0).
    { induction c0 as [t i vs ks IH] using comp_ind'. cbn [link_comp]. f_equal.
      all: try (apply map_ext; intros v; now rewrite (E v)).
      all: now apply map_ext_Forall. }
    rewrite X. now apply link_comp_idem.
  - change (forallb (link_status m') (m_comps m')) with (snd (link_model m')).
    rewrite !link_ok_occs. unfold m' at 2. rewrite model_occs_link, forallb_map.
    apply forallb_ext_Forall. apply Forall_forall. intros o _. unfold link_occ. cbn [o_v].
    rewrite E, link_var_idem by exact Hown. reflexivity.
Qed.

(** non-vacuity *)
Definition u_own : uobj := mkU 10 "ua" "" 1 false (Some 0).
Definition u_byname : uobj := mkU 11 "ua" "" 0 false None.
Definition u_std : uobj := mkU 12 "second" "" 0 false None.
Definition m_link : model :=
  mkM 0 [u_own; u_byname; u_std] [10]
      [Comp 1 (ci0 "A") [mkV 4 "" [] (Some 11); mkV 5 "" [] (Some 12); mkV 6 "" [] (Some 10); mkV 7 "" [] None] []] [].

Lemma link_nonvacuous :
  units_owned m_link /\ has_unlinked m_link = true /\
  link_model m_link =
    (mkM 0 [u_own; u_byname; u_std] [10]
       [Comp 1 (ci0 "A") [mkV 4 "" [] (Some 10); mkV 5 "" [] (Some 12); mkV 6 "" [] (Some 10); mkV 7 "" [] None] []] [],
     true).
Proof.
  split; [|split; reflexivity].
  intros t [<-|[]]. exists u_own. split; reflexivity.
Qed.

(* ------------------------------------------------------------------------------------------------ *)
(** * Cleaning *)

Lemma str_empty_iff s : str_empty s = true <-> s = "".
Proof. destruct s; cbn; split; congruence. Qed.

Lemma own_empty_iff i vs :
  own_empty i vs = true <->
  vs = [] /\ ci_resets i = 0 /\ ci_math i = "" /\ ci_import i = false /\ ci_name i = "" /\ ci_id i = "".
Proof.
  unfold own_empty. rewrite !andb_true_iff, !str_empty_iff, negb_true_iff, Nat.eqb_eq. split.
  - intros [[[[A B] C] D] E]. destruct vs; [|cbn in A; lia]. cbn in A. repeat split; auto.
  - intros [-> [A [B [C [D E]]]]]. cbn. repeat split; auto.
Qed.

(** the boolean test is the documented definition *)
Lemma emptyb_iff c : emptyb c = true <-> Empty c.
Proof.
  induction c as [t i vs ks IH] using comp_ind'. cbn [emptyb]. rewrite andb_true_iff, own_empty_iff, forallb_forall. split.
  - intros [[-> [A [B [C [D E]]]]] F]. constructor; auto. apply Forall_forall. intros k Hk.
    rewrite Forall_forall in IH. apply (IH k Hk). now apply F.
  - intros H. inversion H as [t' i' ks' A B C D E F]; subst. split; [repeat split; auto|].
    intros k Hk. rewrite Forall_forall in IH, F. apply (IH k Hk). now apply F.
Qed.

Definition kept (ks : list comp) : list comp := flat_map (fun k => if emptyb k then [] else [prune k]) ks.

Lemma kept_of_results ks :
  map fst (filter (fun r : comp * bool => negb (snd r)) (map (fun k => (prune k, emptyb k)) ks)) = kept ks.
Proof.
  induction ks as [|k ks IH]; [reflexivity|]. cbn. destruct (emptyb k); cbn; now rewrite IH.
Qed.

Lemma length_kept ks : Nat.eqb (length (kept ks)) 0 = forallb emptyb ks.
Proof.
  induction ks as [|k ks IH]; [reflexivity|]. cbn. destruct (emptyb k); cbn; [exact IH | reflexivity].
Qed.

(** traverseHierarchyAndRemoveIfEmpty = (the tree without its empty components, "it is empty") *)
Lemma clean_comp_spec c : clean_comp c = (prune c, emptyb c).
Proof.
  induction c as [t i vs ks IH] using comp_ind'. cbn [clean_comp prune emptyb].
  rewrite (map_ext_Forall clean_comp (fun k => (prune k, emptyb k)) ks IH), kept_of_results. fold (kept ks).
  f_equal. unfold own_empty. rewrite <- length_kept.
  destruct (length vs + ci_resets i) as [|n]; cbn.
  - destruct (Nat.eqb (length (kept ks)) 0), (str_empty (ci_math i)), (ci_import i), (str_empty (ci_name i)),
      (str_empty (ci_id i)); reflexivity.
  - reflexivity.
Qed.

Lemma clean_comps m : m_comps (clean_model m) = kept (m_comps m).
Proof.
  unfold clean_model. cbn [m_comps].
  rewrite (map_ext clean_comp (fun k => (prune k, emptyb k)) clean_comp_spec). apply kept_of_results.
Qed.

(** rows: the components that survive are exactly the non-empty ones, with their own data, in order *)
Lemma rows_prune c :
  (forall p, emptyb c = true -> filter (fun r => negb (row_empty r)) (comp_rows p c) = []) /\
  (forall p, emptyb c = false ->
     map fst (comp_rows p (prune c)) = map fst (filter (fun r => negb (row_empty r)) (comp_rows p c))).
Proof.
  induction c as [t i vs ks IH] using comp_ind'. split; intros p He.
  - cbn [comp_rows filter row_empty snd]. rewrite He. cbn [negb]. rewrite filter_flat_map. apply flat_map_nil.
    intros k Hk. cbn [emptyb] in He. apply andb_true_iff in He. destruct He as [_ He].
    rewrite forallb_forall in He. rewrite Forall_forall in IH. apply (proj1 (IH k Hk)). now apply He.
  - cbn [comp_rows filter row_empty snd prune]. rewrite He. cbn [negb map fst]. f_equal.
    rewrite filter_flat_map. clear He. induction IH as [|k ks Hk Hks IHks]; [reflexivity|].
    cbn [flat_map]. rewrite map_app.
    destruct (emptyb k) eqn:Ek.
    + rewrite (proj1 Hk t eq_refl). cbn. exact IHks.
    + cbn [flat_map app]. rewrite ?app_nil_r, ?map_app. rewrite (proj2 Hk t eq_refl). f_equal. exact IHks.
Qed.

Lemma clean_rows m :
  map fst (model_rows (clean_model m)) = map fst (filter (fun r => negb (row_empty r)) (model_rows m)).
Proof.
  unfold model_rows. rewrite clean_comps. assert (T : m_tag (clean_model m) = m_tag m) by reflexivity. rewrite T.
  generalize (m_tag m). intros p. induction (m_comps m) as [|c cs IH]; [reflexivity|].
  cbn [kept flat_map]. fold (kept cs). rewrite filter_app, !map_app. destruct (emptyb c) eqn:Ec.
  - rewrite (proj1 (rows_prune c) p Ec). cbn. exact IH.
  - cbn [flat_map app]. rewrite ?app_nil_r, ?map_app, (proj2 (rows_prune c) p Ec). f_equal. exact IH.
Qed.

Lemma emptyb_prune c : emptyb (prune c) = emptyb c.
Proof.
  induction c as [t i vs ks IH] using comp_ind'. cbn [prune emptyb]. f_equal.
  induction IH as [|k ks Hk Hks IHks]; [reflexivity|]. cbn.
  destruct (emptyb k) eqn:Ek; cbn.
  - exact IHks.
  - rewrite Hk. reflexivity.
Qed.

(** nothing empty is left *)
Lemma clean_leaves_no_empty m r : In r (model_rows (clean_model m)) -> row_empty r = false.
Proof.
  unfold model_rows. rewrite clean_comps. generalize (m_tag (clean_model m)). intros p.
  assert (X : forall c q r, emptyb c = false -> In r (comp_rows q (prune c)) -> row_empty r = false).
  { induction c as [t i vs ks IH] using comp_ind'. intros q r0 Ec Hr. cbn [prune comp_rows] in Hr.
    destruct Hr as [<-|Hr].
    - cbn. change (emptyb (prune (Comp t i vs ks)) = false). now rewrite emptyb_prune.
    - apply in_flat_map in Hr. destruct Hr as [k' [Hk' Hr]]. apply in_flat_map in Hk'.
      destruct Hk' as [k [Hk Hk']]. destruct (emptyb k) eqn:Ek; [contradiction|]. destruct Hk' as [<-|[]].
      rewrite Forall_forall in IH. exact (IH k Hk t r0 Ek Hr). }
  intros Hr. apply in_flat_map in Hr. destruct Hr as [c' [Hc' Hr]]. unfold kept in Hc'. apply in_flat_map in Hc'.
  destruct Hc' as [c [Hc Hc']]. destruct (emptyb c) eqn:Ec; [contradiction|]. destruct Hc' as [<-|[]].
  exact (X c p r Ec Hr).
Qed.

(** no variable is lost or moved *)
Lemma empty_no_occs c : forall p, emptyb c = true -> comp_occs p c = [].
Proof.
  induction c as [t i vs ks IH] using comp_ind'. intros p He. cbn [emptyb] in He.
  apply andb_true_iff in He. destruct He as [Ho Hk]. apply own_empty_iff in Ho. destruct Ho as [-> _].
  cbn [comp_occs map app]. apply flat_map_nil. intros k Hin. rewrite Forall_forall in IH.
  apply (IH k Hin). rewrite forallb_forall in Hk. now apply Hk.
Qed.

Lemma comp_occs_prune c : forall p, comp_occs p (prune c) = comp_occs p c.
Proof.
  induction c as [t i vs ks IH] using comp_ind'. intros p. cbn [prune comp_occs]. f_equal.
  induction IH as [|k ks Hk Hks IHks]; [reflexivity|]. cbn [flat_map].
  destruct (emptyb k) eqn:Ek.
  - rewrite (empty_no_occs k t Ek). cbn. exact IHks.
  - cbn [flat_map app]. rewrite ?app_nil_r. rewrite Hk. f_equal. exact IHks.
Qed.

Lemma clean_occs m : model_occs (clean_model m) = model_occs m.
Proof.
  unfold model_occs. rewrite clean_comps. assert (T : m_tag (clean_model m) = m_tag m) by reflexivity. rewrite T.
  generalize (m_tag m). intros p. induction (m_comps m) as [|c cs IH]; [reflexivity|].
  cbn [kept flat_map]. fold (kept cs). destruct (emptyb c) eqn:Ec.
  - rewrite (empty_no_occs c p Ec). cbn. exact IH.
  - cbn [flat_map app]. rewrite ?app_nil_r, comp_occs_prune. f_equal. exact IH.
Qed.

(** units *)
Lemma units_empty_iff u : units_empty u = true <-> EmptyUnits u.
Proof.
  unfold units_empty, EmptyUnits. rewrite !andb_true_iff, !str_empty_iff, negb_true_iff, Nat.eqb_eq. tauto.
Qed.

Lemma clean_units m :
  m_units (clean_model m) =
  filter (fun t => negb (match uget (m_heap m) t with Some u => units_empty u | None => false end)) (m_units m).
Proof. reflexivity. Qed.

Lemma clean_units_in m t :
  In t (m_units (clean_model m)) <->
  In t (m_units m) /\ ~ exists u, uget (m_heap m) t = Some u /\ EmptyUnits u.
Proof.
  rewrite clean_units, filter_In. split; intros [A B]; split; auto.
  - intros [u [Hu He]]. rewrite Hu in B. apply units_empty_iff in He. rewrite He in B. discriminate.
  - destruct (uget (m_heap m) t) as [u|]; [|reflexivity]. apply negb_true_iff. apply not_true_is_false.
    intros He. apply B. exists u. split; [reflexivity | now apply units_empty_iff].
Qed.

(** a removed units object loses its parent; every other units object is untouched *)
Lemma clean_heap m :
  m_heap (clean_model m) = map (orphan_removed m) (m_heap m) /\
  forall u, (In (u_tag u) (m_units m) /\ EmptyUnits u ->
             orphan_removed m u = mkU (u_tag u) (u_name u) (u_id u) (u_nunit u) (u_import u) None) /\
            (~ (In (u_tag u) (m_units m) /\ EmptyUnits u) -> orphan_removed m u = u).
Proof.
  split; [reflexivity|]. intros u. unfold orphan_removed.
  assert (X : existsb (Nat.eqb (u_tag u)) (m_units m) = true <-> In (u_tag u) (m_units m)).
  { rewrite existsb_exists. split.
    - intros [x [Hx E]]. apply Nat.eqb_eq in E. now subst.
    - intros H. exists (u_tag u). split; [exact H | apply Nat.eqb_refl]. }
  split.
  - intros [A B]. apply X in A. apply units_empty_iff in B. now rewrite A, B.
  - intros H. destruct (existsb (Nat.eqb (u_tag u)) (m_units m) && units_empty u) eqn:E; [|reflexivity].
    exfalso. apply H. apply andb_true_iff in E. destruct E as [A B]. split; [now apply X | now apply units_empty_iff].
Qed.

Lemma clean_rest m : m_tag (clean_model m) = m_tag m /\ m_ext (clean_model m) = m_ext m.
Proof. split; reflexivity. Qed.

(** non-vacuity: one empty chain, one component kept for each ingredient *)
Definition m_clean : model :=
  mkM 0 [mkU 20 "" "" 0 false (Some 0); mkU 21 "" "u" 0 false (Some 0)] [20; 21]
      [Comp 1 (ci0 "") [] [Comp 2 (ci0 "") [] []];
       Comp 3 (ci0 "") [] [Comp 4 (ci0 "") [] []; Comp 5 (mkCI "" "id" "" 0 false) [] []];
       Comp 6 (mkCI "" "" "" 0 true) [] [];
       Comp 7 (ci0 "") [mkV 9 "" [] (Some 20)] []] [].

Lemma clean_nonvacuous :
  clean_model m_clean =
  mkM 0 [mkU 20 "" "" 0 false None; mkU 21 "" "u" 0 false (Some 0)] [21]
      [Comp 3 (ci0 "") [] [Comp 5 (mkCI "" "id" "" 0 false) [] []];
       Comp 6 (mkCI "" "" "" 0 true) [] [];
       Comp 7 (ci0 "") [mkV 9 "" [] (Some 20)] []] [].
Proof. reflexivity. Qed.

(* ------------------------------------------------------------------------------------------------ *)
(** * Statements assembled for Properties_C19.v *)

Lemma P_fix_occurrences : forall fixed m,
  model_occs (fst (fix_model fixed m)) = map (fix_occ fixed (model_locs m)) (model_occs m) /\
  model_locs (fst (fix_model fixed m)) = model_locs m.
Proof. intros. split; [apply model_occs_fix | apply model_locs_fix]. Qed.

Lemma P_fix_result : forall fixed L o,
  has_eqs (o_v o) = true -> AllPossible L o ->
  determine true L o <> INone /\
  v_iface (o_v (fix_occ fixed L o)) =
    (if permits (v_iface (o_v o)) (determine true L o) then v_iface (o_v o) else itype_string (determine true L o)) /\
  (let s := v_iface (o_v (fix_occ fixed L o)) in s = "public" \/ s = "private" \/ s = "public_and_private").
Proof.
  intros fixed L o H1 H2. destruct (fix_occ_result fixed L o H1 H2) as [A B].
  split; [exact A|]. split; [exact B | exact (fix_occ_valid fixed L o H1 H2)].
Qed.

Lemma P_early_exit_exact : forall L o,
  (required false L o <> required true L o <-> HiddenImpossible L o) /\
  (HiddenImpossible L o -> required false L o = (true, true) /\ required true L o = (false, false)).
Proof.
  intros L o. split.
  - rewrite <- hidden_bad_iff. unfold hidden_bad. split.
    + intros H. destruct (pair_eqb (required false L o) (required true L o)) eqn:E; [|reflexivity].
      exfalso. apply H. destruct (required false L o) as [[] []], (required true L o) as [[] []]; cbn in E; congruence.
    + intros H E. rewrite E in H. destruct (required true L o) as [[] []]; discriminate H.
  - intros H. apply hidden_bad_iff in H. rewrite hidden_bad_hides in H.
    exact (required_unfixed_hidden _ _ _ _ _ _ H).
Qed.

Lemma P_fix_unfixed_partial : forall m,
  (forall o, In o (model_occs m) -> ~ HiddenImpossible (model_locs m) o) ->
  fix_model false m = fix_model true m.
Proof.
  intros m H. apply fix_model_unfixed_eq. intros o Ho.
  destruct (hidden_bad (model_locs m) o) eqn:E; [|reflexivity].
  exfalso. apply (H o Ho). now apply hidden_bad_iff.
Qed.

Lemma P_fix_witnesses_fixed :
  snd (fix_model true m28) = false /\
  validate_connections true (fst (fix_model true m28)) = [IssNoParent 5 7] /\
  snd (fix_model true m28x) = false /\
  validate_connections true (fst (fix_model true m28x)) = [IssUnreach 5 7].
Proof. destruct fixed_on_witnesses as [A [_ [B [C D]]]]. auto. Qed.

Lemma P_fix_nonvacuous :
  snd (fix_model true m_ok) = true /\ validate_connections true m_ok = [IssIface 4; IssIface 5] /\
  validate_connections true (fst (fix_model true m_ok)) = [] /\ fst (fix_model true m_ok) <> m_ok.
Proof. repeat split; try reflexivity. discriminate. Qed.

Lemma P_link_identity : forall m,
  model_occs (fst (link_model m)) = map (link_occ m) (model_occs m) /\
  snd (link_model m) = forallb (fun o => snd (link_var m (o_v o))) (model_occs m) /\
  forall v, LinkCase m v (fst (link_var m v)) (snd (link_var m v)).
Proof.
  intros m. split; [apply model_occs_link|]. split; [apply link_ok_occs|].
  intros v. apply link_var_case.
Qed.

Lemma P_link_nonvacuous :
  units_owned m_link /\ has_unlinked m_link = true /\ snd (link_model m_link) = true /\
  has_unlinked (fst (link_model m_link)) = false.
Proof.
  destruct link_nonvacuous as [A [B C]]. split; [exact A|]. split; [exact B|].
  rewrite C. split; reflexivity.
Qed.

Lemma P_empty_is_documented : forall c,
  clean_comp c = (prune c, emptyb c) /\ (emptyb c = true <-> Empty c).
Proof. intros c. split; [apply clean_comp_spec | apply emptyb_iff]. Qed.

Lemma P_clean_removes_exactly_empty : forall m,
  map fst (model_rows (clean_model m)) = map fst (filter (fun r => negb (row_empty r)) (model_rows m)) /\
  (forall r, In r (model_rows (clean_model m)) -> row_empty r = false) /\
  (forall t, In t (m_units (clean_model m)) <->
             In t (m_units m) /\ ~ exists u, uget (m_heap m) t = Some u /\ EmptyUnits u).
Proof.
  intros m. split; [apply clean_rows|]. split; [apply clean_leaves_no_empty|].
  apply clean_units_in.
Qed.

Lemma P_clean_frame : forall m,
  model_occs (clean_model m) = model_occs m /\
  m_units (clean_model m) =
    filter (fun t => negb (match uget (m_heap m) t with Some u => units_empty u | None => false end)) (m_units m) /\
  m_heap (clean_model m) = map (orphan_removed m) (m_heap m) /\
  (forall u, (In (u_tag u) (m_units m) /\ EmptyUnits u ->
              orphan_removed m u = mkU (u_tag u) (u_name u) (u_id u) (u_nunit u) (u_import u) None) /\
             (~ (In (u_tag u) (m_units m) /\ EmptyUnits u) -> orphan_removed m u = u)) /\
  m_tag (clean_model m) = m_tag m /\ m_ext (clean_model m) = m_ext m.
Proof.
  intros m. split; [apply clean_occs|]. split; [apply clean_units|].
  destruct (clean_heap m) as [A B]. split; [exact A|]. split; [exact B|]. apply clean_rest.
Qed.

Lemma P_clean_nonvacuous :
  map (fun r => snd (fst (fst (fst r)))) (model_rows m_clean) = [1; 2; 3; 4; 5; 6; 7] /\
  map (fun r => snd (fst (fst (fst r)))) (model_rows (clean_model m_clean)) = [3; 5; 6; 7] /\
  m_units (clean_model m_clean) = [21].
Proof. repeat split; reflexivity. Qed.

(** the ownership hypothesis of [link_true_post] is needed: a units object listed by the model whose parent is
    another model (reachable through Model::replaceUnits, which does not detach the new units from its previous
    model) makes linkUnits answer true and hasUnlinkedUnits answer true *)
Definition m_stolen : model :=
  mkM 0 [mkU 10 "ua" "" 1 false (Some 1); mkU 11 "ua" "" 0 false None] [10]
      [Comp 2 (ci0 "c") [mkV 4 "" [] (Some 11)] []] [].

Lemma link_needs_ownership :
  ~ units_owned m_stolen /\ snd (link_model m_stolen) = true /\ has_unlinked (fst (link_model m_stolen)) = true.
Proof.
  split; [|split; reflexivity]. intros H. destruct (H 10 (or_introl eq_refl)) as [u [Hu Ho]].
  cbn in Hu. injection Hu as <-. discriminate Ho.
Qed.
