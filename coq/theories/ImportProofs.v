(** ImportProofs.v — lemmas about ImportDefs.v (C07). *)
From Coq Require Import String Ascii List Bool Arith Lia.
From LC Require Import ImportDefs ImportSpec.
Import ListNotations.
Local Open Scope string_scope.
Local Open Scope list_scope.

(* ------------------------------------------------------------------------------------------ generic *)

Section comp_induction.
  Variable P : comp -> Prop.
  Hypothesis H : forall n imp used kids, Forall P kids -> P (Comp n imp used kids).
  Fixpoint comp_ind' (c : comp) : P c :=
    match c with
    | Comp n imp used kids =>
      H n imp used kids
        ((fix go (l : list comp) : Forall P l :=
            match l with
            | [] => Forall_nil P
            | k :: r => Forall_cons k (comp_ind' k) (go r)
            end) kids)
    end.
End comp_induction.

Lemma all_ok_inv {A X : Type} (P : X -> Prop) (step : X -> A -> res (bool * X)) (l : list A) :
  (forall a, In a l -> forall x, P x -> exists b x', step x a = Ok (b, x') /\ P x') ->
  forall x, P x -> exists b x', all_ok step l x = Ok (b, x') /\ P x'.
Proof.
  induction l as [|a r IH]; intros Hs x Hx; cbn [all_ok].
  - exists true, x. split; [reflexivity | exact Hx].
  - destruct (Hs a (or_introl eq_refl) x Hx) as (b & x' & E & Hx'). rewrite E.
    destruct b.
    + apply IH; [|exact Hx']. intros a' Ha'. apply Hs. right. exact Ha'.
    + exists false, x'. split; [reflexivity | exact Hx'].
Qed.

Lemma walk_comp_inv (P : state -> Prop) (imp : state -> comp -> res (bool * state)) :
  (forall st c, P st -> exists b st', imp st c = Ok (b, st') /\ P st') ->
  forall c st, P st -> exists b st', walk_comp imp c st = Ok (b, st') /\ P st'.
Proof.
  intros Himp c. induction c as [n i used kids IHk] using comp_ind'. intros st Hst.
  cbn [walk_comp].
  destruct (negb (requires_imports (Comp n i used kids))).
  - exists true, st. split; [reflexivity | exact Hst].
  - destruct i as [p|].
    + apply Himp. exact Hst.
    + revert st Hst. induction kids as [|k r IHr]; intros st Hst.
      * exists true, st. split; [reflexivity | exact Hst].
      * inversion IHk as [|k' r' Hk Hr]; subst.
        destruct (Hk st Hst) as (b & st' & E & Hst'). rewrite E.
        destruct b.
        -- apply IHr; assumption.
        -- exists false, st'. split; [reflexivity | exact Hst'].
Qed.

(* ------------------------------------------------------------------------------------------ sparse lists *)

(* every element differs from all elements two or more positions further on *)
Fixpoint sparse (R : list string) : Prop :=
  match R with
  | [] => True
  | a :: r => match r with [] => True | _ :: r' => ~ In a r' end /\ sparse r
  end.

Fixpoint evens {A : Type} (l : list A) : list A :=
  match l with
  | [] => []
  | x :: r => x :: match r with [] => [] | _ :: r' => evens r' end
  end.

Lemma evens_props : forall n (l : list string), length l <= n ->
  incl (evens l) l /\ length l <= 2 * length (evens l) /\ (sparse l -> NoDup (evens l)).
Proof.
  induction n as [|n IH]; intros l Hl.
  - destruct l; [|cbn in Hl; lia]. cbn. repeat split; auto using incl_nil_l, NoDup_nil.
  - destruct l as [|a [|b r]].
    + cbn. repeat split; auto using incl_nil_l, NoDup_nil.
    + cbn. repeat split; auto using incl_refl. intros _. constructor; [intros []|constructor].
    + assert (Hr : length r <= n) by (cbn in Hl; lia).
      destruct (IH r Hr) as (Hi & Hlen & Hnd).
      change (evens (a :: b :: r)) with (a :: evens r).
      repeat split.
      * intros x [Hx|Hx]; [left; exact Hx | right; right; apply Hi; exact Hx].
      * cbn [length]. lia.
      * intros Hsp. destruct Hsp as [Ha Hsp]. constructor.
        -- intros Hin. apply Ha. apply Hi. exact Hin.
        -- apply Hnd. destruct Hsp as [_ Hsp]. exact Hsp.
Qed.

Lemma sparse_length : forall (l T : list string), sparse l -> incl l T -> length l <= 2 * length T.
Proof.
  intros l T Hs Hi.
  destruct (evens_props (length l) l (le_n _)) as (Hie & Hlen & Hnd).
  assert (length (evens l) <= length T).
  { apply NoDup_incl_length; [apply Hnd; exact Hs|]. intros x Hx. apply Hi. apply Hie. exact Hx. }
  lia.
Qed.

(* ------------------------------------------------------------------------------------------ state lemmas *)

Definition lib_keys (st : state) : list string := map fst (lib st).

Lemma lib_get_in : forall l k m, lib_get l k = Some m -> In k (map fst l).
Proof.
  induction l as [|[k' m'] r IH]; intros k m E; cbn in *; [discriminate|].
  destruct (String.eqb k' k) eqn:Ek.
  - left. apply String.eqb_eq. exact Ek.
  - right. eapply IH. exact E.
Qed.

Lemma fs_get_in : forall fs k, fs_get fs k <> Missing -> In k (map fst fs).
Proof.
  induction fs as [|[k' d] r IH]; intros k E; cbn in *; [congruence|].
  destruct (String.eqb k' k) eqn:Ek.
  - left. apply String.eqb_eq. exact Ek.
  - right. apply IH. exact E.
Qed.

(* what a successful / failed fetchImportSource does to the state *)
Lemma fis_ok : forall strict fs st o sid url st1 errs sm,
  fetch_import_source strict fs st o sid url = FMok st1 errs sm ->
  lib_get (lib st1) (mk_key url) = Some sm /\
  issues_rev st1 = issues_rev st /\
  ((lib st1 = lib st /\ errs = []) \/
   (lib st1 = (mk_key url, sm) :: lib st /\ fs_get fs (mk_key url) = Parsed errs sm
    /\ lib_get (lib st) (mk_key url) = None)).
Proof.
  intros strict fs st o sid url st1 errs sm. unfold fetch_import_source, linked_model.
  destruct (has_link st o sid) eqn:Hl.
  - destruct (lib_get (lib st) (mk_key url)) eqn:Hg.
    + intros E. inversion E; subst. auto.
    + unfold fetch_model. rewrite Hg. destruct (fs_get fs (mk_key url)) eqn:Hf; intros E; inversion E; subst.
      cbn. rewrite String.eqb_refl. split; [reflexivity|]. split; [reflexivity|]. right. auto.
  - unfold fetch_model. destruct (lib_get (lib st) (mk_key url)) eqn:Hg.
    + intros E. inversion E; subst. cbn. auto.
    + destruct (fs_get fs (mk_key url)) eqn:Hf; intros E; inversion E; subst.
      cbn. rewrite String.eqb_refl. split; [reflexivity|]. split; [reflexivity|]. right. auto.
Qed.

Lemma fis_fail : forall strict fs st o sid url st1,
  fetch_import_source strict fs st o sid url = FMfail st1 ->
  lib st1 = lib st /\ links st1 = links st /\ fs_model fs (mk_key url) = None /\
  exists r, issues_rev st1 = {| i_rule := r; i_item := ItImport o url |} :: issues_rev st.
Proof.
  intros strict fs st o sid url st1. unfold fetch_import_source.
  destruct (linked_model st o sid url); [discriminate|].
  unfold fetch_model. destruct (lib_get (lib st) (mk_key url)); [discriminate|].
  unfold fs_model. destruct (fs_get fs (mk_key url)); intros E; inversion E; subst; cbn; eauto 7.
Qed.

Lemma check_cycle_false_notin : forall st m0 hist h,
  check_cycle st m0 hist h = false -> ~ In (e_dst h) (map e_src hist).
Proof.
  intros st m0 hist h E Hin. apply in_map_iff in Hin. destruct Hin as (e & He & Hin).
  unfold check_cycle in E.
  assert (X : existsb (fun e0 => String.eqb (e_dst h) (e_src e0)
       || (String.eqb (e_src e0) origin_ref &&
           match content st m0 (e_srcm e0), e_dstm h with
           | Some a, Some k => match lib_get (lib st) k with Some b => model_equals a b | None => false end
           | _, _ => false
           end)) hist = true).
  { apply existsb_exists. exists e. split; [exact Hin|]. rewrite He. rewrite String.eqb_refl. reflexivity. }
  rewrite X in E. discriminate.
Qed.

(* ------------------------------------------------------------------------------------------ termination *)

(* sources of the history, newest first, headed by the URL of the model the current entity lives in *)
Definition srcs_rev (o : owner) (hist : list epoch) : list string := model_url o :: rev (map e_src hist).

Lemma srcs_rev_push : forall o hist url,
  srcs_rev (Some (mk_key url)) (hist ++ [fetch_epoch o url]) = mk_key url :: srcs_rev o hist.
Proof.
  intros. unfold srcs_rev. rewrite map_app, rev_app_distr. reflexivity.
Qed.

Section Total.
  Variable K : list string.          (* every key that can ever be in the library *)
  Variable fs : fsys.
  Variable strict : bool.
  Variable m0 : model.
  Hypothesis HfsK : incl (map fst fs) K.

  Definition good (st : state) : Prop := incl (lib_keys st) K.
  Definition hinv (o : owner) (hist : list epoch) : Prop :=
    sparse (srcs_rev o hist) /\ incl (srcs_rev o hist) (origin_ref :: K).

  Lemma hinv_length : forall o hist, hinv o hist -> length hist <= 2 * length K + 1.
  Proof.
    intros o hist [Hs Hi]. pose proof (sparse_length _ _ Hs Hi) as L.
    unfold srcs_rev in L. cbn [length] in L. rewrite rev_length, map_length in L. lia.
  Qed.

  Lemma fis_ok_good : forall st o sid url st1 errs sm,
    good st -> fetch_import_source strict fs st o sid url = FMok st1 errs sm ->
    good st1 /\ In (mk_key url) K.
  Proof.
    intros st o sid url st1 errs sm Hg E. destruct (fis_ok _ _ _ _ _ _ _ _ _ E) as (Hget & _ & Hl).
    assert (Hk : In (mk_key url) K).
    { destruct Hl as [Hl|(Hl & Hf & _)].
      - destruct Hl as [Hl _]. apply Hg. unfold lib_keys. rewrite <- Hl. eapply lib_get_in. exact Hget.
      - apply HfsK. apply fs_get_in. rewrite Hf. discriminate. }
    split; [|exact Hk].
    destruct Hl as [[Hl _]|(Hl & _)]; unfold good, lib_keys in *; rewrite Hl; [exact Hg|].
    cbn. intros x [Hx|Hx]; [subst; exact Hk | apply Hg; exact Hx].
  Qed.

  Lemma hinv_push : forall st o hist url,
    hinv o hist -> In (mk_key url) K ->
    check_cycle st m0 hist (fetch_epoch o url) = false ->
    hinv (Some (mk_key url)) (hist ++ [fetch_epoch o url]).
  Proof.
    intros st o hist url [Hs Hi] Hk Hc. unfold hinv. rewrite srcs_rev_push. split.
    - cbn [sparse]. split; [|exact Hs]. unfold srcs_rev. intros Hin. apply in_rev in Hin.
      apply (check_cycle_false_notin _ _ _ _ Hc). exact Hin.
    - intros x [Hx|Hx]; [subst; right; exact Hk | apply Hi; exact Hx].
  Qed.

  Definition total_at (f : state -> owner -> list epoch -> units -> res (bool * state)) (n : nat) : Prop :=
    forall st o hist u, good st -> hinv o hist -> 2 * length K + 3 <= n + length hist ->
                        exists b st', f st o hist u = Ok (b, st') /\ good st'.

  Lemma fetch_units_total : forall fuel, total_at (fetch_units fuel strict fs m0) fuel.
  Proof.
    induction fuel as [|f IH]; intros st o hist u Hg Hh Hfuel.
    - destruct u as [n refs|n sid url ref]; cbn [fetch_units]; [eauto|].
      pose proof (hinv_length _ _ Hh). lia.
    - destruct u as [n refs|n sid url ref]; cbn [fetch_units]; [eauto|].
      unfold fetch_units_body.
      destruct (fetch_import_source strict fs st o sid url) as [st1|st1 errs sm] eqn:Efis.
      + destruct (fis_fail _ _ _ _ _ _ _ Efis) as (Hl & _). exists false, st1. split; [reflexivity|].
        unfold good, lib_keys. rewrite Hl. exact Hg.
      + destruct (fis_ok_good _ _ _ _ _ _ _ Hg Efis) as (Hg1 & Hk).
        destruct (existsb (related_units ref) errs); [eauto|].
        destruct (check_cycle st1 m0 hist (fetch_epoch o url)) eqn:Ec; [eauto|].
        destruct (find_units (m_units sm) ref) as [su|]; [|eauto].
        pose proof (hinv_push _ _ _ _ Hh Hk Ec) as Hh'.
        assert (Hf' : 2 * length K + 3 <= f + length (hist ++ [fetch_epoch o url])).
        { rewrite app_length. cbn [length]. lia. }
        destruct (IH st1 _ _ su Hg1 Hh' Hf') as (b & st2 & E2 & Hg2). rewrite E2.
        destruct b; [|eauto].
        apply all_ok_inv with (P := good); [|exact Hg2].
        intros r _ x Hx. destruct (is_std r); [eauto|].
        destruct (find_units (m_units sm) r) as [cu|]; [|eauto].
        apply IH; assumption.
  Qed.

  Lemma fetch_comp_total : forall fuel st o hist c,
    good st -> hinv o hist -> 2 * length K + 3 <= fuel + length hist ->
    exists b st', fetch_comp fuel strict fs m0 st o hist c = Ok (b, st') /\ good st'.
  Proof.
    induction fuel as [|f IH]; intros st o hist c Hg Hh Hfuel.
    - pose proof (hinv_length _ _ Hh). lia.
    - cbn [fetch_comp]. apply walk_comp_inv with (P := good); [|exact Hg].
      clear st Hg c. intros st c Hg.
      destruct c as [name [[[sid url] ref]|] used kids]; [|eauto].
      unfold fetch_comp_body.
      destruct (fetch_import_source strict fs st o sid url) as [st1|st1 errs sm] eqn:Efis.
      + destruct (fis_fail _ _ _ _ _ _ _ Efis) as (Hl & _). exists false, st1. split; [reflexivity|].
        unfold good, lib_keys. rewrite Hl. exact Hg.
      + destruct (fis_ok_good _ _ _ _ _ _ _ Hg Efis) as (Hg1 & Hk).
        destruct (existsb (related_comp (find_comp (m_comps sm) ref)) errs); [eauto|].
        destruct (check_cycle st1 m0 hist (fetch_epoch o url)) eqn:Ec; [eauto|].
        destruct (find_comp (m_comps sm) ref) as [sc|]; [|eauto].
        pose proof (hinv_push _ _ _ _ Hh Hk Ec) as Hh'.
        assert (Hf' : 2 * length K + 3 <= f + length (hist ++ [fetch_epoch o url])).
        { rewrite app_length. cbn [length]. lia. }
        destruct (IH st1 _ _ sc Hg1 Hh' Hf') as (b & st2 & E2 & Hg2). rewrite E2.
        destruct b; [|eauto].
        destruct (all_ok_inv good (fun st k => fetch_comp f strict fs m0 st (Some (mk_key url))
                                                          (hist ++ [fetch_epoch o url]) k) (ckids sc)) with (x := st2)
          as (b3 & st3 & E3 & Hg3); [|exact Hg2|].
        { intros k _ x Hx. apply IH; assumption. }
        rewrite E3. destruct b3; [|eauto].
        apply all_ok_inv with (P := good); [|exact Hg3].
        intros n _ x Hx. destruct (is_std n); [eauto|].
        destruct (find_units (m_units sm) n) as [su|]; [|eauto].
        apply fetch_units_total; assumption.
  Qed.

  Lemma resolve_loop_total {A : Type} (fetch : state -> A -> res (bool * state)) (item : A -> iitem) :
    (forall st a, good st -> exists b st', fetch st a = Ok (b, st') /\ good st') ->
    forall l acc st, good st -> exists b st', resolve_loop fetch item l acc st = Ok (b, st') /\ good st'.
  Proof.
    intros Hf. induction l as [|a r IH]; intros acc st Hg; cbn [resolve_loop]; [eauto|].
    destruct (Hf st a Hg) as (b & st' & E & Hg'). rewrite E. destruct b.
    - apply IH. exact Hg'.
    - apply IH. unfold good, lib_keys, retarget_last in *. destruct (issues_rev st'); exact Hg'.
  Qed.
End Total.

Lemma hinv_start : forall K, hinv K None [].
Proof.
  intros K. unfold hinv, srcs_rev. cbn. split; [auto|]. intros x [Hx|[]]. left. exact Hx.
Qed.

(* resolveImports returns on every file system and from every importer state, cyclic import graphs included *)
Lemma resolve_terminates : forall strict fs st m0 fuel,
  fuel_bound fs st <= fuel ->
  exists b st', resolve_imports fuel strict fs st m0 = Ok (b, st').
Proof.
  intros strict fs st m0 fuel Hfuel. unfold resolve_imports.
  set (K := map fst fs ++ lib_keys st).
  assert (HfsK : incl (map fst fs) K) by (apply incl_appl, incl_refl).
  assert (Hg0 : good K (clear_origin_links (clear_issues st))).
  { unfold good, lib_keys. cbn. apply incl_appr, incl_refl. }
  assert (HK : 2 * length K + 3 <= fuel + 0).
  { unfold K, fuel_bound, lib_keys in *. rewrite app_length, !map_length. lia. }
  destruct (resolve_loop_total K (fun st u => fetch_units fuel strict fs m0 st None [] u)
                               (fun u => ItUnits None (uname u))) with (l := imported_units m0) (acc := true)
                               (st := clear_origin_links (clear_issues st)) as (b1 & st1 & E1 & Hg1).
  { intros st' u Hg. apply (fetch_units_total K fs strict m0 HfsK fuel); [exact Hg|apply hinv_start|exact HK]. }
  { exact Hg0. }
  rewrite E1.
  destruct (resolve_loop_total K (fun st c => fetch_comp fuel strict fs m0 st None [] c)
                               (fun c => ItComp None (cname c))) with (l := imported_comps m0) (acc := b1)
                               (st := st1) as (b2 & st2 & E2 & Hg2).
  { intros st' c Hg. apply (fetch_comp_total K fs strict m0 HfsK fuel); [exact Hg|apply hinv_start|exact HK]. }
  { exact Hg1. }
  eauto.
Qed.

(* ------------------------------------------------------------------------------------------ failure => issue *)

(* st' has the issues of st plus new ones on top; at least one new one when the answer is false *)
Definition ext (st st' : state) (b : bool) : Prop :=
  exists l, issues_rev st' = l ++ issues_rev st /\ (b = false -> l <> []).

Lemma ext_refl_true : forall st, ext st st true.
Proof. intros st. exists []. split; [reflexivity | discriminate]. Qed.

Lemma ext_add_issue : forall st r it b, ext st (add_issue st r it) b.
Proof. intros. exists [{| i_rule := r; i_item := it |}]. split; [reflexivity | discriminate]. Qed.

Lemma ext_trans : forall st1 st2 st3 b, ext st1 st2 true -> ext st2 st3 b -> ext st1 st3 b.
Proof.
  intros st1 st2 st3 b (l1 & E1 & _) (l2 & E2 & H2). exists (l2 ++ l1). split.
  - rewrite E2, E1, app_assoc. reflexivity.
  - intros Hb Habs. apply app_eq_nil in Habs. destruct Habs as [Habs _]. exact (H2 Hb Habs).
Qed.

Lemma ext_same_issues : forall st st1 st2 b, issues_rev st1 = issues_rev st -> ext st1 st2 b -> ext st st2 b.
Proof. intros st st1 st2 b E (l & E2 & H). exists l. rewrite <- E. auto. Qed.

Lemma all_ok_ext {A : Type} (step : state -> A -> res (bool * state)) (l : list A) :
  (forall a x b x', In a l -> step x a = Ok (b, x') -> ext x x' b) ->
  forall x b x', all_ok step l x = Ok (b, x') -> ext x x' b.
Proof.
  induction l as [|a r IH]; intros Hs x b x' E; cbn [all_ok] in E.
  - inversion E; subst. apply ext_refl_true.
  - destruct (step x a) as [[b1 x1]| |] eqn:E1; try discriminate.
    pose proof (Hs a x b1 x1 (or_introl eq_refl) E1) as H1.
    destruct b1.
    + eapply ext_trans; [exact H1|]. apply IH; [|exact E]. intros a' y b' y' Ha'. apply Hs. right. exact Ha'.
    + inversion E; subst. exact H1.
Qed.

Lemma walk_comp_ext (imp : state -> comp -> res (bool * state)) :
  (forall st c b st', imp st c = Ok (b, st') -> ext st st' b) ->
  forall c st b st', walk_comp imp c st = Ok (b, st') -> ext st st' b.
Proof.
  intros Himp c. induction c as [n i used kids IHk] using comp_ind'. intros st b st' E.
  cbn [walk_comp] in E.
  destruct (negb (requires_imports (Comp n i used kids))).
  - inversion E; subst. apply ext_refl_true.
  - destruct i as [p|].
    + eapply Himp. exact E.
    + revert st E. induction kids as [|k r IHr]; intros st E.
      * inversion E; subst. apply ext_refl_true.
      * inversion IHk as [|k' r' Hk Hr]; subst.
        destruct (walk_comp imp k st) as [[b1 st1]| |] eqn:E1; try discriminate.
        pose proof (Hk _ _ _ E1) as H1. destruct b1.
        -- eapply ext_trans; [exact H1|]. apply IHr; assumption.
        -- inversion E; subst. exact H1.
Qed.

Lemma fis_fail_ext : forall strict fs st o sid url st1,
  fetch_import_source strict fs st o sid url = FMfail st1 -> ext st st1 false.
Proof.
  intros strict fs st o sid url st1 E. destruct (fis_fail _ _ _ _ _ _ _ E) as (_ & _ & _ & r & Hi).
  eexists [_]. split; [exact Hi | discriminate].
Qed.

Lemma fetch_units_ext : forall fuel strict fs m0 st o hist u b st',
  fetch_units fuel strict fs m0 st o hist u = Ok (b, st') -> ext st st' b.
Proof.
  induction fuel as [|f IH]; intros strict fs m0 st o hist u b st' E;
    destruct u as [n refs|n sid url ref]; cbn [fetch_units] in E;
    try (inversion E; subst; apply ext_refl_true); try discriminate.
  unfold fetch_units_body in E.
  destruct (fetch_import_source strict fs st o sid url) as [st1|st1 errs sm] eqn:Efis.
  - inversion E; subst. eapply fis_fail_ext. exact Efis.
  - destruct (fis_ok _ _ _ _ _ _ _ _ _ Efis) as (_ & Hi & _).
    apply (ext_same_issues st st1 st' b Hi).
    destruct (existsb (related_units ref) errs); [inversion E; subst; apply ext_add_issue|].
    destruct (check_cycle st1 m0 hist (fetch_epoch o url)); [inversion E; subst; apply ext_add_issue|].
    destruct (find_units (m_units sm) ref) as [su|]; [|inversion E; subst; apply ext_add_issue].
    destruct (fetch_units f strict fs m0 st1 (Some (mk_key url)) (hist ++ [fetch_epoch o url]) su)
      as [[b2 st2]| |] eqn:E2; try discriminate.
    pose proof (IH _ _ _ _ _ _ _ _ _ E2) as H2. destruct b2.
    + eapply ext_trans; [exact H2|]. eapply all_ok_ext; [|exact E].
      intros r x b' x' _ Es. cbv beta in Es. destruct (is_std r); [inversion Es; subst; apply ext_refl_true|].
      destruct (find_units (m_units sm) r); [|inversion Es; subst; apply ext_add_issue].
      eapply IH. exact Es.
    + inversion E; subst. exact H2.
Qed.

Lemma fetch_comp_ext : forall fuel strict fs m0 st o hist c b st',
  fetch_comp fuel strict fs m0 st o hist c = Ok (b, st') -> ext st st' b.
Proof.
  induction fuel as [|f IH]; intros strict fs m0 st o hist c b st' E; cbn [fetch_comp] in E; [discriminate|].
  eapply walk_comp_ext; [|exact E]. clear st c b st' E.
  intros st c b st' E.
  destruct c as [name [[[sid url] ref]|] used kids]; [|inversion E; subst; apply ext_refl_true].
  unfold fetch_comp_body in E.
  destruct (fetch_import_source strict fs st o sid url) as [st1|st1 errs sm] eqn:Efis.
  - inversion E; subst. eapply fis_fail_ext. exact Efis.
  - destruct (fis_ok _ _ _ _ _ _ _ _ _ Efis) as (_ & Hi & _).
    apply (ext_same_issues st st1 st' b Hi).
    destruct (existsb (related_comp (find_comp (m_comps sm) ref)) errs); [inversion E; subst; apply ext_add_issue|].
    destruct (check_cycle st1 m0 hist (fetch_epoch o url)); [inversion E; subst; apply ext_add_issue|].
    destruct (find_comp (m_comps sm) ref) as [sc|]; [|inversion E; subst; apply ext_add_issue].
    destruct (fetch_comp f strict fs m0 st1 (Some (mk_key url)) (hist ++ [fetch_epoch o url]) sc)
      as [[b2 st2]| |] eqn:E2; try discriminate.
    pose proof (IH _ _ _ _ _ _ _ _ _ E2) as H2. destruct b2; [|inversion E; subst; exact H2].
    eapply ext_trans; [exact H2|].
    destruct (all_ok (fun st k => fetch_comp f strict fs m0 st (Some (mk_key url)) (hist ++ [fetch_epoch o url]) k)
                     (ckids sc) st2) as [[b3 st3]| |] eqn:E3; try discriminate.
    assert (H3 : ext st2 st3 b3).
    { eapply all_ok_ext; [|exact E3]. intros k x b' x' _ Es. cbv beta in Es. eapply IH. exact Es. }
    destruct b3; [|inversion E; subst; exact H3].
    eapply ext_trans; [exact H3|]. eapply all_ok_ext; [|exact E].
    intros n x b' x' _ Es. cbv beta in Es. destruct (is_std n); [inversion Es; subst; apply ext_refl_true|].
    destruct (find_units (m_units sm) n); [|inversion Es; subst; apply ext_add_issue].
    eapply fetch_units_ext. exact Es.
Qed.

(* the loops of resolveImports: old issues stay, and every failing entity gets an issue attached to it *)
Lemma resolve_loop_issue {A : Type} (fetch : state -> A -> res (bool * state)) (item : A -> iitem) :
  (forall st a b st', fetch st a = Ok (b, st') -> ext st st' b) ->
  forall l acc st b st', resolve_loop fetch item l acc st = Ok (b, st') ->
    (forall i, In i (issues_rev st) -> In i (issues_rev st')) /\
    (b = false -> acc = false \/
                  exists a st1 st2 i, In a l /\ fetch st1 a = Ok (false, st2) /\
                                      In i (issues_rev st') /\ i_item i = item a).
Proof.
  intros Hf. induction l as [|a r IH]; intros acc st b st' E; cbn [resolve_loop] in E.
  - inversion E; subst. split; [auto|]. intros ->. left. reflexivity.
  - destruct (fetch st a) as [[b1 st1]| |] eqn:E1; try discriminate.
    destruct (Hf _ _ _ _ E1) as (l1 & El1 & Hne). destruct b1.
    + destruct (IH _ _ _ _ E) as (Hkeep & Hfalse). split.
      * intros i Hi. apply Hkeep. rewrite El1. apply in_or_app. right. exact Hi.
      * intros Hb. destruct (Hfalse Hb) as [Hacc|(a' & s1 & s2 & i & Ha' & Hfa & Hi & Hit)]; [left; exact Hacc|].
        right. exists a', s1, s2, i. repeat split; auto. right. exact Ha'.
    + destruct (IH _ _ _ _ E) as (Hkeep & _).
      destruct l1 as [|i1 l1']; [exfalso; apply Hne; reflexivity|].
      assert (Hrt : issues_rev (retarget_last st1 (item a))
                    = {| i_rule := i_rule i1; i_item := item a |} :: l1' ++ issues_rev st).
      { unfold retarget_last. rewrite El1. reflexivity. }
      split.
      * intros i Hi. apply Hkeep. rewrite Hrt. right. apply in_or_app. right. exact Hi.
      * intros _. right. exists a, st, st1, {| i_rule := i_rule i1; i_item := item a |}.
        repeat split; auto.
        -- left. reflexivity.
        -- apply Hkeep. rewrite Hrt. left. reflexivity.
Qed.

(* resolveImports = false => at least one issue, attached to a top-level importing entity whose fetch failed *)
Lemma resolve_false_issue : forall fuel strict fs st m0 st',
  resolve_imports fuel strict fs st m0 = Ok (false, st') ->
  issues_rev st' <> [] /\
  exists i, In i (issues_rev st') /\
    ((exists u s1 s2, In u (imported_units m0) /\ i_item i = ItUnits None (uname u) /\
                      fetch_units fuel strict fs m0 s1 None [] u = Ok (false, s2))
     \/ (exists c s1 s2, In c (imported_comps m0) /\ i_item i = ItComp None (cname c) /\
                         fetch_comp fuel strict fs m0 s1 None [] c = Ok (false, s2))).
Proof.
  intros fuel strict fs st m0 st' E. unfold resolve_imports in E.
  destruct (resolve_loop (fun st u => fetch_units fuel strict fs m0 st None [] u) (fun u => ItUnits None (uname u))
                         (imported_units m0) true (clear_origin_links (clear_issues st)))
    as [[b1 st1]| |] eqn:E1; try discriminate.
  destruct (resolve_loop_issue _ _ (fun st a b st' => fetch_units_ext fuel strict fs m0 st None [] a b st') _ _ _ _ _ E1)
    as (_ & H1).
  destruct (resolve_loop_issue _ _ (fun st a b st' => fetch_comp_ext fuel strict fs m0 st None [] a b st') _ _ _ _ _ E)
    as (Hkeep & H2).
  assert (X : exists i, In i (issues_rev st') /\
    ((exists u s1 s2, In u (imported_units m0) /\ i_item i = ItUnits None (uname u) /\
                      fetch_units fuel strict fs m0 s1 None [] u = Ok (false, s2))
     \/ (exists c s1 s2, In c (imported_comps m0) /\ i_item i = ItComp None (cname c) /\
                         fetch_comp fuel strict fs m0 s1 None [] c = Ok (false, s2)))).
  { destruct (H2 eq_refl) as [Hb1|(c & s1 & s2 & i & Hc & Hfc & Hi & Hit)].
    - subst b1. destruct (H1 eq_refl) as [Habs|(u & s1 & s2 & i & Hu & Hfu & Hi & Hit)]; [discriminate|].
      exists i. split; [apply Hkeep; exact Hi|]. left. exists u, s1, s2. auto.
    - exists i. split; [exact Hi|]. right. exists c, s1, s2. auto. }
  split; [|exact X]. destruct X as (i & Hi & _). intros Hnil. rewrite Hnil in Hi. exact Hi.
Qed.

(* ------------------------------------------------------------------------------------------ operational = stateless *)

(* the library caches the file system; it only grows during a resolution *)
Definition cons (fs : fsys) (st : state) : Prop :=
  forall k m, lib_get (lib st) k = Some m -> fs_model fs k = Some m.
Definition mono (st st' : state) : Prop :=
  forall k m, lib_get (lib st) k = Some m -> lib_get (lib st') k = Some m.
Definition owner_ok (st : state) (o : owner) : Prop :=
  match o with None => True | Some k => exists m, lib_get (lib st) k = Some m end.
Definition hist_ok (st : state) (hist : list epoch) : Prop := forall e, In e hist -> owner_ok st (e_srcm e).

Lemma mono_refl : forall st, mono st st.
Proof. intros st k m E. exact E. Qed.
Lemma mono_trans : forall a b c, mono a b -> mono b c -> mono a c.
Proof. intros a b c H1 H2 k m E. apply H2, H1, E. Qed.
Lemma mono_same_lib : forall st st', lib st' = lib st -> mono st st'.
Proof. intros st st' E k m H. rewrite E. exact H. Qed.
Lemma owner_ok_mono : forall st st' o, mono st st' -> owner_ok st o -> owner_ok st' o.
Proof. intros st st' [k|] Hm H; [|exact I]. destruct H as (m & E). exists m. apply Hm, E. Qed.
Lemma hist_ok_mono : forall st st' h, mono st st' -> hist_ok st h -> hist_ok st' h.
Proof. intros st st' h Hm H e He. eapply owner_ok_mono; [exact Hm | apply H, He]. Qed.
Lemma cons_same_lib : forall fs st st', lib st' = lib st -> cons fs st -> cons fs st'.
Proof. intros fs st st' E H k m G. rewrite E in G. apply H, G. Qed.

Lemma fis_ok_cons : forall strict fs st o sid url st1 errs sm,
  cons fs st -> fetch_import_source strict fs st o sid url = FMok st1 errs sm ->
  cons fs st1 /\ mono st st1 /\ fs_model fs (mk_key url) = Some sm /\
  lib_get (lib st1) (mk_key url) = Some sm /\ issues_rev st1 = issues_rev st /\
  (errs = [] \/ fs_get fs (mk_key url) = Parsed errs sm).
Proof.
  intros strict fs st o sid url st1 errs sm Hc E.
  destruct (fis_ok _ _ _ _ _ _ _ _ _ E) as (Hget & Hi & Hl).
  destruct Hl as [[Hl He]|(Hl & Hf & Hn)].
  - assert (Hc1 : cons fs st1) by (eapply cons_same_lib; eauto).
    repeat split; auto using mono_same_lib.
  - assert (Hm : fs_model fs (mk_key url) = Some sm) by (unfold fs_model; rewrite Hf; reflexivity).
    assert (Hc1 : cons fs st1).
    { intros k m G. rewrite Hl in G. cbn [lib_get] in G. destruct (String.eqb (mk_key url) k) eqn:Ek.
      - apply String.eqb_eq in Ek. subst k. inversion G; subst. exact Hm.
      - apply Hc, G. }
    assert (Hmo : mono st st1).
    { intros k m G. rewrite Hl. cbn [lib_get]. destruct (String.eqb (mk_key url) k) eqn:Ek; [|exact G].
      apply String.eqb_eq in Ek. subst k. rewrite Hn in G. discriminate. }
    repeat split; auto.
Qed.

Lemma check_cycle_cycs : forall fs st m0 hist h k sm,
  cons fs st -> hist_ok st hist -> e_dstm h = Some k -> lib_get (lib st) k = Some sm ->
  check_cycle st m0 hist h = cycs fs m0 hist h.
Proof.
  intros fs st m0 hist h k sm Hc Hh Hd Hk. unfold check_cycle, cycs. rewrite Hd, Hk, (Hc _ _ Hk).
  induction hist as [|e r IH]; [reflexivity|]. cbn [existsb].
  rewrite IH by (intros e' He'; apply Hh; right; exact He'). f_equal. f_equal. f_equal.
  pose proof (Hh e (or_introl eq_refl)) as Ho. unfold content, fcontent.
  destruct (e_srcm e) as [k'|]; [|reflexivity]. destruct Ho as (m & Em). rewrite Em, (Hc _ _ Em). reflexivity.
Qed.

Lemma all_ok_spec {A : Type} (P : state -> Prop) (Q : A -> Prop) (step : state -> A -> res (bool * state)) (l : list A) :
  (forall a x b x', In a l -> P x -> step x a = Ok (b, x') ->
                    P x' /\ mono x x' /\ (b = true -> Q a) /\ (b = false -> ~ Q a)) ->
  forall x b x', P x -> all_ok step l x = Ok (b, x') ->
                 P x' /\ mono x x' /\ (b = true -> forall a, In a l -> Q a) /\
                 (b = false -> exists a, In a l /\ ~ Q a).
Proof.
  induction l as [|a r IH]; intros Hs x b x' Hx E; cbn [all_ok] in E.
  - inversion E; subst. repeat split; auto using mono_refl; [intros _ a []|discriminate].
  - destruct (step x a) as [[b1 x1]| |] eqn:E1; try discriminate.
    destruct (Hs a x b1 x1 (or_introl eq_refl) Hx E1) as (Hx1 & Hm1 & Ht & Hf).
    destruct b1.
    + destruct (IH (fun a' y b' y' Ha' => Hs a' y b' y' (or_intror Ha')) x1 b x' Hx1 E) as (Hx' & Hm' & Ht' & Hf').
      repeat split; auto.
      * eapply mono_trans; eauto.
      * intros Hb a' [->|Ha']; auto.
      * intros Hb. destruct (Hf' Hb) as (a' & Ha' & Hq). exists a'. split; [right; exact Ha' | exact Hq].
    + inversion E; subst. repeat split; auto; [discriminate|]. intros _. exists a. split; [left; reflexivity|auto].
Qed.

Section Spec.
  Variable fs : fsys.
  Variable strict : bool.
  Variable m0 : model.
  Hypothesis Hnoerr : NoErrs fs.

  Definition sinv (hist : list epoch) (o : owner) (st : state) : Prop :=
    cons fs st /\ hist_ok st hist /\ owner_ok st o.

  Lemma sinv_mono : forall hist o st st', cons fs st' -> mono st st' -> sinv hist o st -> sinv hist o st'.
  Proof.
    intros hist o st st' Hc Hm (_ & Hh & Ho). repeat split; auto; [eapply hist_ok_mono|eapply owner_ok_mono]; eauto.
  Qed.

  Lemma sinv_add_issue : forall hist o st r it, sinv hist o st -> sinv hist o (add_issue st r it).
  Proof. intros hist o st r it H. exact H. Qed.

  (* outcome of one fetchUnits call, in terms of the file system only *)
  Definition units_outcome (f : state -> owner -> list epoch -> units -> res (bool * state)) : Prop :=
    forall st o hist u b st', sinv hist o st -> f st o hist u = Ok (b, st') ->
      cons fs st' /\ mono st st' /\ (b = true -> FU fs m0 o hist u) /\ (b = false -> ~ FU fs m0 o hist u).

  Lemma fis_errs_nil : forall st o sid url st1 errs sm,
    fetch_import_source strict fs st o sid url = FMok st1 errs sm -> errs = [].
  Proof.
    intros st o sid url st1 errs sm E. destruct (fis_ok _ _ _ _ _ _ _ _ _ E) as (_ & _ & [[_ H]|(_ & H & _)]); [exact H|].
    eapply Hnoerr. exact H.
  Qed.

  Lemma fetch_units_spec : forall fuel, units_outcome (fetch_units fuel strict fs m0).
  Proof.
    induction fuel as [|f IH]; intros st o hist u b st' Hinv E;
      destruct u as [n refs|n sid url ref]; cbn [fetch_units] in E; try discriminate;
      try (inversion E; subst; destruct Hinv as (Hc & _); repeat split; auto using mono_refl;
           [intros _; constructor | discriminate]).
    unfold fetch_units_body in E.
    destruct Hinv as (Hc & Hh & Ho).
    destruct (fetch_import_source strict fs st o sid url) as [st1|st1 errs sm] eqn:Efis.
    - inversion E; subst. destruct (fis_fail _ _ _ _ _ _ _ Efis) as (Hl & _ & Hn & _).
      repeat split; eauto using cons_same_lib, mono_same_lib; [discriminate|].
      intros _ HF. inversion HF; subst. congruence.
    - rewrite (fis_errs_nil _ _ _ _ _ _ _ Efis) in E. cbn [existsb] in E.
      destruct (fis_ok_cons _ _ _ _ _ _ _ _ _ Hc Efis) as (Hc1 & Hm1 & Hfm & Hget & _ & _).
      assert (Hh1 : hist_ok st1 hist) by (eapply hist_ok_mono; eauto).
      assert (Ho1 : owner_ok st1 o) by (eapply owner_ok_mono; eauto).
      rewrite (check_cycle_cycs fs st1 m0 hist (fetch_epoch o url) (mk_key url) sm Hc1 Hh1 eq_refl Hget) in E.
      destruct (cycs fs m0 hist (fetch_epoch o url)) eqn:Ecy.
      { inversion E; subst. repeat split; auto; [discriminate|].
        intros _ HF. inversion HF; subst. congruence. }
      destruct (find_units (m_units sm) ref) as [su|] eqn:Efu.
      2:{ inversion E; subst. repeat split; auto; [discriminate|].
          intros _ HF. inversion HF; subst. congruence. }
      set (o' := Some (mk_key url)) in *. set (hist' := hist ++ [fetch_epoch o url]) in *.
      assert (Hinv1 : sinv hist' o' st1).
      { repeat split; auto.
        - intros e He. apply in_app_or in He. destruct He as [He|[<-|[]]]; [apply Hh1, He | exact Ho1].
        - exists sm. exact Hget. }
      destruct (fetch_units f strict fs m0 st1 o' hist' su) as [[b2 st2]| |] eqn:E2; try discriminate.
      destruct (IH _ _ _ _ _ _ Hinv1 E2) as (Hc2 & Hm2 & Ht2 & Hf2).
      destruct b2.
      2:{ inversion E; subst. repeat split; eauto using mono_trans; [discriminate|].
          intros _ HF. inversion HF; subst. assert (sm0 = sm) by congruence. subst sm0.
          assert (su0 = su) by congruence. subst su0. apply (Hf2 eq_refl). assumption. }
      assert (Hinv2 : sinv hist' o' st2) by (eapply sinv_mono; eauto).
      set (Q := fun r => is_std r = false ->
                         exists cu, find_units (m_units sm) r = Some cu /\ FU fs m0 o' hist' cu).
      assert (Hall : sinv hist' o' st' /\ mono st2 st' /\ (b = true -> forall a, In a (refs_of su) -> Q a) /\
                     (b = false -> exists a, In a (refs_of su) /\ ~ Q a)).
      { replace (match su with ULocal _ refs => refs | UImp _ _ _ _ => [] end) with (refs_of su) in E
          by (destruct su; reflexivity).
        eapply (all_ok_spec (sinv hist' o') Q); [|exact Hinv2|exact E].
        clear E. intros r x b' x' _ Hx Es. cbv beta in Es. unfold Q. destruct (is_std r) eqn:Estd.
        - inversion Es; subst. repeat split; auto using mono_refl; try apply Hx; discriminate.
        - destruct (find_units (m_units sm) r) as [cu|] eqn:Ecu.
          + destruct (IH _ _ _ _ _ _ Hx Es) as (Hcx & Hmx & Htx & Hfx).
            split; [eapply sinv_mono; eauto|]. split; [exact Hmx|]. split.
            * intros Hb _. exists cu. split; [reflexivity|auto].
            * intros Hb Hq. destruct (Hq eq_refl) as (cu' & Ecu' & HF'). inversion Ecu'; subst. apply (Hfx Hb HF').
          + inversion Es; subst. split; [exact Hx|]. split; [apply mono_refl|]. split; [discriminate|].
            intros _ Hq. destruct (Hq eq_refl) as (cu' & Ecu' & _). discriminate. }
      destruct Hall as (Hinv' & Hm' & Ht' & Hf').
      destruct Hinv' as (Hc' & _).
      repeat split; auto.
      + eapply mono_trans; [exact Hm1|]. eapply mono_trans; eauto.
      + intros Hb. econstructor; eauto.
        intros r Hr Hs. apply (Ht' Hb r Hr Hs).
      + intros Hb HF. inversion HF; subst. assert (sm0 = sm) by congruence. subst sm0.
        assert (su0 = su) by congruence. subst su0.
        destruct (Hf' Hb) as (r & Hr & Hq). apply Hq. intros Hs.
        match goal with H : forall r, In r (refs_of su) -> _ |- _ => apply H; [exact Hr|exact Hs] end.
  Qed.
End Spec.
